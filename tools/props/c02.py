"""C02 — every shipped angular grid is exact to its advertised degree.

gen:    * the four degree/size tables (re-using props.c12.extract_tables, read-only) give the constructible grids;
        * the normalisation rule of AngularGrid.__init__ (which methods get `weights * 4 * np.pi`) and the loader
          (_load_precomputed_angular_grid: directory per method, file name pattern, single-weight broadcast) are
          re-extracted from the ast of src/grid/angular.py, fail closed on any other shape -> C02_gen.v;
        * for every grid whose cost N*(d+1)^2 is under the tier's bound B the content of the .npz file (exact
          dyadic rationals, as integers over a common power of two) is emitted as C02_g<rank>_<method>_<d>.v
          with  Theorem grid_exact_<method>_<d> : grid_ok mode d N s sw ps ws = true  (vm_compute, kernel).
prove:  coq/C02/*.v: Legendre theory, soundness of grid_ok for every input (grid_ok_sound), refutation checkers;
        generated C02_cover_props.v instantiates grid_ok_sound on exactly the grids checked in this run.
tie:    for every grid under B, AngularGrid(degree=d, method=m, cache=False).points/.weights/.degree/.size are
        compared with the model INSIDE Coq: points bit-exact against the file integers, weights against
        expand_weights / (x 4 pi, |diff| <= 2^-51 |w|, pi by rational enclosure) / exact equality for
        maxdet and ahrens_beylkin.
search: the property's own oracle on the implementation's arrays (never a proof): float64 sweep of all (l,m),
        l <= d, every suspicious quantity re-evaluated in exact rational arithmetic; all constructible grids in
        the thorough tier, (all grids up to l <= 8) + (a seeded subset of the grids above B) + the corpus in quick.
        Every reported violation is also handed to the kernel as a `<grid>_refuted` theorem (grid_bad_wsum /
        grid_bad_lm, cost N*l).
routes: every construction route and short histories at the smallest degrees of all four methods, each judged by the
        same oracle and against the shipped file: cache=False / cache=True on cold module caches, after the degree was
        cached, degree= and size= requests, and [construct; scale weights / move points of the returned arrays in
        place; construct again] (caches cleared before each route, restored afterwards).
broken tie: if the normalisation / loader extraction fails closed the sweep and the route checks still run and the
        violation carries the first failing input that is not a listed known finding (Ctx.broken_tie).
"""
from __future__ import annotations

import ast
import concurrent.futures as cf
import math
import os
import time
import warnings
from fractions import Fraction

import numpy as np

from props import c12
from vlib.core import SRC, Ctx, src_sha

# cost bound B = N (d+1)^2 for the kernel-checked grids; measured: ~0.33 us * d per unit (vm_compute, BigZ)
B_QUICK = 400_000
B_THOROUGH = 12_000_000
TOL_INT = 1e-9
TOL_SPHERE = 1e-13
CORPUS = [("ahrens_beylkin", 39), ("ahrens_beylkin", 127)]
MAXREP = 5            # grids reported per (method, kind of violation)
REFUTE_MAX = 3_000_000  # N*(l+1) bound for a kernel-checked refutation
SHORT = {"lebedev": "lebedev", "spherical": "spherical", "maxdet": "maxdet", "ahrens_beylkin": "ab"}
DEFAULT_MODE = {"lebedev": "Times4Pi", "spherical": "Times4Pi", "maxdet": "AsStored", "ahrens_beylkin": "AsStored"}
PI_LO = Fraction(3141592653589793238462643383279, 10**30)
PI_HI = Fraction(3141592653589793238462643383280, 10**30)


# ====================================================================== gen: normalisation + loader from the ast
def extract_rules(ctx: Ctx):
    """Fail-closed extraction of (a) the set of methods whose weights are NOT multiplied by 4 pi, (b) the data
    directory of each method, (c) the file-name pattern and the single-weight broadcast."""
    src = (SRC / "angular.py").read_text()
    tree = ast.parse(src)
    cls = [n for n in tree.body if isinstance(n, ast.ClassDef) and n.name == "AngularGrid"]
    if len(cls) != 1:
        raise ValueError("class AngularGrid not found")
    fn = {n.name: n for n in cls[0].body if isinstance(n, ast.FunctionDef)}
    units = []
    for name in ("__init__", "_load_precomputed_angular_grid"):
        if name not in fn:
            raise ValueError(f"AngularGrid.{name} not found")
        seg = ast.get_source_segment(src, fn[name])
        units.append({"unit": f"AngularGrid.{name}", "file": "src/grid/angular.py",
                      "lines": [fn[name].lineno, fn[name].end_lineno], "sha": src_sha(seg)})
    # (a) the normalisation branch: every call of super().__init__ in __init__
    sup = []
    for node in ast.walk(fn["__init__"]):
        if isinstance(node, ast.If):
            calls = [(b, ast.unparse(b.value)) for b in node.body + node.orelse
                     if isinstance(b, ast.Expr) and isinstance(b.value, ast.Call) and ast.unparse(b.value).startswith("super().__init__")]
            if calls:
                sup.append(node)
    n_super = sum(1 for node in ast.walk(fn["__init__"]) if isinstance(node, ast.Call) and ast.unparse(node).startswith("super().__init__("))
    if len(sup) != 1 or n_super != 2:
        raise ValueError("unsupported shape of the normalisation in AngularGrid.__init__ (expected one if/else with two super().__init__ calls)")
    node = sup[0]
    t = node.test
    if not (isinstance(t, ast.Compare) and isinstance(t.left, ast.Name) and t.left.id == "method" and len(t.ops) == 1
            and isinstance(t.ops[0], ast.In) and isinstance(t.comparators[0], (ast.List, ast.Tuple, ast.Set))
            and all(isinstance(e, ast.Constant) and isinstance(e.value, str) for e in t.comparators[0].elts)):
        raise ValueError("unsupported test of the normalisation branch")
    plain = [e.value for e in t.comparators[0].elts]
    if len(node.body) != 1 or len(node.orelse) != 1:
        raise ValueError("unsupported normalisation branch bodies")

    def strip_copy(e):
        # x.copy() is value-transparent
        if isinstance(e, ast.Call) and isinstance(e.func, ast.Attribute) and e.func.attr == "copy" and not e.args and not e.keywords:
            return e.func.value
        return e

    def factor(e):
        """e as (rational c, power of pi k, number of `weights` factors) for a product of weights, numbers and np.pi."""
        e = strip_copy(e)
        if isinstance(e, ast.Name) and e.id == "weights":
            return (Fraction(1), 0, 1)
        if isinstance(e, ast.Constant) and isinstance(e.value, (int, float)) and not isinstance(e.value, bool):
            return (Fraction(e.value), 0, 0)
        if isinstance(e, ast.Attribute) and ast.unparse(e) in ("np.pi", "numpy.pi", "math.pi"):
            return (Fraction(1), 1, 0)
        if isinstance(e, ast.BinOp) and isinstance(e.op, ast.Mult):
            a, b = factor(e.left), factor(e.right)
            return (a[0] * b[0], a[1] + b[1], a[2] + b[2])
        raise ValueError(f"unsupported weight expression {ast.unparse(e)!r}")

    def call_mode(stmt):
        c = stmt.value if isinstance(stmt, ast.Expr) else None
        if not (isinstance(c, ast.Call) and ast.unparse(c.func) == "super().__init__" and len(c.args) == 2 and not c.keywords):
            raise ValueError(f"unsupported normalisation call {ast.unparse(stmt)!r}")
        p0 = strip_copy(c.args[0])
        if not (isinstance(p0, ast.Name) and p0.id == "points"):
            raise ValueError(f"unsupported points argument {ast.unparse(c.args[0])!r}")
        f = factor(c.args[1])
        if f == (Fraction(1), 0, 1):
            return "AsStored"
        if f == (Fraction(4), 1, 1):
            return "Times4Pi"
        raise ValueError(f"weights are scaled by {f[0]} * pi^{f[1]} (x weights^{f[2]}): neither 1 nor 4 pi")

    mode_in, mode_out = call_mode(node.body[0]), call_mode(node.orelse[0])
    # weights / points must reach the branch unmodified: assigned exactly twice (load or cache)
    assigned = [ast.unparse(n) for n in ast.walk(fn["__init__"]) if isinstance(n, ast.Assign)
                and any("weights" in ast.unparse(t_) or "points" in ast.unparse(t_) for t_ in n.targets)]
    expect = {"points, weights = self._load_precomputed_angular_grid(degree, size, method)", "points, weights = cache_dict[degree]"}
    if set(assigned) != expect:
        raise ValueError(f"unsupported data flow of points/weights in AngularGrid.__init__: {assigned}")
    # (b),(c) the loader
    ld = fn["_load_precomputed_angular_grid"]
    dirs = {}
    for n in ast.walk(ld):
        if isinstance(n, ast.If) and isinstance(n.test, ast.Compare) and ast.unparse(n.test).startswith("method == "):
            m = n.test.comparators[0]
            fp = [b for b in n.body if isinstance(b, ast.Assign) and ast.unparse(b.targets[0]) == "file_path"]
            if isinstance(m, ast.Constant) and len(fp) == 1 and isinstance(fp[0].value, ast.Constant):
                dirs[m.value] = fp[0].value.value
    class _NoCopy(ast.NodeTransformer):  # x.copy() / np.copy(x) / np.array(x) / np.asarray(x) are value-transparent
        def visit_Call(self, n):
            self.generic_visit(n)
            if isinstance(n.func, ast.Attribute) and n.func.attr == "copy" and not n.args and not n.keywords:
                return n.func.value
            if ast.unparse(n.func) in ("np.copy", "np.array", "np.asarray") and len(n.args) == 1 and not n.keywords:
                return n.args[0]
            return n

    tail = [ast.unparse(_NoCopy().visit(ast.parse(ast.unparse(s)).body[0])) for s in ld.body[-4:]]
    expect_tail = ["filename = f'{method}_{degree}_{size}.npz'",
                   "data = np.load(files(file_path).joinpath(filename))",
                   "if len(data['weights']) == 1:\n    return (data['points'], np.ones(len(data['points'])) * data['weights'])",
                   "return (data['points'], data['weights'])"]
    if tail != expect_tail:
        raise ValueError(f"unsupported tail of _load_precomputed_angular_grid: {tail}")
    return plain, (mode_in, mode_out), dirs, units


def gen_rules(ctx: Ctx):
    plain, (mode_in, mode_out), dirs, units = extract_rules(ctx)
    meths = [m for m, _, _, _ in c12.METHODS]
    for m, _, _, d in c12.METHODS:
        if dirs.get(m) != f"grid.data.{d}":
            raise ValueError(f"loader directory of method {m} is {dirs.get(m)!r}, expected grid.data.{d}")
    if not set(plain) <= set(meths):
        raise ValueError(f"normalisation branch names unknown methods {plain}")
    mode = {m: (mode_in if m in plain else mode_out) for m in meths}
    L = ["(* generated from AngularGrid.__init__ / _load_precomputed_angular_grid on every run; do not edit *)",
         "From P Require Import C02_model."]
    for m in meths:
        L.append(f"Definition mode_{m} : norm_mode := {mode[m]}.")
    ctx.gen("C02_gen.v", "\n".join(L) + "\n", units)
    return mode


# ====================================================================== exact dyadic data
def dyadic_ints(arr):
    """(s, ints): smallest s >= 0 with arr * 2^s integral, and those integers (exact; raises on nan/inf)."""
    flat = [float(v) for v in np.asarray(arr, dtype=np.float64).ravel()]
    if not all(math.isfinite(v) for v in flat):
        raise ValueError("non-finite value in grid data")
    frs = [Fraction(v) for v in flat]
    s = max([fr.denominator.bit_length() - 1 for fr in frs] + [0])
    return s, [int(fr * (1 << s)) for fr in frs]


def file_path(meth, dirn, deg, size):
    return SRC / "data" / dirn / f"{meth}_{deg}_{size}.npz"


def load_file(meth, dirn, deg, size):
    with np.load(file_path(meth, dirn, deg, size)) as z:
        p, w = np.array(z["points"]), np.array(z["weights"])
    if p.ndim != 2 or p.shape[1] != 3 or w.ndim != 1 or p.dtype != np.float64 or w.dtype != np.float64:
        raise ValueError(f"unexpected array shapes/dtypes in {meth}_{deg}_{size}.npz: {p.shape} {p.dtype} {w.shape} {w.dtype}")
    return p, w


def blist(ints):
    return "[" + ";".join(f"({v})" for v in ints) + "]"


def tlist(ints3):
    return "[" + ";\n".join(f"(({a}),({b}),({c}))" for a, b, c in ints3) + "]"


CHUNK = 1000


def chunked_def(name, typ, items, fmt):
    """Definition of a long list as a concatenation of chunks (the parser overflows its stack on very long literals)."""
    if len(items) <= CHUNK:
        return f"Definition {name} : list ({typ}) := {fmt(items)}.\n"
    parts, out = [], []
    for k in range(0, len(items), CHUNK):
        pn = f"{name}_c{k // CHUNK}"
        out.append(f"Definition {pn} : list ({typ}) := {fmt(items[k:k + CHUNK])}.\n")
        parts.append(pn)
    out.append(f"Definition {name} : list ({typ}) := " + " ++ ".join(parts) + ".\n")
    return "".join(out)


def natlit(n):
    return str(n) if n <= 2000 else f"(Z.to_nat {n}%Z)"


GRID_HDR = ("From Coq Require Import ZArith Arith List.\nFrom Bignums Require Import BigZ.\nFrom P Require Import C02_model C02_gen.\n"
            "Import ListNotations.\nOpen Scope bigZ_scope.\n")


def grid_data_text(tag, p, w):
    s, P = dyadic_ints(p)
    sw, W = dyadic_ints(w)
    P3 = [tuple(P[3 * i:3 * i + 3]) for i in range(len(p))]
    txt = chunked_def(f"ps_{tag}", "bigZ * bigZ * bigZ", P3, tlist) + chunked_def(f"ws_{tag}", "bigZ", W, blist)
    return s, sw, txt


# ====================================================================== the property's own oracle (numeric sweep)
def _recurrence_sums(x, y, z, w, d, lmax):
    """float64: S[(l, m)] for 0 <= l <= lmax, |m| <= l, with the fully normalised recurrence
    Y_(l,+-m) = sqrt2 (C_m|S_m)(x,y) R_l^m(z);  returns dict (l, m) -> sum_i w_i Y_lm(p_i)."""
    out = {}
    c = np.ones_like(x)
    s = np.zeros_like(x)
    e_m = 1.0 / math.sqrt(4.0 * math.pi)
    for m in range(0, lmax + 1):
        if m > 0:
            c, s = x * c - y * s, x * s + y * c
            e_m *= math.sqrt((2 * m + 1) / (2 * m))
        f = 1.0 if m == 0 else math.sqrt(2.0)
        vc = w * c * f
        vs = w * s * f
        r2 = None
        r1 = np.full_like(x, e_m)
        out[(m, m)] = float(vc.sum() * e_m)
        if m > 0:
            out[(m, -m)] = float(vs.sum() * e_m)
        for l in range(m + 1, lmax + 1):
            a = math.sqrt((4.0 * l * l - 1.0) / (l * l - m * m))
            if r2 is None:
                r = a * z * r1
            else:
                b = math.sqrt(((l - 1.0) ** 2 - m * m) / (4.0 * (l - 1.0) ** 2 - 1.0))
                r = a * (z * r1 - b * r2)
            out[(l, m)] = float(np.dot(vc, r))
            if m > 0:
                out[(l, -m)] = float(np.dot(vs, r))
            r2, r1 = r1, r
    return out


def lm_order(d):
    for l in range(0, d + 1):
        yield (l, 0)
        for m in range(1, l + 1):
            yield (l, m)
            yield (l, -m)


def exact_lm(points, weights, l, m):
    """Exact rational evaluation of kappa(l,|m|) S^2 (so that (sum_i w_i Y_lm)^2 = value / pi) and of the sign of S,
    by the integer recurrence of the Coq model, on the given float arrays (weights taken as they are)."""
    am = abs(m)
    s, P = dyadic_ints(points)
    sw, W = dyadic_ints(weights)
    one2 = 1 << (2 * s)
    tot = 0
    for i in range(len(weights)):
        X, Y, Z = P[3 * i], P[3 * i + 1], P[3 * i + 2]
        cc, ss = 1, 0
        for _ in range(am):
            cc, ss = X * cc - Y * ss, X * ss + Y * cc
        u, up = 1, 0
        for k in range(l - am):
            ll = am + k
            u, up = (2 * ll + 1) * Z * u - (ll + am) * (ll - am) * one2 * up, u
        tot += W[i] * (ss if m < 0 else cc) * u
    S = Fraction(tot, 1 << (s * l + sw))
    df = 1
    for k in range(1, am + 1):
        df *= 2 * k - 1
    kappa = Fraction((2 * l + 1) * (1 if am == 0 else 2) * df * df, 4 * math.factorial(l + am) * math.factorial(l - am))
    return kappa * S * S, (S > 0) - (S < 0)


def exact_value(points, weights, l, m):
    """float of sum_i w_i Y_lm(p_i) from the exact rational evaluation, and the exact verdict |.| > 1e-9."""
    k2, sg = exact_lm(points, weights, l, m)
    val = sg * math.sqrt(float(k2) / math.pi)
    tol2 = Fraction(1, 10**18)
    bad = k2 > PI_HI * tol2          # certainly (value)^2 = k2/pi > tol^2
    ok = k2 <= PI_LO * tol2
    return val, (True if bad else (False if ok else None))


def model_predicts(v, p, w, mode_m, size):
    """Does the hand model (file content, broadcast, normalisation) itself violate the quantity found on the implementation?
    Exact rational arithmetic; only then is a kernel refutation of the model generated."""
    tol = Fraction(1, 10**9)
    wm = np.repeat(w, size) if len(w) == 1 else w
    if len(wm) != len(p):
        return False
    if v["kind"] == "wsum":
        S = sum(Fraction(float(x)) for x in wm)
        if mode_m == "Times4Pi":
            return 4 * PI_LO * abs(S - 1) > tol
        return S - 4 * PI_HI > tol or S - 4 * PI_LO < -tol
    if v["kind"] == "lm":
        k2, _ = exact_lm(p, wm, v["l"], v["m"])
        if mode_m == "Times4Pi":
            return 16 * PI_LO * k2 > tol * tol
        return k2 > PI_HI * tol * tol
    return False


def oracle(pts, wts, attrs, d, size_tab, lmax):
    """The property's own oracle on the arrays of one constructed grid: advertised size, unit sphere, weight sum and
    all harmonics up to lmax (float64 sweep, every suspicious quantity re-evaluated in exact rational arithmetic).
    Returns a dict with the list of violations (`viol`) and some statistics."""
    res = {"viol": [], "attrs": attrs}
    if attrs != (d, size_tab, size_tab, size_tab):
        res["viol"].append({"kind": "size", "observed": list(attrs), "expected": [d, size_tab, size_tab, size_tab]})
        if pts.ndim != 2 or pts.shape[1] != 3 or wts.ndim != 1 or pts.shape[0] != wts.shape[0]:
            return res
    if not (np.all(np.isfinite(pts)) and np.all(np.isfinite(wts))):
        res["viol"].append({"kind": "wsum", "observed": float("nan")})
        return res
    x, y, z = pts[:, 0].copy(), pts[:, 1].copy(), pts[:, 2].copy()
    # points on the sphere (exact rational per point only if suspicious)
    r2 = x * x + y * y + z * z - 1.0
    i = int(np.argmax(np.abs(r2)))
    if abs(r2[i]) > 0.5 * TOL_SPHERE:
        ex = Fraction(float(x[i])) ** 2 + Fraction(float(y[i])) ** 2 + Fraction(float(z[i])) ** 2 - 1
        if abs(ex) > Fraction(1, 10**13):
            res["viol"].append({"kind": "sphere", "index": i, "observed": float(ex)})
    res["max_r2"] = float(abs(r2[i]))
    # weight sum (exact)
    sw_exact = sum(Fraction(float(v)) for v in wts)
    werr_lo, werr_hi = sw_exact - 4 * PI_HI, sw_exact - 4 * PI_LO
    res["wsum_err"] = float(sw_exact - Fraction(4 * math.pi))  # exact sum minus float(4 pi), rounded once
    tol = Fraction(1, 10**9)
    if werr_lo > tol or werr_hi < -tol:
        res["viol"].append({"kind": "wsum", "observed": res["wsum_err"]})
    # harmonics
    S = _recurrence_sums(x, y, z, wts, d, lmax)
    worst, first = None, None
    for (l, m) in lm_order(lmax):
        if l == 0:
            continue
        v = abs(S[(l, m)])
        if worst is None or v > worst[2]:
            worst = (l, m, v)
        if v > 0.25 * TOL_INT and first is None:
            val, verdict = exact_value(pts, wts, l, m)
            if verdict is True or (verdict is None and abs(val) > TOL_INT):
                first = (l, m, val)
    res["worst"] = worst
    if first is not None:
        res["viol"].append({"kind": "lm", "l": first[0], "m": first[1], "observed": first[2]})
    # how many quantities fail in all (so that a listed known finding of this grid cannot mask further failures of it)
    res["n_bad"] = [int(sum(1 for lm_ in lm_order(lmax) if lm_[0] >= 1 and abs(S[lm_]) > 2 * TOL_INT)),
                    int(np.sum(np.abs(r2) > 2 * TOL_SPHERE)), int(any(v_["kind"] == "wsum" for v_ in res["viol"]))]
    return res


def grid_arrays(g):
    pts = np.array(g.points, dtype=np.float64)
    wts = np.array(g.weights, dtype=np.float64)
    return pts, wts, (int(g.degree), int(g.size), int(pts.shape[0]), int(wts.shape[0]))


def sweep_one(job):
    """Runs in a worker process: evaluate the property on AngularGrid(degree=d, method=meth, cache=False)."""
    meth, d, size_tab, lmax = job
    t0 = time.time()
    res = {"method": meth, "degree": d, "size": size_tab, "lmax": lmax, "viol": []}
    try:
        import grid.angular as ga
        with warnings.catch_warnings():
            warnings.simplefilter("ignore")
            g = ga.AngularGrid(degree=d, method=meth, cache=False)
        pts, wts, attrs = grid_arrays(g)
    except Exception as e:  # noqa: BLE001
        res["crash"] = f"{type(e).__name__}: {e}"[:300]
        return res
    res.update(oracle(pts, wts, attrs, d, size_tab, lmax))
    res["s"] = round(time.time() - t0, 2)
    return res


VKIND = ["crash", "size", "wsum", "sphere", "lm"]


def first_viol(vs):
    return sorted(vs, key=lambda c: VKIND.index(c["kind"]))[0]


def route_checks(ctx: Ctx, tabs):
    """Every construction route and short histories, for all four methods at small degrees, each constructed grid judged
    by the property oracle (size, unit sphere, weight sum, all harmonics up to the degree) and against the shipped file.
    The four module caches are cleared before every route ("cold") and restored at the end.
    Returns (violations, mismatches): lists of (key, observed, text, replay)."""
    import grid.angular as ga

    caches = [ga.LEBEDEV_CACHE, ga.SPHERICAL_CACHE, ga.MAX_DET_CACHE, ga.AHRENS_BEYLKIN_CACHE]
    saved = [dict(c) for c in caches]

    def cold():
        for c in caches:
            c.clear()

    def build(meth, req, cache):
        with warnings.catch_warnings():
            warnings.simplefilter("ignore")
            if "_pos" in req:
                return ga.AngularGrid(req["_pos"], method=meth, cache=cache)
            return ga.AngularGrid(method=meth, cache=cache, **req)

    def edit(g):
        # what a holder of the grid may do: turn it into a shell of radius 1.5 in place
        w = g.weights
        w *= 2.25
        p = g.points
        p *= 1.5

    viols, mism = [], []
    n = 0
    try:
        for meth, P, _, dirn in c12.METHODS:
            t = tabs[f"{P}_DEGREES"]
            degs = sorted(t)[: (3 if ctx.quick else 6)]
            # argument forms: the method name is case-insensitive; degree / size may be any value that is rounded up to a
            # shipped grid, a NumPy integer, or (degree) positional
            mixed = "".join(ch.upper() if i % 2 == 0 else ch for i, ch in enumerate(meth))
            spellings = [meth] + [s_ for s_ in dict.fromkeys([meth.upper(), meth.title(), mixed]) if s_ != meth]
            for d in degs:
                size = t[d]
                with np.load(file_path(meth, dirn, d, size)) as zf:
                    fp, fw = np.array(zf["points"]), np.array(zf["weights"])
                fw = np.repeat(fw, len(fp)) if len(fw) == 1 else fw
                fsum = math.fsum(fw)
                forms = [("degree", {"degree": d}, f"degree={d}"), ("size", {"size": size}, f"size={size}")]
                extra = [("degree-pos", {"_pos": d}, f"{d}"), ("degree-np", {"degree": np.int64(d)}, f"degree=np.int64({d})"), ("size-np", {"size": np.int64(size)}, f"size=np.int64({size})")]
                if d - 1 >= 0 and (d - 1) not in t:
                    extra.append(("degree-up", {"degree": d - 1}, f"degree={d - 1}"))
                if size - 1 >= 1 and (size - 1) not in tabs[f"{P}_NPOINTS"] and all(not (size - 1 <= s_ < size) for s_ in tabs[f"{P}_NPOINTS"]):
                    extra.append(("size-up", {"size": size - 1}, f"size={size - 1}"))
                plans = []  # (spelling(s), request form, full route set?)
                for fm in forms:
                    plans.append((meth, fm, True))
                for fm in extra:
                    plans.append((meth, fm, False))
                for sp in spellings[1:]:
                    for fm in forms:
                        plans.append((sp, fm, False))
                import itertools

                for sp0, (rname, req, rq), full in plans:
                    # a step is ("build", cache[, spelling[, (req, rq)]]) or ("edit",) (in-place edit of the grid built last).
                    # EVERY grid is judged right after its construction, and every grid that was not edited is judged
                    # again at the end of the history (a later construction must not change a grid handed out earlier).
                    routes = []
                    if full:
                        # all histories of up to three constructions (cache on/off each), with or without an in-place
                        # edit of the returned arrays between two constructions
                        for nb in (1, 2, 3):
                            for cs_ in itertools.product((False, True), repeat=nb):
                                for es_ in itertools.product((False, True), repeat=nb - 1):
                                    steps, lab = [], []
                                    for i_, c_ in enumerate(cs_):
                                        steps.append(("build", c_))
                                        lab.append(f"cache={c_}")
                                        if i_ < nb - 1 and es_[i_]:
                                            steps.append(("edit",))
                                            lab.append("edit in place")
                                    routes.append(("cold;" + ";".join(lab), steps))
                        # the same grid requested through the other request form inside a history
                        other = forms[1] if rname == forms[0][0] else forms[0]
                        for cs_ in itertools.product((False, True), repeat=3):
                            routes.append((f"cold;cache={cs_[0]};{other[2]} cache={cs_[1]};cache={cs_[2]}",
                                           [("build", cs_[0]), ("build", cs_[1], sp0, (other[1], other[2])), ("build", cs_[2])]))
                    else:
                        routes.append(("cold;cache=False", [("build", False)]))
                        routes.append(("cold;cache=True", [("build", True)]))
                        routes.append(("cold;cache=True;cache=True", [("build", True), ("build", True)]))
                        routes.append(("cold;cache=True;cache=False;cache=True", [("build", True), ("build", False), ("build", True)]))
                        routes.append(("cold;cache=True;edit in place;cache=True", [("build", True), ("edit",), ("build", True)]))
                        if sp0 != meth:  # the same grid requested under two spellings in one process, both orders
                            routes.append((f"cold;cache=True as '{meth}';cache=True", [("build", True, meth), ("build", True)]))
                            routes.append((f"cold;cache=True;cache=True as '{meth}'", [("build", True), ("build", True, meth)]))
                            routes.append((f"cold;cache=True as '{meth}';cache=False;cache=True as '{meth}'",
                                           [("build", True, meth), ("build", False), ("build", True, meth)]))
                    fac = 4 * math.pi if abs(fsum - 1.0) < 1e-6 else 1.0

                    def judge(g_, which, script, key):
                        """oracle + shipped-file comparison of one grid of the history; appends to viols / mism; True if fine"""
                        pts, wts, attrs = grid_arrays(g_)
                        rp = {"reproduce": "clear LEBEDEV_CACHE/SPHERICAL_CACHE/MAX_DET_CACHE/AHRENS_BEYLKIN_CACHE; " + "; ".join(script)
                                           + f"; judge {which}", "file": f"{meth}_{d}_{size}.npz"}
                        r = oracle(pts, wts, attrs, d, size, d)
                        if r["viol"]:
                            v = first_viol(r["viol"])
                            what = {"size": f"has (degree,size,npoints,nweights)={v.get('observed')}, advertised {v.get('expected')}",
                                    "wsum": f"has weights summing to 4*pi{v.get('observed', 0):+.6g}",
                                    "sphere": f"has point {v.get('index')} with |p|^2-1 = {v.get('observed')}",
                                    "lm": f"integrates the harmonic (l,m)=({v.get('l')},{v.get('m')}) to {v.get('observed')} instead of 0"}[v["kind"]]
                            obs = str(v["observed"]) if v["kind"] == "size" else v["observed"]
                            viols.append((key, obs, f"after [{'; '.join(script)}] (caches cleared before) {which} {what}",
                                          {**rp, **{k: v[k] for k in v if k != "observed"}, "observed": obs}))
                            return False
                        if not (pts.shape == fp.shape and np.array_equal(pts, fp) and np.all(np.abs(wts - fac * fw) <= 4 * 2.0**-52 * np.abs(wts))):
                            mism.append((key, "file-mismatch", f"after [{'; '.join(script)}] {which} satisfies the property but is not the shipped "
                                         f"{meth}_{d}_{size}.npz (points / weights{' x 4 pi' if fac != 1.0 else ''})", rp))
                            return False
                        return True

                    for label, steps in routes:
                        cold()
                        n += 1
                        ctx.case(("route", sp0, d, rname, label))
                        key = f"route:{sp0}:{rq}:{label}"
                        script, held = [], []  # held: [grid, name, edited?]
                        try:
                            ok_ = True
                            for st in steps:
                                if st[0] == "build":
                                    sp = st[2] if len(st) > 2 else sp0
                                    rq_, rqs_ = st[3] if len(st) > 3 else (req, rq)
                                    nm = f"g{len(held) + 1}"
                                    g = build(sp, rq_, st[1])
                                    script.append(f"{nm} = AngularGrid({rqs_}, method='{sp}', cache={st[1]})")
                                    held.append([g, nm, False])
                                    if not judge(g, nm, script, key):
                                        ok_ = False
                                        break
                                else:
                                    edit(held[-1][0])
                                    held[-1][2] = True
                                    nm = held[-1][1]
                                    script.append(f"w = {nm}.weights; w *= 2.25; p = {nm}.points; p *= 1.5")
                            if ok_ and len(held) > 1:
                                for g_, nm, ed in held[:-1]:
                                    if not ed and not judge(g_, f"{nm} again at the end", script, key):
                                        break
                        except Exception as e:  # noqa: BLE001
                            viols.append((key, type(e).__name__, f"{'; '.join(script)}; next step raised {type(e).__name__}: {e}",
                                          {"reproduce": "clear the four module caches; " + "; ".join(script) + f"; then step {st}"}))
    finally:
        for c, s in zip(caches, saved):
            c.clear()
            c.update(s)
    ctx.cov["route_history_constructions"] = n
    return viols, mism


# ====================================================================== main
def run(ctx: Ctx):
    # coqchk (thorough tier): re-evaluating the vm_compute steps of C02_proofs (and hence C02_props and the generated cover theorem with
    # its per-grid certificates) in coqchk's own VM does not finish in 40 min, so those are left to the kernel (coqc); the model,
    # Legendre, morphism, summation and generated-data files they rest on are re-checked by coqchk on their own.
    ctx.coqchk_skip = ("C02_cover_props", "C02_props")
    ctx.coqchk_extra = ("C02_model", "C02_legendre", "C02_morph", "C02_sums", "C02_gen")
    import importlib

    import grid.angular as ga

    importlib.reload(ga)
    tabs, units = c12.extract_tables(ctx)
    gen_broken = None
    try:
        mode = gen_rules(ctx)
    except ValueError as e:
        # fail closed, but keep going with the last known rule so that the oracle can still produce a concrete failing input
        gen_broken = str(e)
        mode = dict(DEFAULT_MODE)
        ctx.gen("C02_gen.v", "From P Require Import C02_model.\n" + "".join(f"Definition mode_{m} : norm_mode := {v}.\n" for m, v in mode.items()))
    ctx.gen_units += units
    B = B_QUICK if ctx.quick else B_THOROUGH
    grids = []  # (meth, dirn, deg, size, cost)
    for meth, P, _, dirn in c12.METHODS:
        for deg, size in tabs[f"{P}_DEGREES"].items():
            grids.append((meth, dirn, deg, size, size * (deg + 1) ** 2))
    grids.sort(key=lambda g: (-g[4], g[0], g[2]))
    # safety valve for a machine shared with other jobs: the kernel work (estimated cpu seconds, measured model
    # 0.45 us * d per unit incl. parsing) must fit the tier's budget on this run's share of the 16 cores; B is lowered
    # if it does not.  The verdict does not depend on B, only the list of kernel-covered grids does (it is reported).
    try:
        load = os.getloadavg()[0]
    except OSError:
        load = 0.0
    share = 16.0 if load < 8 else max(1.0, 16.0 * 16.0 / (16.0 + load))
    cpu_budget = share * (40.0 if ctx.quick else 600.0)
    est_cpu = lambda g: g[4] * max(g[2], 8) * 0.45e-6
    acc, B_eff = 0.0, B
    for g in sorted(grids, key=lambda g: g[4]):
        if g[4] > B:
            break
        if acc + est_cpu(g) > cpu_budget:
            B_eff = g[4] - 1
            break
        acc += est_cpu(g)
    if B_eff < B:
        ctx.notes.append(f"load average {load:.1f}: kernel bound lowered from B={B} to {B_eff} for this run (estimated cpu {acc:.0f}s on a share of {share:.1f} cores)")
    B = max(B_eff, 20_000)
    under = [g for g in grids if g[4] <= B]
    above = [g for g in grids if g[4] > B]
    ctx.count("grids_constructible", len(grids))
    ctx.count("grids_under_B", len(under))

    # ---------------- search sweep (the property's own oracle on the implementation), in worker processes
    jobs = {}
    if ctx.quick:
        for g in grids:
            jobs[(g[0], g[2])] = (g[0], g[2], g[3], min(g[2], 8))
        for g in under:
            jobs[(g[0], g[2])] = (g[0], g[2], g[3], g[2])
        est = lambda g: g[4] * 4e-9  # seconds of one worker for the full-degree float64 sweep (measured)
        pool = sorted((g for g in grids if est(g) <= 25.0 and g[4] > B_QUICK), key=lambda g: (g[0], g[2]))
        budget, pick = 100.0, []
        for g in ctx.rng.sample(pool, len(pool)):
            if est(g) <= budget:
                budget -= est(g)
                pick.append(g)
        for g in pick:
            jobs[(g[0], g[2])] = (g[0], g[2], g[3], g[2])
        for (m_, d_) in CORPUS:
            for g in grids:
                if (g[0], g[2]) == (m_, d_):
                    jobs[(m_, d_)] = (g[0], g[2], g[3], g[2])
    else:
        for g in grids:
            jobs[(g[0], g[2])] = (g[0], g[2], g[3], g[2])
    joblist = sorted(jobs.values(), key=lambda j: -(j[2] * (j[3] + 1) ** 2))
    t_sw = time.time()
    with cf.ProcessPoolExecutor(max_workers=16) as ex:
        sweep = {(r["method"], r["degree"]): r for r in ex.map(sweep_one, joblist, chunksize=1)}
    phase = ctx.cov.setdefault("phase_s", {})
    phase["sweep"] = round(time.time() - t_sw, 1)
    ctx.cov["sweep_full_degree"] = sum(1 for j in joblist if j[3] == j[1])
    ctx.cov["sweep_low_degree_only"] = sum(1 for j in joblist if j[3] != j[1])

    # ---------------- gen: per-grid kernel obligations
    info = {}
    for rank, (meth, dirn, deg, size, cost) in enumerate(under):
        tag = f"{meth}_{deg}"
        try:
            p, w = load_file(meth, dirn, deg, size)
            s, sw, data = grid_data_text(tag, p, w)
        except Exception as e:  # noqa: BLE001 - fail closed: unreadable / malformed file
            ctx.fail(f"grid_exact_{tag}", f"{meth}_{deg}_{size}.npz:unreadable", type(e).__name__,
                     f"data file {meth}_{deg}_{size}.npz cannot be read as (N,3)/(N,) float64 arrays: {e}",
                     {"reproduce": f"AngularGrid(degree={deg}, method='{meth}', cache=False)"})
            ctx.add_obligation(f"grid_exact_{tag}", False)
            continue
        fname = f"C02_g{rank:03d}_{tag}.v"
        thm = (f"Theorem grid_exact_{tag} : grid_ok mode_{meth} {deg} {natlit(size)} {s} {sw} ps_{tag} ws_{tag} = true.\n"
               "Proof. vm_cast_no_check (eq_refl true). Qed.\n")
        ctx.gen(fname, GRID_HDR + data + thm,
                [{"unit": f"data/{dirn}/{meth}_{deg}_{size}.npz", "file": f"src/grid/data/{dirn}/{meth}_{deg}_{size}.npz",
                  "lines": [len(p), len(w)], "sha": src_sha(p.tobytes().hex() + w.tobytes().hex())}])
        info[(meth, deg)] = {"file": fname, "tag": tag, "s": s, "sw": sw, "size": size, "dirn": dirn, "p": p, "w": w, "cost": cost}

    # ---------------- search results -> violations (with a kernel-checked refutation where possible; compiled with the main build)
    def replay_of(meth, deg, size, v):
        rp = {"reproduce": f"g = AngularGrid(degree={deg}, method='{meth}', cache=False)", "file": f"{meth}_{deg}_{size}.npz"}
        rp.update(v)
        return rp

    candidates = []  # (key, observed, text, replay) of every property failure found on the implementation, for broken_tie
    viol_by_grid = {}
    for key, r in sweep.items():
        meth, deg = key
        size = r["size"]
        ctx.case(("sweep", key), traces=size * (r["lmax"] + 1) ** 2)
        if "crash" in r:
            ctx.fail(f"grid_exact_{meth}_{deg}", f"{meth}_{deg}_{size}.npz:construct", r["crash"].split(":")[0],
                     f"AngularGrid(degree={deg}, method='{meth}') cannot be constructed: {r['crash']}",
                     {"reproduce": f"AngularGrid(degree={deg}, method='{meth}', cache=False)"})
            viol_by_grid[key] = [{"kind": "crash"}]
            continue
        if r["viol"]:
            viol_by_grid[key] = r["viol"]

    # report at most MAXREP grids per (method, kind), smallest first (plus the corpus); the rest is summarised
    groups = {}
    for key, vs in viol_by_grid.items():
        kind = sorted(vs, key=lambda c: ["crash", "size", "wsum", "sphere", "lm"].index(c["kind"]))[0]["kind"]
        groups.setdefault((key[0], kind), []).append(key)
    report = set()
    for (meth_, kind_), keys in groups.items():
        keys.sort(key=lambda k: sweep[k]["size"])
        report.update(keys[:MAXREP])
        report.update(k for k in keys if k in CORPUS)
        if len(keys) > MAXREP:
            ctx.notes.append(f"{len(keys)} grids of method {meth_} violate the property in the same way ({kind_}); "
                             f"{MAXREP} smallest reported, all degrees: {sorted(k[1] for k in keys)}")
    refuted_files = {}
    for key, vs in viol_by_grid.items():
        if key not in report:
            continue
        meth, deg = key
        size = sweep[key]["size"]
        v = sorted(vs, key=lambda c: ["crash", "size", "wsum", "sphere", "lm"].index(c["kind"]))[0]
        if v["kind"] == "crash":
            continue
        fname = f"{meth}_{deg}_{size}.npz"
        if v["kind"] == "size":
            ctx.fail(f"grid_exact_{meth}_{deg}", f"{fname}:size", str(v["observed"]),
                     f"AngularGrid(degree={deg}, method='{meth}') has (degree,size,npoints,nweights)={v['observed']}, advertised {v['expected']}",
                     replay_of(meth, deg, size, v))
            candidates.append((f"{fname}:size", str(v["observed"]), f"AngularGrid(degree={deg}, method='{meth}') has "
                               f"(degree,size,npoints,nweights)={v['observed']}, advertised {v['expected']}", replay_of(meth, deg, size, v)))
            continue
        # kernel-checked refutation on the file content + normalisation model
        thm = None
        try:
            dirn = [d_ for m_, _, _, d_ in c12.METHODS if m_ == meth][0]
            p, w = (info[key]["p"], info[key]["w"]) if key in info else load_file(meth, dirn, deg, size)
            s_, sw_, data = grid_data_text(f"{meth}_{deg}", p, w)  # self-contained: the grid module may have failed
            tag = f"{meth}_{deg}"
            name = f"{SHORT[meth]}{deg}_refuted"
            if v["kind"] == "wsum":
                chk = f"grid_bad_wsum mode_{meth} {natlit(size)} {sw_} ps_{tag} ws_{tag}"
                neg = f"(bad_wsum_not_exact mode_{meth} {deg} {natlit(size)} {s_} {sw_} ps_{tag} ws_{tag} {name})"
            elif v["kind"] == "lm":
                l, m = v["l"], v["m"]
                chk = f"grid_bad_lm mode_{meth} {natlit(size)} {s_} {sw_} {l} {abs(m)} {'true' if m < 0 else 'false'} ps_{tag} ws_{tag}"
                neg = (f"(bad_lm_not_exact mode_{meth} {deg} {natlit(size)} {s_} {sw_} {l} {abs(m)} {'true' if m < 0 else 'false'} "
                       f"ps_{tag} ws_{tag} {name} (proj1 (Nat.leb_le {l} {deg}) (eq_refl true)))")
            else:
                chk = None
            work = size * ((v["l"] if v["kind"] == "lm" else 0) + 1)
            if chk is not None and work <= REFUTE_MAX and not model_predicts(v, p, w, mode[meth], size):
                ctx.notes.append(f"{fname}: the violation observed on AngularGrid is not a violation of the model (file + normalisation rule): no kernel refutation")
                chk = None
            if chk is not None and work <= REFUTE_MAX:
                txt = (GRID_HDR + data + f"Theorem {name} : {chk} = true.\nProof. vm_cast_no_check (eq_refl true). Qed.\n")
                txt2 = (GRID_HDR.replace("C02_model C02_gen", f"C02_model C02_gen C02_sums C02_proofs C02_refuted_{tag}") +
                        f"Theorem {name[:-8]}_not_exact : ~ grid_exact {deg} {natlit(size)} (real_pts {s_} ps_{tag}) "
                        f"(real_wts mode_{meth} {sw_} {natlit(size)} ws_{tag}).\nProof. exact {neg}. Qed.\n")
                refuted_files[f"C02_refuted_{tag}.v"] = (txt, name, key)
                refuted_files[f"C02_refutedx_{tag}.v"] = (txt2, name[:-8] + "_not_exact", key)
                ctx.write(f"C02_refuted_{tag}.v", txt)
                ctx.write(f"C02_refutedx_{tag}.v", txt2)
                thm = name
        except Exception as e:  # noqa: BLE001
            ctx.notes.append(f"refutation of {fname} not generated: {e}")
        if v["kind"] == "wsum":
            text = (f"{fname}: AngularGrid(degree={deg}, method='{meth}').weights sum to 4*pi{v['observed']:+.6g} "
                    f"(|error| > 1e-9): the grid does not integrate Y_00")
            k = f"{fname}:wsum"
        elif v["kind"] == "sphere":
            text = f"{fname}: point {v['index']} of AngularGrid(degree={deg}, method='{meth}') has |p|^2-1 = {v['observed']:.3g} (> 1e-13)"
            k = f"{fname}:sphere:{v['index']}"
        else:
            text = (f"{fname}: AngularGrid(degree={deg}, method='{meth}') integrates the real spherical harmonic "
                    f"(l,m)=({v['l']},{v['m']}) to {v['observed']:.6g} instead of 0 (|error| > 1e-9, l <= degree)")
            k = f"{fname}:l={v['l']},m={v['m']}"
        rp = replay_of(meth, deg, size, v)
        rp["kernel_refutation"] = thm
        ctx.fail(f"grid_exact_{meth}_{deg}", k, v["observed"], text, rp)
        candidates.append((k, v["observed"], text, rp))
        if ctx.is_known(k, v["observed"]) and sweep[key].get("n_bad") and sweep[key]["lmax"] == deg:
            # the reported quantity is a listed finding: the number of failing quantities of this grid is part of the finding too
            nb_ = sweep[key]["n_bad"]
            k2_ = f"{fname}:failing-quantities"
            t2_ = (f"{fname}: AngularGrid(degree={deg}, method='{meth}') fails {nb_[0]} of the {(deg + 1) ** 2 - 1} harmonic integrals (l>=1), "
                   f"{nb_[1]} points are off the unit sphere, weight sum {'wrong' if nb_[2] else 'right'}")
            ctx.fail(f"grid_exact_{meth}_{deg}", k2_, nb_, t2_, {**rp, "n_bad": nb_})
            candidates.append((k2_, nb_, t2_, {**rp, "n_bad": nb_}))
    # ---------------- every construction route and short histories (cold / warm caches, degree= / size=, in-place edits)
    t_ph = time.time()
    try:
        rviol, rmism = route_checks(ctx, tabs)
    except Exception as e:  # noqa: BLE001
        rviol, rmism = [], []
        ctx.fail("route_history", "route:crash", type(e).__name__, f"construction route checks crashed: {type(e).__name__}: {e}", found_input=False)
    per = {}
    for key, obs, text, rp in rviol:
        candidates.append((key, obs, text, rp))
        mth = key.split(":")[1].lower()
        per[mth] = per.get(mth, 0) + 1
        if per[mth] <= MAXREP:
            ctx.fail("route_history", key, obs, text, rp)
    if rviol and len(rviol) > sum(min(v_, MAXREP) for v_ in per.values()):
        ctx.notes.append(f"{len(rviol)} construction routes / histories violate the property ({per}); {MAXREP} per method reported")
    for key, obs, text, rp in rmism[:MAXREP]:
        ctx.fail("route_history", key, obs, text, rp, found_input=False)
    phase["routes"] = round(time.time() - t_ph, 1)
    if gen_broken is not None:
        # the translated shape of the normalisation / loader is gone: the violation carries the first failing input that
        # is not a listed known finding (numeric sweep + construction routes), if there is one
        ctx.broken_tie("gen_rules", f"the normalisation / loader code of AngularGrid is outside the translated shape: {gen_broken}",
                       sorted(candidates, key=lambda c: (c[0].startswith("route:"), len(c[0]))))

    # ---------------- prove
    phase["gen"] = round(time.time() - t_sw - phase["sweep"], 1)
    t_ph = time.time()
    ctx.copy_coq("C02")
    status = ctx.coq_build(timeout_per_file=150 if ctx.quick else 1200)
    phase["coq_build"] = round(time.time() - t_ph, 1)
    t_ph = time.time()
    ctx.register_props(status, coqchk=False)  # the independent re-check runs once, after the cover theorem is built
    okgrids, badgrids, timed_out = [], [], []
    for key, gi in info.items():
        ok = status.get(gi["file"], False)
        log = ctx.logs.get(gi["file"], "")
        if not ok and "Error" not in log and "skipped" not in log and key not in viol_by_grid:
            # killed by the per-file timeout (no kernel verdict): the grid is simply not covered in this run
            timed_out.append(key)
            continue
        ctx.add_obligation(f"grid_exact_{gi['tag']}", ok, gi["file"])
        (okgrids if ok else badgrids).append(key)
        ctx.case(("kernel", key), traces=0)
    if timed_out:
        ctx.notes.append("kernel check not finished within the per-file time limit (not covered in this run): " +
                         ", ".join(f"{k[0]}_{k[1]}" for k in timed_out))
    libs_ok = all(status.get(f, False) for f in ("C02_model.v", "C02_legendre.v", "C02_morph.v", "C02_sums.v", "C02_proofs.v", "C02_gen.v"))

    # ---------------- cover theorem: grid_ok_sound instantiated on exactly the grids that were checked
    if libs_ok and okgrids:
        order = sorted(okgrids, key=lambda k: ([m for m, _, _, _ in c12.METHODS].index(k[0]), k[1]))
        req = " ".join(info[k]["file"][:-2] for k in order)
        stm, prf = [], []
        for k in order:
            gi = info[k]
            stm.append(f"  grid_exact {k[1]} {natlit(gi['size'])} (real_pts {gi['s']} ps_{gi['tag']}) "
                       f"(real_wts mode_{k[0]} {gi['sw']} {natlit(gi['size'])} ws_{gi['tag']})")
            prf.append(f"(grid_ok_sound_lemma _ _ _ _ _ _ _ grid_exact_{gi['tag']})")
        body = " /\\\n".join(stm)
        term = prf[-1]
        for t in reversed(prf[:-1]):
            term = f"(conj {t}\n {term})"
        txt = ("(* generated on every run: the real-number statement of C02 for exactly the grids whose kernel check succeeded *)\n"
               "From Coq Require Import Reals ZArith List.\nFrom Bignums Require Import BigZ.\n"
               f"From P Require Import C02_model C02_gen C02_sums C02_proofs {req}.\n"
               f"Theorem covered_grids_exact :\n{body}.\nProof. exact {term}. Qed.\nPrint Assumptions covered_grids_exact.\n")
        ok, out = ctx.coq_run("C02_cover_props.v", txt, timeout=900)
        ctx.logs["C02_cover_props.v"] = out
        ctx.register_props({**status, "C02_cover_props.v": ok})
    phase["cover"] = round(time.time() - t_ph, 1)
    t_ph = time.time()
    ctx.cov["covered_grids"] = {m: sorted(k[1] for k in okgrids if k[0] == m) for m, _, _, _ in c12.METHODS}

    # ---------------- the definition of Ylm (Coq, over R) against the library's own real spherical harmonics
    try:
        from grid.utils import convert_cart_to_sph, generate_real_spherical_harmonics
        quads = [(1, 2, 2, 3), (2, -3, 6, 7), (-4, 4, -7, 9), (1, 4, 8, 9), (6, -2, -9, 11), (-6, -6, 7, 11), (2, 10, 11, 15), (12, -4, 3, 13)]
        quads = quads[:3] if ctx.quick else quads
        lmax_v = 5 if ctx.quick else 8
        P_ = np.array([[a / d_, b / d_, c_ / d_] for a, b, c_, d_ in quads])
        sph = convert_cart_to_sph(P_)
        Yimpl = np.asarray(generate_real_spherical_harmonics(lmax_v, sph[:, 1], sph[:, 2]), dtype=np.float64)
        tcases, tmeta = [], []
        for i, (a, b, c_, d_) in enumerate(quads):
            for l in range(lmax_v + 1):
                for m in [0] + [s_ * k for k in range(1, l + 1) for s_ in (1, -1)]:
                    row = l * l + (0 if m == 0 else (2 * m - 1 if m > 0 else 2 * abs(m)))
                    v = Fraction(float(Yimpl[row, i]))
                    am, neg = abs(m), ("true" if m < 0 else "false")
                    goal = (f"Rabs (Ylm {l} (signed {am} {neg}) (IZR ({a}) / IZR {d_}) (IZR ({b}) / IZR {d_}) (IZR ({c_}) / IZR {d_}) "
                            f"- (IZR ({v.numerator}) / IZR {v.denominator})) <= / 10 ^ 11")
                    tac = (f"rewrite (Ylm_rational_lemma {l} {am} {neg} ({a}) ({b}) ({c_}) {d_} ltac:(lia) ltac:(intros; first [lia|discriminate]) ltac:(lia)); "
                           f"ev_z; interval with (i_prec 90)")
                    tcases.append((goal, tac))
                    tmeta.append((quads[i], l, m, float(v)))
                    ctx.case(("ylm", quads[i], l, m))
        thdr = ("From Coq Require Import Reals ZArith Lia.\nFrom Interval Require Import Tactic.\n"
                "From P Require Import C02_model C02_legendre C02_sums C02_proofs.\nOpen Scope R_scope.\n"
                "Ltac ev_z := repeat match goal with\n"
                "  | |- context [Hz ?l ?m ?n ?x ?y ?z ?d] => let h := eval vm_compute in (Hz l m n x y z d) in change (Hz l m n x y z d) with h\n"
                "  | |- context [kappa_num ?l ?m] => let h := eval vm_compute in (kappa_num l m) in change (kappa_num l m) with h\n"
                "  | |- context [kappa_den ?l ?m] => let h := eval vm_compute in (kappa_den l m) in change (kappa_den l m) with h end.\n")
        for i in ctx.coq_tactic_cases("C02_ylm", thdr, tcases, shard=40, timeout=600):
            q, l, m, v = tmeta[i]
            ctx.fail("Ylm_definition", f"ylm:{q}:{l}:{m}", v,
                     f"the Coq definition Ylm {l} {m} at the point {q[:3]}/{q[3]} is not within 1e-11 of "
                     f"grid.utils.generate_real_spherical_harmonics ({v!r})", found_input=False)
        ctx.sample({"ylm_validation": {"point": list(tmeta[7][0]), "l": tmeta[7][1], "m": tmeta[7][2], "library_value": tmeta[7][3]}})
        ctx.count("ylm_definition_cases", len(tcases))
    except ImportError as e:
        ctx.fail("Ylm_definition", "ylm:import", type(e).__name__, f"grid.utils real spherical harmonics not importable: {e}", found_input=False)
    phase["ylm"] = round(time.time() - t_ph, 1)
    t_ph = time.time()

    # ---------------- correspond: AngularGrid(...) against the model, inside Coq, for every grid under B
    from grid.angular import AngularGrid

    cases, meta = [], []
    for key in okgrids:
        meth, deg = key
        gi = info[key]
        with warnings.catch_warnings():
            warnings.simplefilter("ignore")
            try:
                g = AngularGrid(degree=deg, method=meth, cache=False)
                ip, iw = np.array(g.points, dtype=np.float64), np.array(g.weights, dtype=np.float64)
                attrs = (int(g.degree), int(g.size))
            except Exception as e:  # noqa: BLE001
                ctx.fail("corr_grid", f"built:{meth}:{deg}", type(e).__name__, f"AngularGrid(degree={deg}, method='{meth}') raised {type(e).__name__}: {e}",
                         {"reproduce": f"AngularGrid(degree={deg}, method='{meth}', cache=False)"})
                continue
        ctx.case(("corr", key), traces=len(iw))
        why = None
        if attrs != (deg, gi["size"]) or ip.shape != (gi["size"], 3) or iw.shape != (gi["size"],):
            why = f"(degree,size)={attrs}, points {ip.shape}, weights {iw.shape}; expected ({deg},{gi['size']})"
        else:
            try:
                fr = [Fraction(float(v)) * (1 << gi["s"]) for v in ip.ravel()]
                if any(f.denominator != 1 for f in fr):
                    why = "points are not the stored points (not representable at the file's binary scale)"
                swi, WI = dyadic_ints(iw)
            except ValueError as e:
                why = str(e)
        if why is not None:
            meta.append((key, why))
            cases.append("false")
            continue
        P3 = [(int(fr[3 * i]), int(fr[3 * i + 1]), int(fr[3 * i + 2])) for i in range(gi["size"])]
        cases.append(f"pts_match ps_{gi['tag']} {tlist(P3)} && "
                     f"wts_match mode_{meth} {natlit(gi['size'])} {gi['sw']} {swi} ws_{gi['tag']} {blist(WI)}")
        meta.append((key, None))
    bad_corr = []
    if cases:
        req = " ".join(info[k]["file"][:-2] for k, _ in meta)
        hdr = ("From Coq Require Import ZArith List Bool.\nFrom Bignums Require Import BigZ.\n"
               f"From P Require Import C02_model C02_gen {req}.\nImport ListNotations.\nOpen Scope bigZ_scope.\n")
        bad_corr = [meta[i] for i in ctx.coq_bool_cases("C02_corr", hdr, cases, shard=12)]
    phase["correspond"] = round(time.time() - t_ph, 1)
    t_ph = time.time()
    for key, gi in list(info.items())[:2]:
        ctx.sample({"grid": f"{key[0]}_{key[1]}", "N": gi["size"], "scale_points": gi["s"], "scale_weights": gi["sw"],
                    "kernel_check": key in okgrids, "cost": gi["cost"]})

    # ---------------- kernel verdicts of the refutations generated before the build
    for n, (_, name, key) in refuted_files.items():
        ok = status.get(n, False)
        log = ctx.logs.get(n, "")
        if not ok and "Error" not in log and ("skipped" not in log or "C02_refuted_" in log):
            ctx.notes.append(f"kernel refutation {name} not finished within the per-file time limit (the finding itself is reported by the oracle)")
            continue
        ctx.add_obligation(name, ok, n)
        # the positive obligation grid_exact_<tag> is decided by its kernel-checked refutation (core.mark_refuted)
        if ok and name.endswith("_refuted"):
            ctx.mark_refuted(f"grid_exact_{key[0]}_{key[1]}", name)
    phase["refute"] = round(time.time() - t_ph, 1)
    ctx.cov["refuted_in_kernel"] = sorted(name for _, (_, name, _) in refuted_files.items())

    # grids whose kernel check failed without a concrete failing quantity from the oracle
    for key in badgrids:
        if key in viol_by_grid and key not in report:
            ctx.add_obligation(f"grid_exact_{info[key]['tag']}", False, info[key]["file"])
            r_ = sweep[key]
            v_ = sorted(r_["viol"], key=lambda c: ["crash", "size", "wsum", "sphere", "lm"].index(c["kind"]))[0]
            ctx.fail(f"grid_exact_{info[key]['tag']}", f"{key[0]}_{key[1]}_{info[key]['size']}.npz:{v_['kind']}", v_.get("observed"),
                     f"{key[0]}_{key[1]}_{info[key]['size']}.npz violates the property ({v_['kind']}: {v_.get('observed')}); see the notes for the full list",
                     replay_of(key[0], key[1], info[key]["size"], v_))
        if key not in viol_by_grid:
            gi = info[key]
            ctx.fail(f"grid_exact_{gi['tag']}", f"{key[0]}_{key[1]}_{gi['size']}.npz:kernel-check", None,
                     f"grid_ok is not true for {key[0]}_{key[1]}_{gi['size']}.npz but the numeric oracle found no violated quantity",
                     {"coq_log_tail": ctx.logs.get(gi["file"], "")[-1500:]}, found_input=False)
    for key, why in bad_corr:
        meth, deg = key
        gi = info[key]
        if key in viol_by_grid:
            continue  # already reported with a concrete failing quantity of the property on the implementation
        ctx.fail("corr_grid", f"corr:{meth}:{deg}", why or "mismatch",
                 f"AngularGrid(degree={deg}, method='{meth}').points/.weights differ from the model (file content, broadcast, "
                 f"{'x 4 pi' if mode[meth] == 'Times4Pi' else 'no normalisation'}) although the property holds numerically: {why or 'values differ'}",
                 {"reproduce": f"AngularGrid(degree={deg}, method='{meth}', cache=False)"}, found_input=False)

    # ---------------- evidence
    for k in list(CORPUS) + [k for k in sorted(sweep) if not sweep[k]["viol"]][:3]:
        if k in sweep:
            r = sweep[k]
            ctx.sample({"oracle": f"AngularGrid(degree={k[1]}, method='{k[0]}')", "N": r["size"], "lmax_checked": r["lmax"],
                        "wsum_minus_4pi": r.get("wsum_err"), "max_abs_r2_minus_1": r.get("max_r2"),
                        "largest_harmonic_error": list(r["worst"]) if r.get("worst") else None, "violations": r["viol"]})
    worst = sorted(((r["worst"][2], f"{k[0]}_{k[1]}", r["worst"][:2]) for k, r in sweep.items() if r.get("worst") and not r["viol"]), reverse=True)[:3]
    ctx.cov["largest_healthy_errors"] = [{"grid": g, "lm": list(lm), "abs_error": e} for e, g, lm in worst]
    ctx.cov["B"] = B
    ctx.cov["not_covered_by_kernel"] = {m: sorted(g[2] for g in above if g[0] == m) for m, _, _, _ in c12.METHODS}
    # ---------------- every construction route: default caching ON, methods interleaved in both orders in one process.
    # The module-level caches are keyed by degree only; the grid handed out must still be the requested method's shipped data.
    try:
        import grid.angular as _ga
        from props import c12 as _c12
        _tabs, _ = _c12.extract_tables(ctx)
        _caches = [_ga.LEBEDEV_CACHE, _ga.SPHERICAL_CACHE, _ga.MAX_DET_CACHE, _ga.AHRENS_BEYLKIN_CACHE]
        for _c in _caches:
            _c.clear()
        _first = None
        _n = 0
        for _order in (_c12.METHODS, _c12.METHODS[::-1]):
            for _meth, _P, _, _ddir in _order:
                _t = _tabs[f"{_P}_DEGREES"]
                for _d in [d_ for d_ in sorted(_t) if _t[d_] <= (1300 if ctx.quick else 6000)]:
                    import warnings as _w
                    with _w.catch_warnings():
                        _w.simplefilter("ignore")
                        _g = _ga.AngularGrid(degree=_d, method=_meth)
                    with np.load(SRC / "data" / _ddir / f"{_meth}_{_d}_{_t[_d]}.npz") as _data:
                        _ok = (_g.size == _t[_d] and len(_g.points) == _t[_d] and np.array_equal(_g.points, _data["points"]))
                    _n += 1
                    ctx.case(("cached", _meth, _d, _order is _c12.METHODS))
                    if not _ok and _first is None:
                        _first = (_meth, _d, int(_g.size), _t[_d])
        for _c in _caches:
            _c.clear()
        ctx.cov["cached_constructions"] = _n
        if _first:
            _meth, _d, _got, _exp = _first
            ctx.fail("corr_grid_cached", f"built-cached:{_meth}:{_d}", _got,
                     f"with caching on and grids of other methods built before, AngularGrid(degree={_d}, method='{_meth}') has {_got} points "
                     f"/ not the shipped points; advertised size {_exp}",
                     {"reproduce": f"clear the caches; build every supported degree of every method (then in reverse method order); AngularGrid(degree={_d}, method='{_meth}')"})
    except Exception as _e:  # noqa: BLE001
        ctx.fail("corr_grid_cached", "built-cached:crash", type(_e).__name__, f"cached construction sweep crashed: {_e}", found_input=False)

    ctx.cov["rule"] = (f"every constructible grid (table entry) with N*(d+1)^2 <= B={B} is checked exactly inside the Coq kernel "
                       "(all points, the weight sum and all (l,m), 1<=l<=d, |m|<=l) and tied to AngularGrid(...) by exact correspondence; "
                       "distinct = grids (kernel) + grids (correspondence) + grids (numeric oracle); grids above B are covered by the numeric "
                       "oracle only (thorough: all, quick: l<=8 for all + full degree for a seeded subset + corpus); construction routes / "
                       "in-place-edit histories (cold and warm caches, degree= and size=) at the smallest degrees of every method are judged by the same oracle")
    ctx.trusted += [
        "np.load of the .npz files; exact float -> dyadic conversion (fractions.Fraction)",
        "ast extraction of the normalisation branch / loader of angular.py (fail closed), validated per grid by the correspondence",
        "tolerances of the property: |x^2+y^2+z^2-1| <= 1e-13, integrals and weight sum to 1e-9 (healthy files reach 3e-12)",
        "Y_lm at a stored point is the Cartesian polynomial N_lm (C|S)_m(x,y) d^mP_l/dz^m(z) (equal to the spherical harmonic on the unit sphere: Ylm_is_spherical_harmonic)",
        "correspondence tolerance for x 4 pi: |w_impl - 4 pi w_file| <= 2^-51 |w_impl| (two roundings + float(pi))",
        "numeric oracle (float64 recurrence + exact rational re-evaluation of suspicious quantities) is search only, never counted as proof",
        "props.c12.extract_tables (table extraction, proved consistent with the data directory by C12)",
    ]
    ctx.assumptions += [f"grids with N*(d+1)^2 > {B} are not kernel-checked in this tier (listed in not_covered_by_kernel)"]
