"""C07 — a molecular grid is the weighted concatenation of its atomic grids.

gen:   signatures/defaults of MolGrid.__init__/from_preset/from_size/from_pruned and the table
       _DEFAULT_POWER_RTRANSFORM_PARAMS are re-extracted (ast, fail closed) into C07_gen.v and validated
       against the imported objects; the statements of from_pruned that normalise d_sectors / s_sectors are
       TRANSLATED (ast, fail closed) into the Coq function norm_sectors_gen and into a Python evaluator, so the
       from_pruned fan-out model follows the source (pinned or repaired); the rest of the model is hand-written
       (coq/C07/C07_model.v).  fanout_pruned_spec (C07_props_pruned.v: integer and list sector arguments give the
       documented calls) is proved about the translated statements when they allow it; otherwise
       C07_refuted_pruned.v compiles, the obligation is marked refuted and the concrete failing calls are reported.
prove: coq/C07/*.v (any number of atoms, any sizes; any commutative semiring incl. R).
tie:   (1) exact correspondence at bigQ (vm_compute) of MolGrid.__init__/get_atomic_grid/__getitem__/integrate
       with the model on 1..5 atoms: real AtomGrid objects (tiny power-of-two radial grids, low degrees; aim
       weights signed powers of two so that every float product is exact) and AtomGrid subclasses carrying small
       dyadic points/weights (arbitrary dyadic aim weights, exact integrals); array and callable aim weights (the
       callables use all four arguments), store on/off, constructor rejections.
       (2) differential check constructor-vs-by-hand on the implementation: the model's fan-out (checked equal,
       inside Coq, to the per-atom call list used) drives by-hand AtomGrid construction + MolGrid(...); bitwise
       equality of points/weights/indices/atweights/aim_weights/atcoords for from_size/from_preset/from_pruned
       with single/list/dict/None radial grids, str/list/dict presets, sizes vs degrees, rotate seeds, store flag,
       default/callable/array aim weights; _generate_default_rgrid against the table.
search: every observation is also checked against the property's own oracle (exact Fractions); the end-to-end
       clause (preset grids integrate normalised Gaussians to 1 %) is a seeded sweep that can only report
       violations (partial).
"""
from __future__ import annotations

import ast
import inspect
import json
import math
import re
import warnings
from fractions import Fraction

import numpy as np

from vlib.core import SRC, Ctx, q_bigq, src_sha

MAXREP = 3
PRESETS = ["coarse", "medium", "fine", "veryfine", "ultrafine", "insane",
           "sg_0", "sg_1", "sg_2", "sg_3", "g1", "g2", "g3", "g4", "g5", "g6", "g7"]

EXPECTED_SIGS = {
    "__init__": (["self", "atnums", "atgrids", "aim_weights", "store"], []),
    "from_preset": (["cls", "atnums", "atcoords", "preset", "rgrid", "aim_weights", "rotate", "store"], []),
    "from_size": (["cls", "atnums", "atcoords", "size", "rgrid", "aim_weights", "rotate", "store"], []),
    "from_pruned": (["cls", "atnums", "atcoords", "radius", "r_sectors", "d_sectors"],
                    ["s_sectors", "rgrid", "aim_weights", "rotate", "store"]),
    "get_atomic_grid": (["self", "index"], []),
    "__getitem__": (["self", "index"], []),
}
EXPECTED_DEFAULTS = {  # name -> required python type of the default (None = must be None)
    "__init__": {"store": bool},
    "from_preset": {"rgrid": None, "aim_weights": None, "rotate": int, "store": bool},
    "from_size": {"rgrid": None, "aim_weights": None, "rotate": int, "store": bool},
    "from_pruned": {"d_sectors": int, "s_sectors": None, "rgrid": None, "aim_weights": None, "rotate": int, "store": bool},
    "get_atomic_grid": {},
    "__getitem__": {},
}


# ====================================================================== gen
def _sig(fn: ast.FunctionDef):
    a = fn.args
    if a.vararg or a.kwarg or a.posonlyargs:
        raise ValueError(f"unsupported signature of {fn.name}")
    pos = [x.arg for x in a.args]
    kwo = [x.arg for x in a.kwonlyargs]
    dfl = {}
    for name, d in zip(pos[len(pos) - len(a.defaults):], a.defaults):
        dfl[name] = d
    for name, d in zip(kwo, a.kw_defaults):
        if d is None:
            raise ValueError(f"keyword-only argument {name} of {fn.name} without default")
        dfl[name] = d
    out = {}
    for k, d in dfl.items():
        if not isinstance(d, ast.Constant):
            raise ValueError(f"default of {fn.name}.{k} is not a constant")
        out[k] = d.value
    return pos, kwo, out


# ---------------------------------------------------------------------- from_pruned: the d_sectors / s_sectors normalisation
SECVARS = ("d_sectors", "s_sectors")


def _is_none(n):
    return isinstance(n, ast.Constant) and n.value is None


def _tr_cond(t):
    """isinstance(X, (int, np.integer)) | X is None | X is not None"""
    if isinstance(t, ast.Call) and isinstance(t.func, ast.Name) and t.func.id == "isinstance" and len(t.args) == 2 and not t.keywords:
        x, ty = t.args
        if isinstance(x, ast.Name) and x.id in SECVARS and isinstance(ty, ast.Tuple) and len(ty.elts) == 2:
            a, b = ty.elts
            if isinstance(a, ast.Name) and a.id == "int" and isinstance(b, ast.Attribute) and b.attr == "integer" \
                    and isinstance(b.value, ast.Name) and b.value.id == "np":
                return ("isint", x.id)
    if isinstance(t, ast.Compare) and len(t.ops) == 1 and isinstance(t.left, ast.Name) and t.left.id in SECVARS and _is_none(t.comparators[0]):
        if isinstance(t.ops[0], ast.IsNot):
            return ("notnone", t.left.id)
        if isinstance(t.ops[0], ast.Is):
            return ("isnone", t.left.id)
    raise ValueError("from_pruned normalisation: unsupported condition " + ast.dump(t)[:200])


def _tr_expr(e, ints):
    """[X] * natoms | [None] * natoms | [[X] * (len(v) + 1) for v in r_sectors]   (X only where it is known to be an int)"""
    if isinstance(e, ast.BinOp) and isinstance(e.op, ast.Mult) and isinstance(e.left, ast.List) and len(e.left.elts) == 1 \
            and isinstance(e.right, ast.Name) and e.right.id == "natoms":
        x = e.left.elts[0]
        if _is_none(x):
            return ("rep_none",)
        if isinstance(x, ast.Name) and x.id in ints:
            return ("rep_self", x.id)
    if isinstance(e, ast.ListComp) and len(e.generators) == 1:
        g = e.generators[0]
        if isinstance(g.target, ast.Name) and isinstance(g.iter, ast.Name) and g.iter.id == "r_sectors" and not g.ifs and not g.is_async:
            v = g.target.id
            b = e.elt
            if isinstance(b, ast.BinOp) and isinstance(b.op, ast.Mult) and isinstance(b.left, ast.List) and len(b.left.elts) == 1 \
                    and isinstance(b.left.elts[0], ast.Name) and b.left.elts[0].id in ints and v not in SECVARS:
                r = b.right
                if isinstance(r, ast.BinOp) and isinstance(r.op, ast.Add) and isinstance(r.right, ast.Constant) and r.right.value == 1 \
                        and type(r.right.value) is int and isinstance(r.left, ast.Call) and isinstance(r.left.func, ast.Name) \
                        and r.left.func.id == "len" and len(r.left.args) == 1 and not r.left.keywords \
                        and isinstance(r.left.args[0], ast.Name) and r.left.args[0].id == v:
                    return ("per_sector", b.left.elts[0].id)
    raise ValueError("from_pruned normalisation: unsupported expression " + ast.dump(e)[:200])


def _tr_stmts(stmts, ints):
    out = []
    ints = set(ints)
    for st in stmts:
        if isinstance(st, ast.Assign) and len(st.targets) == 1 and isinstance(st.targets[0], ast.Name) and st.targets[0].id in SECVARS:
            out.append(("assign", st.targets[0].id, _tr_expr(st.value, ints)))
            ints.discard(st.targets[0].id)
        elif isinstance(st, ast.If):
            c = _tr_cond(st.test)
            then_ints = ints | ({c[1]} if c[0] == "isint" else set())
            out.append(("if", c, _tr_stmts(st.body, then_ints), _tr_stmts(st.orelse, ints)))
            ints = set()  # after a branch nothing is known any more
        else:
            raise ValueError("from_pruned normalisation: unsupported statement " + ast.dump(st)[:200])
    return out


def extract_norm(fn: ast.FunctionDef):
    """The statements of from_pruned between `natoms = len(atcoords)` and the first len(d_sectors) check."""
    body = fn.body
    start = end = None
    for i, st in enumerate(body):
        if isinstance(st, ast.Assign) and len(st.targets) == 1 and isinstance(st.targets[0], ast.Name) and st.targets[0].id == "natoms":
            v = st.value
            if not (isinstance(v, ast.Call) and isinstance(v.func, ast.Name) and v.func.id == "len" and len(v.args) == 1
                    and isinstance(v.args[0], ast.Name) and v.args[0].id == "atcoords"):
                raise ValueError("from_pruned: natoms is not len(atcoords)")
            start = i
        elif start is not None and isinstance(st, ast.If) and isinstance(st.test, ast.Compare) and isinstance(st.test.left, ast.Call) \
                and isinstance(st.test.left.func, ast.Name) and st.test.left.func.id == "len" \
                and isinstance(st.test.left.args[0], ast.Name) and st.test.left.args[0].id == "d_sectors" \
                and len(st.body) == 1 and isinstance(st.body[0], ast.Raise):
            end = i
            break
    if start is None or end is None:
        raise ValueError("from_pruned: normalisation block not found")
    for st in body[:start] + body[end:]:
        for sub in ast.walk(st):
            if isinstance(sub, (ast.Assign, ast.AugAssign, ast.AnnAssign)):
                tg = sub.targets if isinstance(sub, ast.Assign) else [sub.target]
                if any(isinstance(t, ast.Name) and t.id in SECVARS + ("natoms", "r_sectors") for t in tg) and st is not body[start]:
                    raise ValueError("from_pruned: d_sectors / s_sectors / natoms / r_sectors are assigned outside the normalisation block")
    return _tr_stmts(body[start + 1:end], set()), (body[start].lineno, body[end - 1].end_lineno if end > start + 1 else body[start].end_lineno)


def norm_to_coq(ir):
    def ex(e):
        if e[0] == "rep_none":
            return "ASeq (repeat SvNone natoms)"
        if e[0] == "rep_self":
            return f"ASeq (repeat (elem_of {e[1]}) natoms)"
        return f"ASeq (map (fun r_sec : list RV => SvList (repeat (int_of {e[1]}) (S (length r_sec)))) r_sectors)"

    def cond(c):
        return {"isint": f"is_int {c[1]}", "isnone": f"is_none {c[1]}", "notnone": f"negb (is_none {c[1]})"}[c[0]]

    def emit(stmts, ind):
        if not stmts:
            return "(d_sectors, s_sectors)"
        st, rest = stmts[0], stmts[1:]
        pad = "  " * ind
        if st[0] == "assign":
            return f"let {st[1]} := {ex(st[2])} in\n{pad}{emit(rest, ind)}"
        return (f"let '(d_sectors, s_sectors) :=\n{pad}  (if {cond(st[1])}\n{pad}   then {emit(st[2], ind + 3)}\n{pad}   else {emit(st[3], ind + 3)}) in\n"
                f"{pad}{emit(rest, ind)}")

    return ("Definition norm_sectors_gen {RV : Type} (natoms : nat) (r_sectors : list (list RV)) (d_sectors s_sectors : secarg)\n"
            "  : secarg * secarg :=\n  " + emit(ir, 1) + ".\n")


def norm_eval(ir, natoms, r_sectors, d, s):
    """Python evaluation of the same statements.  Values: ("int", z) | None | ("seq", [None | ("scalar", z) | ("list", [...])])."""
    env = {"d_sectors": d, "s_sectors": s}

    def cond(c):
        v = env[c[1]]
        if c[0] == "isint":
            return v is not None and v[0] == "int"
        return (v is None) == (c[0] == "isnone")

    def ex(e):
        if e[0] == "rep_none":
            return ("seq", [None] * natoms)
        z = env[e[1]][1]
        if e[0] == "rep_self":
            return ("seq", [("scalar", z)] * natoms)
        return ("seq", [("list", [z] * (len(r) + 1)) for r in r_sectors])

    def run_(stmts):
        for st in stmts:
            if st[0] == "assign":
                env[st[1]] = ex(st[2])
            else:
                run_(st[2] if cond(st[1]) else st[3])

    run_(ir)
    return env["d_sectors"], env["s_sectors"]


def norm_documented_py(natoms, r_sectors, d, s):
    d1 = ("seq", [("list", [d[1]] * (len(r) + 1)) for r in r_sectors]) if d is not None and d[0] == "int" else d
    if s is None:
        return d1, ("seq", [None] * natoms)
    if s[0] == "int":
        return ("seq", [None] * natoms), ("seq", [("list", [s[1]] * (len(r) + 1)) for r in r_sectors])
    return ("seq", [None] * natoms), s


def gen(ctx: Ctx):
    src = (SRC / "molgrid.py").read_text()
    tree = ast.parse(src)
    cls = [n for n in tree.body if isinstance(n, ast.ClassDef) and n.name == "MolGrid"]
    if len(cls) != 1:
        raise ValueError("class MolGrid not found in molgrid.py")
    units, defaults = [], {}
    seen = set()
    for n in cls[0].body:
        if isinstance(n, ast.FunctionDef) and n.name in EXPECTED_SIGS:
            seen.add(n.name)
            units.append({"unit": f"MolGrid.{n.name}", "file": "src/grid/molgrid.py",
                          "lines": [n.lineno, n.end_lineno], "sha": src_sha(ast.get_source_segment(src, n))})
            if n.name == "from_pruned":
                norm_ir, norm_lines = extract_norm(n)
                units.append({"unit": "MolGrid.from_pruned: d_sectors/s_sectors normalisation (translated)", "file": "src/grid/molgrid.py",
                              "lines": list(norm_lines), "sha": src_sha("\n".join(src.splitlines()[norm_lines[0] - 1:norm_lines[1]]))})
            pos, kwo, dfl = _sig(n)
            if (pos, kwo) != EXPECTED_SIGS[n.name]:
                raise ValueError(f"unsupported signature of MolGrid.{n.name}: {pos} * {kwo}")
            want = EXPECTED_DEFAULTS[n.name]
            if set(dfl) != set(want):
                raise ValueError(f"unsupported defaults of MolGrid.{n.name}: {sorted(dfl)}")
            for k, ty in want.items():
                v = dfl[k]
                if ty is None:
                    if v is not None:
                        raise ValueError(f"default of MolGrid.{n.name}.{k} is {v!r}, expected None")
                elif type(v) is not ty:
                    raise ValueError(f"default of MolGrid.{n.name}.{k} is {v!r}, expected a {ty.__name__}")
                defaults[(n.name, k)] = v
    if seen != set(EXPECTED_SIGS):
        raise ValueError(f"MolGrid methods not found: {sorted(set(EXPECTED_SIGS) - seen)}")
    fn = [n for n in tree.body if isinstance(n, ast.FunctionDef) and n.name == "_generate_default_rgrid"]
    if len(fn) != 1 or [x.arg for x in fn[0].args.args] != ["atnum"]:
        raise ValueError("_generate_default_rgrid(atnum) not found in molgrid.py")
    units.append({"unit": "_generate_default_rgrid", "file": "src/grid/molgrid.py",
                  "lines": [fn[0].lineno, fn[0].end_lineno], "sha": src_sha(ast.get_source_segment(src, fn[0]))})
    usrc = (SRC / "utils.py").read_text()
    table = None
    for n in ast.parse(usrc).body:
        if isinstance(n, ast.Assign) and len(n.targets) == 1 and isinstance(n.targets[0], ast.Name) \
                and n.targets[0].id == "_DEFAULT_POWER_RTRANSFORM_PARAMS":
            table = ast.literal_eval(n.value)
            units.append({"unit": "_DEFAULT_POWER_RTRANSFORM_PARAMS", "file": "src/grid/utils.py",
                          "lines": [n.lineno, n.end_lineno], "sha": src_sha(ast.get_source_segment(usrc, n))})
    if not isinstance(table, dict) or not table:
        raise ValueError("_DEFAULT_POWER_RTRANSFORM_PARAMS not found in utils.py")
    for k, v in table.items():
        if type(k) is not int or not (isinstance(v, tuple) and len(v) == 3 and type(v[0]) is float
                                      and type(v[1]) is float and type(v[2]) is int):
            raise ValueError(f"unsupported entry of _DEFAULT_POWER_RTRANSFORM_PARAMS: {k}: {v}")

    def b(x):
        return "true" if x else "false"

    rows = []
    for k in sorted(table):
        rmin, rmax, npt = table[k]
        rows.append(f"({k}, ({dp_tok(table[k])[0]}, {dp_tok(table[k])[1]}, {dp_tok(table[k])[2]}, {dp_tok(table[k])[3]}, {npt}))")
    text = "\n".join([
        "(* generated from /repo/src/grid/molgrid.py and utils.py on every run; do not edit *)",
        "From Coq Require Import ZArith List.",
        "From P Require Import C07_model.",
        "Import ListNotations.",
        "Open Scope Z_scope.",
        f"Definition default_store_init : bool := {b(defaults[('__init__', 'store')])}.",
        f"Definition default_store_preset : bool := {b(defaults[('from_preset', 'store')])}.",
        f"Definition default_store_size : bool := {b(defaults[('from_size', 'store')])}.",
        f"Definition default_store_pruned : bool := {b(defaults[('from_pruned', 'store')])}.",
        f"Definition default_rotate_preset : Z := {int(defaults[('from_preset', 'rotate')])}.",
        f"Definition default_rotate_size : Z := {int(defaults[('from_size', 'rotate')])}.",
        f"Definition default_rotate_pruned : Z := {int(defaults[('from_pruned', 'rotate')])}.",
        f"Definition default_dsectors_pruned : Z := {int(defaults[('from_pruned', 'd_sectors')])}.",
        "(* rmin = n/d, rmax = n/d (exact value of the float), npt *)",
        "Definition DPt : Type := (Z * Z * Z * Z * Z)%type.",
        "Definition default_table : list (Z * DPt) := [",
        ";\n".join("  " + r for r in rows),
        "].",
        "Definition default_params (a : Z) : option DPt := assoc a default_table.",
        "(* the statements of MolGrid.from_pruned that normalise d_sectors / s_sectors (ast translation) *)",
        norm_to_coq(norm_ir),
        "Definition from_pruned_fanout {RG CT RAD RV DP : Type} (dp : Z -> option DP) :=",
        "  @from_pruned_fanout_with RG CT RAD RV DP dp (@norm_sectors_gen RV).",
        "",
    ])
    ctx.gen("C07_gen.v", text, units)
    return defaults, table, norm_ir


def dp_tok(entry):
    rmin, rmax, npt = entry
    a, b = float(rmin).as_integer_ratio()
    c, d = float(rmax).as_integer_ratio()
    return [a, b, c, d, int(npt)]


def validate_gen(ctx: Ctx, defaults, table):
    """Translation validation of the extracted defaults / table against the imported objects."""
    import grid.molgrid as gm
    import grid.utils as gu

    ok = True
    for (meth, k), v in defaults.items():
        p = inspect.signature(getattr(gm.MolGrid, meth)).parameters[k].default
        if p is not v and p != v:
            ok = False
    if dict(gu._DEFAULT_POWER_RTRANSFORM_PARAMS) != table:
        ok = False
    if not ok:
        ctx.fail("gen_defaults", "gen:molgrid-defaults", None,
                 "extracted defaults / default radial grid table differ from the imported module's", found_input=False)


# ====================================================================== small helpers
def fr(x):
    return Fraction(float(x))


def exact_list(a):
    """Fractions of a float array (row lists for 2-D); None if a value is not finite."""
    a = np.asarray(a, dtype=float)
    if not np.all(np.isfinite(a)):
        return None
    if a.ndim == 1:
        return [Fraction(float(x)) for x in a]
    return [[Fraction(float(x)) for x in row] for row in a]


def ql(xs):
    return "[" + "; ".join(q_bigq(x) for x in xs) + "]"


def qll(rows):
    return "[" + "; ".join(ql(r) for r in rows) + "]"


def zi(n):
    n = int(n)
    return f"({n})" if n < 0 else str(n)


def zl(xs):
    return "[" + "; ".join(zi(x) for x in xs) + "]"


def nl(xs):
    return "[" + "; ".join(str(int(x)) for x in xs) + "]%nat"


def observe(fn):
    try:
        with warnings.catch_warnings():
            warnings.simplefilter("ignore")
            return ("ok", fn())
    except Exception as e:  # noqa: BLE001 - any exception is an observation
        return ("exc", f"{type(e).__name__}: {str(e)[:100]}")


def exc_name(val):
    return val.split(":")[0]


def run_bool_groups(ctx: Ctx, name, header, groups, timeout=900):
    """groups: list of (defs_text, [bool exprs]).  One Coq file per group, compiled in parallel.
    Returns the set of (group, index) that evaluate to false."""
    files = {}
    for k, (defs, cases) in enumerate(groups):
        if not cases:
            continue
        body = [header, defs, "Definition cases : list bool := ["]
        body.append(";\n".join("  (" + c + ")" for c in cases))
        body.append("].")
        body.append("Fixpoint bad_idx (i : nat) (l : list bool) : list nat := match l with nil => nil "
                    "| cons b t => if b then bad_idx (S i) t else cons i (bad_idx (S i) t) end.")
        body.append('Goal True. let r := eval vm_compute in (bad_idx O cases) in idtac "BADIDX" r. Abort.')
        files[f"{name}_{k}.v"] = "\n".join(body)
    res = ctx.coq_run_many(files, timeout=timeout)
    bad = set()
    for fname, (ok, out) in res.items():
        k = int(fname[len(name) + 1:-2])
        m = re.search(r"BADIDX\s*(.*)", out, flags=re.S)
        if not ok or not m:
            ctx.logs[fname] = out[-3000:]
            raise RuntimeError(f"correspondence case file {fname} did not evaluate: {out[-600:]}")
        for num in re.findall(r"\d+", m.group(1).split("\n\n")[0]):
            bad.add((k, int(num)))
    return bad


HEADER = """From Coq Require Import List Arith NArith ZArith Bool.
From Bignums Require Import BigQ.
From P Require Import C07_model C07_gen.
Import ListNotations.
Definition QOps : NumOps bigQ := MkOps bigQ 0%bigQ 1%bigQ BigQ.add BigQ.mul.
Fixpoint leqb {A} (e : A -> A -> bool) (a b : list A) : bool :=
  match a, b with [] , [] => true | x :: r, y :: s => e x y && leqb e r s | _, _ => false end.
Definition ql_eqb := leqb BigQ.eqb.
Definition pts_eqb := leqb ql_eqb.
Definition nl_eqb := leqb Nat.eqb.
Definition zl_eqb := leqb Z.eqb.
Definition zll_eqb := leqb zl_eqb.
Definition isnone {A} (x : option A) : bool := match x with None => true | Some _ => false end.
Definition getm (x : option (@molgrid bigQ)) : @molgrid bigQ :=
  match x with Some m => m | None => Mol [] [] [] [] [] [] None end.
Definition loc_eqb (x : option (@localgrid bigQ)) (p : list (list bigQ)) (w c : list bigQ) : bool :=
  match x with Some l => pts_eqb (lpts l) p && ql_eqb (lwts l) w && ql_eqb (lcen l) c | None => false end.
Definition stored_eqb (m : @molgrid bigQ) (store : bool) : bool :=
  match m_atgrids m, store with Some _, true => true | None, false => true | _, _ => false end.
Definition qlt (a b : bigQ) : bool := match BigQ.compare a b with Lt => true | _ => false end.
(* atom whose slice contains global position j *)
Definition atom_of (ind : list nat) (j : nat) : nat := length (filter (fun e => Nat.leb e j) (tl ind)).
Definition pow2tab : list bigQ :=
  [2%bigQ; 1%bigQ; BigQ.Qq 1%bigZ 2%bigN; BigQ.Qq 1%bigZ 4%bigN; BigQ.Qq 1%bigZ 8%bigN; BigQ.Qq 1%bigZ 16%bigN].
(* the two test callables; each uses points, atcoords, atnums and indices *)
Definition aim_pow2 : @aimfun bigQ := fun pts atc atn ind =>
  map (fun jp : nat * list bigQ => let (j, p) := jp in
        let k := atom_of ind j in
        let e := (k mod 3 + (if qlt (nth 0 (nth k atc []) 0%bigQ) (nth 0 p 0%bigQ) then 1 else 0)
                  + 2 * Z.to_nat (Z.modulo (nth k atn 0%Z) 2))%nat in
        let v := nth e pow2tab 0%bigQ in
        (* values outside [0, 1]: 2 is reached, and the sign follows the y coordinate *)
        if qlt (nth 1 (nth k atc []) 0%bigQ) (nth 1 p 0%bigQ) then BigQ.opp v else v) (combine (seq 0 (length pts)) pts).
Definition aim_dyadic : @aimfun bigQ := fun pts atc atn ind =>
  map (fun jp : nat * list bigQ => let (j, p) := jp in
        let k := atom_of ind j in
        let k1 := (S k mod length atc)%nat in
        let v := (1 + 2 * Z.of_nat k + nth k atn 0%Z
                  + (if qlt (nth 2 (nth k1 atc []) 0%bigQ) (nth 2 p 0%bigQ) then 4 else 0)
                  + Z.of_nat ((nth (S k) ind 0 - nth k ind 0)%nat))%Z in
        BigQ.mul (BigQ.Qz (BigZ.of_Z (v - 12))) (BigQ.Qq 1%bigZ 8%bigN)) (combine (seq 0 (length pts)) pts).
(* flattening of the fan-out calls to integer lists *)
Definition enc_rad (r : rad_choice Z DPt) : list Z :=
  match r with UseGiven g => [0; g]%Z | UseDefault a (n1, d1, n2, d2, npt) => [1; a; n1; d1; n2; d2; npt]%Z end.
Definition enc_sec (s : sec_val) : list Z :=
  match s with SvNone => [0]%Z | SvScalar z => [1; z]%Z | SvList l => (2 :: Z.of_nat (length l) :: l)%Z end.
Definition enc_preset (c : preset_call Z Z Z DPt) : list Z :=
  (pc_atnum c :: pc_preset c :: pc_center c :: pc_rotate c :: enc_rad (pc_rgrid c))%Z.
Definition enc_size (c : size_call Z Z DPt) : list Z :=
  (sc_center c :: sc_rotate c :: Z.of_nat (length (sc_sizes c)) :: sc_sizes c ++ enc_rad (sc_rgrid c))%Z.
Definition enc_pruned (c : pruned_call Z Z Z Z DPt) : list Z :=
  (qc_radius c :: qc_center c :: qc_rotate c :: Z.of_nat (length (qc_rsec c)) :: qc_rsec c
     ++ enc_sec (qc_dsec c) ++ enc_sec (qc_ssec c) ++ enc_rad (qc_rgrid c))%Z.
Definition fan_eqb {C} (enc : C -> list Z) (x : option (list C)) (e : option (list (list Z))) : bool :=
  match x, e with
  | Some l, Some r => zll_eqb (map enc l) r
  | None, None => true
  | _, _ => false
  end.
"""


# ====================================================================== test objects
RG_SPECS = [
    ([0.5, 1.0, 2.0], [0.25, 0.5, 1.0]),
    ([0.25, 1.0, 4.0, 8.0], [0.5, 0.5, 2.0, 4.0]),
    ([1.0, 2.0], [1.0, 1.0]),
    ([0.125, 0.5, 2.0], [0.125, 0.25, 1.0]),
    ([0.5, 1.5, 3.0, 6.0, 12.0], [0.5, 1.0, 2.0, 4.0, 8.0]),
]
_RG_CACHE = {}


def rgrid_pool():
    from grid.basegrid import OneDGrid

    if "pool" not in _RG_CACHE:
        _RG_CACHE["pool"] = [OneDGrid(np.array(p), np.array(w), (0, np.inf)) for p, w in RG_SPECS]
    return _RG_CACHE["pool"]


def get_rg(i):
    """Radial grid token -> object: pool index, or 100 + N for a deterministic N-point grid (geometric nodes)."""
    from grid.basegrid import OneDGrid

    i = int(i)
    if i < 100:
        return rgrid_pool()[i]
    if ("sized", i) not in _RG_CACHE:
        n = i - 100
        pts = np.array([0.015625 * 1.25 ** j for j in range(n)])
        _RG_CACHE[("sized", i)] = OneDGrid(pts, 0.25 * pts, (0, np.inf))
    return _RG_CACHE[("sized", i)]


def dyadic_cls():
    """AtomGrid subclass carrying given points/weights/centre (bypasses the angular-grid generator only)."""
    from grid.atomgrid import AtomGrid

    if "cls" not in _RG_CACHE:
        class DyadicAtomGrid(AtomGrid):
            def __init__(self, points, weights, center):  # noqa: D107
                self._center = np.asarray(center, dtype=float)
                self._points = np.asarray(points, dtype=float).reshape(-1, 3) - self._center
                self._weights = np.asarray(weights, dtype=float)
                self._kdtree = None
                self._rgrid = None
                self._rot = 0
                self._degs = []
                self._indices = np.array([0, len(self._weights)])
                self._basis = None
                self._method = "lebedev"

        _RG_CACHE["cls"] = DyadicAtomGrid
    return _RG_CACHE["cls"]


def build_atom(sp):
    from grid.atomgrid import AtomGrid

    if sp["kind"] == "dyadic":
        return dyadic_cls()(sp["points"], sp["weights"], sp["center"])
    rg = get_rg(sp["rg"])
    with warnings.catch_warnings():
        warnings.simplefilter("ignore")
        if "sizes" in sp:
            return AtomGrid(rg, None, sizes=sp["sizes"], center=np.array(sp["center"], float), rotate=sp["rotate"])
        return AtomGrid(rg, degrees=sp["degrees"], center=np.array(sp["center"], float), rotate=sp["rotate"])


def atom_of_py(indices, j):
    return int(np.searchsorted(np.asarray(indices), j, side="right")) - 1


def aim_pow2_py(points, atcoords, atnums, indices):
    out = np.zeros(len(points))
    for j in range(len(points)):
        k = atom_of_py(indices, j)
        e = k % 3 + (1 if points[j][0] > atcoords[k][0] else 0) + 2 * (int(atnums[k]) % 2)
        out[j] = 2.0 ** (1 - e) * (-1.0 if points[j][1] > atcoords[k][1] else 1.0)  # values in [-2, 2], not only [0, 1]
    return out


def aim_dyadic_py(points, atcoords, atnums, indices):
    out = np.zeros(len(points))
    n = len(atcoords)
    for j in range(len(points)):
        k = atom_of_py(indices, j)
        k1 = (k + 1) % n
        v = 1 + 2 * k + int(atnums[k]) + (4 if points[j][2] > atcoords[k1][2] else 0) + int(indices[k + 1] - indices[k])
        out[j] = (v - 12) / 8.0  # negative values and values above 1 occur
    return out


def build_aim(aim, size):
    if aim["type"] == "array":
        return np.array(aim["values"], dtype=float)
    if aim["type"] == "pow2":
        return aim_pow2_py
    if aim["type"] == "dyadic":
        return aim_dyadic_py
    if aim["type"] == "becke":
        from grid.becke import BeckeWeights

        return BeckeWeights(order=3)
    if aim["type"] == "bad_size":
        return np.ones(size + 1)
    if aim["type"] == "list":
        return [1.0] * size
    raise ValueError(aim["type"])


def coq_aim(aim, size):
    if aim["type"] == "array":
        return "(AimArray " + ql(Fraction(float(v)) for v in aim["values"]) + ")"
    if aim["type"] == "pow2":
        return "(AimCall aim_pow2)"
    if aim["type"] == "dyadic":
        return "(AimCall aim_dyadic)"
    if aim["type"] == "bad_size":
        return "(AimArray " + ql([Fraction(1)] * (size + 1)) + ")"
    if aim["type"] == "list":
        return "AimOther"
    raise ValueError(aim["type"])


# ---------------------------------------------------------------------- the property's own oracle
def oracle_aim(aim, pts, cens, atnums, ind):
    """Exact aim weights as the property reads them (independent of numpy)."""
    if aim["type"] == "array":
        return [Fraction(float(v)) for v in aim["values"]]
    out = []
    n = len(cens)
    for j, p in enumerate(pts):
        k = max(i for i in range(n) if ind[i] <= j)
        while ind[k + 1] <= j:  # pragma: no cover - empty atoms do not occur
            k += 1
        if aim["type"] == "pow2":
            e = k % 3 + (1 if p[0] > cens[k][0] else 0) + 2 * (atnums[k] % 2)
            out.append(Fraction(2, 2 ** e) * (-1 if p[1] > cens[k][1] else 1))
        else:
            v = 1 + 2 * k + atnums[k] + (4 if p[2] > cens[(k + 1) % n][2] else 0) + (ind[k + 1] - ind[k])
            out.append(Fraction(v - 12, 8))
    return out


def oracle_mol(atoms_obs, atnums, aim):
    """atoms_obs: list of (points, weights, centre) as Fractions.  Returns the expected observables."""
    pts, atw, ind, cens = [], [], [0], []
    for p, w, c in atoms_obs:
        pts += p
        atw += w
        ind.append(ind[-1] + len(w))
        cens.append(c)
    aw = oracle_aim(aim, pts, cens, atnums, ind)
    w = [a * b for a, b in zip(atw, aw)] if len(aw) == len(atw) else None
    return {"points": pts, "atweights": atw, "indices": ind, "atcoords": cens, "aim_weights": aw, "weights": w}


# ---------------------------------------------------------------------- random molecules
def rand_center(rng, used):
    while True:
        c = [rng.randint(-12, 12) / 4.0 for _ in range(3)]
        if all(max(abs(a - b) for a, b in zip(c, u)) >= 0.5 for u in used):
            used.append(c)
            return c


def rand_atom(rng, kind, used):
    c = rand_center(rng, used)
    if kind == "dyadic":
        n = rng.randint(1, 5)
        pts = [[c[i] + rng.randint(-8, 8) / 4.0 for i in range(3)] for _ in range(n)]
        wts = [rng.choice([-1.0, -0.125, 0.0, 0.125, 0.25, 0.5, 0.75, 1.0, 1.5, 2.0, 3.0, 4.0]) for _ in range(n)]
        return {"kind": "dyadic", "points": pts, "weights": wts, "center": c}
    rg = rng.randrange(len(RG_SPECS) - 1)  # the 5-point grid is kept for the fan-out tests
    nshell = len(RG_SPECS[rg][0])
    rot = rng.choice([0, 0, 5])
    form = rng.random()
    if form < 0.4:
        return {"kind": "real", "rg": rg, "degrees": [rng.choice([3, 5, 7])], "center": c, "rotate": rot}
    if form < 0.8:
        return {"kind": "real", "rg": rg, "degrees": [rng.choice([3, 5, 3, 7]) for _ in range(nshell)], "center": c, "rotate": rot}
    return {"kind": "real", "rg": rg, "sizes": [rng.choice([6, 14])], "center": c, "rotate": rot}


def make_mol_specs(ctx: Ctx):
    rng = ctx.rng
    mols = []
    # fixed molecule first (independent of the seed): used for the known per-atom-view finding
    mols.append({"tag": "canonical", "atnums": [1, 8], "atoms": [
        {"kind": "dyadic", "points": [[1.0, 0.0, 0.0], [-1.0, 0.0, 0.0]], "weights": [2.0, 3.0], "center": [0.0, 0.0, 0.0]},
        {"kind": "dyadic", "points": [[0.0, 0.0, 3.0], [0.0, 0.5, 2.0], [0.0, 0.0, 1.0]], "weights": [5.0, 1.5, 0.25], "center": [0.0, 0.0, 2.0]}],
        "aims": [{"type": "array", "values": [0.5, 0.25, 2.0, 0.75, 1.0]}, {"type": "dyadic"}]})
    reps = 2 if ctx.quick else 8
    for n in range(1, 6):
        for rep in range(reps):
            mode = ["dyadic", "real", "mixed"][(rep + n) % 3] if ctx.quick else rng.choice(["dyadic", "real", "mixed"])
            used = []
            atoms = []
            for i in range(n):
                kind = mode if mode != "mixed" else ("real" if (i + rep) % 2 == 0 else "dyadic")
                atoms.append(rand_atom(rng, kind, used))
            atnums = [rng.choice([1, 1, 6, 7, 8, 16, 26]) for _ in range(n)]
            mols.append({"tag": f"rnd{n}", "atnums": atnums, "atoms": atoms, "mode": mode})
    return mols


def finish_aims(rng, mol, size):
    """Aim-weight variants of a molecule (exact products guaranteed by construction)."""
    if "aims" in mol:
        return mol["aims"]
    all_dy = all(a["kind"] == "dyadic" for a in mol["atoms"])
    if all_dy:
        arr = [rng.randint(-8, 24) / 16.0 for _ in range(size)]
        return [{"type": "array", "values": arr}, {"type": "dyadic"}, {"type": "pow2"}]
    arr = [rng.choice([1.0, -1.0]) * 2.0 ** (-rng.randint(0, 5)) if rng.random() < 0.9 else 0.0 for _ in range(size)]
    return [{"type": "array", "values": arr}, {"type": "pow2"}]


def view_obs(g):
    """(points, weights, centre) of a returned per-atom grid as Fractions (None if not finite / wrong shape)."""
    p, w, c = np.asarray(g.points, float), np.asarray(g.weights, float), np.asarray(g.center, float)
    if p.ndim != 2 or p.shape[1] != 3 or w.ndim != 1 or c.shape != (3,):
        return None
    e = (exact_list(p), exact_list(w), exact_list(c))
    return None if any(x is None for x in e) else e


# ====================================================================== correspondence of __init__ and the views
def corr_init(ctx: Ctx, report):
    from grid.molgrid import MolGrid

    rng = ctx.rng
    mols = make_mol_specs(ctx)
    groups, metas = [], []
    known_getitem = []  # (mol, aim) where store=True __getitem__ returned the atomic weights

    for mi, mol in enumerate(mols):
        defs, cases, meta = [], [], []
        atnums = mol["atnums"]
        st, objs = observe(lambda: [build_atom(a) for a in mol["atoms"]])
        if st == "exc":
            raise RuntimeError(f"test atomic grid could not be built: {objs}")
        atoms_obs = []
        for k, g in enumerate(objs):
            vo = view_obs(g)
            if vo is None or len(vo[0]) != len(vo[1]) or g.size != len(vo[1]):
                raise RuntimeError("test atomic grid is not well-formed")
            atoms_obs.append(vo)
            defs.append(f"Definition g{k} : @atgrid bigQ := AtGrid {qll(vo[0])} {ql(vo[1])} {ql(vo[2])}.")
        n = len(objs)
        size = sum(len(v[1]) for v in atoms_obs)
        defs.append("Definition gs : list (@atgrid bigQ) := [" + "; ".join(f"g{k}" for k in range(n)) + "].")
        defs.append(f"Definition atn : list Z := {zl(atnums)}.")
        aims = finish_aims(rng, mol, size)
        all_dy = all(a["kind"] == "dyadic" for a in mol["atoms"])
        ctx.count(f"atoms={n}:{mol.get('mode', 'dyadic')}")
        variants = [(aim, store) for aim in aims for store in (False, True)]
        if mol["tag"] != "canonical":
            variants += [({"type": "bad_size"}, False), ({"type": "list"}, True)]
        for vi, (aim, store) in enumerate(variants):
            spec = {"atnums": atnums, "atoms": mol["atoms"], "aim": aim, "store": store}
            key0 = json.dumps(spec, separators=(",", ":"))
            name = f"M{vi}"
            sb = "true" if store else "false"
            defs.append(f"Definition {name}o := mol_init QOps atn gs {coq_aim(aim, size)} {sb}.")
            defs.append(f"Definition {name} := getm {name}o.")
            st, mg = observe(lambda: MolGrid(np.array(atnums), objs, build_aim(aim, size), store=store))
            ctx.case(("init", mi, vi))
            ctx.count(f"aim={aim['type']}")

            def add(expr, kind, **kw):
                cases.append(expr)
                meta.append(dict(kind=kind, spec=spec, key0=key0, **kw))

            if aim["type"] in ("bad_size", "list"):
                add(f"isnone {name}o", "reject")
                want = "ValueError" if aim["type"] == "bad_size" else "TypeError"
                if st != "exc" or exc_name(mg) != want:
                    report(size, "corr_init_rejects", f"init:{key0}", str(mg)[:60] if st == "exc" else "accepted",
                           f"MolGrid(...) with aim_weights of type {aim['type']} should raise {want}", {"spec": spec})
                continue
            if st == "exc":
                report(size, "corr_init", f"init:{key0}", mg, f"MolGrid(...) raised {mg} on valid arguments", {"spec": spec})
                add(f"isnone {name}o", "reject")
                continue
            add(f"negb (isnone {name}o) && stored_eqb {name} {sb}", "accept")
            exp = oracle_mol(atoms_obs, atnums, aim)
            # ---- arrays
            obs = {}
            for fld, getter in (("points", lambda: mg.points), ("weights", lambda: mg.weights), ("atweights", lambda: mg.atweights),
                                ("aim_weights", lambda: mg.aim_weights), ("atcoords", lambda: mg.atcoords)):
                s2, v = observe(getter)
                e = exact_list(v) if s2 == "ok" else None
                obs[fld] = e
                ctx.case(("arr", mi, vi, fld))
                if e is None:
                    report(size, f"corr_{fld}", f"{fld}:{key0}", str(v)[:80], f".{fld} is not a finite float array", {"spec": spec}, tag=(fld, key0))
                    continue
                two_d = fld in ("points", "atcoords")
                cfield = {"points": "m_points", "weights": "m_weights", "atweights": "m_atweights",
                          "aim_weights": "m_aim", "atcoords": "m_atcoords"}[fld]
                add(f"{'pts_eqb' if two_d else 'ql_eqb'} ({cfield} {name}) {qll(e) if two_d else ql(e)}", fld)
                if e != exp[fld]:
                    j = next((j for j in range(min(len(e), len(exp[fld]))) if e[j] != exp[fld][j]), min(len(e), len(exp[fld])))
                    ob = ({"points_concat": "points", "weights_product": "weights"}).get(fld, fld)
                    report(size, {"points": "points_concat", "atweights": "points_concat", "atcoords": "points_concat",
                                  "weights": "weights_product", "aim_weights": "weights_product"}[fld],
                           f"{fld}:{key0}", [j] + ([float(x) for x in (e[j] if two_d else [e[j]])] if j < len(e) else []),
                           f".{fld} differs from the property's value at position {j} "
                           f"(observed {str(e[j] if j < len(e) else None)[:60]}, expected {str(exp[fld][j] if j < len(exp[fld]) else None)[:60]})",
                           {"spec": spec, "position": j}, tag=(fld, key0))
            s2, v = observe(lambda: [int(x) for x in mg.indices])
            ctx.case(("arr", mi, vi, "indices"))
            if s2 == "ok" and all(x >= 0 for x in v):
                add(f"nl_eqb (m_indices {name}) {nl(v)}", "indices")
                if v != exp["indices"]:
                    report(size, "indices_delimit", f"indices:{key0}", v, f".indices = {v}, the atomic sizes give {exp['indices']}",
                           {"spec": spec, "expected": exp["indices"]}, tag=("indices", key0))
            else:
                report(size, "indices_delimit", f"indices:{key0}", str(v)[:80], ".indices is not a non-negative integer array", {"spec": spec}, tag=("indices", key0))
            s2, v = observe(lambda: int(mg.size))
            if s2 != "ok" or v != size:
                report(size, "points_concat", f"size:{key0}", str(v), f".size = {v}, the atomic grids have {size} points in total", {"spec": spec})
            # ---- stored list
            s2, v = observe(lambda: mg.atgrids)
            good = (v is None) if not store else (isinstance(v, list) and len(v) == n and all(a is b for a, b in zip(v, objs)))
            if s2 != "ok" or not good:
                report(size, "store_irrelevant", f"atgrids:{key0}", str(type(v).__name__), ".atgrids is not the given list (store=True) / None (store=False)", {"spec": spec})
            # ---- per-atom views
            for k in list(range(n)) + [-1, n]:
                ctx.case(("view", mi, vi, k), traces=2)
                s2, g = observe(lambda: mg.get_atomic_grid(k))
                okk = 0 <= k < n
                if not okk:
                    add(f"isnone (get_atomic_grid {name} {zi(k)})", "get_reject", k=k)
                    want = "ValueError" if k < 0 else "IndexError"
                    if s2 != "exc" or exc_name(g) != want:
                        report(size, "get_atomic_grid_spec", f"get_atomic_grid({k}):{key0}", str(g)[:60] if s2 == "exc" else "returned",
                               f"get_atomic_grid({k}) on {n} atoms should raise {want}", {"spec": spec, "index": k})
                else:
                    vo = view_obs(g) if s2 == "ok" else None
                    if vo is None:
                        report(size, "get_atomic_grid_spec", f"get_atomic_grid({k}):{key0}", str(g)[:60], f"get_atomic_grid({k}) failed: {str(g)[:60]}", {"spec": spec, "index": k})
                    else:
                        add(f"loc_eqb (get_atomic_grid {name} {zi(k)}) {qll(vo[0])} {ql(vo[1])} {ql(vo[2])}", "get", k=k)
                        if vo != atoms_obs[k]:
                            report(size, "get_atomic_grid_spec", f"get_atomic_grid({k}):{key0}", [float(x) for x in vo[1][:4]],
                                   f"get_atomic_grid({k}) (store={store}) is not atom {k}'s points / atomic weights / centre",
                                   {"spec": spec, "index": k}, tag=("get", key0, k))
                if k < 0:
                    continue
                s2, g = observe(lambda: mg[k])
                if not okk:
                    add(f"isnone (getitem {name} {k}%nat)", "getitem_reject", k=k)
                    if s2 != "exc" or exc_name(g) != "IndexError":
                        report(size, "getitem_spec", f"getitem({k}):{key0}", str(g)[:60] if s2 == "exc" else "returned",
                               f"molgrid[{k}] on {n} atoms should raise IndexError", {"spec": spec, "index": k})
                    continue
                vo = view_obs(g) if s2 == "ok" else None
                if vo is None:
                    report(size, "getitem_spec", f"getitem({k}):{key0}", str(g)[:60], f"molgrid[{k}] failed: {str(g)[:60]}", {"spec": spec, "index": k})
                    continue
                add(f"loc_eqb (getitem {name} {k}%nat) {qll(vo[0])} {ql(vo[1])} {ql(vo[2])}", "getitem", k=k)
                a, b = exp["indices"][k], exp["indices"][k + 1]
                want_view = (atoms_obs[k][0], exp["weights"][a:b], atoms_obs[k][2])
                if vo == want_view:
                    continue
                if store and vo == atoms_obs[k]:
                    known_getitem.append((mol["tag"], spec, k, [float(x) for x in vo[1]], [float(x) for x in want_view[1]]))
                    continue
                report(size, "getitem_spec", f"getitem({k}):{key0}", [float(x) for x in vo[1][:4]],
                       f"molgrid[{k}] (store={store}) is not atom {k}'s points / atomic weights x aim weights / centre",
                       {"spec": spec, "index": k}, tag=("getitem", key0, k))
            # ---- integrals
            for rep in range(2):
                ctx.case(("int", mi, vi, rep))
                if all_dy and exp["weights"] is not None:
                    vals = [rng.randint(-3, 3) for _ in range(size)]
                    tot = sum(w * v for w, v in zip(exp["weights"], vals))
                    # the decomposition: sum over atoms of the atomic-grid integral of w_A * f
                    dec = Fraction(0)
                    for kk in range(n):
                        a, b = exp["indices"][kk], exp["indices"][kk + 1]
                        dec += sum(wa * (wm * f) for wa, wm, f in zip(atoms_obs[kk][1], exp["aim_weights"][a:b], vals[a:b]))
                    if dec != tot:
                        raise RuntimeError("oracle inconsistency in the integral decomposition")
                    s2, v = observe(lambda: float(mg.integrate(np.array(vals, dtype=float))))
                    if s2 == "ok" and math.isfinite(v):
                        add(f"BigQ.eqb (mol_integrate QOps {name} {ql(Fraction(x) for x in vals)}) {q_bigq(Fraction(v))}", "integrate", vals=vals)
                    if s2 != "ok" or Fraction(v) != tot:
                        report(size, "integral_decomposes", f"integrate:{key0}:{vals}", str(v)[:40],
                               f"integrate(f) = {str(v)[:40]}, the sum over atoms of the atomic integrals of w_A*f is {float(tot)}",
                               {"spec": spec, "values": vals, "expected": float(tot)}, tag=("integrate", key0))
                elif exp["weights"] is not None:
                    vals = [rng.randint(-3, 3) / 2.0 for _ in range(size)]
                    tot = sum(w * fr(v) for w, v in zip(exp["weights"], vals))
                    mag = sum(abs(w * fr(v)) for w, v in zip(exp["weights"], vals))
                    s2, v = observe(lambda: float(mg.integrate(np.array(vals))))
                    if s2 != "ok" or not math.isfinite(v) or abs(Fraction(v) - tot) > Fraction(size + 4, 2 ** 52) * mag:
                        report(size, "integral_decomposes", f"integrate:{key0}:{vals}", str(v)[:40],
                               f"integrate(f) = {str(v)[:40]}, the sum over atoms of the atomic integrals of w_A*f is {float(tot)} (float tolerance)",
                               {"spec": spec, "values": vals, "expected": float(tot)})
            if len(ctx.samples) < 4 and vi == 0:
                ctx.sample({"atnums": atnums, "atoms": [a if a["kind"] == "real" else {"kind": "dyadic", "n": len(a["weights"])} for a in mol["atoms"]],
                            "aim": aim["type"], "store": store, "indices": exp["indices"]})
        groups.append(("\n".join(defs), cases))
        metas.append(meta)

    bad = run_bool_groups(ctx, "C07_init", HEADER, groups)
    return groups, metas, bad, known_getitem


# ====================================================================== fan-out: constructor vs by-hand
NORM_IR = {"ir": None}  # set by run() / replay(): the translated normalisation statements of from_pruned
TOK = 64  # radii / sector boundaries are multiples of 1/64; their tokens are the integers value*64


def fanout_py(cfg, table, defaults, documented=False):
    """The per-atom calls as the model's fan-out gives them (documented=True: as the docstring reads for the
    integer forms of d_sectors / s_sectors).  None = the constructor must raise."""
    kind = cfg["kind"]
    atnums, coords = cfg["atnums"], cfg["coords"]
    meth = {"size": "from_size", "preset": "from_preset", "pruned": "from_pruned"}[kind]
    rotate = defaults[(meth, "rotate")] if cfg["rotate"] is None else cfg["rotate"]

    def pick_rgrid(i, a):
        rg = cfg["rgrid"]
        if rg[0] == "one":
            return ("given", rg[1])
        if rg[0] == "list":
            return ("given", rg[1][i]) if i < len(rg[1]) else None
        if rg[0] == "dict":
            return ("given", rg[1][str(a)]) if str(a) in rg[1] else None
        if rg[0] == "none":
            return ("default", a) if a in table else None
        return None

    calls = []
    if kind == "size":
        for i in range(min(len(atnums), len(coords))):
            rad = pick_rgrid(i, atnums[i])
            if rad is None:
                return None
            calls.append({"rad": rad, "sizes": [cfg["size"]], "center": i, "rotate": rotate})
        return calls
    if len(atnums) != len(coords):
        return None
    n = len(coords)
    if kind == "preset":
        for i in range(n):
            a = atnums[i]
            rad = pick_rgrid(i, a)
            ps = cfg["preset"]
            if ps[0] == "one":
                p = ps[1]
            elif ps[0] == "list":
                p = ps[1][i] if i < len(ps[1]) else None
            else:
                p = ps[1].get(str(a))
            if rad is None or p is None:
                return None
            calls.append({"atnum": a, "preset": p, "rad": rad, "center": i, "rotate": rotate})
        return calls
    # pruned
    rsec = cfg["r_sectors"]
    d = cfg["d"] if cfg["d"][0] != "omit" else ["int", defaults[("from_pruned", "d_sectors")]]
    s = cfg["s"]
    d0 = ("int", d[1]) if d[0] == "int" else ("seq", [("list", l) for l in d[1]])
    s0 = None if s[0] == "none" else (("int", s[1]) if s[0] == "int" else ("seq", [("list", l) for l in s[1]]))
    # the normalisation statements of the current source (ast translation), or the documented meaning
    dn, sn = norm_documented_py(n, rsec, d0, s0) if documented else norm_eval(NORM_IR["ir"], n, rsec, d0, s0)
    if dn is None or sn is None or dn[0] != "seq" or sn[0] != "seq":
        return None  # len() of an int / None
    d2, s2 = dn[1], sn[1]
    if len(d2) != len(rsec) or len(s2) != len(rsec):
        return None
    rad_atom = [cfg["radius"][1]] * n if cfg["radius"][0] == "scalar" else cfg["radius"][1]
    for i in range(n):
        rad = pick_rgrid(i, atnums[i])
        if rad is None or i >= len(rad_atom) or i >= len(rsec) or i >= len(d2) or i >= len(s2):
            return None
        calls.append({"rad": rad, "radius": rad_atom[i], "rsec": rsec[i], "dsec": d2[i], "ssec": s2[i], "center": i, "rotate": rotate})
    return calls


def tokq(x):
    v = Fraction(float(x)) * TOK
    if v.denominator != 1:
        raise RuntimeError("test radius is not a multiple of 1/64")
    return int(v)


def enc_rad(rad, table):
    if rad[0] == "given":
        return [0, rad[1]]
    return [1, rad[1]] + dp_tok(table[rad[1]])


def enc_sec(s):
    if s is None:
        return [0]
    if s[0] == "scalar":
        return [1, s[1]]
    return [2, len(s[1])] + list(s[1])


def enc_calls(kind, calls, table):
    if calls is None:
        return "(None : option (list (list Z)))"
    rows = []
    for c in calls:
        if kind == "preset":
            rows.append([c["atnum"], PRESETS.index(c["preset"]), 100 + c["center"], int(c["rotate"])] + enc_rad(c["rad"], table))
        elif kind == "size":
            rows.append([100 + c["center"], int(c["rotate"]), len(c["sizes"])] + c["sizes"] + enc_rad(c["rad"], table))
        else:
            rows.append([tokq(c["radius"]), 100 + c["center"], int(c["rotate"]), len(c["rsec"])] + [tokq(x) for x in c["rsec"]]
                        + enc_sec(c["dsec"]) + enc_sec(c["ssec"]) + enc_rad(c["rad"], table))
    return "(Some (" + "[" + "; ".join(zl(r) for r in rows) + "] : list (list Z)))"


def coq_fanout(cfg, defaults):
    kind = cfg["kind"]
    meth = {"size": "from_size", "preset": "from_preset", "pruned": "from_pruned"}[kind]
    rot = f"default_rotate_{kind}" if cfg["rotate"] is None else zi(int(cfg["rotate"]))
    atn = f"({zl(cfg['atnums'])} : list Z)"
    cen = "(" + zl(100 + i for i in range(len(cfg["coords"]))) + " : list Z)"
    rg = cfg["rgrid"]
    if kind == "size":
        r = "(@None Z)" if rg[0] == "none" else f"(Some {zi(rg[1])})"
        return f"fan_eqb enc_size (from_size_fanout default_params {atn} {cen} {zi(cfg['size'])} {r} {rot})"
    if rg[0] == "none":
        r = "(@RgNone Z)"
    elif rg[0] == "one":
        r = f"(RgOne {zi(rg[1])})"
    elif rg[0] == "list":
        r = f"(RgList ({zl(rg[1])} : list Z))"
    else:
        r = "(RgDict ([" + "; ".join(f"({zi(k)}, {zi(v)})" for k, v in rg[1].items()) + "] : list (Z * Z)))"
    if kind == "preset":
        ps = cfg["preset"]
        if ps[0] == "one":
            p = f"(PsOne {PRESETS.index(ps[1])})"
        elif ps[0] == "list":
            p = f"(PsList ({zl(PRESETS.index(x) for x in ps[1])} : list Z))"
        else:
            p = "(PsDict ([" + "; ".join(f"({zi(k)}, {PRESETS.index(v)})" for k, v in ps[1].items()) + "] : list (Z * Z)))"
        return f"fan_eqb enc_preset (from_preset_fanout default_params {atn} {cen} {p} {r} {rot})"
    rad = cfg["radius"]
    ra = f"(RadScalar {zi(tokq(rad[1]))})" if rad[0] == "scalar" else f"(RadSeq ({zl(tokq(x) for x in rad[1])} : list Z))"
    rs = "([" + "; ".join(zl(tokq(x) for x in l) for l in cfg["r_sectors"]) + "] : list (list Z))"

    def ll(x):
        return "([" + "; ".join(zl(l) for l in x) + "] : list (list Z))"

    d = cfg["d"]
    dd = "(DsInt default_dsectors_pruned)" if d[0] == "omit" else (f"(DsInt {zi(d[1])})" if d[0] == "int" else f"(DsList {ll(d[1])})")
    s = cfg["s"]
    ss = "SsNone" if s[0] == "none" else (f"(SsInt {zi(s[1])})" if s[0] == "int" else f"(SsList {ll(s[1])})")
    return f"fan_eqb enc_pruned (from_pruned_fanout default_params {atn} {cen} {ra} {rs} {dd} {ss} {r} {rot})"


def default_rgrid_by_hand(entry):
    import scipy.constants

    from grid.onedgrid import UniformInteger
    from grid.rtransform import PowerRTransform

    rmin, rmax, npt = entry
    # Angstrom -> bohr exactly as molgrid.py writes it (left to right)
    rmin = rmin * scipy.constants.angstrom / scipy.constants.value("atomic unit of length")
    rmax = rmax * scipy.constants.angstrom / scipy.constants.value("atomic unit of length")
    return PowerRTransform(rmin, rmax).transform_1d_grid(UniformInteger(npt))


def build_calls(cfg, calls, table):
    """AtomGrid objects built by hand from the per-atom calls."""
    from grid.atomgrid import AtomGrid

    pool = rgrid_pool()
    atn = np.array(cfg["atnums"])
    coords = np.array(cfg["coords"], dtype=float)
    out = []
    for c in calls:
        rad = get_rg(c["rad"][1]) if c["rad"][0] == "given" else default_rgrid_by_hand(table[c["rad"][1]])
        cen = coords[c["center"]]
        if cfg["kind"] == "size":
            out.append(AtomGrid(rad, degrees=None, sizes=c["sizes"], center=cen, rotate=c["rotate"]))
        elif cfg["kind"] == "preset":
            out.append(AtomGrid.from_preset(atnum=atn[c["center"]], preset=c["preset"], rgrid=rad, center=cen, rotate=c["rotate"]))
        else:
            def sec(s):
                return None if s is None else (s[1] if s[0] == "list" else s[1])
            out.append(AtomGrid.from_pruned(rad, c["radius"], r_sectors=c["rsec"], d_sectors=sec(c["dsec"]),
                                            s_sectors=sec(c["ssec"]), center=cen, rotate=c["rotate"]))
    return out


def array_aim(size):
    return np.array([2.0 ** (-(j % 5)) for j in range(size)])


def aim_object(cfg, size):
    from grid.becke import BeckeWeights

    a = cfg["aim"]
    if a == "becke":  # ONE BeckeWeights object for the whole run: every use is a step of a history on that object
        if "becke" not in _RG_CACHE:
            _RG_CACHE["becke"] = BeckeWeights(order=3)
        return _RG_CACHE["becke"]
    if a == "none":
        return BeckeWeights(order=3)
    if a == "pow2":
        return aim_pow2_py
    return array_aim(size)


def call_ctor(cfg, size_hint):
    from grid.molgrid import MolGrid

    pool = rgrid_pool()
    atn = np.array(cfg["atnums"])
    coords = np.array(cfg["coords"], dtype=float)
    rg = cfg["rgrid"]
    if rg[0] == "none":
        rgrid = None
    elif rg[0] == "one":
        rgrid = get_rg(rg[1])
    elif rg[0] == "list":
        rgrid = [get_rg(i) for i in rg[1]]
    else:
        rgrid = {int(k): get_rg(v) for k, v in rg[1].items()}
    kw = {}
    if cfg["aim"] != "none":
        kw["aim_weights"] = aim_object(cfg, size_hint)
    if cfg["rotate"] is not None:
        kw["rotate"] = cfg["rotate"]
    if cfg["store"] is not None:
        kw["store"] = cfg["store"]
    if cfg["kind"] == "size":
        return MolGrid.from_size(atn, coords, cfg["size"], rgrid, **kw)
    if cfg["kind"] == "preset":
        ps = cfg["preset"]
        preset = ps[1] if ps[0] in ("one", "list") else {int(k): v for k, v in ps[1].items()}
        return MolGrid.from_preset(atn, coords, preset, rgrid, **kw)
    rad = cfg["radius"]
    radius = float(rad[1]) if rad[0] == "scalar" else (list(rad[1]) if rad[0] == "list" else np.array(rad[1], dtype=float))
    if cfg["d"][0] != "omit":
        kw["d_sectors"] = cfg["d"][1]
    if cfg["s"][0] != "none":
        kw["s_sectors"] = cfg["s"][1]
    return MolGrid.from_pruned(atn, coords, radius, cfg["r_sectors"], rgrid=rgrid, **kw)


def by_hand(cfg, calls, table, defaults):
    from grid.molgrid import MolGrid

    meth = {"size": "from_size", "preset": "from_preset", "pruned": "from_pruned"}[cfg["kind"]]
    atgrids = build_calls(cfg, calls, table)
    size = int(sum(g.size for g in atgrids))
    store = defaults[(meth, "store")] if cfg["store"] is None else cfg["store"]
    return MolGrid(np.array(cfg["atnums"]), atgrids, aim_object(cfg, size), store=store), size, store


def grid_diff(a, b, store):
    """First observable on which two molecular grids differ bitwise (None if none)."""
    for fld in ("points", "weights", "indices", "atweights", "aim_weights", "atcoords"):
        x, y = np.asarray(getattr(a, fld)), np.asarray(getattr(b, fld))
        if x.shape != y.shape:
            return f"{fld}: shape {x.shape} vs {y.shape}"
        if x.dtype != y.dtype or x.tobytes() != y.tobytes():
            j = int(np.argmax((x != y).reshape(len(x), -1).any(axis=1))) if len(x) else 0
            return f"{fld}[{j}]: {np.asarray(x[j]).tolist()} vs {np.asarray(y[j]).tolist()}"
    if (a.atgrids is None) != (not store):
        return f"atgrids: {'None' if a.atgrids is None else 'stored'} with store={store}"
    if store:
        if len(a.atgrids) != len(b.atgrids):
            return "atgrids: length"
        for k, (g, h) in enumerate(zip(a.atgrids, b.atgrids)):
            if g.points.tobytes() != h.points.tobytes() or g.weights.tobytes() != h.weights.tobytes() \
                    or list(g.degrees) != list(h.degrees) or g.rotate != h.rotate:
                return f"atgrids[{k}] differs"
    return None


def rand_coords(rng, n):
    out = []
    while len(out) < n:
        c = [rng.randint(-16, 16) / 4.0 for _ in range(3)]
        if all(math.dist(c, q) >= 1.0 for q in out):
            out.append(c)
    return out


def rand_rgrid_arg(rng, atnums, allow_none=True):
    n = len(atnums)
    npool = len(RG_SPECS)
    r = rng.random()
    if r < 0.25:
        return ["one", rng.randrange(npool)]
    if r < 0.55:
        ids = [rng.randrange(npool) for _ in range(n)]
        if n > 1 and len(set(ids)) == 1:
            ids[-1] = (ids[0] + 1) % npool
        return ["list", ids]
    if r < 0.9 or not allow_none:
        zs = sorted(set(atnums))
        ids = rng.sample(range(npool), len(zs)) if len(zs) <= npool else [rng.randrange(npool) for _ in zs]
        return ["dict", {str(z): i for z, i in zip(zs, ids)}]
    return ["none"]


def rand_sectors(rng, n, sizes=False):
    rs, ds = [], []
    for _ in range(n):
        k = rng.randint(0, 3)
        rs.append(sorted(rng.sample([0.25, 0.5, 1.0, 1.5, 2.0, 3.0, 5.0], k)))
        ds.append([rng.choice([6, 14, 26, 38, 50] if sizes else [1, 3, 5, 7, 9, 11, 4, 6]) for _ in range(k + 1)])
    return rs, ds


CANON_COORDS2 = [[0.0, 0.0, 0.0], [0.0, 0.0, 2.0]]
CANON_INT_D = {"kind": "pruned", "atnums": [1, 8], "coords": CANON_COORDS2, "rgrid": ["one", 0], "rotate": None, "store": None,
               "aim": "none", "radius": ["scalar", 1.0], "r_sectors": [[1.0], [1.0]], "d": ["omit"], "s": ["none"], "tag": "canon-int-d"}
CANON_INT_S = {"kind": "pruned", "atnums": [1, 8], "coords": CANON_COORDS2, "rgrid": ["one", 0], "rotate": None, "store": None,
               "aim": "none", "radius": ["scalar", 1.0], "r_sectors": [[1.0], [1.0]], "d": ["omit"], "s": ["int", 6], "tag": "canon-int-s"}


def make_ctor_cfgs(ctx: Ctx):
    rng = ctx.rng
    cfgs = [dict(CANON_INT_D), dict(CANON_INT_S),
            dict(CANON_INT_D, d=["int", 5], rotate=0, tag="int-d-explicit")]
    elems = [1, 1, 6, 7, 8, 8, 9, 16, 17]

    def common(n, none_ok=True):
        atn = [rng.choice(elems) for _ in range(n)]
        if n >= 3:
            atn[rng.randrange(1, n)] = atn[0]  # a repeated element: dict keys are shared
        return {"atnums": atn, "coords": rand_coords(rng, n),
                "rotate": rng.choice([None, None, 0, False, 1, 37, 12345, rng.randint(2, 10 ** 6)]),
                "store": rng.choice([None, False, True, True]), "aim": rng.choice(["none", "none", "becke", "pow2", "array"])}

    nrep = 10 if ctx.quick else 100
    for rep in range(nrep):
        n = 1 + rep % 5
        # ---- from_size
        c = common(n)
        c.update(kind="size", size=rng.choice([6, 14, 26, 10, 30]),
                 rgrid=["one", rng.randrange(len(RG_SPECS))] if (rng.random() < 0.8 or n > 3) else ["none"], tag="size")
        cfgs.append(c)
        # ---- from_preset
        c = common(n)
        small = ["coarse", "medium", "fine", "veryfine", "ultrafine", "insane"]
        pf = rng.random()
        if pf < 0.3:
            ps = ["one", rng.choice(small)]
        elif pf < 0.65:
            ps = ["list", [rng.choice(small) for _ in range(n)]]
            if n > 1 and len(set(ps[1])) == 1:
                ps[1][-1] = small[(small.index(ps[1][0]) + 1) % len(small)]
        else:
            zs = sorted(set(c["atnums"]))
            ps = ["dict", {str(z): p for z, p in zip(zs, rng.sample(small, len(zs)))}]
        c.update(kind="preset", preset=ps, rgrid=rand_rgrid_arg(rng, c["atnums"], allow_none=(n <= 2)), tag="preset")
        cfgs.append(c)
        # ---- from_pruned
        c = common(n)
        use_s = rng.random() < 0.4
        rs, ds = rand_sectors(rng, n, sizes=use_s)
        rf = rng.random()
        radius = ["scalar", rng.choice([0.5, 1.0, 1.25, 2.0])] if rf < 0.4 else \
            [("list" if rf < 0.7 else "array"), [rng.choice([0.5, 0.75, 1.0, 1.5, 2.0]) for _ in range(n)]]
        d = ["list", ds] if not use_s else rng.choice([["omit"], ["int", 7], ["list", rand_sectors(rng, n)[1]]])
        c.update(kind="pruned", radius=radius, r_sectors=rs, d=d, s=(["list", ds] if use_s else ["none"]),
                 rgrid=rand_rgrid_arg(rng, c["atnums"], allow_none=(n <= 2)), tag="pruned")
        cfgs.append(c)
    # ---- full product of argument forms on a molecule with a REPEATED element whose atoms get different per-atom values
    rep_atn = [8, 1, 1]
    rep_xyz = [[0.0, 0.0, 0.0], [1.75, 0.0, 0.5], [-0.5, 1.5, 0.0]]
    rg_forms = [["none"], ["one", 2], ["list", [0, 3, 2]], ["dict", {"8": 1, "1": 0}]]
    ps_forms = [["one", "medium"], ["list", ["fine", "coarse", "medium"]], ["dict", {"8": "coarse", "1": "medium"}]]
    aims = ["none", "pow2", "becke"]
    k = 0
    for rgf in rg_forms:
        for store in (None, False, True):
            for psf in ps_forms:
                k += 1
                cfgs.append({"kind": "preset", "atnums": rep_atn, "coords": rep_xyz, "rgrid": rgf, "preset": psf, "store": store,
                             "rotate": [None, 0, 11][k % 3], "aim": aims[k % 3], "tag": "forms-product"})
            for sform in ("d", "s"):
                k += 1
                rs = [[0.5, 1.0], [1.0], [0.25, 0.5, 2.0]]
                sec = [[3, 5, 7], [5, 3], [7, 3, 5, 3]] if sform == "d" else [[6, 14, 26], [14, 6], [26, 6, 14, 6]]
                cfgs.append({"kind": "pruned", "atnums": rep_atn, "coords": rep_xyz, "rgrid": rgf, "store": store, "rotate": [None, 0, 5][k % 3],
                             "aim": aims[k % 3], "radius": [["scalar", 1.0], ["list", [1.0, 0.5, 0.75]], ["array", [0.75, 1.0, 0.5]]][k % 3],
                             "r_sectors": rs, "d": ["list", sec] if sform == "d" else ["omit"], "s": ["none"] if sform == "d" else ["list", sec],
                             "tag": "forms-product"})
            if rgf[0] in ("none", "one"):
                k += 1
                cfgs.append({"kind": "size", "atnums": rep_atn, "coords": rep_xyz, "rgrid": rgf, "store": store, "rotate": [None, 0, 9][k % 3],
                             "aim": aims[k % 3], "size": [6, 14, 26][k % 3], "tag": "forms-product"})
    # ---- default radial grids (rgrid=None) for molecules of DIFFERENT elements, every constructor
    for n, atn in ((2, [8, 1]), (3, [1, 6, 1])):
        base = {"atnums": atn, "coords": rand_coords(rng, n), "rotate": 3 * n, "store": n == 3, "aim": "pow2", "rgrid": ["none"], "tag": "default-rgrid"}
        cfgs.append(dict(base, kind="size", size=6))
        cfgs.append(dict(base, kind="preset", preset=["one", "coarse"]))
        rs, ds = rand_sectors(rng, n)
        cfgs.append(dict(base, kind="pruned", radius=["scalar", 1.0], r_sectors=rs, d=["list", ds], s=["none"]))
    # ---- s_sectors together with every form of d_sectors (s_sectors wins), sizes that no degree list reproduces
    for n in (1, 3):
        rs, ss = rand_sectors(rng, n, sizes=True)
        base = {"kind": "pruned", "atnums": [8, 1, 1][:n], "coords": rand_coords(rng, n), "rotate": 2, "store": False, "aim": "pow2",
                "rgrid": ["one", 1], "radius": ["scalar", 1.0], "r_sectors": rs, "s": ["list", ss], "tag": "s-with-d"}
        cfgs.append(dict(base, d=["omit"]))
        cfgs.append(dict(base, d=["int", 3]))
        cfgs.append(dict(base, d=["list", rand_sectors(rng, n)[1]]))
    # ---- default (Becke) weights on 4..6 atoms: BeckeWeights.__call__ works in several chunks from 4 atoms on
    for n in (4, 5, 6):
        atn = [8, 1, 6, 1, 7, 1][:n]
        cfgs.append({"kind": "size", "atnums": atn, "coords": rand_coords(rng, n), "rotate": n, "store": n % 2 == 0, "aim": "none",
                     "size": [6, 14, 26][n - 4], "rgrid": ["one", [4, 1, 0][n - 4]], "tag": "becke-chunks"})
    # ---- dicts whose keys (atomic numbers) are also valid atom indices: index-vs-atomic-number confusion is silent
    conf_atn = [2, 3, 1, 4, 2]
    conf_xyz = [[0.0, 0.0, 0.0], [2.0, 0.0, 0.0], [0.0, 2.0, 0.0], [0.0, 0.0, 2.0], [2.0, 2.0, 0.0]]
    for n in (3, 5):
        base = {"atnums": conf_atn[:n], "coords": conf_xyz[:n], "rotate": 1 + n, "store": True, "aim": "pow2"}
        keys = sorted(set(conf_atn[:n]))
        rgd = ["dict", {str(z): (z + n) % len(RG_SPECS) for z in keys}]
        cfgs.append(dict(base, kind="preset", preset=["dict", {str(z): ["coarse", "medium", "fine", "veryfine", "ultrafine"][z] for z in keys}],
                         rgrid=["one", 2], tag="confusable-preset-dict"))
        cfgs.append(dict(base, kind="preset", preset=["one", "coarse"], rgrid=rgd, tag="confusable-rgrid-dict"))
        rs, ds = rand_sectors(rng, n)
        cfgs.append(dict(base, kind="pruned", radius=["list", [0.5 + 0.25 * i for i in range(n)]], r_sectors=rs, d=["list", ds], s=["none"],
                         rgrid=rgd, tag="confusable-rgrid-dict"))
    # ---- presets that prescribe the number of radial points (per-atom radial grids of exactly that size)
    from grid.atomgrid import _get_rgrid_size

    for pi, p in enumerate(["sg_0", "g2"] if ctx.quick else ["sg_0", "sg_2", "sg_3", "g1", "g2", "g3", "g4", "g5", "g6", "g7"]):
        atn = [[8, 1], [6, 1, 1], [7, 8, 1]][pi % 3]
        sizes = [int(x) for x in _get_rgrid_size(p, atn)]
        base = {"atnums": atn, "coords": rand_coords(rng, len(atn)), "rotate": [None, 0, 7][pi % 3], "store": [None, True][pi % 2],
                "aim": ["none", "pow2", "array"][pi % 3], "kind": "preset", "preset": ["one", p], "tag": "sized-preset"}
        if pi % 2 == 0:
            cfgs.append(dict(base, rgrid=["list", [100 + n for n in sizes]]))
        else:
            cfgs.append(dict(base, rgrid=["dict", {str(z): 100 + n for z, n in zip(atn, sizes)}]))
    # ---- argument combinations that must be rejected
    c = common(2)
    cfgs.append(dict(c, kind="preset", preset=["one", "coarse"], rgrid=["list", [0]], tag="reject-short-list"))
    cfgs.append(dict(c, kind="preset", preset=["dict", {"99": "coarse"}], rgrid=["one", 0], tag="reject-preset-key"))
    cfgs.append(dict(c, kind="preset", preset=["one", "coarse"], rgrid=["dict", {"99": 0}], tag="reject-rgrid-key"))
    cfgs.append(dict(c, kind="preset", preset=["one", "coarse"], rgrid=["one", 0], atnums=c["atnums"] + [1], tag="reject-lengths"))
    cfgs.append(dict(c, kind="size", size=6, rgrid=["none"], atnums=[1, 100], tag="reject-no-default"))
    rs, ds = rand_sectors(rng, 2)
    cfgs.append(dict(c, kind="pruned", radius=["scalar", 1.0], r_sectors=rs[:1], d=["list", ds], s=["none"], rgrid=["one", 1], tag="reject-sector-count"))
    cfgs.append(dict(c, kind="pruned", radius=["list", [1.0]], r_sectors=rs, d=["list", ds], s=["none"], rgrid=["one", 1], tag="reject-radius-count"))
    cfgs.append(dict(c, kind="pruned", radius=["scalar", 1.0], r_sectors=rs, d=["list", ds], s=["none"], rgrid=["one", 1], atnums=c["atnums"] + [1], tag="reject-lengths"))
    return cfgs


def cfg_key(cfg):
    return "ctor:" + json.dumps({k: v for k, v in cfg.items() if k != "tag"}, separators=(",", ":"), sort_keys=True)


def diff_ctor(ctx: Ctx, cfg, table, defaults, report, int_known):
    """Constructor vs by-hand for one configuration.  Returns the Coq case (model fan-out = the call list used)."""
    key = cfg_key(cfg)
    kind = cfg["kind"]
    ob = f"fanout_{kind}_differential"
    calls = fanout_py(cfg, table, defaults)
    ctx.case(("ctor", key))
    ctx.count(f"ctor={kind}:rgrid={cfg['rgrid'][0]}")
    ncoords = len(cfg["coords"])
    if calls is None:
        st, mg = observe(lambda: call_ctor(cfg, 0))
        if st != "exc":
            report(ncoords, ob, key, "accepted", f"MolGrid.from_{kind} accepts an argument combination for which the per-atom call list is undefined ({cfg['tag']})", {"cfg": cfg})
        doc = fanout_py(cfg, table, defaults, documented=True)
        if doc is not None:  # the documented integer s_sectors
            s2, ref = observe(lambda: by_hand(cfg, doc, table, defaults))
            if s2 == "ok" and st == "exc":
                int_known.append((cfg, exc_name(mg)))
        return f"{coq_fanout(cfg, defaults)} {enc_calls(kind, None, table)}"
    s1, ref = observe(lambda: by_hand(cfg, calls, table, defaults))
    size = ref[1] if s1 == "ok" else 0
    s2, mg = observe(lambda: call_ctor(cfg, size))
    if s1 == "exc" or s2 == "exc":
        if not (s1 == "exc" and s2 == "exc" and exc_name(ref) == exc_name(mg)):
            report(ncoords, ob, key, str(mg)[:60] if s2 == "exc" else "returned",
                   f"MolGrid.from_{kind}: constructor {'raised ' + str(mg)[:60] if s2 == 'exc' else 'returned a grid'}, "
                   f"building the atomic grids by hand with the fanned-out arguments {'raised ' + str(ref)[:60] if s1 == 'exc' else 'works'}", {"cfg": cfg})
        else:
            doc = fanout_py(cfg, table, defaults, documented=True)
            s3, _ = observe(lambda: by_hand(cfg, doc, table, defaults)) if doc is not None else ("exc", None)
            if s3 == "ok":
                int_known.append((cfg, exc_name(mg)))
            elif not cfg["tag"].startswith("reject"):
                report(ncoords, ob, key, str(mg)[:60], f"MolGrid.from_{kind} raised {str(mg)[:60]} on valid arguments ({cfg['tag']})", {"cfg": cfg})
    else:
        d = grid_diff(mg, ref[0], ref[2])
        if d is not None:
            report(ncoords, ob, key, d[:120],
                   f"MolGrid.from_{kind}(...) differs from MolGrid(atnums, [atomic grids built by hand with the same arguments], aim, store): {d[:160]}",
                   {"cfg": cfg, "calls": calls})
        if kind == "pruned":  # the translated normalisation may differ from the documented meaning of the arguments
            doc = fanout_py(cfg, table, defaults, documented=True)
            if doc is not None and doc != calls:
                s3, refdoc = observe(lambda: by_hand(cfg, doc, table, defaults))
                dd = grid_diff(mg, refdoc[0], refdoc[2]) if s3 == "ok" else None
                if dd is not None:
                    report(ncoords, "fanout_pruned_spec", key + ":documented", dd[:120],
                           "MolGrid.from_pruned(...) differs from MolGrid(atnums, [AtomGrid.from_pruned with the documented per-atom d_sectors / s_sectors "
                           f"(s_sectors used when given, an integer standing for every sector)], aim, store): {dd[:160]}", {"cfg": cfg, "calls": doc})
        if cfg["aim"] in ("none", "becke"):  # the default atom-in-molecule weights against an un-chunked reference
            for obl, what, obs, text in becke_problems(mg, cfg["atnums"]):
                report(ncoords, obl, f"{key}:{what}", obs, f"MolGrid.from_{kind} ({len(cfg['atnums'])} atoms, Becke weights): {text}", {"cfg": cfg})
    return f"{coq_fanout(cfg, defaults)} {enc_calls(kind, calls, table)}"


def corr_fanout(ctx: Ctx, table, defaults, report):
    cfgs = make_ctor_cfgs(ctx)
    cases, int_known = [], []
    for cfg in cfgs:
        cases.append(diff_ctor(ctx, cfg, table, defaults, report, int_known))
    # _generate_default_rgrid against the table (every element of the table, and elements outside it)
    import grid.molgrid as gm

    for z in sorted(table) + [0, 100, 119]:
        ctx.case(("default_rgrid", z))
        st, g = observe(lambda: gm._generate_default_rgrid(z))
        if z in table:
            ref = default_rgrid_by_hand(table[z])
            if st != "ok" or g.points.tobytes() != ref.points.tobytes() or g.weights.tobytes() != ref.weights.tobytes():
                report(0, "fanout_default_rgrid", f"default_rgrid:{z}", str(g)[:60] if st == "exc" else float(g.points[0]),
                       f"_generate_default_rgrid({z}) is not PowerRTransform(rmin, rmax)(UniformInteger(npt)) of the table entry {table[z]}", {"atnum": z})
        elif st != "exc" or exc_name(g) != "ValueError":
            report(0, "fanout_default_rgrid", f"default_rgrid:{z}", "returned" if st == "ok" else str(g)[:60],
                   f"_generate_default_rgrid({z}) should raise ValueError (no table entry)", {"atnum": z})
    bad = run_bool_groups(ctx, "C07_fan", HEADER, [("", cases)])
    for (_, i) in sorted(bad):
        report(0, "corr_model_fanout", "model:" + cfg_key(cfgs[i]), None,
               f"the model's fan-out differs from the per-atom call list used for the by-hand build ({cfgs[i]['tag']})", {"cfg": cfgs[i]}, found=False)
    return cfgs, int_known


# ====================================================================== independent Becke reference (default aim weights)
BECKE_TOL = 1e-10


def becke_reference(points, atcoords, atnums, indices, order=3):
    """w_A(r_j) for the atom A whose slice contains point j, straight from Becke's 1988 formulas (Bragg-Slater radii,
    a_AB clipped to +-0.45, f iterated `order` times), evaluated point by point on the WHOLE array at once
    (no chunking, no sector bookkeeping).  None if a radius is not tabulated."""
    from grid.utils import get_cov_radii

    points = np.asarray(points, dtype=float)
    atcoords = np.asarray(atcoords, dtype=float)
    rad = np.asarray(get_cov_radii(np.asarray(atnums), "bragg"), dtype=float)
    if not np.all(np.isfinite(rad)) or np.any(rad <= 0):
        return None
    m = len(atcoords)
    dist = np.sqrt(((points[None, :, :] - atcoords[:, None, :]) ** 2).sum(axis=2))  # (atoms, points)
    cell = np.ones((m, len(points)))
    for b in range(m):
        for c in range(m):
            if c == b:
                continue
            rbc = math.sqrt(sum((atcoords[b][i] - atcoords[c][i]) ** 2 for i in range(3)))
            mu = (dist[b] - dist[c]) / rbc
            u = (rad[b] - rad[c]) / (rad[b] + rad[c])
            a = u / (u * u - 1.0)
            a = max(-0.45, min(0.45, a))
            nu = mu + a * (1.0 - mu * mu)
            for _ in range(order):
                nu = 1.5 * nu - 0.5 * nu ** 3
            cell[b] *= 0.5 * (1.0 - nu)
    tot = cell.sum(axis=0)
    out = np.empty(len(points))
    for k in range(m):
        a0, b0 = int(indices[k]), int(indices[k + 1])
        out[a0:b0] = cell[k, a0:b0] / tot[a0:b0]
    return out


def becke_problems(mg, atnums, atom_weights=None):
    """Disagreements of a Becke-weighted molecular grid with the property: aim_weights[j] = w_A(points[j]) for the atom A
    of the slice, weights = atomic weights x aim weights (correctly rounded), integral = sum_A atomic integral of w_A f.
    Returns [(obligation, what, observed, text)]."""
    out = []
    pts, ind = np.asarray(mg.points), np.asarray(mg.indices)
    ref = becke_reference(pts, mg.atcoords, atnums, ind)
    if ref is None:
        return out
    aim = np.asarray(mg.aim_weights, dtype=float)
    if aim.shape != ref.shape:
        return [("weights_product", "aim_weights-shape", str(aim.shape), f".aim_weights has shape {aim.shape}, the grid has {len(ref)} points")]
    bad = np.where(~(np.abs(aim - ref) <= BECKE_TOL))[0]
    if len(bad):
        j = int(bad[0])
        k = int(np.searchsorted(ind, j, side="right")) - 1
        out.append(("weights_product", "becke-aim", [j, float(aim[j])],
                    f"aim_weights[{j}] = {aim[j]!r} at point {pts[j].tolist()} of atom {k}, but Becke's weight function of atom {k} there is "
                    f"{ref[j]!r} ({len(bad)} of {len(ref)} points differ by more than {BECKE_TOL})"))
    atw = np.asarray(mg.atweights, dtype=float)
    w = np.asarray(mg.weights, dtype=float)
    prod = atw * aim
    if w.shape != prod.shape or w.tobytes() != prod.tobytes():
        j = int(np.argmax(w != prod)) if w.shape == prod.shape else 0
        out.append(("weights_product", "becke-weights", [j, float(w[j]) if len(w) > j else 0.0],
                    f"weights[{j}] is not atweights[{j}] * aim_weights[{j}]"))
    # integral of a smooth function: sum over atoms of the atomic-grid integral of w_A * f with the reference w_A
    cen = np.asarray(mg.atcoords).mean(axis=0)
    f = np.exp(-0.3 * ((pts - cen) ** 2).sum(axis=1)) * (1.0 + 0.25 * pts[:, 0])
    got = float(mg.integrate(f))
    terms = atw * ref * f
    want = math.fsum(terms)
    mag = math.fsum(np.abs(terms))
    if not abs(got - want) <= 1e-11 * mag + 1e-300:
        out.append(("integral_decomposes", "becke-integral", got,
                    f"integrate(f) = {got!r}, the sum over atoms of the atomic-grid integrals of w_A*f (Becke's w_A) is {want!r}"))
    return out


def corr_becke(ctx: Ctx, report):
    """MolGrid(atnums, atgrids, BeckeWeights(order=3)) on 1..6 real atomic grids: concatenation exact, aim weights
    against the un-chunked reference, weights = correctly rounded product, integral = sum of the atomic integrals."""
    from grid.becke import BeckeWeights
    from grid.molgrid import MolGrid

    rng = ctx.rng
    nmol = 8 if ctx.quick else 40
    for it in range(nmol):
        n = [1, 2, 3, 4, 5, 6, 4, 5][it % 8]
        used = []
        atoms = [rand_atom(rng, "real", used) for _ in range(n)]
        atnums = [rng.choice([1, 1, 6, 7, 8, 9, 16]) for _ in range(n)]
        store = bool(it % 2)
        spec = {"atnums": atnums, "atoms": atoms, "aim": {"type": "becke"}, "store": store}
        key0 = json.dumps(spec, separators=(",", ":"))
        objs = [build_atom(a) for a in atoms]
        ctx.case(("becke", it))
        ctx.count(f"becke-atoms={n}")
        st, mg = observe(lambda: MolGrid(np.array(atnums), objs, BeckeWeights(order=3), store=store))
        if st == "exc":
            report(n, "corr_init", f"init:{key0}", mg, f"MolGrid(..., BeckeWeights(order=3)) raised {mg}", {"spec": spec})
            continue
        for obl, what, obs, text in becke_spec_problems(mg, objs, atnums):
            report(n, obl, f"{what}:{key0}", obs, f"MolGrid on {n} atomic grids with BeckeWeights(order=3), store={store}: {text}", {"spec": spec})


def becke_spec_problems(mg, objs, atnums):
    out = []
    pts = np.vstack([g.points for g in objs])
    atw = np.hstack([g.weights for g in objs])
    ind = np.concatenate([[0], np.cumsum([g.size for g in objs])])
    if np.asarray(mg.points).tobytes() != pts.tobytes():
        out.append(("points_concat", "points", None, ".points is not the concatenation of the atomic grids' points"))
    if np.asarray(mg.atweights).tobytes() != atw.tobytes():
        out.append(("points_concat", "atweights", None, ".atweights is not the concatenation of the atomic grids' weights"))
    if [int(x) for x in mg.indices] != [int(x) for x in ind]:
        out.append(("indices_delimit", "indices", [int(x) for x in mg.indices], f".indices = {list(mg.indices)}, the atomic sizes give {list(ind)}"))
    if out:
        return out
    return becke_problems(mg, atnums)


def corr_becke_history(ctx: Ctx, report):
    """ONE BeckeWeights object used for a sequence of molecules (geometry scans with the same elements, different element
    lists and sizes in between, all entry points): every grid is checked against the un-chunked reference."""
    from grid.atomgrid import AtomGrid
    from grid.becke import BeckeWeights
    from grid.molgrid import MolGrid

    rng = ctx.rng
    becke = BeckeWeights(order=3)
    steps = []
    tuples = [[6, 8], [1, 8, 1], [7], [1, 1, 1, 1], [6, 1, 1, 8, 1]] if ctx.quick else \
        [[6, 8], [1, 8, 1], [7], [1, 1, 1, 1], [6, 1, 1, 8, 1], [8, 8], [16, 1, 1], [9, 6, 7, 8], [1, 1], [6, 6, 6, 6, 6, 6]]
    for atn in tuples:
        geos = [rand_coords(rng, len(atn)) for _ in range(3)]
        geos.append([list(c) for c in geos[0]])  # back to the first geometry
        if len(atn) == 2:  # a bond-length scan
            geos = [[[0.0, 0.0, 0.0], [0.0, 0.0, d]] for d in (2.0, 5.0, 1.25, 2.0)]
        for gi, xyz in enumerate(geos):
            steps.append((atn, xyz, ["init", "size", "preset", "pruned"][(gi + len(atn)) % 4]))
    rng.shuffle(tuples)
    for atn in tuples[:3]:  # the same element lists again later in the history
        steps.append((atn, rand_coords(rng, len(atn)), "size"))
    hist = []
    for si, (atn, xyz, how) in enumerate(steps):
        a, c = np.array(atn), np.array(xyz, dtype=float)
        rg = get_rg(si % 4)
        hist.append({"atnums": atn, "coords": xyz, "via": how, "rgrid": si % 4})
        ctx.case(("becke-history", si))
        ctx.count(f"becke-history:{how}")

        def build():
            if how == "init":
                return MolGrid(a, [AtomGrid(rg, degrees=[5], center=c[i], rotate=0) for i in range(len(atn))], becke)
            if how == "size":
                return MolGrid.from_size(a, c, 14, rg, becke, rotate=si)
            if how == "preset":
                return MolGrid.from_preset(a, c, "coarse", rg, aim_weights=becke, rotate=0)
            return MolGrid.from_pruned(a, c, 1.0, [[1.0]] * len(atn), d_sectors=[[3, 5]] * len(atn), rgrid=rg, aim_weights=becke, rotate=0)

        st, mg = observe(build)
        key = "becke-history:" + json.dumps(hist, separators=(",", ":"))
        if st == "exc":
            report(len(hist), "corr_init", key, mg, f"step {si} of a history on one BeckeWeights object ({how}, atnums {atn}) raised {mg}", {"kind": "becke-history", "history": list(hist)})
            return
        probs = becke_problems(mg, atn)
        for obl, what, obs, text in probs:
            report(len(hist), obl, f"{key}:{what}", obs,
                   f"one BeckeWeights(order=3) object reused for {len(hist)} molecules; the last one (atnums {atn}, via {how}): {text}",
                   {"kind": "becke-history", "history": list(hist)})
        if probs:
            return  # the shortest failing history is enough


def replay_becke_history(hist):
    from grid.atomgrid import AtomGrid
    from grid.becke import BeckeWeights
    from grid.molgrid import MolGrid

    becke = BeckeWeights(order=3)
    probs = []
    for si, h in enumerate(hist):
        a, c, rg, how = np.array(h["atnums"]), np.array(h["coords"], dtype=float), get_rg(h["rgrid"]), h["via"]
        n = len(a)
        if how == "init":
            mg = MolGrid(a, [AtomGrid(rg, degrees=[5], center=c[i], rotate=0) for i in range(n)], becke)
        elif how == "size":
            mg = MolGrid.from_size(a, c, 14, rg, becke, rotate=si)
        elif how == "preset":
            mg = MolGrid.from_preset(a, c, "coarse", rg, aim_weights=becke, rotate=0)
        else:
            mg = MolGrid.from_pruned(a, c, 1.0, [[1.0]] * n, d_sectors=[[3, 5]] * n, rgrid=rg, aim_weights=becke, rotate=0)
        probs = becke_problems(mg, h["atnums"])
    return probs


# ====================================================================== end-to-end clause (partial: search only)
ALPHAS = [0.3 * 100 ** (i / 11) for i in range(12)]  # 0.3 .. 30, geometric
# fixed probes (independent of the seed): the worst inputs of a systematic scan of [Z, Z2] pairs at 1.2 .. 2.6 bohr;
# (preset, atnums, distance along x, index of the atom carrying the Gaussian, index into ALPHAS)
E2E_PROBES = [
    ("coarse", [55, 1], 1.4, 1, 7),
    ("medium", [38, 6], 1.2, 1, 10),
    ("fine", [55, 2], 1.2, 1, 8),
    ("veryfine", [55, 2], 1.2, 1, 8),
    ("ultrafine", [55, 2], 1.2, 1, 8),
    ("insane", [55, 1], 1.2, 1, 9),
    ("sg_1", [3, 2], 1.2, 1, 10),
]
E2E_TOL = 0.01


def gauss_errors(mg, coords, alphas):
    """|integral - 1| of each normalised Gaussian alone, and the relative error of their sum."""
    errs = []
    tot = np.zeros(mg.size)
    for c, a in zip(coords, alphas):
        f = (a / np.pi) ** 1.5 * np.exp(-a * ((mg.points - np.asarray(c)) ** 2).sum(axis=1))
        errs.append(abs(float(mg.integrate(f)) - 1.0))
        tot += f
    return errs, abs(float(mg.integrate(tot)) - len(coords)) / len(coords)


def rand_geometry(rng, n):
    pts = [[0.0, 0.0, 0.0]]
    while len(pts) < n:
        b = rng.choice(pts)
        d = rng.uniform(1.2, 4.0)
        v = [rng.gauss(0, 1) for _ in range(3)]
        nv = math.sqrt(sum(x * x for x in v))
        c = [round(b[i] + d * v[i] / nv, 6) for i in range(3)]
        if all(math.dist(c, q) >= 1.2 for q in pts):
            pts.append(c)
    return pts


def e2e(ctx: Ctx, table, report):
    from grid.molgrid import MolGrid

    rng = ctx.rng
    zs = sorted(table)
    # ---- which (preset, element) pairs can be built at all with the default radial grids
    ok = {}
    first_fail = {}
    for p in PRESETS:
        ok[p] = []
        for z in zs:
            st, mg = observe(lambda: MolGrid.from_preset(np.array([z]), np.zeros((1, 3)), p))
            ctx.case(("census", p, z))
            if st == "ok":
                ok[p].append(z)
            else:
                first_fail.setdefault(exc_name(mg), {}).setdefault(p, z)
    for en, d in sorted(first_fail.items()):
        fp = ",".join(f"{p}@{z}" for p, z in sorted(d.items()))
        p0, z0 = sorted(d.items())[0]
        ctx.fail("e2e_default_rgrid_partial", f"e2e:default-rgrid:{en}", fp,
                 f"MolGrid.from_preset(atnums, atcoords, preset) with the default radial grids (rgrid=None) raises {en} "
                 f"(preset@first atomic number: {fp}); e.g. MolGrid.from_preset(np.array([{z0}]), np.zeros((1,3)), '{p0}')",
                 {"kind": "e2e-census", "exception": en, "first_failing": d})
    ctx.cov["e2e_constructible"] = {p: len(v) for p, v in ok.items()}

    # ---- fixed probes
    thr = {p: E2E_TOL for p in PRESETS}
    for p, atn, dist, which, ai in E2E_PROBES:
        coords = [[0.0, 0.0, 0.0], [dist, 0.0, 0.0]]
        a = ALPHAS[ai]
        ctx.case(("probe", p))
        st, mg = observe(lambda: MolGrid.from_preset(np.array(atn), np.array(coords), p))
        if st != "ok":
            report(0, "e2e_gaussians_partial", f"e2e:probe-construct:{p}", str(mg)[:60], f"probe grid for preset {p} could not be built: {mg}", {"kind": "e2e", "preset": p, "atnums": atn, "coords": coords})
            continue
        err = gauss_errors(mg, [coords[which]], [a])[0][0]
        if err > E2E_TOL:
            thr[p] = 1.5 * err
            ctx.fail("e2e_gaussians_partial", f"e2e:probe:{p}:atnums={atn}:d={dist}:centre={which}:alpha={a:.6g}", round(err, 6),
                     f"MolGrid.from_preset({atn}, [[0,0,0],[{dist},0,0]], '{p}') integrates the normalised Gaussian exp(-{a:.5g} r^2) "
                     f"centred on atom {which} to 1 {'+' if err > 0 else ''}/- {err:.4f} (more than 1 %)",
                     {"kind": "e2e", "preset": p, "atnums": atn, "coords": coords, "alphas": [a], "centres": [which], "error": err})
    ctx.cov["e2e_thresholds"] = {p: round(t, 5) for p, t in thr.items() if t > E2E_TOL}

    same_class = {}

    def check(p, atn, coords, alphas, tag):
        ctx.case(("e2e", tag, p, tuple(atn), json.dumps(coords), tuple(alphas)))
        ctx.count(f"e2e={p}")
        st, mg = observe(lambda: MolGrid.from_preset(np.array(atn), np.array(coords, dtype=float), p))
        if st != "ok":
            report(len(atn), "e2e_gaussians_partial", f"e2e:construct:{p}:{atn}:{coords}", str(mg)[:60],
                   f"MolGrid.from_preset({atn}, ..., '{p}') raised {mg} although each element can be built on its own",
                   {"kind": "e2e", "preset": p, "atnums": atn, "coords": coords})
            return
        errs, tot = gauss_errors(mg, coords, alphas)
        worst = max(errs + [tot])
        if worst > thr[p]:
            i = int(np.argmax(errs))
            report(len(atn), "e2e_gaussians_partial", f"e2e:{p}:{atn}:{coords}:{[round(a, 6) for a in alphas]}", round(worst, 6),
                   f"preset '{p}', atoms {atn}: Gaussian exp(-{alphas[i]:.5g} r^2) on atom {i} integrates to 1 +/- {errs[i]:.4f}; "
                   f"sum of all Gaussians off by {tot:.4f} relative (limit 1 %; known limit of this preset {thr[p]:.4f})",
                   {"kind": "e2e", "preset": p, "atnums": atn, "coords": coords, "alphas": alphas, "centres": list(range(len(atn))), "error": worst})
        elif worst > E2E_TOL:
            same_class[p] = same_class.get(p, 0) + 1

    usable = [p for p in PRESETS if ok[p]]
    # ---- systematic scan (thorough)
    if not ctx.quick:
        for p in usable:
            for z in ok[p]:
                geos = [([z], [[0.0, 0.0, 0.0]]), ([z, z], [[0.0, 0.0, 0.0], [0.0, 0.0, 1.2]])]
                if 1 in ok[p]:
                    geos.append(([z, 1], [[0.0, 0.0, 0.0], [1.2, 0.0, 0.0]]))
                for atn, coords in geos:
                    st, mg = observe(lambda: MolGrid.from_preset(np.array(atn), np.array(coords), p))
                    if st != "ok":
                        report(len(atn), "e2e_gaussians_partial", f"e2e:construct:{p}:{atn}:{coords}", str(mg)[:60],
                               f"MolGrid.from_preset({atn}, ..., '{p}') raised {mg}", {"kind": "e2e", "preset": p, "atnums": atn, "coords": coords})
                        continue
                    r2 = [((mg.points - np.asarray(c)) ** 2).sum(axis=1) for c in coords]
                    for a in ALPHAS:
                        for w in range(len(coords)):
                            ctx.case(("scan", p, tuple(atn), w, a))
                            err = abs(float(mg.integrate((a / np.pi) ** 1.5 * np.exp(-a * r2[w]))) - 1.0)
                            if err > thr[p]:
                                report(len(atn), "e2e_gaussians_partial", f"e2e:{p}:{atn}:{coords}:centre={w}:alpha={a:.6g}", round(err, 6),
                                       f"preset '{p}', atoms {atn} at {coords}: Gaussian exp(-{a:.5g} r^2) on atom {w} integrates to 1 +/- {err:.4f}",
                                       {"kind": "e2e", "preset": p, "atnums": atn, "coords": coords, "alphas": [a], "centres": [w], "error": err})
                            elif err > E2E_TOL:
                                same_class[p] = same_class.get(p, 0) + 1
    # ---- seeded random molecules
    ncase = 10 if ctx.quick else 500
    for it in range(ncase):
        p = usable[it % len(usable)] if not ctx.quick else rng.choice(usable[:4])
        n = rng.randint(1, 5)
        light = [z for z in ok[p] if z <= 18]
        atn = [rng.choice(ok[p]) if rng.random() < 0.5 or not light else rng.choice(light) for _ in range(n)]
        coords = rand_geometry(rng, n)
        alphas = [math.exp(rng.uniform(math.log(0.3), math.log(30.0))) if rng.random() < 0.7 else rng.choice([0.3, 30.0]) for _ in range(n)]
        check(p, atn, coords, alphas, "rnd")
    if same_class:
        ctx.notes.append("end-to-end sweep: inputs above 1 % but below 1.5 x the re-derived probe error of the same preset are counted "
                         "under that preset's known finding: " + json.dumps(same_class))


# ====================================================================== run
KEY_GETITEM = ("MolGrid([1,8],[A,B],aim_weights=[0.5,0.25,2,0.75,1],store=True)[1].weights; "
               "A=(points [[1,0,0],[-1,0,0]], weights [2,3], centre [0,0,0]); "
               "B=(points [[0,0,3],[0,0.5,2],[0,0,1]], weights [5,1.5,0.25], centre [0,0,2])")
KEY_INT_D = ("MolGrid.from_pruned(np.array([1,8]), np.array([[0,0,0],[0,0,2.]]), 1.0, [[1.0],[1.0]], "
             "rgrid=OneDGrid([0.5,1,2],[0.25,0.5,1],(0,inf)))  # d_sectors left at its default 50")
KEY_INT_S = ("MolGrid.from_pruned(np.array([1,8]), np.array([[0,0,0],[0,0,2.]]), 1.0, [[1.0],[1.0]], s_sectors=6, "
             "rgrid=OneDGrid([0.5,1,2],[0.25,0.5,1],(0,inf)))")


def run(ctx: Ctx):
    defaults, table, norm_ir = gen(ctx)
    NORM_IR["ir"] = norm_ir
    validate_gen(ctx, defaults, table)
    ctx.copy_coq("C07")
    status = ctx.coq_build()
    ctx.register_props(status)
    # fanout_pruned_spec (C07_props_pruned.v) holds of the normalisation statements of the current source, or
    # C07_refuted_pruned.v proves its negation for them
    spec_ok = bool(status.get("C07_props_pruned.v"))
    refuted_ok = bool(status.get("C07_refuted_pruned.v"))
    if not spec_ok and refuted_ok:
        ctx.mark_refuted("fanout_pruned_spec", "fanout_pruned_spec_refuted_lemma")
    ctx.cov["from_pruned_integer_sectors"] = ("documented meaning (fanout_pruned_spec proved)" if spec_ok else
                                              "refuted (C07_refuted_pruned.v compiles)" if refuted_ok else "undecided: neither file compiles")
    if not status.get("C07_model.v", False) or not status.get("C07_gen.v", False):
        raise RuntimeError("C07 model does not compile: " + (ctx.logs.get("C07_model.v", "") + ctx.logs.get("C07_gen.v", ""))[-400:])

    pending, tags = [], set()

    def report(size, obligation, key, observed, text, replay, found=True, tag=None):
        pending.append((size, obligation, key, observed, text, replay, found))
        if tag is not None:
            tags.add(tag)

    # ---------------------------------------------------------------- (1) __init__, views, integrals vs the model
    groups, metas, bad, known_getitem = corr_init(ctx, report)
    for (g, i) in sorted(bad):
        m = metas[g][i]
        kind, key0 = m["kind"], m["key0"]
        tag = {"get": ("get", key0, m.get("k")), "getitem": ("getitem", key0, m.get("k")), "integrate": ("integrate", key0)}.get(kind, (kind, key0))
        if tag in tags:
            continue  # already refuted on the implementation by the oracle
        report(len(m["spec"]["atoms"]), "corr_model_" + kind, f"model:{kind}:{m.get('k', '')}:{key0}", None,
               f"model and implementation disagree on {kind}" + (f"({m['k']})" if "k" in m else "") +
               " although the implementation matches the property's oracle", {"spec": m["spec"]}, found=False)
    canon = [x for x in known_getitem if x[0] == "canonical" and x[1]["aim"]["type"] == "array" and x[2] == 1]
    if canon:
        _, spec, k, obs, want = canon[0]
        ctx.fail("getitem_spec", KEY_GETITEM, obs,
                 f"MolGrid.__getitem__ depends on `store`: with store=True molgrid[{k}].weights are the atomic weights {obs}, with store=False "
                 f"(and by its docstring) the atomic weights times the atom-in-molecule weights {want}",
                 {"kind": "getitem", "spec": spec, "index": k, "expected": want})
    elif known_getitem:
        _, spec, k, obs, want = known_getitem[0]
        report(0, "getitem_spec", f"getitem({k}):" + json.dumps(spec, separators=(",", ":")), obs,
               f"molgrid[{k}] with store=True returns the atomic weights {obs[:4]}, not atomic x aim weights {want[:4]}", {"kind": "getitem", "spec": spec, "index": k})
    ctx.cov["getitem_store_true_atomic_weights_observations"] = len(known_getitem)

    corr_becke(ctx, report)
    corr_becke_history(ctx, report)

    # ---------------------------------------------------------------- (2) constructors vs by-hand
    cfgs, int_known = corr_fanout(ctx, table, defaults, report)
    seen_d = seen_s = False
    for cfg, en in int_known:
        if cfg["tag"] == "canon-int-d":
            seen_d = True
            ctx.fail("fanout_pruned_spec", KEY_INT_D, en,
                     f"MolGrid.from_pruned with the documented integer d_sectors (its default 50 here) raises {en}: every atom is handed the bare "
                     "number, which AtomGrid.from_pruned does not take; building the atomic grids by hand with d_sectors=[50]*(len(r_sectors[i])+1) works",
                     {"kind": "ctor", "cfg": cfg})
        elif cfg["tag"] == "canon-int-s":
            seen_s = True
            ctx.fail("fanout_pruned_spec", KEY_INT_S, en,
                     f"MolGrid.from_pruned with the documented integer s_sectors raises {en} (len() of an int); building the atomic grids by hand "
                     "with s_sectors=[6]*(len(r_sectors[i])+1) works", {"kind": "ctor", "cfg": cfg})
    for cfg, en in int_known:
        is_s = cfg["s"][0] == "int"
        if cfg["tag"].startswith("canon") or (is_s and seen_s) or (not is_s and seen_d):
            continue  # same defect as the canonical input
        report(len(cfg["coords"]), "fanout_pruned_spec", cfg_key(cfg), en,
               f"MolGrid.from_pruned with an integer {'s' if is_s else 'd'}_sectors raises {en}; the documented by-hand build works", {"kind": "ctor", "cfg": cfg})
    ctx.cov["pruned_integer_sector_observations"] = len(int_known)

    # ---------------------------------------------------------------- (3) end-to-end sweep
    e2e(ctx, table, report)

    # ---------------------------------------------------------------- report (smallest inputs first, capped per kind)
    per = {}
    for size, ob, key, obs, text, rp, found in sorted(pending, key=lambda t: (t[0], len(str(t[2])))):
        per[ob] = per.get(ob, 0) + 1
        if per[ob] <= MAXREP:
            ctx.fail(ob, key, obs, text, rp, found_input=found)
    if pending:
        ctx.notes.append(f"{len(pending)} disagreements in total; at most {MAXREP} reported per kind: " + json.dumps(per))

    ctx.cov["rule"] = (
        "(1) 1..5 atoms; atomic grids are real AtomGrid objects (power-of-two radial grids with 2-4 nodes, Lebedev degrees 3/5/7 or sizes 6/14, "
        "single degree or per-shell lists, rotate 0/5) and AtomGrid subclasses carrying 1-5 dyadic points/weights (negative and zero weights); aim weights: "
        "array (signed powers of two for real grids so that every float product is exact, k/16 for dyadic grids), two callables using all four "
        "arguments whose values leave [0, 1] on both sides (negative, above 1), a wrong-size array, a non-array; store on/off; every observable (points, weights, atweights, aim_weights, atcoords, indices, "
        "get_atomic_grid(k) and [k] for every k, -1 and natoms, exact integrals on dyadic grids) is compared inside Coq with the model at bigQ and "
        "in Python with an exact-Fraction oracle.  (2) from_size/from_preset/from_pruned with OneDGrid/list/dict/None radial grids, str/list/dict "
        "presets, d_sectors vs s_sectors, scalar/list/array radius, rotate in {default, 0, False, 1, 37, random}, store in {default, False, True}, "
        "aim in {default, BeckeWeights(3), callable, array}: the model's fan-out (equality checked in Coq) drives a by-hand build; bitwise equality. "
        "(2b) default Becke weights: MolGrid on 1..6 real atomic grids and the Becke-weighted constructor configurations (incl. fixed 4/5/6-atom ones, "
        "where BeckeWeights.__call__ works in several chunks) against an independent un-chunked point-by-point reference (1e-10), weights = product, "
        "integral = sum of atomic integrals of w_A f (1e-11 relative); histories on ONE BeckeWeights object (geometry scans with the same element list, "
        "other element lists in between, all four entry points; the explicit-Becke constructor configurations also share one object).  "
        "(2c) full product of argument forms (rgrid none/one/list/dict x preset str/list/dict or d/s sector lists x store default/False/True) on a "
        "molecule with a repeated element whose atoms get different per-atom values.  (3) end-to-end: census of (preset, element) constructibility with default radial grids, fixed probes, systematic scan (thorough) and "
        "seeded random molecules.  distinct = (molecule, aim, store, observable) / configuration / (preset, molecule, exponents)")
    ctx.cov["molecules"] = len(groups)
    ctx.cov["coq_cases_init"] = sum(len(c) for _, c in groups)
    ctx.cov["ctor_configs"] = len(cfgs)
    ctx.trusted += [
        "hand model coq/C07/C07_model.v of MolGrid.__init__/get_atomic_grid/__getitem__/integrate and of the constructors' fan-out, tied by exact "
        "bigQ correspondence and by the constructor-vs-by-hand differential on every run",
        "an atomic grid is what MolGrid reads of it (.points, .weights, .center, .size); hypothesis wf_atgrid: len(points) == len(weights) (true of "
        "every AtomGrid); NumPy slice assignment a[s:e] = v with len(v) == e - s replaces exactly that range",
        "independent float64 re-implementation of Becke's 1988 weight function (Bragg-Slater radii read from grid.utils.get_cov_radii) as the reference "
        "for the default aim weights, tolerance 1e-10",
        "the aim-weight callable, BeckeWeights(order=3), AtomGrid(...), AtomGrid.from_preset, AtomGrid.from_pruned are Section variables (black boxes)",
        "numpy float multiplication is exact when one factor is a signed power of two / on the small dyadics used; np.einsum order is irrelevant in exact arithmetic",
        "ast extraction of the constructor signatures/defaults and of _DEFAULT_POWER_RTRANSFORM_PARAMS (fail closed; validated against the imported module)",
        "ast translator of the d_sectors/s_sectors normalisation block of from_pruned (subset: if isinstance(x,(int,np.integer)) / x is [not] None; "
        "x = [x]*natoms, [None]*natoms, [[x]*(len(v)+1) for v in r_sectors]; fail closed), to Coq (norm_sectors_gen) and to a Python evaluator; both "
        "are validated by the Coq fan-out equality cases and by the constructor-vs-by-hand differential",
        "end-to-end clause: float64 quadrature, tolerance 1 % as stated in the property; inputs between 1 % and 1.5 x the re-derived probe error of a preset "
        "with a known finding are attributed to that finding",
    ]
    ctx.assumptions += [
        "exact arithmetic (the theorems are over a commutative semiring; floating-point rounding is outside the property except for the 1 % clause)",
        "0 <= index for __getitem__ (negative Python indices are outside the documented domain)",
        "the end-to-end clause is NOT proved (runtime numerics): it is searched only, and is violated by the shipped presets (known findings)",
    ]


# ====================================================================== replay
def replay(rp):
    import grid.utils as gu

    print(json.dumps({k: v for k, v in rp.items() if k not in ("traceback", "coq_log_tail")}, indent=1, default=str)[:3000])
    kind = rp.get("kind")
    if kind == "e2e" and "alphas" in rp:
        from grid.molgrid import MolGrid

        mg = MolGrid.from_preset(np.array(rp["atnums"]), np.array(rp["coords"], dtype=float), rp["preset"])
        cs = [rp["coords"][i] for i in rp["centres"]]
        errs, tot = gauss_errors(mg, cs, rp["alphas"])
        print("errors of the single Gaussians:", errs, "relative error of the sum:", tot)
        return 1 if max(errs + [tot]) > E2E_TOL else 0
    if kind == "becke-history":
        probs = replay_becke_history(rp["history"])
        for _, _, _, text in probs:
            print("DISAGREEMENT (last molecule of the history):", text)
        return 1 if probs else 0
    if kind == "e2e-census":
        from grid.molgrid import MolGrid

        p, z = sorted(rp["first_failing"].items())[0]
        st, v = observe(lambda: MolGrid.from_preset(np.array([int(z)]), np.zeros((1, 3)), p))
        print(f"MolGrid.from_preset([{z}], origin, '{p}') ->", v if st == "exc" else "constructed")
        return 1 if st == "exc" else 0
    if "cfg" in rp:
        cfg = rp["cfg"]
        cfg.setdefault("tag", "replay")
        table = dict(gu._DEFAULT_POWER_RTRANSFORM_PARAMS)
        import grid.molgrid as gm

        defaults = {}
        for meth in ("from_preset", "from_size", "from_pruned"):
            for k, p in inspect.signature(getattr(gm.MolGrid, meth)).parameters.items():
                if p.default is not inspect.Parameter.empty:
                    defaults[(meth, k)] = p.default
        msrc = (SRC / "molgrid.py").read_text()
        mcls = [n for n in ast.parse(msrc).body if isinstance(n, ast.ClassDef) and n.name == "MolGrid"][0]
        NORM_IR["ir"] = extract_norm([n for n in mcls.body if isinstance(n, ast.FunctionDef) and n.name == "from_pruned"][0])[0]
        out, known = [], []
        diff_ctor(_NullCtx(), cfg, table, defaults, lambda *a, **k: out.append(a), known)
        for a in out:
            print("DISAGREEMENT:", a[4])
        for c, en in known:
            print("documented integer form raises", en)
        return 1 if out or known else 0
    if kind == "getitem" or ("spec" in rp and "index" in rp):
        from grid.molgrid import MolGrid

        spec = rp["spec"]
        objs = [build_atom(a) for a in spec["atoms"]]
        size = sum(g.size for g in objs)
        res = {}
        for store in (False, True):
            mg = MolGrid(np.array(spec["atnums"]), objs, build_aim(spec["aim"], size), store=store)
            res[store] = mg[rp["index"]].weights.tolist()
            print(f"store={store}: molgrid[{rp['index']}].weights =", res[store], " get_atomic_grid:", mg.get_atomic_grid(rp["index"]).weights.tolist())
        return 1 if res[False] != res[True] else 0
    if "spec" in rp:
        from grid.molgrid import MolGrid

        spec = rp["spec"]
        objs = [build_atom(a) for a in spec["atoms"]]
        if spec["aim"]["type"] == "becke":
            from grid.becke import BeckeWeights

            mg = MolGrid(np.array(spec["atnums"]), objs, BeckeWeights(order=3), store=spec["store"])
            probs = becke_spec_problems(mg, objs, spec["atnums"])
            for _, _, _, text in probs:
                print("DISAGREEMENT:", text)
            return 1 if probs else 0
        atoms_obs = [view_obs(g) for g in objs]
        size = sum(g.size for g in objs)
        st, mg = observe(lambda: MolGrid(np.array(spec["atnums"]), objs, build_aim(spec["aim"], size), store=spec["store"]))
        if st == "exc":
            print("MolGrid(...) raised", mg)
            return 0 if spec["aim"]["type"] in ("bad_size", "list") else 1
        if spec["aim"]["type"] in ("bad_size", "list"):
            print("MolGrid(...) accepted aim_weights of type", spec["aim"]["type"])
            return 1
        exp = oracle_mol(atoms_obs, spec["atnums"], spec["aim"])
        bad = 0
        for fld in ("points", "weights", "atweights", "aim_weights", "atcoords"):
            if exact_list(getattr(mg, fld)) != exp[fld]:
                print(f".{fld} differs from the property's value")
                bad = 1
        if [int(x) for x in mg.indices] != exp["indices"]:
            print(".indices =", mg.indices.tolist(), "expected", exp["indices"])
            bad = 1
        for k in range(len(objs)):
            a, b = exp["indices"][k], exp["indices"][k + 1]
            s1, g = observe(lambda: view_obs(mg.get_atomic_grid(k)))
            if s1 != "ok" or g != atoms_obs[k]:
                print(f"get_atomic_grid({k}) is not atom {k}'s atomic grid")
                bad = 1
            s1, g = observe(lambda: view_obs(mg[k]))
            if s1 == "ok" and spec["store"] and g == atoms_obs[k] and g[1] != exp["weights"][a:b]:
                print(f"molgrid[{k}] carries the atomic weights (known finding for store=True)")
            elif s1 != "ok" or g != (atoms_obs[k][0], exp["weights"][a:b], atoms_obs[k][2]):
                print(f"molgrid[{k}] is not (points, atomic x aim weights, centre) of atom {k}")
                bad = 1
        if "values" in rp:
            v = float(mg.integrate(np.array(rp["values"], dtype=float)))
            print("integrate:", v, "expected", rp.get("expected"))
            bad = bad or int(abs(v - rp["expected"]) > 1e-9 * max(1.0, abs(rp["expected"])))
        return bad
    print("reproduce:", rp.get("reproduce", "(see text and spec)"))
    return 0


class _NullCtx:
    def case(self, *a, **k):
        pass

    def count(self, *a, **k):
        pass
