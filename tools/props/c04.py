"""C04 — transforming a 1D grid is a faithful change of variables.

gen:   BaseTransform.transform_1d_grid is re-translated each run: the elementwise formulas for new points/weights
       (py2coq/real on `self.transform(oned_grid.points)` / `self.deriv(oned_grid.points) * oned_grid.weights`) and a
       structural check of the domain statement (sorted image). C03's generated transforms are regenerated alongside.
prove: coq/C04/*.v (sum transport, sign of weights, domain containment, exactness transport for Gauss-Legendre -> [a,b]).
tie:   interval correspondence of transformed points/weights/domain; sweep = property oracle on the implementation.
"""
from __future__ import annotations

import ast
import math
import warnings
from fractions import Fraction

import numpy as np

from props import c03
from vlib import py2coq_real as P
from vlib.core import SRC, Ctx, r_lit, src_sha


class Tr04(P.Tr):
    def attribute(self, e):
        if isinstance(e.value, ast.Name) and e.value.id == "oned_grid" and e.attr in ("points", "weights"):
            return "v_x" if e.attr == "points" else "v_w"
        return super().attribute(e)


def gen(ctx: Ctx):
    sigs = c03.gen(ctx)
    src = (SRC / "rtransform.py").read_text()
    tree = ast.parse(src)
    base = [c for c in tree.body if isinstance(c, ast.ClassDef) and c.name == "BaseTransform"][0]
    fn = [f for f in base.body if isinstance(f, ast.FunctionDef) and f.name == "transform_1d_grid"][0]
    env = P.Env({}, {}, {"transform": "f_transform", "deriv": "f_deriv"})
    tr = Tr04(env)
    found = {}
    guards = []
    for st in fn.body:
        if isinstance(st, ast.Expr) and isinstance(st.value, ast.Constant):
            continue
        s = ast.unparse(st)
        if isinstance(st, ast.If) and len(st.body) == 1 and isinstance(st.body[0], ast.Raise) and not st.orelse:
            guards.append(ast.unparse(st.test))
            continue
        if isinstance(st, ast.Assign) and len(st.targets) == 1 and isinstance(st.targets[0], ast.Name):
            n = st.targets[0].id
            if n in ("new_points", "new_weights"):
                found[n] = tr.expr(st.value)
                continue
            if s == "new_domain = oned_grid.domain":
                continue
        if s == "if new_domain is not None:\n    new_domain = tuple(np.sort(self.transform(np.array(oned_grid.domain))))":
            found["domain"] = "sorted image"
            continue
        if s == "return OneDGrid(new_points, new_weights, new_domain)":
            found["ret"] = True
            continue
        raise P.Unsupported(f"transform_1d_grid statement: {s[:90]}")
    if set(found) != {"new_points", "new_weights", "domain", "ret"}:
        raise P.Unsupported(f"transform_1d_grid: expected statements missing: {sorted(found)}")
    want = "oned_grid.domain[0] < self.domain[0] or oned_grid.domain[1] > self.domain[1]"
    if want not in guards:
        raise P.Unsupported("transform_1d_grid: domain guard changed")
    out = [P.HEADER, "(* generated from BaseTransform.transform_1d_grid on every run; do not edit *)",
           f"Definition t1d_point (f_transform f_deriv : R -> R) (v_x v_w : R) : R :=\n  {found['new_points']}.",
           f"Definition t1d_weight (f_transform f_deriv : R -> R) (v_x v_w : R) : R :=\n  {found['new_weights']}."]
    ctx.gen("C04_gen.v", "\n".join(out) + "\n", [{"unit": "BaseTransform.transform_1d_grid", "file": "src/grid/rtransform.py",
                                                   "lines": [fn.lineno, fn.end_lineno], "sha": src_sha(ast.get_source_segment(src, fn)), "guards": guards}])
    return sigs


def run(ctx: Ctx):
    sigs = gen(ctx)
    ctx.copy_coq("C04")
    ctx.copy_coq("C03/C03_proofs_simple.v")
    status = ctx.coq_build()
    ctx.register_props(status)


# ======================================================================== correspondence + sweep
import grid.onedgrid as OG  # noqa: E402
import grid.rtransform as RT  # noqa: E402
from grid.basegrid import OneDGrid  # noqa: E402


def _tf(cname, p):
    return c03.make_tf(cname, p, True)


def transformed(tf, oned):
    with warnings.catch_warnings():
        warnings.simplefilter("ignore")
        with np.errstate(all="ignore"):
            return tf.transform_1d_grid(oned)


def sweep(ctx: Ctx):
    """property oracle on the implementation; per check kind only the canonical first failing input is reported"""
    first = {}

    def rec(kind, cls, val):
        first.setdefault((kind, cls), val)
    plan = [("MultiExpRTransform", dict(rmin=0.0, R=1.0), "GaussLegendre", 5),
            ("KnowlesRTransform", dict(rmin=0.0, R=1.5, k=1.5), "GaussChebyshev", 10),
            # Jacobians beyond 1e16 at interior nodes (trimming must only replace infinities)
            ("HandyRTransform", dict(rmin=0.0, R=1.5, m=3), "GaussChebyshev", 200),
            ("HandyRTransform", dict(rmin=0.0, R=1.5, m=2), "GaussLegendre", 900)]
    classes = ["BeckeRTransform", "LinearFiniteRTransform", "MultiExpRTransform", "KnowlesRTransform", "HandyRTransform", "HandyModRTransform"]
    rules = ["GaussLegendre", "GaussChebyshev", "GaussChebyshevType2", "ClenshawCurtis", "FejerFirst", "MidPoint", "Simpson", "Trapezoidal"]
    # closed rules (nodes ON the domain ends) with every class, and length scales far from 1
    for c in classes:
        p0, _, _ = c03.sample_params(c, ctx.rng)
        plan.append((c, p0, ctx.rng.choice(["ClenshawCurtis", "Trapezoidal"]), ctx.rng.choice([4, 5, 8])))
        for sc in (2.0 ** -33, 2.0 ** 27):
            ps = {k: (v * sc if k in ("rmin", "rmax", "R") else v) for k, v in p0.items()}
            if c == "HandyModRTransform":
                continue  # its admissible range couples rmax - rmin to 2^m: not scale free
            plan.append((c, ps, ctx.rng.choice(rules[:4]), 6))
    for _ in range(12 if ctx.quick else 150):
        c = ctx.rng.choice(classes)
        p, _, _ = c03.sample_params(c, ctx.rng)
        rule = ctx.rng.choice(rules)
        plan.append((c, p, rule, ctx.rng.choice([3, 5, 9, 21] if rule == "Simpson" else [3, 5, 6, 9, 10, 21])))
    n = 0
    for cname, p, rule, npt in plan:
        oned = getattr(OG, rule)(npt)
        tf = _tf(cname, p)
        desc = f"{cname}({', '.join(f'{k}={v}' for k, v in p.items())}).transform_1d_grid({rule}({npt}))"
        try:
            new = transformed(tf, oned)
        except Exception as e:  # noqa: BLE001
            rec("constructs", cname, (desc, type(e).__name__, "a grid"))
            continue
        n += 1
        x, w = oned.points, oned.weights
        interior = np.abs(x) < 1  # end points map to (trimmed) infinity
        with np.errstate(all="ignore"):
            tx, dv = tf.transform(x), tf.deriv(x)
            # independent of the trimming helper: the same class without trimming (finite values must coincide)
            tf_nt = c03.make_tf(cname, p, False)
            tx_nt, dv_nt = tf_nt.transform(x), tf_nt.deriv(x)
        fin = interior & np.isfinite(dv_nt) & np.isfinite(tx_nt)
        if np.any(tx[fin] != tx_nt[fin]) or np.any(dv[fin] != dv_nt[fin]):
            i = int(np.argmax(fin & ((tx != tx_nt) | (dv != dv_nt))))
            rec("trim_only_infinities", cname, (desc + f": node {x[i]!r}", float(dv[i]), float(dv_nt[i])))
        if not np.array_equal(new.points, tx):
            rec("points", cname, (desc, float(np.max(np.abs(new.points - tx))), 0.0))
        exp_w = np.abs(dv) * w
        bad = interior & ~np.isclose(new.weights, exp_w, rtol=1e-13, atol=0)
        if bad.any():
            i = int(np.argmax(bad))
            rec("jacobian_magnitude", cname, (desc, float(new.weights[i]), float(exp_w[i])))
        # nodes ON a domain end: no NaN anywhere; where the image is finite the weight is w * |one-sided Jacobian| (independent of deriv)
        if np.isnan(new.weights).any() or np.isnan(new.points).any():
            i = int(np.argmax(np.isnan(new.weights) | np.isnan(new.points)))
            rec("end_node", cname, (desc + f": node {float(x[i])!r}", float(new.weights[i]), "a number (finite, or the trimmed infinity)"))
        for i in np.nonzero(~interior)[0]:
            if not np.isfinite(tx_nt[i]):
                continue
            sgn = 1.0 if x[i] < 0 else -1.0
            with np.errstate(all="ignore"):
                f0 = float(tx_nt[i])
                d = [(float(tf_nt.transform(x[i] + sgn * h)) - f0) / (sgn * h) for h in (2.0 ** -18, 2.0 ** -19)]
            jac = 2 * d[1] - d[0]  # Richardson step of the one-sided difference quotient
            scale_ = abs(float(tf_nt.transform(x[i] + sgn * 0.5)) - f0)
            if np.isfinite(jac) and abs(d[1] - d[0]) <= 1e-3 * scale_ and not abs(abs(new.weights[i]) - abs(w[i] * jac)) <= 1e-4 * (abs(w[i]) * (abs(jac) + scale_)):
                rec("end_node", cname, (desc + f": node {float(x[i])!r}: |weight|", abs(float(new.weights[i])), abs(float(w[i] * jac))))
        if np.all(w >= 0) and np.any(new.weights < 0):
            rec("weights_nonneg", cname, (desc, float(np.min(new.weights[interior])) if np.any(new.weights[interior] < 0) else float(np.min(new.weights)), ">= 0"))
        dom = new.domain
        if dom is not None:
            if not (dom[0] <= dom[1]) or np.min(new.points) < dom[0] - 1e-7 or np.max(new.points) > dom[1] + 1e-7:
                rec("domain", cname, (desc, str(dom), "ordered image containing all nodes"))
            with np.errstate(all="ignore"):
                img = np.sort(tf.transform(np.array(oned.domain, dtype=float)))
            if not np.array_equal(np.asarray(dom, float), img):
                rec("domain", cname, (desc, str(dom), str(tuple(img))))
        if np.all(w >= 0):
            pin = new.points[interior]
            val = float(np.sum(new.weights[interior] * np.exp(-(pin - pin.min()) / max(float(np.ptp(pin)), 1e-300))))  # positive integrand on the nodes' own scale
            if not val > 0:
                rec("positive_integral", cname, (desc + ": integral of exp(-(r - r_first)/(r_last - r_first))", val, "> 0"))
    # the inverse map as a change of variables (r -> x): nodes tf.inverse(r), weights w / |tf.deriv(x)|, for length scales 1e-10..1e8
    inv_plan = [("MultiExpRTransform", dict(rmin=0.0, R=1.0)), ("BeckeRTransform", dict(rmin=0.0, R=1.0))]
    for c in classes:
        for sc in (1.0, 2.0 ** -33, 2.0 ** -20, 2.0 ** 27):
            p0, _, _ = c03.sample_params(c, ctx.rng)
            if sc != 1.0 and c == "HandyModRTransform":
                continue
            inv_plan.append((c, {k: (v * sc if k in ("rmin", "rmax", "R") else v) for k, v in p0.items()}))
    for j_inv, (cname, p) in enumerate(inv_plan):
        tf = _tf(cname, p)
        xs = np.array(sorted(ctx.rng.sample(range(-58, 59), 5))) / 64.0
        ws = np.array([ctx.rng.randint(1, 64) / 32.0 for _ in range(5)])
        if j_inv < 2:  # the fixed corpus entries
            xs, ws = np.array([-0.5, -0.125, 0.25, 0.625, 0.75]), np.array([1.0, 0.5, 1.5, 1.25, 0.75])
        desc = f"InverseRTransform({cname}({', '.join(f'{k}={v}' for k, v in p.items())})).transform_1d_grid(OneDGrid(transform({xs.tolist()}), {ws.tolist()}))"
        with np.errstate(all="ignore"):
            rs, dv = tf.transform(xs), tf.deriv(xs)
        order = np.argsort(rs)
        try:
            new = transformed(RT.InverseRTransform(tf), OneDGrid(rs[order], ws[order], (float(rs.min()), float(rs.max()))))
        except Exception as e:  # noqa: BLE001
            rec("inverse_grid", "Inverse" + cname, (desc, type(e).__name__ + ": " + str(e)[:60], "a grid with nodes x and weights w/|r'(x)|"))
            continue
        n += 1
        if not np.allclose(new.points, xs[order], rtol=0, atol=1e-9):
            rec("inverse_grid", "Inverse" + cname, (desc + ": nodes", float(np.max(np.abs(new.points - xs[order]))), 0.0))
        elif not np.allclose(np.abs(new.weights), (ws / np.abs(dv))[order], rtol=1e-7, atol=0):
            i = int(np.argmax(np.abs(np.abs(new.weights) / (ws / np.abs(dv))[order] - 1)))
            rec("inverse_grid", "Inverse" + cname, (desc + f": |weight {i}|", abs(float(new.weights[i])), float((ws / np.abs(dv))[order][i])))
        elif np.any(new.weights < 0):
            rec("weights_nonneg", "Inverse" + cname, (desc, float(np.min(new.weights)), ">= 0"))
    # rules on a half line [0, inf) through the maps defined there, rules on [rmin, inf) through the inverse maps, and rules on a
    # proper sub-interval of a map's domain: nodes, |Jacobian| weights, and the new domain = ordered image containing every node
    def image_of(tf_, lo_, hi_):
        with np.errstate(all="ignore"):
            ends = [float(tf_.transform(np.array([v]))[0]) if np.isfinite(v) else None for v in (lo_, hi_)]
        return ends

    half = []  # (key class, description, transform, rule grid, expected image (lo, hi))
    gl6, ui7, se7 = OG.GaussLaguerre(6), OG.UniformInteger(7), OG.SingleExp(7, 0.3)
    fixed = [("LinearInfiniteRTransform", dict(rmin=0.125, rmax=5.0, b=3.0)), ("LinearInfiniteRTransform", dict(rmin=0.125, rmax=5.0)),
             ("ExpRTransform", dict(rmin=0.125, rmax=5.0, b=3.0)), ("ExpRTransform", dict(rmin=0.125, rmax=5.0)),
             ("PowerRTransform", dict(rmin=0.125, rmax=5.0, b=3.0)), ("PowerRTransform", dict(rmin=0.125, rmax=5.0)),
             ("HyperbolicRTransform", dict(a=1.0, b=0.01)), ("IdentityRTransform", {})]
    for k in range(0 if ctx.quick else 12):
        c = ctx.rng.choice(["LinearInfiniteRTransform", "ExpRTransform", "PowerRTransform", "HyperbolicRTransform"])
        p0, _, _ = c03.sample_params(c, ctx.rng)
        if c == "HyperbolicRTransform":
            p0["b"] = min(p0["b"], 0.02)
        fixed.append((c, p0))
    for cname, p in fixed:
        for rname, rule in (("GaussLaguerre(6)", gl6), ("UniformInteger(7)", ui7), ("SingleExp(7, 0.3)", se7)):
            lo_img = 0.0 if cname in ("HyperbolicRTransform", "IdentityRTransform") else p["rmin"]
            half.append((cname, f"{cname}({', '.join(f'{k}={v}' for k, v in p.items())}).transform_1d_grid({rname})", lambda c=cname, q=p: _tf(c, q), rule, (lo_img, np.inf)))
    FIXED_INV = dict(BeckeRTransform=dict(rmin=0.25, R=1.0), LinearFiniteRTransform=dict(rmin=0.25, rmax=3.0), MultiExpRTransform=dict(rmin=0.25, R=1.0),
                     KnowlesRTransform=dict(rmin=0.25, R=1.0, k=2), HandyRTransform=dict(rmin=0.25, R=1.0, m=2), HandyModRTransform=dict(rmin=0.25, rmax=30.0, m=2))
    inv_params = [(c, FIXED_INV[c]) for c in classes] + ([] if ctx.quick else [(c, c03.sample_params(c, ctx.rng)[0]) for c in classes for _ in range(3)])
    for cname, p0 in inv_params:
        tf0 = _tf(cname, p0)
        lo, hi = RT.InverseRTransform(tf0).domain
        if np.isinf(hi):
            rule = OneDGrid(lo + gl6.points, gl6.weights, (lo, np.inf))
            rname = f"OneDGrid({lo} + GaussLaguerre(6) nodes, weights, ({lo}, inf))"
        else:
            g5 = OG.GaussLegendre(5)
            rule = OneDGrid(lo + (hi - lo) * (g5.points + 1) / 2, g5.weights * (hi - lo) / 2, (lo, hi))
            rname = f"GaussLegendre(5) scaled to ({lo}, {hi})"
        half.append(("Inverse" + cname, f"InverseRTransform({cname}({', '.join(f'{k}={v}' for k, v in p0.items())})).transform_1d_grid({rname})",
                     lambda c=cname, q=p0: RT.InverseRTransform(_tf(c, q)), rule, (-1.0, 1.0)))
        # a proper sub-interval of [-1, 1]
        a_, b_ = sorted(ctx.rng.sample(range(-56, 57), 2))
        a_, b_ = a_ / 64.0, b_ / 64.0
        g5 = OG.GaussLegendre(5)
        sub = OneDGrid(a_ + (b_ - a_) * (g5.points + 1) / 2, g5.weights * (b_ - a_) / 2, (a_, b_))
        half.append((cname + "-sub", f"{cname}({', '.join(f'{k}={v}' for k, v in p0.items())}).transform_1d_grid(GaussLegendre(5) scaled to ({a_}, {b_}))",
                     lambda c=cname, q=p0: _tf(c, q), sub, None))
    # hand-written closed rules whose nodes are stored as INTEGER arrays (Simpson [-1, 0, 1], trapezoid [-1, 1], ...)
    for cname in classes:
        p0 = FIXED_INV[cname]
        nodes = {"MultiExpRTransform": [0, 1]}.get(cname, [-1, 0] if cname in ("BeckeRTransform", "KnowlesRTransform", "HandyRTransform") else [-1, 0, 1])
        wts = [1 / 3, 4 / 3, 1 / 3] if len(nodes) == 3 else [1.0, 1.0]
        for dt in (np.int64, np.int32):
            half.append((cname + "-intnodes", f"{cname}({', '.join(f'{k}={v}' for k, v in p0.items())}).transform_1d_grid(OneDGrid(np.array({nodes}, dtype={np.dtype(dt).name}), {[round(v, 4) for v in wts]}, (-1, 1)))",
                         lambda c=cname, q=p0: _tf(c, q), OneDGrid(np.array(nodes, dtype=dt), np.array(wts), (-1, 1)), None))
    for kcls, desc, mk, rule, img in half:
        try:
            tf = mk()
            new = transformed(tf, rule)
        except Exception as e:  # noqa: BLE001
            rec("other_domains", kcls, (desc, type(e).__name__ + ": " + str(e)[:70], "a grid"))
            continue
        n += 1
        x, w = rule.points, rule.weights
        with np.errstate(all="ignore"):
            tx, dv = tf.transform(x.astype(float)), tf.deriv(x.astype(float))
        if img is None:
            with np.errstate(all="ignore"):
                img = tuple(sorted(float(v) for v in tf.transform(np.array(rule.domain, dtype=float))))
        if not np.allclose(new.points, tx, rtol=1e-13, atol=0):
            rec("other_domains", kcls, (desc + ": nodes", float(np.max(np.abs(new.points - tx))), 0.0))
        elif not np.allclose(np.abs(new.weights), np.abs(dv) * w, rtol=1e-12, atol=0):
            rec("other_domains", kcls, (desc + ": |weights|", float(np.max(np.abs(np.abs(new.weights) - np.abs(dv) * w))), 0.0))
        dom = tuple(float(v) for v in new.domain) if new.domain is not None else None
        tol = 1e-7
        ok = (dom is not None and not any(np.isnan(dom)) and dom[0] <= dom[1]
              and np.min(new.points) >= dom[0] - tol and np.max(new.points) <= dom[1] + tol
              and all((a == b) or abs(a - b) <= 1e-9 * max(1.0, abs(b)) for a, b in zip(dom, img) if np.isfinite(b))
              and all(a == b for a, b in zip(dom, img) if not np.isfinite(b)))
        if not ok:
            rec("domain_of_image", kcls, (desc + ": domain", str(dom), str(tuple(float(v) for v in img))))
    # node ORDER is not part of the contract: permuted (nested, descending) rules give the permuted grid, and whatever grid is returned
    # contains all its nodes in its domain - also for parameter sets the constructor accepts but whose map is not monotone (a pole of
    # HandyMod inside (-1, 1)): such a call either raises or returns a grid that contains its nodes
    g7 = OG.GaussLegendre(7)
    for cname in classes:
        p0 = FIXED_INV[cname]
        for pname, perm in (("nested", [3, 0, 6, 1, 5, 2, 4]), ("descending", [6, 5, 4, 3, 2, 1, 0]), ("ends-first", [0, 6, 3, 1, 5, 2, 4])):
            desc = f"{cname}({', '.join(f'{k}={v}' for k, v in p0.items())}).transform_1d_grid(GaussLegendre(7) with its nodes in {pname} order {perm})"
            try:
                ref = transformed(_tf(cname, p0), g7)
                new = transformed(_tf(cname, p0), OneDGrid(g7.points[perm].copy(), g7.weights[perm].copy(), (-1, 1)))
            except Exception as e:  # noqa: BLE001
                rec("node_order", cname, (desc, type(e).__name__ + ": " + str(e)[:60], "the permuted grid"))
                continue
            n += 1
            if not (np.array_equal(new.points, ref.points[perm]) and np.array_equal(new.weights, ref.weights[perm]) and tuple(new.domain) == tuple(ref.domain)):
                rec("node_order", cname, (desc, float(np.max(np.abs(new.points - ref.points[perm]))), 0.0))
    for m_ in (3, 4, 2.5):
        for rname in ("ClenshawCurtis", "Trapezoidal", "GaussLegendre"):
            desc = f"HandyModRTransform(rmin=0.0, rmax=1.0, m={m_}).transform_1d_grid({rname}(9))  [accepted parameters, pole inside (-1, 1)]"
            try:
                new = transformed(_tf("HandyModRTransform", dict(rmin=0.0, rmax=1.0, m=m_)), getattr(OG, rname)(9))
            except Exception:  # noqa: BLE001
                continue  # rejected: fine
            n += 1
            dom = new.domain
            if dom is None or not (np.nanmin(new.points) >= dom[0] - 1e-7 and np.nanmax(new.points) <= dom[1] + 1e-7):
                rec("domain", "HandyModRTransform-pole", (desc, f"domain {tuple(float(v) for v in dom) if dom is not None else None}, nodes from {float(np.nanmin(new.points))!r} to {float(np.nanmax(new.points))!r}",
                                                         "a ValueError, or a grid whose domain contains every node"))
    for bad in ([-1.0, 3.0, 1.0], [-0.5, -7.0, 0.0, 0.5], [0.9, 0.0, 1.5, -0.9]):
        desc = f"OneDGrid(np.array({bad}), ones, (-1, 1))  [an interior entry lies outside the domain]"
        try:
            OneDGrid(np.array(bad), np.ones(len(bad)), (-1, 1))
            rec("domain", "OneDGrid-unsorted", (desc, "accepted", "ValueError (the domain must contain every node)"))
        except ValueError:
            n += 1
    # exactness transport: Gauss-Legendre mapped linearly to [a,b]
    for npt in ([2, 5, 8] if ctx.quick else range(2, 16)):
        a, b = Fraction(ctx.rng.randint(-8, 8), 4), None
        b = a + Fraction(ctx.rng.randint(1, 24), 4)
        new = transformed(RT.LinearFiniteRTransform(float(a), float(b)), OG.GaussLegendre(npt))
        for d in range(0, 2 * npt):
            exact = (b ** (d + 1) - a ** (d + 1)) / (d + 1)
            got = float(np.sum(new.weights * new.points ** d))
            n += 1
            if abs(got - float(exact)) > 1e-11 * max(1.0, abs(float(exact)), float(max(abs(a), abs(b)) ** d)):
                rec("gl_linear_exact", "LinearFiniteRTransform", (f"LinearFiniteRTransform({float(a)},{float(b)}).transform_1d_grid(GaussLegendre({npt})): x^{d}", got, float(exact)))
    ctx.cov["sweep_grids"] = n
    return first


def correspondence(ctx: Ctx, sigs):
    names = c03.all_gen_names(ctx)
    hdr = ("From Coq Require Import Reals.\nFrom Coquelicot Require Import Coquelicot.\nFrom Interval Require Import Tactic.\n"
           "From P Require Import C03_gen C04_gen.\nOpen Scope R_scope.\n")
    unfold = "cbv beta zeta delta [t1d_point t1d_weight " + " ".join(names) + "]"
    cases, meta = [], []
    classes = ["BeckeRTransform", "LinearFiniteRTransform", "MultiExpRTransform", "KnowlesRTransform", "HandyRTransform", "HandyModRTransform"]
    for cname in classes:
        for _ in range(2 if ctx.quick else 12):
            p, _, _ = c03.sample_params(cname, ctx.rng)
            npt = ctx.rng.choice([3, 4, 7])
            pts = np.array(sorted(ctx.rng.sample(range(-60, 61), npt))) / 64.0
            wts = np.array([ctx.rng.randint(1, 64) / 32.0 for _ in range(npt)])
            oned = OneDGrid(pts, wts, (-1, 1))
            new = transformed(_tf(cname, p), oned)
            cp = c03.coq_params(sigs, cname, p)
            f = f"({c03.short(cname)}_transform {cp}) ({c03.short(cname)}_deriv {cp})"
            for i in range(npt):
                for what, y in (("t1d_point", float(new.points[i])), ("t1d_weight", float(new.weights[i]))):
                    tol = Fraction(1, 10 ** 9) * (1 + abs(Fraction(y)))
                    cases.append((f"Rabs ({what} {f} {r_lit(float(pts[i]))} {r_lit(float(wts[i]))} - {r_lit(y)}) <= {r_lit(tol)}",
                                  f"{unfold}; interval with (i_prec 90)"))
                    meta.append((cname, p, what, float(pts[i]), float(wts[i]), y))
                    ctx.case((cname, tuple(p.items()), what, float(pts[i]), float(wts[i])))
    bad = ctx.coq_tactic_cases("C04_corr", hdr, cases, shard=max(10, len(cases) // 16 + 1), timeout=900)
    for i in bad:
        cname, p, what, x, w, y = meta[i]
        ctx.fail(f"corr_{what}", f"corr:{cname}:{p}:{what}:x={x}:w={w}", y,
                 f"generated {what} with {cname}{p} does not enclose the implementation's value {y} at node {x}, weight {w}",
                 {"goal": cases[i][0][:400]}, found_input=False)
    ctx.sample({"class": meta[0][0], "params": meta[0][1], "what": meta[0][2], "node": meta[0][3], "weight": meta[0][4], "impl": meta[0][5]})


OBL_OF = {"weights_nonneg": "weights_nonneg_decreasing", "jacobian_magnitude": "weights_nonneg_decreasing", "positive_integral": "weights_nonneg_decreasing"}


def run(ctx: Ctx):  # noqa: F811
    gen_err, sigs, status = None, None, {}
    try:
        sigs = gen(ctx)
    except P.Unsupported as e:  # translator fails closed: the tie is broken; still search the implementation for a failing input
        gen_err = e
    if gen_err is None:
        ctx.copy_coq("C04")
        ctx.copy_coq("C03/C03_proofs_simple.v")
        status = ctx.coq_build()
        ctx.register_props(status)
    if status.get("C04_refuted_sign.v"):
        ctx.mark_refuted("weights_nonneg_decreasing", "weights_nonneg_refuted_lemma")
    fails = sweep(ctx)
    cands = []
    SIGN = ("jacobian_magnitude", "weights_nonneg", "positive_integral")  # consequences of one another: report the first per class
    seen_sign = set()
    for (kind, cls), (desc, obs, exp) in fails.items():
        if kind in SIGN:
            if cls in seen_sign:
                continue
            seen_sign.add(cls)
        obl = OBL_OF.get(kind)
        ob = ctx.obligations.get(obl) if obl else None
        name = obl if (ob is not None and ob["status"] != "discharged") else f"sweep_{kind}"
        key, ob_ = f"{kind}:{desc}", (round(obs, 9) if isinstance(obs, float) else obs)
        text, rp = f"{desc}: {kind} violated: observed {obs}, expected {exp}", {"reproduce": desc, "expected": exp}
        if gen_err is not None and not ctx.is_known(key, ob_):
            cands.append((key, ob_, text, rp))
        else:
            ctx.fail(name, key, ob_, text, rp)
    if gen_err is not None:
        ctx.broken_tie("translator(rtransform.py)", gen_err, cands)
    if status.get("C04_gen.v") and status.get("C03_gen.v"):
        correspondence(ctx, sigs)
    ctx.cov["rule"] = ("sweep: random (transform class, admissible parameters, 1D rule, n) - nodes mapped, weights = |Jacobian| * w, signs, domain, positive "
                       "integrals, Gauss-Legendre->[a,b] exactness against exact rational moments; correspondence: interval enclosures of the generated point/"
                       "weight formulas composed with C03's generated transforms on dyadic grids")
    ctx.trusted += ["pattern-checked translation of transform_1d_grid (validated by interval enclosures)", "C03's generated transforms",
                    "oracle hypothesis of linear_exactness_transport: the reference rule is exact to degree D (for Gauss-Legendre validated by the sweep with exact rational moments)",
                    "OneDGrid's own domain validation and the sorting of the image domain are checked on the implementation"]
