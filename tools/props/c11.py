"""C11 — periodic local grids contain every periodic image inside the sphere exactly once.

gen:   hand model (coq/C11/C11_model.v); the anchored source units are hashed into the evidence.
prove: coq/C11/*.v  (theorems at R: complete / sound / no_duplicates / wrap_irrelevant / ... and the
       *_refuted theorems for the three defects of the pinned code).
tie:   random dyadic lattices/points/centres/radii (radius^2 off every squared distance), dimensions 1..3,
       0..dim lattice vectors, both array layouts (points (N,M) -> general path, points (N,) -> 1-D path),
       wrap on/off.  Each case: run PeriodicGrid(...).get_localgrid on the implementation, compare the sorted
       multiset of (parent index, position, weight)
         (a) with the Coq model evaluated at bigQ by vm_compute (ctx.coq_bool_cases), including the kind of
             exception, the integer box (exact Python mirror == model ranges) and the stored points,
         (b) with a brute-force enumeration of the images in a safely large box (the property's own oracle,
             integer arithmetic).
       Section hypotheses validated per run: recivecs @ realvecs.T = 1 (exactly for the rational reciprocal
       vectors given to the model, which are compared with the code's SVD pseudo-inverse) and the ball-query
       contract of cKDTree.query_ball_point.
search: the brute-force oracle, on every case and on an additional sweep without Coq.
"""
from __future__ import annotations

import ast
import itertools as _it
import math
from fractions import Fraction as Fr

import numpy as np

from vlib.core import SRC, Ctx, q_bigq, src_sha, z

SCALE = 8  # all coordinates are multiples of 1/8: lattice in Z/2, points in Z, centres in Z/4, radii odd/8

HDR = r"""
From Coq Require Import ZArith List Bool QArith Qround.
From Bignums Require Import BigQ.
From P Require Import C11_model.
Import ListNotations.
Definition qleb (a b : bigQ) : bool := match BigQ.compare a b with Gt => false | _ => true end.
Definition QOps : NumOps bigQ :=
  mkOps bigQ 0%bigQ BigQ.add BigQ.sub BigQ.mul qleb (fun z => BigQ.Qz (BigZ.of_Z z))
        (fun x => Qfloor (BigQ.to_Q x)) (fun x => Qceiling (BigQ.to_Q x)).
Notation qv := (bigQ * bigQ * bigQ)%type.
Notation qitem := (nat * qv * bigQ)%type.
Definition qeq (a b : bigQ) : bool := BigQ.eq_bool a b.
Definition veq (u v : qv) : bool :=
  let '(a, b, c) := u in let '(d, e, f) := v in qeq a d && qeq b e && qeq c f.
Definition ieq (x y : qitem) : bool :=
  let '(i, p, w) := x in let '(j, q, v) := y in Nat.eqb i j && veq p q && qeq w v.
Definition lex (c1 c2 : comparison) : comparison := match c1 with Eq => c2 | _ => c1 end.
Definition vcmp (u v : qv) : comparison :=
  let '(a, b, c) := u in let '(d, e, f) := v in
  lex (BigQ.compare a d) (lex (BigQ.compare b e) (BigQ.compare c f)).
Definition icmp (x y : qitem) : comparison :=
  let '(i, p, w) := x in let '(j, q, v) := y in lex (Nat.compare i j) (lex (vcmp p q) (BigQ.compare w v)).
Fixpoint ins (x : qitem) (l : list qitem) : list qitem :=
  match l with [] => [x] | y :: r => match icmp x y with Gt => y :: ins x r | _ => x :: l end end.
Definition isort (l : list qitem) : list qitem := fold_right ins [] l.
Fixpoint leqb {X} (e : X -> X -> bool) (a b : list X) : bool :=
  match a, b with [] , [] => true | x :: r, y :: s => e x y && leqb e r s | _, _ => false end.
Definition kind_of (o : outcome qitem) : Z :=
  match o with Ok _ => 0 | AssertFail => 1 | EmptyConcat => 2 | Broadcast => 3 end%Z.
(* b_k . a_l = delta_kl, exactly *)
Definition dualb (B A : list qv) : bool :=
  Nat.eqb (length B) (length A) &&
  forallb (fun kb : nat * qv => let (k, b) := kb in
     forallb (fun la : nat * qv => let (l, a) := la in
        qeq (dot QOps b a) (if Nat.eqb k l then 1%bigQ else 0%bigQ)) (combine (seq 0 (length A)) A))
     (combine (seq 0 (length B)) B).
Fixpoint leqb2 {X Y} (e : X -> Y -> bool) (a : list X) (b : list Y) : bool :=
  match a, b with [] , [] => true | x :: r, y :: s => e x y && leqb2 e r s | _, _ => false end.
Definition boxeq2 (rs : list (list Z)) (lit : list (Z * Z)) : bool :=
  leqb2 (fun (r : list Z) (lh : Z * Z) => leqb Z.eqb r (zrange (fst lh) (snd lh))) rs lit.
(* one correspondence case.  path1d: which array layout; kind/obs: what the implementation did;
   code_ok: the implementation's answer equals the brute-force oracle (then a model that raises is only
   pessimistic); region: the input lies where the model is proved to violate the property (1-D layout with a
   negative or no lattice vector), an implementation that satisfies the property there is accepted; loose: a fractional coordinate lies exactly on a boundary, so that the float box of the
   implementation may differ from the exact one: AssertFail / EmptyConcat (both: nothing in the sphere) are
   not distinguished then; box: exact integer bounds computed by the harness mirror; spts: stored points (or None) *)
Definition chk (path1d : bool) (A B : list qv) (wrap : bool) (pts : list qv) (wts : list bigQ) (c : qv) (r : bigQ)
               (kind : Z) (loose : bool) (obs : list qitem) (code_ok region : bool) (box : option (list (Z * Z)))
               (spts : option (list qv)) : bool :=
  let m := (if path1d then local1d else local) QOps 0%bigQ (exact_ball QOps) A B wrap pts wts c r in
  let g := build QOps A B wrap pts in
  (dualb B A || (path1d && null B)) &&
  match box with
  | None => true
  | Some lit => boxeq2 (if path1d then match B with b :: _ => ranges1d QOps (fst (fst b)) g (fst (fst c)) r | [] => [] end
                        else ranges QOps B g c r) lit
  end &&
  match spts with None => true | Some l => leqb veq (map fst g) l end &&
  ((((kind_of m =? kind)%Z || (loose && ((kind_of m =? 1) || (kind_of m =? 2)) && ((kind =? 1) || (kind =? 2)))%Z) && leqb ieq (isort (items m)) (isort obs)) || (code_ok && (negb (is_ok m) || region))).
"""


# ----------------------------------------------------------------------------------------------- exact helpers
def fdot(u, v):
    return sum((a * b for a, b in zip(u, v)), Fr(0))


def recip(A):
    """Exact reciprocal vectors B = (A A^T)^-1 A (rows), Fractions; None when singular."""
    K = len(A)
    if K == 0:
        return []
    G = [[fdot(A[i], A[j]) for j in range(K)] for i in range(K)]
    # Gauss-Jordan on [G | I]
    M = [G[i][:] + [Fr(int(i == j)) for j in range(K)] for i in range(K)]
    for col in range(K):
        piv = next((r for r in range(col, K) if M[r][col] != 0), None)
        if piv is None:
            return None
        M[col], M[piv] = M[piv], M[col]
        pv = M[col][col]
        M[col] = [x / pv for x in M[col]]
        for r in range(K):
            if r != col and M[r][col] != 0:
                f = M[r][col]
                M[r] = [x - f * y for x, y in zip(M[r], M[col])]
    Ginv = [row[K:] for row in M]
    dim = len(A[0])
    return [[sum((Ginv[k][l] * A[l][d] for l in range(K)), Fr(0)) for d in range(dim)] for k in range(K)]


def ffloor(x: Fr) -> int:
    return x.numerator // x.denominator


def fceil(x: Fr) -> int:
    return -((-x.numerator) // x.denominator)


class Case:
    """All numbers exact Fractions; vectors have length M (padded to 3 when printed)."""

    def __init__(self, M, path1d, A, pts, wts, wrap, c, r, tag):
        self.M, self.path1d, self.A, self.pts, self.wts, self.wrap, self.c, self.r, self.tag = M, path1d, A, pts, wts, wrap, c, r, tag
        self.K = len(A)
        self.B = [[Fr(1) / A[0][0]]] if (path1d and self.K == 1) else recip(A)

    def key(self):
        def fl(v):
            return "[" + ",".join(str(x) for x in v) + "]"
        return (f"{'1d' if self.path1d else 'nd'}:M={self.M}:A=[{','.join(fl(a) for a in self.A)}]:wrap={int(self.wrap)}:"
                f"pts=[{','.join(fl(p) for p in self.pts)}]:c={fl(self.c)}:r={self.r}")

    def py(self):
        """Python expression reproducing the call."""
        def arr(rows, one):
            if one:
                return "np.array([" + ", ".join(repr(float(r[0])) for r in rows) + "])"
            return "np.array([" + ", ".join("[" + ", ".join(repr(float(x)) for x in r) + "]" for r in rows) + "]).reshape(%d, %d)" % (len(rows), self.M)
        rv = "None" if (self.K == 0 and self.path1d) else arr(self.A, self.path1d)
        cc = repr(float(self.c[0])) if self.path1d else "np.array([" + ", ".join(repr(float(x)) for x in self.c) + "])"
        return (f"PeriodicGrid({arr(self.pts, self.path1d)}, np.array({[float(w) for w in self.wts]}), {rv}, wrap={self.wrap})"
                f".get_localgrid({cc}, {float(self.r)!r})")


def pad3(v):
    return list(v) + [Fr(0)] * (3 - len(v))


def qvec(v):
    a, b, c = pad3(v)
    return f"({q_bigq(a)}, {q_bigq(b)}, {q_bigq(c)})"


def qlist(vs):
    return "[" + "; ".join(qvec(v) for v in vs) + "]"


# ----------------------------------------------------------------------------------------------- implementation
class _ItShim:
    """Stands in for the `itertools` name inside grid.periodicgrid to observe the enumerated integer box."""

    def __init__(self):
        self.boxes = []

    def product(self, *ranges, **kw):
        try:
            self.boxes.append([(r.start, r.stop - 1) for r in ranges])
        except Exception:
            self.boxes.append(None)
        return _it.product(*ranges, **kw)

    def __getattr__(self, name):
        return getattr(_it, name)


def run_impl(case: Case):
    """-> dict(kind, items (sorted exact), exc, box, spts, recivecs, spacings)"""
    import grid.periodicgrid as pg

    one = case.path1d
    if one:
        pts = np.array([float(p[0]) for p in case.pts])
        rv = None if case.K == 0 else np.array([float(a[0]) for a in case.A])
        c = float(case.c[0])
    else:
        pts = np.array([[float(x) for x in p] for p in case.pts]).reshape(len(case.pts), case.M)
        rv = np.array([[float(x) for x in a] for a in case.A]).reshape(case.K, case.M)
        c = np.array([float(x) for x in case.c])
    w = np.array([float(x) for x in case.wts])
    out = {"kind": None, "items": [], "exc": None, "box": None, "spts": None, "recivecs": None, "spacings": None, "center_ok": True}
    try:
        g = pg.PeriodicGrid(pts, w, rv, wrap=case.wrap)
    except Exception as e:  # noqa: BLE001
        out["kind"] = "raise"
        out["exc"] = (type(e).__name__, "__init__", str(e)[:120])
        return out
    out["spts"] = np.array(g.points, dtype=float).reshape(len(case.pts), -1)
    out["recivecs"] = np.array(g.recivecs, dtype=float).reshape(-1, case.M) if np.size(g.recivecs) else np.zeros((0, case.M))
    out["spacings"] = np.array(g.spacings, dtype=float).reshape(-1)
    shim = _ItShim()
    saved = pg.__dict__.get("itertools")
    try:
        if saved is not None:
            pg.itertools = shim
        try:
            lg = g.get_localgrid(c, float(case.r))
        finally:
            if saved is not None:
                pg.itertools = saved
    except Exception as e:  # noqa: BLE001
        out["kind"] = "raise"
        out["exc"] = (type(e).__name__, "get_localgrid", str(e)[:120])
        out["box"] = shim.boxes[0] if len(shim.boxes) == 1 else None
        return out
    out["box"] = shim.boxes[0] if len(shim.boxes) == 1 else None
    nloc = len(lg.weights)
    P = np.array(lg.points, dtype=float).reshape(nloc, -1) if nloc else np.zeros((0, case.M))
    idx = np.array(lg.indices).reshape(-1)
    items = []
    for k in range(len(idx)):
        items.append((int(idx[k]), tuple(pad3([Fr(float(x)) for x in P[k]])), Fr(float(lg.weights[k]))))
    out["kind"] = "ok"
    out["items"] = sorted(items)
    out["center_ok"] = bool(np.array_equal(np.asarray(lg.center, dtype=float).reshape(-1), np.asarray(c, dtype=float).reshape(-1)))
    return out


def exc_kind(exc):
    """Map an exception of the implementation to the model's outcome kinds (1,2,3) or None."""
    name, where, msg = exc
    if name == "AssertionError" and where == "get_localgrid":
        return 1
    if name == "ValueError" and where == "get_localgrid" and "concatenate" in msg:
        return 2
    if name == "ValueError" and where == "__init__":   # (N,)*(0,): broadcast error, or empty reduction when N == 1
        return 3
    return None


def exc_obs(exc):
    name, where, msg = exc
    tag = "concatenate" if "concatenate" in msg else ""
    return f"{name}@{where}" + (f"({tag})" if tag else "")


# ----------------------------------------------------------------------------------------------- oracle
def oracle_box(case: Case):
    """|j_k| = |b_k . (v + c - p)| <= |b_k| (r + |c - p|): half-widths of a box containing every image in the sphere."""
    Bx = recip(case.A)  # for the size of the search box only
    far = max(math.sqrt(float(sum((pi - ci) ** 2 for pi, ci in zip(pad3(p), pad3(case.c))))) for p in case.pts)
    return [int(math.sqrt(float(fdot(b, b))) * (float(case.r) + far)) + 2 for b in Bx]


def oracle(case: Case):
    """Brute force: all (i, j) with |p_i + sum_k j_k a_k - c| <= r, j in a safely large box.
    Integer arithmetic on coordinates scaled by SCALE.  Returns (sorted items, list of (i, j))."""
    S = SCALE
    def sc(v):
        out = []
        for x in pad3(v):
            y = x * S
            if y.denominator != 1:
                raise ValueError("coordinate not on the 1/8 grid")
            out.append(int(y))
        return out
    P = np.array([sc(p) for p in case.pts], dtype=np.int64)
    C = np.array(sc(case.c), dtype=np.int64)
    A = np.array([sc(a) for a in case.A], dtype=np.int64).reshape(case.K, 3)
    r8 = case.r * S
    if r8.denominator != 1:
        raise ValueError("radius not on the 1/8 grid")
    r8 = int(r8)
    L = oracle_box(case)
    grids = np.meshgrid(*[np.arange(-l, l + 1, dtype=np.int64) for l in L], indexing="ij") if case.K else []
    J = np.stack([gr.reshape(-1) for gr in grids], axis=1) if case.K else np.zeros((1, 0), dtype=np.int64)
    T = J @ A  # (nj, 3) scaled translations
    items, pairs = [], []
    for i in range(len(P)):
        D = P[i][None, :] + T - C[None, :]
        mask = (D * D).sum(axis=1) <= r8 * r8
        for jj in np.nonzero(mask)[0]:
            q = P[i] + T[jj]
            items.append((i, tuple(Fr(int(x), S) for x in q), case.wts[i]))
            pairs.append((i, tuple(int(x) for x in J[jj])))
    order = sorted(range(len(items)), key=lambda k: items[k])
    return [items[k] for k in order], [pairs[k] for k in order]


def exact_box(case: Case):
    """Exact mirror of ilc_min/ilc_max (general path: 1/|b_k| spacing; 1-D path: signed spacing).
    -> (list of (lo, hi), list of tie flags, list of per-point shifts z_i)."""
    B = case.B
    fr = [[fdot(b, p) for b in B] for p in case.pts]
    shifts = [[0] * case.K for _ in case.pts]
    if case.wrap and case.K > 0:
        shifts = [[-ffloor(x) for x in f] for f in fr]
        fr = [[x - ffloor(x) for x in f] for f in fr]
    box, ties = [], []
    for k in range(case.K):
        lo = min(f[k] for f in fr)
        hi = max(f[k] for f in fr)
        fc = fdot(B[k], case.c)
        if case.path1d:
            rb = case.r * B[k][0]
            x, y = lo - fc - rb, hi - fc + rb
            box.append((fceil(x), ffloor(y)))
            ties.append(x.denominator == 1 or y.denominator == 1)
            continue
        m = case.r * case.r * fdot(B[k], B[k])
        x, y = lo - fc, hi - fc
        sq = math.sqrt(float(m))
        okl = lambda j: (x - j <= 0) or ((x - j) ** 2 <= m)  # noqa: E731
        okh = lambda j: (j - y <= 0) or ((j - y) ** 2 <= m)  # noqa: E731
        j = math.floor(float(x) - sq) - 2
        while not okl(j):
            j += 1
        while okl(j - 1):
            j -= 1
        h = math.ceil(float(y) + sq) + 2
        while not okh(h):
            h -= 1
        while okh(h + 1):
            h += 1
        box.append((j, h))
        ties.append(((x - j) > 0 and (x - j) ** 2 == m) or ((h - y) > 0 and (h - y) ** 2 == m) or (m == 0 and (x.denominator == 1 or y.denominator == 1)))
    return box, ties, shifts, fr


# ----------------------------------------------------------------------------------------------- generator
def rand_lattice(rng, M, K, kind):
    """K lattice vectors in dimension M with entries in Z/2, linearly independent."""
    half = lambda n: Fr(n, 2)  # noqa: E731
    for _ in range(200):
        A = [[Fr(0)] * M for _ in range(K)]
        axes = rng.sample(range(M), K)
        if kind == "ortho":
            for k, ax in enumerate(axes):
                A[k][ax] = Fr(rng.choice([1, 2, 3, 4, 5, 7]))
        elif kind == "neg":
            for k, ax in enumerate(axes):
                A[k][ax] = Fr(rng.choice([-1, -2, -3, -4, -6]))
                for d in range(M):
                    if d != ax and rng.random() < 0.3:
                        A[k][d] = Fr(rng.randint(-2, 2))
        elif kind == "short":
            for k, ax in enumerate(axes):
                A[k][ax] = half(rng.choice([1, -1, 1, 3]))
                for d in range(M):
                    if d != ax and rng.random() < 0.25:
                        A[k][d] = half(rng.choice([-1, 1]))
        elif kind == "long":
            for k, ax in enumerate(axes):
                A[k][ax] = Fr(rng.choice([6, 8, 9, -10, 12]))
                for d in range(M):
                    if d != ax and rng.random() < 0.4:
                        A[k][d] = Fr(rng.randint(-3, 3))
        elif kind == "skew":
            # strongly sheared: spacing 1/|b_k| much smaller than |a_k|
            for k, ax in enumerate(axes):
                A[k][ax] = Fr(rng.choice([1, 1, 2, -1]))
            for k in range(1, K):
                A[k] = [x + rng.choice([3, 4, 5, 7, -6]) * y for x, y in zip(A[k], A[rng.randrange(0, k)])]
            if K == 1 and M > 1:
                d = rng.choice([d for d in range(M) if d != axes[0]])
                A[0][d] = Fr(rng.choice([2, 3, -4]))
        else:  # random
            for k in range(K):
                A[k] = [half(rng.randint(-8, 8)) for _ in range(M)]
        B = recip(A)
        if K == 0:
            return A
        if B is None:
            continue
        # not too ill-conditioned for the SVD singularity test / float box; not absurdly dense
        G = np.array([[float(fdot(a, b)) for b in A] for a in A])
        if np.linalg.cond(G) > 1e6:
            continue
        return A
    raise RuntimeError("could not generate a lattice")


def cell_volume(A):
    K = len(A)
    if K == 0:
        return 1.0
    G = np.array([[float(fdot(a, b)) for b in A] for a in A])
    return math.sqrt(abs(np.linalg.det(G)))


def unit_ball(K):
    return {0: 1.0, 1: 2.0, 2: math.pi, 3: 4.0 * math.pi / 3.0}[K]


def rand_case(rng, big=False):
    """Rejection: keep the brute-force image box enumerable."""
    while True:
        case = rand_case0(rng, big)
        n = 1
        for l in oracle_box(case):
            n *= 2 * l + 1
        if n * len(case.pts) <= 1_500_000:
            return case


def rand_case0(rng, big=False):
    M = rng.choice([1, 1, 2, 2, 2, 3, 3, 3])
    path1d = M == 1 and rng.random() < 0.5
    K = rng.randint(0, M)
    if path1d and K == 0 and rng.random() < 0.7:
        K = 1
    kind = rng.choice(["ortho", "neg", "short", "long", "skew", "skew", "random", "random"])
    A = rand_lattice(rng, M, K, kind)
    N = rng.randint(1, 6)
    spread = rng.choice([2, 4, 6, 12])
    N = min(N, (2 * spread + 1) ** M)
    pts = []
    while len(pts) < N:
        p = [Fr(rng.randint(-spread, spread)) for _ in range(M)]
        if p not in pts:
            pts.append(p)
    wts = [Fr(3 * i + 1, 8) * (-1 if i % 3 == 2 else 1) for i in range(N)]
    c = [Fr(rng.randint(-32, 32), 4) for _ in range(M)]
    if rng.random() < 0.65:  # centre near a point -> populated spheres
        p = rng.choice(pts)
        c = [x + Fr(rng.randint(-6, 6), 4) for x in p]
    # radius: aim at a given number of lattice images per point
    target = rng.choice([0.2, 1, 3, 8, 20] + ([60] if big else []))
    vol = cell_volume(A)
    r = (target * vol / unit_ball(K)) ** (1.0 / K) if K else rng.choice([0.5, 1.5, 3, 6])
    if M > K:  # non-periodic directions: make sure the sphere is not trivially empty too often
        r = max(r, rng.choice([0.3, 1.0, 2.0]))
    r = min(max(r, 0.125), 14.0)
    r8 = max(1, int(round(r * 8)))
    if r8 % 2 == 0:
        r8 += 1
    return Case(M, path1d, A, pts, wts, rng.random() < 0.5, c, Fr(r8, 8), kind)


def fixed_cases():
    """Hand-picked cases: the documented defects' neighbours and classic shapes."""
    F = Fr
    out = []
    # skewed 2-D cell of the mutation analysis: a1=(1,0), a2=(7,1); images with |j1| up to 14 for r=2
    out.append(Case(2, False, [[F(1), F(0)], [F(7), F(1)]], [[F(0), F(0)]], [F(1, 8)], False, [F(0), F(0)], F(17, 8), "fixed-skew"))
    out.append(Case(2, False, [[F(1), F(0)], [F(7), F(1)]], [[F(0), F(0)], [F(3), F(2)]], [F(1, 8), F(1, 2)], True, [F(1, 4), F(-1, 2)], F(17, 8), "fixed-skew"))
    # 1-D both layouts, positive vector, sphere larger than the cell
    out.append(Case(1, True, [[F(4)]], [[F(0)], [F(1)], [F(2)]], [F(1, 8), F(1, 2), F(-7, 8)], False, [F(1)], F(27, 8), "fixed-1d"))
    out.append(Case(1, False, [[F(4)]], [[F(0)], [F(1)], [F(2)]], [F(1, 8), F(1, 2), F(-7, 8)], False, [F(1)], F(27, 8), "fixed-1d"))
    out.append(Case(1, False, [[F(-4)]], [[F(0)], [F(1)], [F(2)]], [F(1, 8), F(1, 2), F(-7, 8)], True, [F(1)], F(27, 8), "fixed-1d"))
    # 3-D, one and two lattice vectors, negative and skewed
    out.append(Case(3, False, [[F(2), F(1), F(0)], [F(0), F(-2), F(0)], [F(0), F(0), F(-1)]], [[F(0), F(0), F(0)], [F(5), F(-3), F(2)]],
                    [F(1, 8), F(1, 2)], True, [F(1, 4), F(1, 4), F(0)], F(19, 8), "fixed-3d"))
    out.append(Case(3, False, [[F(0), F(3), F(1)]], [[F(1), F(1), F(1)], [F(1), F(-9), F(0)]], [F(1, 8), F(1, 2)], False, [F(1), F(2), F(1)], F(29, 8), "fixed-3d"))
    # no lattice vectors (plain grid) in 2-D and 3-D
    out.append(Case(2, False, [], [[F(0), F(0)], [F(1), F(0)], [F(2), F(0)]], [F(1, 8), F(1, 2), F(-7, 8)], False, [F(1), F(0)], F(11, 8), "fixed-nolat"))
    out.append(Case(3, False, [], [[F(0), F(0), F(0)], [F(1), F(0), F(2)]], [F(1, 8), F(1, 2)], True, [F(1), F(0), F(1)], F(13, 8), "fixed-nolat"))
    return out


# the canonical witnesses of the genuine defects (also the witnesses of the *_refuted theorems)
def witnesses():
    F = Fr
    return [
        ("empty_refuted", "empty-sphere-assert",
         Case(3, False, [[F(10), F(0), F(0)]], [[F(0), F(0), F(0)]], [F(1)], False, [F(5), F(0), F(0)], F(1), "witness"),
         "a sphere containing no periodic image must give an empty local grid"),
        ("empty_refuted", "empty-sphere-concat",
         Case(3, False, [], [[F(0), F(0), F(0)]], [F(1)], False, [F(5), F(0), F(0)], F(1), "witness"),
         "a sphere containing no point (no lattice vectors) must give an empty local grid"),
        ("neg_1d_refuted", "neg-1d",
         Case(1, True, [[F(-4)]], [[F(1)]], [F(1)], False, [F(1)], F(7, 2), "witness"),
         "1-D grid with a negative lattice vector: the local grid around a grid point must contain that point"),
        ("no_lattice_1d_refuted", "nolat-1d",
         Case(1, True, [], [[F(0)], [F(1)], [F(2)]], [F(1), F(2), F(3)], False, [F(1)], F(3, 2), "witness"),
         "1-D grid without lattice vectors must behave as the plain grid"),
    ]


# ----------------------------------------------------------------------------------------------- evaluation
def items_lit(items):
    return "[" + "; ".join(f"({i}%nat, {qvec(p)}, {q_bigq(w)})" for i, p, w in items) + "]"


def coq_case(case: Case, impl, code_ok: bool, box, with_spts, loose=False):
    kind = 0 if impl["kind"] == "ok" else (exc_kind(impl["exc"]) or 9)
    region = case.path1d and (case.K == 0 or case.A[0][0] < 0)
    boxs = "None" if box is None else "Some [" + "; ".join(f"({z(a)}, {z(b)})" for a, b in box) + "]"
    spts = "None"
    if with_spts is not None:
        spts = "Some " + qlist(with_spts)
    B = case.B if case.B is not None else []
    return (f"chk {'true' if case.path1d else 'false'} {qlist(case.A)} {qlist(B)} {'true' if case.wrap else 'false'} "
            f"{qlist(case.pts)} [{'; '.join(q_bigq(w) for w in case.wts)}] {qvec(case.c)} {q_bigq(case.r)} "
            f"{z(kind)} {'true' if loose else 'false'} {items_lit(impl['items'])} {'true' if code_ok else 'false'} {'true' if region else 'false'} ({boxs}) ({spts})")


def classify(case: Case, impl, orc):
    """Property verdict on this input: None if it holds, else (observed, text)."""
    if impl["kind"] == "ok":
        if impl["items"] == orc and impl["center_ok"]:
            return None
        obs = set(impl["items"])
        exp = set(orc)
        missing = sorted(exp - obs)[:3]
        extra = sorted(obs - exp)[:3]
        dup = len(impl["items"]) - len(obs)
        return (f"n={len(impl['items'])}/expected={len(orc)}",
                f"local grid differs from the set of periodic images in the sphere: {len(impl['items'])} entries vs {len(orc)} expected; "
                f"missing e.g. {[(i, [str(x) for x in p]) for i, p, _ in missing]}, unexpected e.g. {[(i, [str(x) for x in p]) for i, p, _ in extra]}, duplicates {dup}"
                + ("" if impl["center_ok"] else "; LocalGrid.center differs from the requested centre"))
    return (exc_obs(impl["exc"]),
            f"raises {impl['exc'][0]} in {impl['exc'][1]} ({impl['exc'][2][:60]}); expected a local grid with {len(orc)} entries")


def defect_class(case: Case, impl, orc):
    """Known defect classes of the pinned code (returns the witness key the instance belongs to)."""
    if case.path1d and case.K == 0 and impl["kind"] == "raise" and exc_kind(impl["exc"]) == 3:
        return "nolat-1d"
    if case.path1d and case.K == 1 and case.A[0][0] < 0:
        return "neg-1d"
    if not orc and impl["kind"] == "raise" and exc_kind(impl["exc"]) == 1:
        return "empty-sphere-assert"
    if not orc and impl["kind"] == "raise" and exc_kind(impl["exc"]) == 2:
        return "empty-sphere-concat"
    return None


def validate_hypotheses(ctx: Ctx, case: Case, impl, nfail):
    """recivecs of the code vs the exact reciprocal vectors given to the model; spacings; wrapped points."""
    if impl["recivecs"] is None or case.B is None:
        return
    Bf = np.array([[float(x) for x in b] for b in case.B]).reshape(case.K, case.M)
    if impl["recivecs"].shape != Bf.shape or not np.allclose(impl["recivecs"], Bf, rtol=1e-9, atol=1e-12):
        ctx.fail("hyp_dual", "recivecs:" + case.key(), None,
                 f"PeriodicGrid.recivecs differs from the exact reciprocal vectors (b_k.a_l = delta_kl): {impl['recivecs'].tolist()} vs {Bf.tolist()}",
                 {"reproduce": case.py()}, found_input=False)
        nfail[0] += 1
    # stored points are the user's points plus lattice vectors
    if impl["spts"] is not None and case.K:
        for i, p in enumerate(case.pts):
            d = [Fr(float(x)) - y for x, y in zip(impl["spts"][i], p)]
            f = [fdot(b, d) for b in case.B]
            back = [sum((f[k] * case.A[k][dd] for k in range(case.K)), Fr(0)) for dd in range(case.M)]
            if any(x.denominator != 1 for x in f) or back != d or (not case.wrap and any(x != 0 for x in d)):
                ctx.fail("position_is_parent_plus_translation", "stored-points:" + case.key(), None,
                         f"stored point {i} = {impl['spts'][i].tolist()} is not the given point {[str(x) for x in p]} plus a lattice vector",
                         {"reproduce": case.py().split(".get_localgrid")[0] + ".points"})
                nfail[0] += 1
                break


def validate_ball(ctx: Ctx, rng, n):
    """Contract of the k-d tree ball query assumed by the theorems (ball_ok)."""
    from scipy.spatial import cKDTree

    bad = 0
    for _ in range(n):
        M = rng.randint(1, 3)
        N = rng.randint(1, 12)
        P = np.array([[rng.randint(-8, 8) for _ in range(M)] for _ in range(N)], dtype=float)
        c = np.array([rng.randint(-40, 40) / 4 for _ in range(M)])
        r = (2 * rng.randint(0, 40) + 1) / 8
        got = cKDTree(P).query_ball_point(c, r, p=2.0)
        exp = [i for i in range(N) if sum((P[i] - c) ** 2) <= r * r]
        if sorted(got) != exp or len(set(got)) != len(got):
            bad += 1
            ctx.fail("hyp_ball", f"ball:{P.tolist()}:{c.tolist()}:{r}", None,
                     f"cKDTree.query_ball_point returned {sorted(got)}, exact filter gives {exp}", found_input=False)
    ctx.count("ball_contract_checks", n)
    return bad


def source_units(ctx: Ctx):
    """Hash the anchored units into the evidence (information only; the model is hand written)."""
    for fname, names in (("periodicgrid.py", {"__init__", "get_localgrid"}), ("basegrid.py", {"get_localgrid"})):
        src = (SRC / fname).read_text()
        tree = ast.parse(src)
        for node in ast.walk(tree):
            if isinstance(node, ast.ClassDef) and node.name in ("PeriodicGrid", "Grid", "LocalGrid"):
                for sub in node.body:
                    if isinstance(sub, ast.FunctionDef) and (sub.name in names or (node.name == "LocalGrid" and sub.name == "__init__")):
                        seg = ast.get_source_segment(src, sub)
                        ctx.gen_units.append({"unit": f"{node.name}.{sub.name}", "file": f"src/grid/{fname}",
                                              "lines": [sub.lineno, sub.end_lineno], "sha": src_sha(seg)})


def run(ctx: Ctx):
    import importlib

    import grid.basegrid as gb
    import grid.periodicgrid as pg

    importlib.reload(gb)
    importlib.reload(pg)
    source_units(ctx)
    ctx.copy_coq("C11")
    status = ctx.coq_build()
    ctx.register_props(status)
    rng = ctx.rng

    # ---------------- hypotheses of the theorems
    validate_ball(ctx, rng, 300 if ctx.quick else 3000)

    # ---------------- cases
    n_rand = 1200 if ctx.quick else 12000
    cases = [(None, None, w[2], w) for w in witnesses()] + [(None, None, c, None) for c in fixed_cases()]
    for k in range(n_rand):
        cases.append((None, None, rand_case(rng, big=(not ctx.quick and k % 7 == 0)), None))

    exprs, meta = [], []
    nfail = [0]
    known_ok = {}      # witness key -> reproduced?
    instances = []     # (class key, case, impl, orc, verdict)
    stats = {"edge_lo": 0, "edge_hi": 0, "nonempty": 0, "box_eq": 0, "box_cmp": 0, "box_tie": 0, "box_wider": 0, "box_narrower": 0}
    for _, _, case, wit in cases:
        impl = run_impl(case)
        orc, pairs = oracle(case)
        verdict = classify(case, impl, orc)
        code_ok = verdict is None
        ctx.case(case.key())
        ctx.count(f"M{case.M}:{'1d' if case.path1d else 'nd'}:K{case.K}:{case.tag}:{'wrap' if case.wrap else 'nowrap'}")
        ctx.count("sphere:" + ("empty" if not orc else ("1-9" if len(orc) < 10 else ("10-99" if len(orc) < 100 else ">=100"))))
        validate_hypotheses(ctx, case, impl, nfail)
        box = ties = None
        spts = None
        loose = False
        if case.B is not None and not (case.path1d and case.K == 0):
            box, ties, shifts, fr = exact_box(case)
            # stored points: exact comparison unless a fractional coordinate sits exactly on a cell boundary
            raw = [[fdot(b, p) for b in case.B] for p in case.pts]
            wrap_tie = case.wrap and any(x.denominator == 1 for f in raw for x in f)
            loose = bool(wrap_tie or any(ties))
            if impl["spts"] is not None and not wrap_tie:
                spts = [[Fr(float(x)) for x in row] for row in impl["spts"]]
            # coverage: is the outermost needed displacement on the edge of the enumerated box?
            if orc:
                stats["nonempty"] += 1
                need = [[shifts[i][k] - j[k] for k in range(case.K)] for i, j in pairs]
                if case.K and any(any(n[k] == box[k][0] for n in need) for k in range(case.K)):
                    stats["edge_lo"] += 1
                if case.K and any(any(n[k] == box[k][1] for n in need) for k in range(case.K)):
                    stats["edge_hi"] += 1
            # observed box of the implementation vs the exact mirror (information + tie of the formula)
            if impl["box"] is not None and len(impl["box"]) == case.K and case.K:
                if loose:
                    stats["box_tie"] += 1
                else:
                    stats["box_cmp"] += 1
                    if [tuple(b) for b in impl["box"]] == [tuple(b) for b in box]:
                        stats["box_eq"] += 1
                    elif all(o[0] <= e[0] and o[1] >= e[1] for o, e in zip(impl["box"], box)):
                        stats["box_wider"] += 1
                    else:
                        stats["box_narrower"] += 1
        exprs.append(coq_case(case, impl, code_ok, box, spts, loose))
        cls = None if code_ok else defect_class(case, impl, orc)
        meta.append((case, impl, orc, verdict, cls, wit))
        if len(ctx.samples) < 6 and orc and case.K:
            ctx.sample({"call": case.py(), "n_local": len(impl["items"]), "n_oracle": len(orc), "impl_box": impl["box"], "exact_box": box})

    bad = set(ctx.coq_bool_cases("C11_cases", HDR, exprs, shard=30 if ctx.quick else 120))

    # ---------------- verdicts
    for (case, impl, orc, verdict, cls, wit), idx in zip(meta, range(len(meta))):
        if wit is not None:
            obl, wkey, _, text = wit
            reproduced = verdict is not None and idx not in bad
            known_ok[wkey] = reproduced
            if verdict is not None:
                ctx.fail(obl, f"{wkey}:{case.key()}", verdict[0], f"{text}; the implementation {verdict[1]}",
                         {"reproduce": case.py(), "expected_entries": len(orc)})
            if idx in bad:
                ctx.fail("corr_model", f"model:{case.key()}", exc_obs(impl["exc"]) if impl["exc"] else "ok",
                         "the model of the defect witness and the implementation disagree", {"reproduce": case.py()},
                         found_input=False)
    nviol = 0
    for (case, impl, orc, verdict, cls, wit), idx in zip(meta, range(len(meta))):
        if wit is not None:
            continue
        if verdict is None:
            if idx in bad:
                ctx.fail("corr_model", f"model:{case.key()}", None,
                         "implementation agrees with the brute-force oracle but the Coq model (outcome / integer box / stored points / reciprocal vectors) does not",
                         {"reproduce": case.py(), "coq_case": exprs[idx][:2000]}, found_input=False)
            continue
        if cls is not None and known_ok.get(cls) and idx not in bad:
            ctx.count(f"known-defect-instances:{cls}")
            continue
        nviol += 1
        if nviol > 8:   # every further failing input is only counted
            ctx.count("further_failing_inputs")
            continue
        ctx.fail("local_grid_exact" if idx not in bad else "corr_model", case.key(), verdict[0],
                 f"{case.py()} {verdict[1]}", {"reproduce": case.py(), "expected_entries": len(orc),
                                                "expected_first": [(i, [str(x) for x in p], str(w)) for i, p, w in orc[:8]]})
    if stats["box_narrower"]:
        ctx.notes.append(f"{stats['box_narrower']} cases: the implementation enumerates a smaller integer box than the model (images can be lost)")
    if stats["box_wider"]:
        ctx.notes.append(f"{stats['box_wider']} cases: the implementation enumerates a larger integer box than the model (harmless for the property)")

    # ---------------- search: oracle sweep without Coq (cheap, many more inputs)
    n_sweep = 8000 if ctx.quick else 120000
    found = 0
    for k in range(n_sweep):
        case = rand_case(rng, big=(k % 5 == 0))
        impl = run_impl(case)
        orc, _ = oracle(case)
        verdict = classify(case, impl, orc)
        ctx.case(None)
        if verdict is None:
            continue
        cls = defect_class(case, impl, orc)
        if cls is not None and known_ok.get(cls):
            ctx.count(f"known-defect-instances:{cls}")
            continue
        found += 1
        if found <= 5:
            ctx.fail("local_grid_exact", case.key(), verdict[0], f"{case.py()} {verdict[1]}",
                     {"reproduce": case.py(), "expected_entries": len(orc)})
    ctx.count("oracle_sweep_cases", n_sweep)

    ctx.cov["rule"] = ("random dyadic inputs: dimension 1..3, 0..dim lattice vectors (orthogonal / negative / short (entries 1/2) / long / "
                       "strongly skewed / random), 1..6 integer points inside and outside the cell, wrap on/off, centres on the 1/4 grid, "
                       "radii odd/8 (r^2 is never a squared distance), both array layouts for dimension 1; a case is distinct by its full input; "
                       "non-trivial = sphere non-empty; edge_lo/edge_hi = cases where a needed displacement lies on the lower/upper edge of the "
                       "enumerated integer box (an off-by-one bound loses an image there)")
    ctx.cov["case_stats"] = stats
    ctx.cov["witnesses_reproduced"] = known_ok
    ctx.trusted += [
        "hand model coq/C11/C11_model.v of PeriodicGrid.__init__/get_localgrid (both array layouts), tied by exact correspondence (outcome kind, "
        "multiset of (index, position, weight), integer box, stored points)",
        "NumOps instance at bigQ (Bignums) implements the ordered-field operations used at R; floor/ceil via Qfloor/Qceiling",
        "hypothesis dual B A (b_k . a_l = delta_kl): checked exactly in Coq for the rational reciprocal vectors of every case; the code's "
        "recivecs (SVD pseudo-inverse, or 1/a on the 1-D path) compared with them to 1e-9",
        "hypothesis ball_ok: cKDTree.query_ball_point(c, r, p=2) returns each index with |p_i - c| <= r exactly once (validated on random inputs each run)",
        "brute-force oracle: integer arithmetic on coordinates scaled by 8, image box |j_k| <= |b_k| (r + max|p - c|) + 2",
        "the `itertools` name inside grid.periodicgrid is shadowed at run time to observe the enumerated box (information only)",
    ]
    ctx.assumptions += ["dimension <= 3 (vectors are triples)", "grid has at least one point", "radius finite and >= 0",
                        "radii off every boundary in the correspondence (no |v| = r ties)"]
