"""C11 — periodic local grids contain every periodic image inside the sphere exactly once.

gen:   hand model (coq/C11/C11_model.v, mirroring periodicgrid.py after the fixes of the empty-sphere / negative 1-D
       vector / 1-D no-lattice defects); the anchored source units are hashed into the evidence.
prove: coq/C11/*.v  (theorems at R: complete / local_grid_exact / no_duplicates / wrap_irrelevant / empty sphere /
       1-D path of either sign / no lattice = plain grid / ranges = the code's ceil..floor formulas).
tie:   two input families, dimensions 1..3, 0..dim lattice vectors, both array layouts for dimension 1, wrap on/off,
       every argument presented in several forms (float / integer dtype, lists, Python scalars, 0-d arrays,
       non-contiguous views, Fortran order, integer radius):
         generic      random dyadic lattices (orthogonal / negative / short / long / strongly skewed / random), radius^2
                      off every squared distance (no image on the sphere: robust against float rounding);
         commensurate axis-aligned lattices with constants +-2^e, points/centres on the 1/4 mesh, the radius IS the
                      distance of a chosen image (Pythagorean offsets), so images lie exactly on the closed sphere.
                      Restriction: used as an exact test only when recivecs, spacings and frac_intvls computed by the
                      implementation are bit-exact (checked per case; then every later float operation is exact too).
       Each case: run PeriodicGrid(...).get_localgrid on the implementation, compare the sorted multiset of
       (parent index, position, weight)
         (a) with the Coq model evaluated at bigQ by vm_compute (ctx.coq_bool_cases), together with the integer box
             (exact harness mirror == model ranges) and the stored points,
         (b) with a brute-force enumeration of the images in a safely large box (the property's own oracle, exact
             integer arithmetic, closed ball).
       Section hypotheses validated per run: recivecs @ realvecs.T = 1 and the cKDTree ball-query contract.
search: the brute-force oracle, on every case and on an additional sweep without Coq; a broken model tie is reported
       through ctx.broken_tie with the failing inputs found by the oracle as candidates.
"""
from __future__ import annotations

import ast
import itertools as _it
import math
from fractions import Fraction as Fr

import numpy as np

from vlib.core import SRC, Ctx, q_bigq, src_sha, z

SCALE = 8  # all coordinates are multiples of 1/8: lattice in Z/2, points in Z, centres in Z/4, radii odd/8

HDR = r"""
From Coq Require Import ZArith List Bool QArith Qround.
From Bignums Require Import BigQ.
From P Require Import C11_model.
Import ListNotations.
Definition qleb (a b : bigQ) : bool := match BigQ.compare a b with Gt => false | _ => true end.
Definition QOps : NumOps bigQ :=
  mkOps bigQ 0%bigQ BigQ.add BigQ.sub BigQ.mul qleb (fun z => BigQ.Qz (BigZ.of_Z z))
        (fun x => Qfloor (BigQ.to_Q x)) (fun x => Qceiling (BigQ.to_Q x)).
Notation qv := (bigQ * bigQ * bigQ)%type.
Notation qitem := (nat * qv * bigQ)%type.
Definition qeq (a b : bigQ) : bool := BigQ.eq_bool a b.
Definition veq (u v : qv) : bool :=
  let '(a, b, c) := u in let '(d, e, f) := v in qeq a d && qeq b e && qeq c f.
Definition ieq (x y : qitem) : bool :=
  let '(i, p, w) := x in let '(j, q, v) := y in Nat.eqb i j && veq p q && qeq w v.
Definition lex (c1 c2 : comparison) : comparison := match c1 with Eq => c2 | _ => c1 end.
Definition vcmp (u v : qv) : comparison :=
  let '(a, b, c) := u in let '(d, e, f) := v in
  lex (BigQ.compare a d) (lex (BigQ.compare b e) (BigQ.compare c f)).
Definition icmp (x y : qitem) : comparison :=
  let '(i, p, w) := x in let '(j, q, v) := y in lex (Nat.compare i j) (lex (vcmp p q) (BigQ.compare w v)).
Fixpoint ins (x : qitem) (l : list qitem) : list qitem :=
  match l with [] => [x] | y :: r => match icmp x y with Gt => y :: ins x r | _ => x :: l end end.
Definition isort (l : list qitem) : list qitem := fold_right ins [] l.
Fixpoint leqb {X} (e : X -> X -> bool) (a b : list X) : bool :=
  match a, b with [] , [] => true | x :: r, y :: s => e x y && leqb e r s | _, _ => false end.
(* b_k . a_l = delta_kl, exactly *)
Definition dualb (B A : list qv) : bool :=
  Nat.eqb (length B) (length A) &&
  forallb (fun kb : nat * qv => let (k, b) := kb in
     forallb (fun la : nat * qv => let (l, a) := la in
        qeq (dot QOps b a) (if Nat.eqb k l then 1%bigQ else 0%bigQ)) (combine (seq 0 (length A)) A))
     (combine (seq 0 (length B)) B).
Fixpoint leqb2 {X Y} (e : X -> Y -> bool) (a : list X) (b : list Y) : bool :=
  match a, b with [] , [] => true | x :: r, y :: s => e x y && leqb2 e r s | _, _ => false end.
Definition boxeq2 (rs : list (list Z)) (lit : list (Z * Z)) : bool :=
  leqb2 (fun (r : list Z) (lh : Z * Z) => leqb Z.eqb r (zrange (fst lh) (snd lh))) rs lit.
(* one correspondence case.  path1d: which array layout; impl_ok/obs: what the implementation returned;
   box: exact integer bounds computed by the harness mirror; spts: stored points (None when a fractional
   coordinate lies on a cell boundary and the float computation is not known to be exact) *)
Definition chk (path1d : bool) (A B : list qv) (wrap : bool) (pts : list qv) (wts : list bigQ) (c : qv) (r : bigQ)
               (impl_ok : bool) (obs : list qitem) (box : option (list (Z * Z)))
               (spts : option (list qv)) : bool :=
  let m := (if path1d then local1d else local) QOps 0%bigQ (exact_ball QOps) A B wrap pts wts c r in
  let g := build QOps A B wrap pts in
  dualb B A &&
  match box with
  | None => true
  | Some lit => boxeq2 (if path1d then match B with b :: _ => ranges1d QOps (fst (fst b)) g (fst (fst c)) r | [] => [] end
                        else ranges QOps B g c r) lit
  end &&
  match spts with None => true | Some l => leqb veq (map fst g) l end &&
  impl_ok && leqb ieq (isort m) (isort obs).
"""


# ----------------------------------------------------------------------------------------------- exact helpers
def fdot(u, v):
    return sum((a * b for a, b in zip(u, v)), Fr(0))


def recip(A):
    """Exact reciprocal vectors B = (A A^T)^-1 A (rows), Fractions; None when singular."""
    K = len(A)
    if K == 0:
        return []
    G = [[fdot(A[i], A[j]) for j in range(K)] for i in range(K)]
    # Gauss-Jordan on [G | I]
    M = [G[i][:] + [Fr(int(i == j)) for j in range(K)] for i in range(K)]
    for col in range(K):
        piv = next((r for r in range(col, K) if M[r][col] != 0), None)
        if piv is None:
            return None
        M[col], M[piv] = M[piv], M[col]
        pv = M[col][col]
        M[col] = [x / pv for x in M[col]]
        for r in range(K):
            if r != col and M[r][col] != 0:
                f = M[r][col]
                M[r] = [x - f * y for x, y in zip(M[r], M[col])]
    Ginv = [row[K:] for row in M]
    dim = len(A[0])
    return [[sum((Ginv[k][l] * A[l][d] for l in range(K)), Fr(0)) for d in range(dim)] for k in range(K)]


def ffloor(x: Fr) -> int:
    return x.numerator // x.denominator


def fceil(x: Fr) -> int:
    return -((-x.numerator) // x.denominator)


CENTER_FORMS = ("f64", "i64", "list", "tuple", "scalar", "npscalar", "0d", "view")
ARRAY_FORMS = ("f64", "i64", "view", "F")


class Case:
    """All numbers exact Fractions; vectors have length M (padded to 3 when printed).
    forms: how each argument is handed to the implementation (dtype / container / memory layout).
    scale: every length (lattice, points, centre, radius) is multiplied by 2**scale when handed to the implementation and
           the returned positions are divided by it again (exact in binary floating point); pts/A/c/r here are unscaled.
    hist:  None, or how the queried grid object is obtained: dict(parent=Case, ops=[...], target='g'|'h') where the
           parent is constructed as `g` and ops are ('q', 'g'|'h', centre, radius) earlier queries, ('sel', spec) h = g[spec],
           ('setw', 'g'|'h', weights), ('setp', 'g'|'h', points).  pts/wts/wrap of this case describe the grid that
           the target object must be equivalent to."""

    def __init__(self, M, path1d, A, pts, wts, wrap, c, r, tag, forms=None, scale=0, hist=None):
        self.M, self.path1d, self.A, self.pts, self.wts, self.wrap, self.c, self.r, self.tag = M, path1d, A, pts, wts, wrap, c, r, tag
        self.K = len(A)
        self.B = [[Fr(1) / A[0][0]]] if (path1d and self.K == 1) else recip(A)
        self.forms = {"pts": "f64", "rv": "f64", "w": "f64", "c": "f64", "r": "float"}
        self.forms.update(forms or {})
        self.scale = scale
        self.hist = hist
        self.exact = False   # commensurate family: set by the harness when the float pipeline is verified exact

    @property
    def s(self):
        return Fr(2) ** self.scale

    def key(self):
        def fl(v):
            return "[" + ",".join(str(x) for x in v) + "]"
        f = self.forms
        fs = "" if all(f[k] == d for k, d in (("pts", "f64"), ("rv", "f64"), ("w", "f64"), ("c", "f64"), ("r", "float"))) else \
            f":forms={f['pts']}/{f['rv']}/{f['w']}/{f['c']}/{f['r']}"
        if self.scale:
            fs += f":scale=2^{self.scale}"
        if self.hist:
            fs += ":hist=" + self.hist["desc"] + "<" + self.hist["parent"].key() + ">"
        return (f"{'1d' if self.path1d else 'nd'}:M={self.M}:A=[{','.join(fl(a) for a in self.A)}]:wrap={int(self.wrap)}:"
                f"pts=[{','.join(fl(p) for p in self.pts)}]:c={fl(self.c)}:r={self.r}{fs}")

    # ---- source text of the arguments (the implementation is run by executing this text: replay = run)
    def _arr(self, rows, form, one, ncol, scaled=True):
        rows = [[x * self.s for x in r] for r in rows] if scaled else rows
        if form == "i64" and not all(x.denominator == 1 for r in rows for x in r):
            form = "f64"
        as_int = form == "i64"
        dt = "np.int64" if as_int else "float"
        if one:
            lit = "[" + ", ".join(_num_src(r[0], as_int) for r in rows) + "]"
            src = f"np.array({lit}, dtype={dt}).reshape({len(rows)})"
        else:
            lit = "[" + ", ".join("[" + ", ".join(_num_src(x, as_int) for x in r) + "]" for r in rows) + "]"
            src = f"np.array({lit}, dtype={dt}).reshape({len(rows)}, {ncol})"
        if form == "view":       # non-contiguous view into a larger buffer
            return f"_view({src})"
        if form == "F" and not one:
            return f"np.asfortranarray({src})"
        return src

    def ctor_src(self):
        f = self.forms
        one = self.path1d
        ps = self._arr(self.pts, f["pts"], one, self.M)
        if self.K == 0 and (one or f["rv"] == "none"):
            rs = "None"
        else:
            rs = self._arr(self.A, "f64" if f["rv"] == "none" else f["rv"], one, self.M)
        ws = self._arr([[x] for x in self.wts], f["w"], True, 1, scaled=False)
        return f"PeriodicGrid({ps}, {ws}, {rs}, wrap={self.wrap})"

    def query_args_src(self, c=None, r=None, forms=None):
        f = forms or self.forms
        one = self.path1d
        cv = [x * self.s for x in (self.c if c is None else c)]
        rr = (self.r if r is None else r) * self.s
        cf = f["c"]
        integral = all(x.denominator == 1 for x in cv)
        if cf in ("scalar", "npscalar", "0d") and not one:
            cf = "list"
        if cf == "i64" and not integral:
            cf = "f64"
        if one:
            x = cv[0]
            iv = integral and cf in ("i64", "scalar", "npscalar", "0d", "list", "tuple")
            if cf in ("scalar", "list", "tuple", "view"):
                cs = _num_src(x, iv)
            elif cf == "npscalar":
                cs = f"np.{'int64' if iv else 'float64'}({_num_src(x, iv)})"
            elif cf == "i64":
                cs = f"np.array({int(x)})"
            else:  # f64, 0d
                cs = f"np.array({float(x)!r})"
        else:
            if cf == "list":
                cs = "[" + ", ".join(_num_src(x, integral) for x in cv) + "]"
            elif cf == "tuple":
                cs = "(" + ", ".join(_num_src(x, integral) for x in cv) + ",)"
            else:
                cs = self._arr([cv], "i64" if cf == "i64" else ("view" if cf == "view" else "f64"), False, self.M, scaled=False) + "[0]"
        rf = f["r"]
        rint = rr.denominator == 1
        if rf == "int" and rint:
            rsrc = str(int(rr))
        elif rf == "npint" and rint:
            rsrc = f"np.int64({int(rr)})"
        elif rf == "npfloat":
            rsrc = f"np.float64({float(rr)!r})"
        else:
            rsrc = repr(float(rr))
        return f"{cs}, {rsrc}"

    def script(self):
        """-> list of (stage, line); the last line assigns lg."""
        if not self.hist:
            return [("__init__", "g = " + self.ctor_src()), ("get_localgrid", f"lg = g.get_localgrid({self.query_args_src()})")]
        par = self.hist["parent"]
        plain = {"c": "f64", "r": "float"}
        lines = [("__init__", "g = " + par.ctor_src())]
        for op in self.hist["ops"]:
            if op[0] == "q":
                lines.append(("history", f"_ = {op[1]}.get_localgrid({par.query_args_src(op[2], op[3], plain)})"))
            elif op[0] == "sel":
                lines.append(("history", f"h = g[{op[1]}]"))
            elif op[0] == "setw":
                lines.append(("history", f"{op[1]}.weights = " + par._arr([[x] for x in op[2]], "f64", True, 1, scaled=False)))
            elif op[0] == "setp":
                lines.append(("history", f"{op[1]}.points = " + par._arr(op[2], "f64", par.path1d, par.M)))
        lines.append(("get_localgrid", f"lg = {self.hist['target']}.get_localgrid({self.query_args_src()})"))
        return lines

    def py(self):
        return "; ".join(l for _, l in self.script())


def _num_src(x, as_int):
    return str(int(x)) if as_int else repr(float(x))


VIEW_HELPER = ("def _view(a):\n    big = np.full(tuple(2 * n + 1 for n in a.shape), 7.5)\n"
               "    sl = tuple(slice(1, None, 2) for _ in a.shape)\n    big[sl] = a\n    return big[sl]\n")


def _view(a):
    big = np.full(tuple(2 * n + 1 for n in a.shape), 7.5)
    sl = tuple(slice(1, None, 2) for _ in a.shape)
    big[sl] = a
    return big[sl]


def pad3(v):
    return list(v) + [Fr(0)] * (3 - len(v))


def qvec(v):
    a, b, c = pad3(v)
    return f"({q_bigq(a)}, {q_bigq(b)}, {q_bigq(c)})"


def qlist(vs):
    return "[" + "; ".join(qvec(v) for v in vs) + "]"


# ----------------------------------------------------------------------------------------------- implementation
class _ItShim:
    """Stands in for the `itertools` name inside grid.periodicgrid to observe the enumerated integer box."""

    def __init__(self):
        self.boxes = []

    def product(self, *ranges, **kw):
        try:
            self.boxes.append([(r.start, r.stop - 1) for r in ranges])
        except Exception:
            self.boxes.append(None)
        return _it.product(*ranges, **kw)

    def __getattr__(self, name):
        return getattr(_it, name)


def run_impl(case: Case):
    """Executes case.script() line by line (the same text is the replay).  Positions, stored points, reciprocal
    vectors and spacings are returned in unscaled units (exact division by 2**scale).
    -> dict(kind, items (sorted exact), exc, box, spts, recivecs, spacings, frac_intvls)"""
    import grid.periodicgrid as pg

    out = {"kind": None, "items": [], "exc": None, "box": None, "spts": None, "recivecs": None, "spacings": None,
           "frac_intvls": None, "center_ok": True}
    env = {"np": np, "PeriodicGrid": pg.PeriodicGrid, "_view": _view}
    lines = case.script()
    sf = float(case.s)
    for stage, line in lines[:-1]:
        try:
            exec(line, env)  # noqa: S102 - text generated by this module
        except Exception as e:  # noqa: BLE001
            out["kind"] = "raise"
            out["exc"] = (type(e).__name__, stage, str(e)[:120])
            return out
    tname = case.hist["target"] if case.hist else "g"
    g = env[tname]
    try:
        npts = len(case.pts)
        out["spts"] = np.array(g.points, dtype=float).reshape(npts, -1) / sf
        out["recivecs"] = (np.array(g.recivecs, dtype=float).reshape(-1, case.M) if np.size(g.recivecs) else np.zeros((0, case.M))) * sf
        out["spacings"] = np.array(g.spacings, dtype=float).reshape(-1) / sf
        out["frac_intvls"] = np.array(g.frac_intvls, dtype=float).reshape(-1, 2)
    except Exception as e:  # noqa: BLE001
        out["kind"] = "raise"
        out["exc"] = (type(e).__name__, "history", "grid object has unexpected shape: " + str(e)[:80])
        return out
    shim = _ItShim()
    saved = pg.__dict__.get("itertools")
    try:
        if saved is not None:
            pg.itertools = shim
        try:
            exec(lines[-1][1], env)  # noqa: S102
        finally:
            if saved is not None:
                pg.itertools = saved
    except Exception as e:  # noqa: BLE001
        out["kind"] = "raise"
        out["exc"] = (type(e).__name__, "get_localgrid", str(e)[:120])
        out["box"] = shim.boxes[0] if len(shim.boxes) == 1 else None
        return out
    lg = env["lg"]
    out["box"] = shim.boxes[0] if len(shim.boxes) == 1 else None
    nloc = len(lg.weights)
    P = np.array(lg.points, dtype=float).reshape(nloc, -1) if nloc else np.zeros((0, case.M))
    idx = np.array(lg.indices).reshape(-1)
    items = []
    s = case.s
    for k in range(len(idx)):
        items.append((int(idx[k]), tuple(pad3([Fr(float(x)) / s for x in P[k]])), Fr(float(lg.weights[k]))))
    out["kind"] = "ok"
    out["items"] = sorted(items)
    try:
        out["center_ok"] = bool(np.array_equal(np.asarray(lg.center, dtype=float).reshape(-1),
                                               np.array([float(x * s) for x in case.c])))
    except Exception:  # noqa: BLE001
        out["center_ok"] = False
    return out


def exc_obs(exc):
    name, where, msg = exc
    tag = "finfo" if "finfo" in msg else ("singular" if "singular" in msg else "")
    return f"{name}@{where}" + (f"({tag})" if tag else "")


# ----------------------------------------------------------------------------------------------- oracle
def oracle_box(case: Case):
    """|j_k| = |b_k . (v + c - p)| <= |b_k| (r + |c - p|): half-widths of a box containing every image in the sphere."""
    Bx = recip(case.A)  # for the size of the search box only
    far = max(math.sqrt(float(sum((pi - ci) ** 2 for pi, ci in zip(pad3(p), pad3(case.c))))) for p in case.pts)
    return [int(math.sqrt(float(fdot(b, b))) * (float(case.r) + far)) + 2 for b in Bx]


def oracle(case: Case):
    """Brute force: all (i, j) with |p_i + sum_k j_k a_k - c| <= r, j in a safely large box.
    Integer arithmetic on coordinates scaled by SCALE.  Returns (sorted items, list of (i, j))."""
    S = SCALE
    def sc(v):
        out = []
        for x in pad3(v):
            y = x * S
            if y.denominator != 1:
                raise ValueError("coordinate not on the 1/8 grid")
            out.append(int(y))
        return out
    P = np.array([sc(p) for p in case.pts], dtype=np.int64)
    C = np.array(sc(case.c), dtype=np.int64)
    A = np.array([sc(a) for a in case.A], dtype=np.int64).reshape(case.K, 3)
    r8 = case.r * S
    if r8.denominator != 1:
        raise ValueError("radius not on the 1/8 grid")
    r8 = int(r8)
    L = oracle_box(case)
    grids = np.meshgrid(*[np.arange(-l, l + 1, dtype=np.int64) for l in L], indexing="ij") if case.K else []
    J = np.stack([gr.reshape(-1) for gr in grids], axis=1) if case.K else np.zeros((1, 0), dtype=np.int64)
    T = J @ A  # (nj, 3) scaled translations
    items, pairs = [], []
    for i in range(len(P)):
        D = P[i][None, :] + T - C[None, :]
        mask = (D * D).sum(axis=1) <= r8 * r8
        for jj in np.nonzero(mask)[0]:
            q = P[i] + T[jj]
            items.append((i, tuple(Fr(int(x), S) for x in q), case.wts[i]))
            pairs.append((i, tuple(int(x) for x in J[jj])))
    order = sorted(range(len(items)), key=lambda k: items[k])
    return [items[k] for k in order], [pairs[k] for k in order]


def exact_box(case: Case):
    """Exact mirror of ilc_min/ilc_max (general path: 1/|b_k| spacing; 1-D path: |1/b| spacing).
    -> (list of (lo, hi), list of tie flags, list of per-point shifts z_i)."""
    B = case.B
    fr = [[fdot(b, p) for b in B] for p in case.pts]
    shifts = [[0] * case.K for _ in case.pts]
    if case.wrap and case.K > 0:
        shifts = [[-ffloor(x) for x in f] for f in fr]
        fr = [[x - ffloor(x) for x in f] for f in fr]
    box, ties = [], []
    for k in range(case.K):
        lo = min(f[k] for f in fr)
        hi = max(f[k] for f in fr)
        fc = fdot(B[k], case.c)
        if case.path1d:
            rb = case.r * abs(B[k][0])
            x, y = lo - fc - rb, hi - fc + rb
            box.append((fceil(x), ffloor(y)))
            ties.append(x.denominator == 1 or y.denominator == 1)
            continue
        m = case.r * case.r * fdot(B[k], B[k])
        x, y = lo - fc, hi - fc
        sq = math.sqrt(float(m))
        okl = lambda j: (x - j <= 0) or ((x - j) ** 2 <= m)  # noqa: E731
        okh = lambda j: (j - y <= 0) or ((j - y) ** 2 <= m)  # noqa: E731
        j = math.floor(float(x) - sq) - 2
        while not okl(j):
            j += 1
        while okl(j - 1):
            j -= 1
        h = math.ceil(float(y) + sq) + 2
        while not okh(h):
            h -= 1
        while okh(h + 1):
            h += 1
        box.append((j, h))
        ties.append(((x - j) > 0 and (x - j) ** 2 == m) or ((h - y) > 0 and (h - y) ** 2 == m) or (m == 0 and (x.denominator == 1 or y.denominator == 1)))
    return box, ties, shifts, fr


# ----------------------------------------------------------------------------------------------- generators
SCALES = [-40, -30, -24, -20, -17, -14, -12, -10, -6, -3, -1, 1, 2, 5, 10, 20, 33]


def rand_scale(rng, case: Case, p=0.45):
    """Units: all lengths times 2**scale (cells from 1e-12 to 1e10 across; exact in binary floating point)."""
    if rng.random() < p:
        case.scale = rng.choice(SCALES)


def rand_forms(rng, case: Case, plain=0.35):
    """Presentation of the arguments.  Integer dtypes only where the (scaled) values are integers; an integer-dtype
    lattice on the 2-D array path is sampled rarely (former finding)."""
    if rng.random() < plain:
        return
    f = case.forms
    sc = case.s
    int_pts = all((x * sc).denominator == 1 for p in case.pts for x in p)
    int_rv = case.K > 0 and all((x * sc).denominator == 1 for a in case.A for x in a)
    f["pts"] = rng.choice(["f64", "view", "F"] + (["i64", "i64"] if int_pts else []))
    rvc = ["f64", "view", "F"]
    if int_rv and (case.path1d or rng.random() < 0.04):
        rvc += ["i64", "i64"]
    f["rv"] = rng.choice(rvc)
    if case.K == 0 and not case.path1d and rng.random() < 0.5:
        f["rv"] = "none"
    f["w"] = rng.choice(["f64", "view"])
    f["c"] = rng.choice(list(CENTER_FORMS) + ["i64", "list"])
    f["r"] = rng.choice(["float", "int", "npint", "npfloat"])
    # normalise to what is actually built (see Case.query_args_src)
    integral = all((x * sc).denominator == 1 for x in case.c)
    if f["c"] in ("scalar", "npscalar", "0d") and not case.path1d:
        f["c"] = "list"
    if f["c"] == "i64" and not integral:
        f["c"] = "f64"
    if f["r"] in ("int", "npint") and (case.r * sc).denominator != 1:
        f["r"] = "float"


def exact_stored(case: Case):
    """Exact stored points of the grid (wrapped into the cell when wrap is set)."""
    if not (case.wrap and case.K):
        return [list(p) for p in case.pts]
    out = []
    for p in case.pts:
        f = [fdot(b, p) for b in case.B]
        out.append([p[d] - sum((ffloor(f[k]) * case.A[k][d] for k in range(case.K)), Fr(0)) for d in range(case.M)])
    return out


def make_history(rng, base: Case, kind=None):
    """A grid object reached through a history on one object: earlier queries (cached k-d tree), grid[...] selections
    (int / slice / mask / index array / list), queries on the selection, weights / points setters.  Returns the case
    describing the grid the queried object must be equivalent to."""
    par = base
    if par.wrap and par.K and any(fdot(b, p).denominator == 1 for p in par.pts for b in par.B):
        par.wrap = False     # a coordinate exactly on a cell boundary: the float wrap may pick either representative
    stored = exact_stored(par)
    N = len(par.pts)
    kind = kind or rng.choice(["requery", "part", "part", "part", "part", "parent-after-part", "setw"] + (["setp"] if rng.random() < 0.25 else []))

    def q(target):
        c = [x + Fr(rng.randint(-4, 4), 4) for x in par.c]
        return ("q", target, c, par.r if rng.random() < 0.6 else max(Fr(1, 8), par.r - Fr(rng.randint(1, 3), 4)))

    def selection():
        t = rng.choice(["int", "slice", "slice", "mask", "idx", "idx", "list"])
        if t == "int":
            i = rng.randrange(-N, N)
            return str(i), [i % N]
        if t == "slice":
            while True:
                a, b, st = rng.choice([None] + list(range(-N, N + 1))), rng.choice([None] + list(range(-N, N + 1))), rng.choice([None, 1, 2, -1, -1, -2])
                idx = list(range(N))[slice(a, b, st)]
                if idx:
                    return f"slice({a}, {b}, {st})", idx
        if t == "mask":
            while True:
                m = [rng.random() < 0.6 for _ in range(N)]
                if any(m):
                    return "np.array([" + ", ".join(str(x) for x in m) + "])", [i for i in range(N) if m[i]]
        idx = [rng.randrange(N) for _ in range(rng.randint(1, N + 1))]
        if t == "idx":
            return "np.array([" + ", ".join(str(i) for i in idx) + "])", idx
        return "[" + ", ".join(str(i) for i in idx) + "]", idx

    ops, target = [], "g"
    pts, wts, wrap = stored, list(par.wts), False
    if kind == "requery":
        ops = [q("g") for _ in range(rng.randint(1, 2))]
        pts, wrap = [list(p) for p in par.pts], par.wrap
    elif kind in ("part", "parent-after-part"):
        ops = [q("g") for _ in range(rng.randint(0, 2))]
        src, idx = selection()
        ops.append(("sel", src))
        if kind == "part":
            ops += [q("h") for _ in range(rng.randint(0, 1))]
            target = "h"
            pts, wts = [stored[i] for i in idx], [par.wts[i] for i in idx]
        else:
            ops.append(q("h"))
            pts, wrap = [list(p) for p in par.pts], par.wrap
        kind += ":" + src.split("(")[0].split("[")[0].strip("-0123456789") or "int"
    elif kind == "setw":
        ops = [q("g") for _ in range(rng.randint(0, 1))]
        wts = [Fr(5 * i + 3, 8) * (-1 if i % 2 else 1) for i in range(N)]
        ops.append(("setw", "g", wts))
        pts, wrap = [list(p) for p in par.pts], par.wrap
    elif kind == "setp":
        ops = [q("g") for _ in range(rng.randint(0, 1))]
        pts = []
        while len(pts) < N:
            p = [Fr(rng.randint(-12, 12)) for _ in range(par.M)]
            if p not in pts or N > 20 ** par.M:
                pts.append(p)
        ops.append(("setp", "g", pts))
    forms = dict(par.forms)
    case = Case(par.M, par.path1d, par.A, pts, wts, wrap, par.c, par.r, par.tag, forms, par.scale,
                {"parent": par, "ops": ops, "target": target, "desc": kind})
    return case


def hist_case(rng, comm=False, kind=None):
    while True:
        base = comm_case(rng) if comm else rand_case(rng)
        case = make_history(rng, base, kind)
        n = 1
        for l in oracle_box(case):
            n *= 2 * l + 1
        if n * len(case.pts) <= 1_500_000:
            return case


def rand_lattice(rng, M, K, kind):
    """K lattice vectors in dimension M with entries in Z/2, linearly independent."""
    half = lambda n: Fr(n, 2)  # noqa: E731
    for _ in range(200):
        A = [[Fr(0)] * M for _ in range(K)]
        axes = rng.sample(range(M), K)
        if kind == "ortho":
            for k, ax in enumerate(axes):
                A[k][ax] = Fr(rng.choice([1, 2, 3, 4, 5, 7]))
        elif kind == "neg":
            for k, ax in enumerate(axes):
                A[k][ax] = Fr(rng.choice([-1, -2, -3, -4, -6]))
                for d in range(M):
                    if d != ax and rng.random() < 0.3:
                        A[k][d] = Fr(rng.randint(-2, 2))
        elif kind == "short":
            for k, ax in enumerate(axes):
                A[k][ax] = half(rng.choice([1, -1, 1, 3]))
                for d in range(M):
                    if d != ax and rng.random() < 0.25:
                        A[k][d] = half(rng.choice([-1, 1]))
        elif kind == "long":
            for k, ax in enumerate(axes):
                A[k][ax] = Fr(rng.choice([6, 8, 9, -10, 12]))
                for d in range(M):
                    if d != ax and rng.random() < 0.4:
                        A[k][d] = Fr(rng.randint(-3, 3))
        elif kind == "skew":
            # strongly sheared: spacing 1/|b_k| much smaller than |a_k|
            for k, ax in enumerate(axes):
                A[k][ax] = Fr(rng.choice([1, 1, 2, -1]))
            for k in range(1, K):
                A[k] = [x + rng.choice([3, 4, 5, 7, -6]) * y for x, y in zip(A[k], A[rng.randrange(0, k)])]
            if K == 1 and M > 1:
                d = rng.choice([d for d in range(M) if d != axes[0]])
                A[0][d] = Fr(rng.choice([2, 3, -4]))
        else:  # random
            for k in range(K):
                A[k] = [half(rng.randint(-8, 8)) for _ in range(M)]
        B = recip(A)
        if K == 0:
            return A
        if B is None:
            continue
        # not too ill-conditioned for the SVD singularity test / float box; not absurdly dense
        G = np.array([[float(fdot(a, b)) for b in A] for a in A])
        if np.linalg.cond(G) > 1e6:
            continue
        return A
    raise RuntimeError("could not generate a lattice")


def cell_volume(A):
    K = len(A)
    if K == 0:
        return 1.0
    G = np.array([[float(fdot(a, b)) for b in A] for a in A])
    return math.sqrt(abs(np.linalg.det(G)))


def unit_ball(K):
    return {0: 1.0, 1: 2.0, 2: math.pi, 3: 4.0 * math.pi / 3.0}[K]


def cell_volume(A):
    K = len(A)
    if K == 0:
        return 1.0
    G = np.array([[float(fdot(a, b)) for b in A] for a in A])
    return math.sqrt(abs(np.linalg.det(G)))


def unit_ball(K):
    return {0: 1.0, 1: 2.0, 2: math.pi, 3: 4.0 * math.pi / 3.0}[K]


def rand_case(rng, big=False):
    """Generic family (radius^2 off every squared distance).  Rejection: keep the brute-force image box enumerable."""
    while True:
        case = rand_case0(rng, big)
        n = 1
        for l in oracle_box(case):
            n *= 2 * l + 1
        if n * len(case.pts) <= 1_500_000:
            rand_scale(rng, case)
            rand_forms(rng, case)
            return case


def rand_case0(rng, big=False):
    M = rng.choice([1, 1, 2, 2, 2, 3, 3, 3])
    path1d = M == 1 and rng.random() < 0.5
    K = rng.randint(0, M)
    if path1d and K == 0 and rng.random() < 0.7:
        K = 1
    kind = rng.choice(["ortho", "neg", "short", "long", "skew", "skew", "random", "random"])
    A = rand_lattice(rng, M, K, kind)
    N = rng.randint(1, 6)
    spread = rng.choice([2, 4, 6, 12])
    N = min(N, (2 * spread + 1) ** M)
    pts = []
    while len(pts) < N:
        p = [Fr(rng.randint(-spread, spread)) for _ in range(M)]
        if p not in pts:
            pts.append(p)
    wts = [Fr(3 * i + 1, 8) * (-1 if i % 3 == 2 else 1) for i in range(N)]
    if rng.random() < 0.4:   # integral centre (can be handed over with an integer dtype)
        c = [Fr(rng.randint(-8, 8)) for _ in range(M)]
        if rng.random() < 0.6:
            p = rng.choice(pts)
            c = [x + rng.randint(-1, 1) for x in p]
    else:
        c = [Fr(rng.randint(-32, 32), 4) for _ in range(M)]
        if rng.random() < 0.65:  # centre near a point -> populated spheres
            p = rng.choice(pts)
            c = [x + Fr(rng.randint(-6, 6), 4) for x in p]
    # radius: aim at a given number of lattice images per point
    target = rng.choice([0.2, 1, 3, 8, 20] + ([60] if big else []))
    vol = cell_volume(A)
    r = (target * vol / unit_ball(K)) ** (1.0 / K) if K else rng.choice([0.5, 1.5, 3, 6])
    if M > K:  # non-periodic directions: make sure the sphere is not trivially empty too often
        r = max(r, rng.choice([0.3, 1.0, 2.0]))
    r = min(max(r, 0.125), 14.0)
    r8 = max(1, int(round(r * 8)))
    if r8 % 2 == 0:
        r8 += 1
    return Case(M, path1d, A, pts, wts, rng.random() < 0.5, c, Fr(r8, 8), kind)


PYTH = {1: [(1,), (2,), (3,), (4,), (5,), (6,)],
        2: [(1, 0), (2, 0), (3, 0), (5, 0), (3, 4), (4, 3), (6, 8), (5, 12)],
        3: [(1, 0, 0), (2, 0, 0), (4, 0, 0), (3, 4, 0), (0, 3, 4), (1, 2, 2), (2, 1, 2), (2, 3, 6), (2, 2, 1), (4, 4, 2)]}


def comm_case0(rng):
    """Commensurate family: axis-aligned lattice, constants +-2^e, mesh 1/4, radius = distance of a chosen image."""
    M = rng.choice([1, 1, 2, 2, 3])
    path1d = M == 1 and rng.random() < 0.5
    K = rng.choice([k for k in range(0, M + 1) for _ in range(1 + 2 * k)])
    if path1d and K == 0 and rng.random() < 0.7:
        K = 1
    axes = rng.sample(range(M), K)
    A = []
    for ax in axes:
        a = [Fr(0)] * M
        a[ax] = rng.choice([-1, 1, 1]) * rng.choice([Fr(1, 2), Fr(1), Fr(1), Fr(2), Fr(4)])
        A.append(a)
    N = rng.randint(1, 4)
    mesh = rng.choice([1, 2, 4])
    span = rng.choice([1, 2, 3])
    pts = []
    N = min(N, (2 * span * mesh + 1) ** M)
    while len(pts) < N:
        p = [Fr(rng.randint(-span * mesh, span * mesh), mesh) for _ in range(M)]
        if p not in pts:
            pts.append(p)
    wts = [Fr(3 * i + 1, 8) * (-1 if i % 3 == 2 else 1) for i in range(N)]
    i = rng.randrange(N)
    j = [rng.randint(-2, 2) for _ in range(K)]
    q = [pts[i][d] + sum((j[k] * A[k][d] for k in range(K)), Fr(0)) for d in range(M)]
    o = list(rng.choice(PYTH[M]))
    rng.shuffle(o)
    sc = rng.choice([Fr(1, 4), Fr(1, 2), Fr(1, 2), Fr(1)])
    o = [Fr(x) * sc * rng.choice([-1, 1]) for x in o]
    r = Fr(int(math.isqrt(int(sum(x * x for x in o) * 16))), 4)
    assert r * r == sum(x * x for x in o)
    c = [q[d] - o[d] for d in range(M)]
    return Case(M, path1d, A, pts, wts, rng.random() < 0.5, c, r, "comm")


def comm_case(rng):
    while True:
        case = comm_case0(rng)
        n = 1
        for l in oracle_box(case):
            n *= 2 * l + 1
        vol = cell_volume(case.A)
        est = unit_ball(case.K) * float(case.r) ** case.K / vol * len(case.pts)
        if n * len(case.pts) <= 1_500_000 and est <= 500 and float(case.r) <= 6:
            rand_scale(rng, case)
            rand_forms(rng, case)
            return case


def fixed_cases():
    """Hand-picked cases: former defects, the seeded-change examples and classic shapes."""
    F = Fr
    out = []

    def C(*a, **k):
        out.append(Case(*a, **k))
    # skewed 2-D cell a1=(1,0), a2=(7,1); images with |j1| up to 14 for r about 2
    C(2, False, [[F(1), F(0)], [F(7), F(1)]], [[F(0), F(0)]], [F(1, 8)], False, [F(0), F(0)], F(17, 8), "fixed-skew")
    C(2, False, [[F(1), F(0)], [F(7), F(1)]], [[F(0), F(0)], [F(3), F(2)]], [F(1, 8), F(1, 2)], True, [F(1, 4), F(-1, 2)], F(17, 8), "fixed-skew")
    # 1-D both layouts, both signs, sphere larger than the cell
    for a in (4, -4):
        for one in (True, False):
            C(1, one, [[F(a)]], [[F(0)], [F(1)], [F(2)]], [F(1, 8), F(1, 2), F(-7, 8)], False, [F(1)], F(27, 8), "fixed-1d")
    C(1, True, [[F(-4)]], [[F(1)]], [F(1)], False, [F(1)], F(7, 2), "fixed-former-defect")
    C(1, True, [], [[F(0)], [F(1)], [F(2)]], [F(1), F(2), F(3)], False, [F(1)], F(3, 2), "fixed-former-defect")
    C(1, True, [], [[F(1)]], [F(1)], True, [F(7)], F(9, 8), "fixed-former-defect")
    C(3, False, [[F(10), F(0), F(0)]], [[F(0), F(0), F(0)]], [F(1)], False, [F(5), F(0), F(0)], F(1), "fixed-former-defect")
    C(3, False, [], [[F(0), F(0), F(0)]], [F(1)], False, [F(5), F(0), F(0)], F(1), "fixed-former-defect")
    # 3-D, negative and skewed
    C(3, False, [[F(2), F(1), F(0)], [F(0), F(-2), F(0)], [F(0), F(0), F(-1)]], [[F(0), F(0), F(0)], [F(5), F(-3), F(2)]],
      [F(1, 8), F(1, 2)], True, [F(1, 4), F(1, 4), F(0)], F(19, 8), "fixed-3d")
    C(3, False, [[F(0), F(3), F(1)]], [[F(1), F(1), F(1)], [F(1), F(-9), F(0)]], [F(1, 8), F(1, 2)], False, [F(1), F(2), F(1)], F(29, 8), "fixed-3d")
    # images exactly on the sphere: 1-D a = 1/2, centre 3/8, r = 1 (both layouts); 2-D unit cell, one point, r = 5 (81 images)
    for one in (True, False):
        C(1, one, [[F(1, 2)]], [[F(-1, 8)]], [F(1)], False, [F(3, 8)], F(1), "fixed-comm", {"r": "int"})
    C(2, False, [[F(1), F(0)], [F(0), F(1)]], [[F(0), F(0)]], [F(1)], False, [F(0), F(0)], F(5), "fixed-comm", {"c": "i64", "r": "int"})
    C(3, False, [[F(2), F(0), F(0)], [F(0), F(1), F(0)], [F(0), F(0), F(1, 2)]], [[F(0), F(0), F(0)], [F(1), F(1, 2), F(1, 4)]], [F(1), F(2)],
      True, [F(0), F(0), F(0)], F(3), "fixed-comm", {"c": "list"})
    # integer / list / scalar centres with a non-integer lattice (displaced centres are not integers)
    C(3, False, [[F(5, 2), F(0), F(0)], [F(0), F(3, 2), F(0)], [F(0), F(0), F(7, 2)]], [[F(0), F(0), F(0)], [F(1), F(1), F(1)]], [F(1), F(2)],
      False, [F(0), F(0), F(0)], F(33, 8), "fixed-intcentre", {"c": "i64"})
    C(2, False, [[F(3, 2), F(1, 2)], [F(0), F(5, 2)]], [[F(0), F(0)], [F(1), F(0)]], [F(1), F(2)], True, [F(1), F(-2)], F(35, 8), "fixed-intcentre", {"c": "list"})
    C(1, True, [[F(3, 2)]], [[F(0)], [F(1)]], [F(1), F(2)], False, [F(0)], F(37, 8), "fixed-intcentre", {"c": "scalar"})
    C(1, True, [[F(5, 2)]], [[F(0)], [F(1)]], [F(1), F(2)], True, [F(2)], F(45, 8), "fixed-intcentre", {"c": "npscalar", "pts": "i64"})
    C(1, False, [[F(3, 2)]], [[F(0)], [F(1)]], [F(1), F(2)], False, [F(0)], F(37, 8), "fixed-intcentre", {"c": "tuple", "pts": "view"})
    return out


# canonical witnesses of genuine defects (the integer-dtype lattice one is fixed in the current source and kept as a regression case)
def witnesses():
    F = Fr
    par = Case(2, False, [[F(4), F(0)], [F(0), F(4)]], [[F(0), F(0)], [F(1), F(1)]], [F(1), F(2)], False, [F(0), F(0)], F(17, 8), "witness")
    newp = [[F(8), F(8)], [F(9), F(9)]]
    setp = Case(2, False, par.A, newp, par.wts, False, par.c, par.r, "witness", None, 0,
                {"parent": par, "ops": [("setp", "g", newp)], "target": "g", "desc": "setp"})
    return [
        ("int_lattice_dtype", "int-realvecs",
         Case(2, False, [[F(2), F(0)], [F(0), F(2)]], [[F(0), F(0)], [F(1), F(1)]], [F(1), F(2)], False, [F(0), F(0)], F(3, 2), "witness",
              {"rv": "i64"}),
         "lattice vectors given as an integer-dtype array must give the same local grid as the equal float array"),
        ("points_setter_stale_intervals", "setpoints", setp,
         "after `grid.points = new_points` the local grid must consist of the periodic images of the new points"),
    ]


# ----------------------------------------------------------------------------------------------- evaluation
def items_lit(items):
    return "[" + "; ".join(f"({i}%nat, {qvec(p)}, {q_bigq(w)})" for i, p, w in items) + "]"


def coq_case(case: Case, impl, box, with_spts):
    boxs = "None" if box is None else "Some [" + "; ".join(f"({z(a)}, {z(b)})" for a, b in box) + "]"
    spts = "None"
    if with_spts is not None:
        spts = "Some " + qlist(with_spts)
    B = case.B if case.B is not None else []
    return (f"chk {'true' if case.path1d else 'false'} {qlist(case.A)} {qlist(B)} {'true' if case.wrap else 'false'} "
            f"{qlist(case.pts)} [{'; '.join(q_bigq(w) for w in case.wts)}] {qvec(case.c)} {q_bigq(case.r)} "
            f"{'true' if impl['kind'] == 'ok' else 'false'} {items_lit(impl['items'])} ({boxs}) ({spts})")


def on_sphere(case: Case, orc):
    r2 = case.r * case.r
    c3 = pad3(case.c)
    return [t for t, (i, q, w_) in enumerate(orc) if sum(((a - b) ** 2 for a, b in zip(q, c3)), Fr(0)) == r2]


def classify(case: Case, impl, orc):
    """Property verdict on this input: None if it holds, else (observed, text)."""
    if impl["kind"] == "ok":
        if impl["items"] == orc and impl["center_ok"]:
            return None
        obs = set(impl["items"])
        exp = set(orc)
        missing = sorted(exp - obs)[:3]
        extra = sorted(obs - exp)[:3]
        dup = len(impl["items"]) - len(obs)
        return (f"n={len(impl['items'])}/expected={len(orc)}",
                f"local grid differs from the set of periodic images in the closed sphere: {len(impl['items'])} entries vs {len(orc)} expected; "
                f"missing e.g. {[(i, [str(x) for x in p]) for i, p, _ in missing]}, unexpected e.g. {[(i, [str(x) for x in p]) for i, p, _ in extra]}, duplicates {dup}"
                + ("" if impl["center_ok"] else "; LocalGrid.center differs from the requested centre"))
    return (exc_obs(impl["exc"]),
            f"raises {impl['exc'][0]} in {impl['exc'][1]} ({impl['exc'][2][:60]}); expected a local grid with {len(orc)} entries")


def defect_class(case: Case, impl):
    """Known defect classes of the current code (returns the witness key the instance belongs to)."""
    if (not case.path1d and case.K > 0 and case.forms["rv"] == "i64" and impl["kind"] == "raise"
            and impl["exc"][0] == "ValueError" and impl["exc"][1] == "__init__" and "finfo" in impl["exc"][2]):
        return "int-realvecs"
    if case.hist and case.K > 0 and any(op[0] == "setp" for op in case.hist["ops"]):
        return "setpoints"      # PeriodicGrid inherits the points setter: frac_intvls stays that of the old points
    return None


def float_pipeline_exact(case: Case, impl, fr):
    """Commensurate family: recivecs, spacings and frac_intvls of the implementation are bit-exact.  With dyadic data
    on an axis-aligned power-of-two lattice every later operation (recivecs @ center, radius / spacings, the sums,
    squared distances in the k-d tree) is then exact as well."""
    if impl["recivecs"] is None or case.B is None:
        return False
    Bf = np.array([[float(x) for x in b] for b in case.B]).reshape(case.K, case.M)
    if impl["recivecs"].shape != Bf.shape or not np.array_equal(impl["recivecs"], Bf):
        return False
    sp = np.array([1.0 / math.sqrt(float(fdot(b, b))) for b in case.B])
    if impl["spacings"].shape != sp.shape or not np.array_equal(impl["spacings"], sp):
        return False
    iv = np.array([[float(min(f[k] for f in fr)), float(max(f[k] for f in fr))] for k in range(case.K)]).reshape(case.K, 2)
    return impl["frac_intvls"].shape == iv.shape and np.array_equal(impl["frac_intvls"], iv)


def validate_hypotheses(ctx: Ctx, case: Case, impl):
    """recivecs of the code vs the exact reciprocal vectors given to the model; stored points."""
    if impl["recivecs"] is None or case.B is None:
        return
    Bf = np.array([[float(x) for x in b] for b in case.B]).reshape(case.K, case.M)
    if impl["recivecs"].shape != Bf.shape or not np.allclose(impl["recivecs"], Bf, rtol=1e-9, atol=1e-12):
        ctx.fail("hyp_dual", "recivecs:" + case.key(), None,
                 f"PeriodicGrid.recivecs differs from the exact reciprocal vectors (b_k.a_l = delta_kl): {impl['recivecs'].tolist()} vs {Bf.tolist()}",
                 {"reproduce": case.py()}, found_input=False)
    # stored points are the user's points plus lattice vectors
    if impl["spts"] is not None and case.K:
        for i, p in enumerate(case.pts):
            d = [Fr(float(x)) - y for x, y in zip(impl["spts"][i], p)]
            f = [fdot(b, d) for b in case.B]
            back = [sum((f[k] * case.A[k][dd] for k in range(case.K)), Fr(0)) for dd in range(case.M)]
            if any(x.denominator != 1 for x in f) or back != d or (not case.wrap and any(x != 0 for x in d)):
                ctx.fail("position_is_parent_plus_translation", "stored-points:" + case.key(), None,
                         f"stored point {i} = {impl['spts'][i].tolist()} is not the given point {[str(x) for x in p]} plus a lattice vector",
                         {"reproduce": case.py().split(".get_localgrid")[0] + ".points"})
                break


def validate_ball(ctx: Ctx, rng, n):
    """Contract of the k-d tree ball query assumed by the theorems (ball_ok)."""
    from scipy.spatial import cKDTree

    bad = 0
    for _ in range(n):
        M = rng.randint(1, 3)
        N = rng.randint(1, 12)
        P = np.array([[rng.randint(-8, 8) for _ in range(M)] for _ in range(N)], dtype=float)
        c = np.array([rng.randint(-40, 40) / 4 for _ in range(M)])
        r = rng.randint(1, 80) / 8
        if rng.random() < 0.5:   # a point exactly on the sphere (closed ball)
            r = rng.randint(1, 24) / 4
            c = P[rng.randrange(N)].copy()
            c[rng.randrange(M)] += rng.choice([-1, 1]) * r
        got = cKDTree(P).query_ball_point(c, r, p=2.0)
        exp = [i for i in range(N) if sum((P[i] - c) ** 2) <= r * r]
        if sorted(got) != exp or len(set(got)) != len(got):
            bad += 1
            ctx.fail("hyp_ball", f"ball:{P.tolist()}:{c.tolist()}:{r}", None,
                     f"cKDTree.query_ball_point returned {sorted(got)}, exact filter gives {exp}", found_input=False)
    ctx.count("ball_contract_checks", n)
    return bad


def source_units(ctx: Ctx):
    """Hash the anchored units into the evidence (information only; the model is hand written)."""
    for fname, names in (("periodicgrid.py", {"__init__", "get_localgrid"}), ("basegrid.py", {"get_localgrid"})):
        src = (SRC / fname).read_text()
        tree = ast.parse(src)
        for node in ast.walk(tree):
            if isinstance(node, ast.ClassDef) and node.name in ("PeriodicGrid", "Grid", "LocalGrid"):
                for sub in node.body:
                    if isinstance(sub, ast.FunctionDef) and (sub.name in names or (node.name == "LocalGrid" and sub.name == "__init__")):
                        seg = ast.get_source_segment(src, sub)
                        ctx.gen_units.append({"unit": f"{node.name}.{sub.name}", "file": f"src/grid/{fname}",
                                              "lines": [sub.lineno, sub.end_lineno], "sha": src_sha(seg)})


def replay_of(case: Case, orc):
    sc = f" / {float(case.s)!r}" if case.scale else ""
    return {"reproduce": "import numpy as np\nfrom grid.periodicgrid import PeriodicGrid\n" + VIEW_HELPER + "\n".join(l for _, l in case.script())
                         + f"\nprint(sorted(zip(lg.indices.tolist(), (np.asarray(lg.points).reshape(len(lg.indices), -1){sc}).tolist())))",
            "expected_entries": len(orc),
            "expected_first (index, position" + (" / 2**%d" % case.scale if case.scale else "") + ", weight)":
                [(i, [str(x) for x in p], str(w)) for i, p, w in orc[:12]]}


def run(ctx: Ctx):
    import importlib

    import grid.basegrid as gb
    import grid.periodicgrid as pg

    importlib.reload(gb)
    importlib.reload(pg)
    source_units(ctx)
    ctx.copy_coq("C11")
    status = ctx.coq_build()
    ctx.register_props(status)
    rng = ctx.rng

    # ---------------- hypotheses of the theorems
    validate_ball(ctx, rng, 300 if ctx.quick else 3000)

    # ---------------- cases
    n_rand = 600 if ctx.quick else 8000
    n_comm = 350 if ctx.quick else 5000
    cases = [(w[2], w) for w in witnesses()] + [(c, None) for c in fixed_cases()]
    for k in range(n_rand):
        cases.append((rand_case(rng, big=(not ctx.quick and k % 7 == 0)), None))
    for k in range(n_comm):
        cases.append((comm_case(rng), None))
    n_hist = 300 if ctx.quick else 4000
    for k in range(n_hist):
        cases.append((hist_case(rng, comm=(k % 3 == 0)), None))

    exprs, meta = [], []
    stats = {"edge_lo": 0, "edge_hi": 0, "nonempty": 0, "box_eq": 0, "box_cmp": 0, "box_tie": 0, "box_wider": 0, "box_narrower": 0,
             "comm": 0, "comm_exact": 0, "comm_on_sphere": 0, "comm_on_sphere_at_box_edge": 0, "int_centre": 0, "int_centre_nonint_lattice": 0,
             "nondefault_forms": 0}
    for case, wit in cases:
        impl = run_impl(case)
        orc, pairs = oracle(case)
        ctx.case(case.key())
        ctx.count(f"M{case.M}:{'1d' if case.path1d else 'nd'}:K{case.K}:{case.tag}:{'wrap' if case.wrap else 'nowrap'}")
        ctx.count("sphere:" + ("empty" if not orc else ("1-9" if len(orc) < 10 else ("10-99" if len(orc) < 100 else ">=100"))))
        for k_, v_ in case.forms.items():
            ctx.count(f"form:{k_}={v_}")
        ctx.count("scale:" + ("1" if not case.scale else ("<=2^-14" if case.scale <= -14 else ("2^-13..2^-1" if case.scale < 0 else (">=2^14" if case.scale >= 14 else "2^1..2^13")))))
        ctx.count("history:" + (case.hist["desc"] if case.hist else "fresh"))
        if any(case.forms[k_] != d_ for k_, d_ in (("pts", "f64"), ("rv", "f64"), ("w", "f64"), ("c", "f64"), ("r", "float"))):
            stats["nondefault_forms"] += 1
        if case.forms["c"] in ("i64", "list", "tuple", "scalar", "npscalar") and all(x.denominator == 1 for x in case.c):
            stats["int_centre"] += 1
            if any(x.denominator != 1 for a in case.A for x in a):
                stats["int_centre_nonint_lattice"] += 1
        validate_hypotheses(ctx, case, impl)
        box = None
        spts = None
        comm = case.tag in ("comm", "fixed-comm")
        ons = on_sphere(case, orc) if comm else []
        if case.B is not None:
            box, ties, shifts, fr = exact_box(case)
            raw = [[fdot(b, p) for b in case.B] for p in case.pts]
            wrap_tie = case.wrap and any(x.denominator == 1 for f in raw for x in f)
            loose = bool(wrap_tie or any(ties))
            if comm:
                stats["comm"] += 1
                case.exact = impl["kind"] == "ok" and float_pipeline_exact(case, impl, fr)
                stats["comm_exact"] += int(case.exact)
            if impl["spts"] is not None and (not wrap_tie or case.exact):
                spts = [[Fr(float(x)) for x in row] for row in impl["spts"]]
            need = [[shifts[i][k] - j[k] for k in range(case.K)] for i, j in pairs]
            if orc:
                stats["nonempty"] += 1
                if case.K and any(any(n[k] == box[k][0] for n in need) for k in range(case.K)):
                    stats["edge_lo"] += 1
                if case.K and any(any(n[k] == box[k][1] for n in need) for k in range(case.K)):
                    stats["edge_hi"] += 1
            if ons:
                stats["comm_on_sphere"] += 1
                if case.K and any(need[t][k] in box[k] for t in ons for k in range(case.K)):
                    stats["comm_on_sphere_at_box_edge"] += 1
            # observed box of the implementation vs the exact mirror
            if impl["box"] is not None and len(impl["box"]) == case.K and case.K:
                if loose and not case.exact:
                    stats["box_tie"] += 1
                else:
                    stats["box_cmp"] += 1
                    if [tuple(b) for b in impl["box"]] == [tuple(b) for b in box]:
                        stats["box_eq"] += 1
                    elif all(o[0] <= e[0] and o[1] >= e[1] for o, e in zip(impl["box"], box)):
                        stats["box_wider"] += 1
                    else:
                        stats["box_narrower"] += 1
        # a commensurate case whose float pipeline is not verified exact is no exact test: an image on the sphere may
        # legitimately be decided either way; such a case only takes part if nothing lies on the sphere
        skip = bool(comm and not case.exact and impl["kind"] == "ok" and ons)
        verdict = None if skip else classify(case, impl, orc)
        if skip:
            ctx.count("comm_skipped_inexact_float_pipeline")
        exprs.append("true" if skip else coq_case(case, impl, box, spts))
        meta.append((case, impl, orc, verdict, wit))
        if len(ctx.samples) < 6 and orc and case.K and (comm or len(ctx.samples) < 3):
            ctx.sample({"call": case.py(), "n_local": len(impl["items"]), "n_oracle": len(orc), "n_on_sphere": len(ons), "impl_box": impl["box"],
                        "exact_box": box, "family": "commensurate" if comm else "generic"})

    tie_err = None
    try:
        bad = set(ctx.coq_bool_cases("C11_cases", HDR, exprs, shard=40 if ctx.quick else 120))
    except Exception as e:  # noqa: BLE001  the model no longer compiles / evaluates
        tie_err = e
        bad = set()

    # ---------------- verdicts
    known_ok = {}     # witness key -> (key, observed) of the reproduced finding
    cands = []        # property failures with a concrete input: (obligation, key, observed, text, replay)
    stale = []        # implementation == oracle, Coq model disagrees

    def is_instance(case, impl):
        cls = defect_class(case, impl)
        return cls is not None and cls in known_ok and ctx.is_known(*known_ok[cls])

    for idx, (case, impl, orc, verdict, wit) in enumerate(meta):
        if wit is not None:
            obl, wkey, _, text = wit
            if verdict is not None:
                known_ok[wkey] = (f"{wkey}:{case.key()}", verdict[0])
                cands.append((obl, f"{wkey}:{case.key()}", verdict[0], f"{text}; the implementation {verdict[1]}", replay_of(case, orc)))
            elif idx in bad:
                stale.append((case, exprs[idx]))
            continue
        if verdict is None:
            if idx in bad:
                stale.append((case, exprs[idx]))
            continue
        if is_instance(case, impl):
            ctx.count(f"known-defect-instances:{defect_class(case, impl)}")
            continue
        cands.append(("local_grid_exact", case.key(), verdict[0], f"{case.py()} {verdict[1]}", replay_of(case, orc)))
    if stats["box_narrower"]:
        ctx.notes.append(f"{stats['box_narrower']} cases: the implementation enumerates a smaller integer box than the model (images can be lost)")
    if stats["box_wider"]:
        ctx.notes.append(f"{stats['box_wider']} cases: the implementation enumerates a larger integer box than the model (harmless for the property)")

    # ---------------- search: oracle sweep without Coq (cheap, many more inputs)
    n_sweep = 4500 if ctx.quick else 60000
    for k in range(n_sweep):
        comm = k % 3 == 0
        if k % 4 == 3:
            case = hist_case(rng, comm=comm)
        else:
            case = comm_case(rng) if comm else rand_case(rng, big=(k % 5 == 0))
        impl = run_impl(case)
        orc, _ = oracle(case)
        ctx.case(None)
        if comm and impl["kind"] == "ok" and impl["items"] != orc:
            _, _, _, fr = exact_box(case)
            if not float_pipeline_exact(case, impl, fr):
                ctx.count("comm_skipped_inexact_float_pipeline")
                continue
        verdict = classify(case, impl, orc)
        if verdict is None:
            continue
        if is_instance(case, impl):
            ctx.count(f"known-defect-instances:{defect_class(case, impl)}")
            continue
        cands.append(("local_grid_exact", case.key(), verdict[0], f"{case.py()} {verdict[1]}", replay_of(case, orc)))
    ctx.count("oracle_sweep_cases", n_sweep)

    # ---------------- report
    reported = 0
    for obl, key, obs, text, rp in cands:
        if obl == "local_grid_exact":
            reported += 1
            if reported > 8:    # every further failing input is only counted
                ctx.count("further_failing_inputs")
                continue
        ctx.fail(obl, key, obs, text, rp)
    if tie_err is not None or stale:
        err = tie_err if tie_err is not None else RuntimeError(
            f"{len(stale)} cases: implementation agrees with the brute-force oracle but the Coq model (local grid / integer box / stored points / "
            f"reciprocal vectors) does not, e.g. {stale[0][0].py()}")
        ctx.broken_tie("model correspondence (coq/C11/C11_model.v vs periodicgrid.py)", err, [c_[1:] for c_ in cands])
    failed_obl = [n for n, o in ctx.obligations.items() if o["status"] != "discharged"]
    if failed_obl:
        ctx.broken_tie("proofs (coq/C11)", RuntimeError("obligations no longer check: " + ", ".join(failed_obl)), [c_[1:] for c_ in cands])

    ctx.cov["rule"] = ("two families. generic: random dyadic inputs, dimension 1..3, 0..dim lattice vectors (orthogonal / negative / short (entries 1/2) / long / "
                       "strongly skewed / random), 1..6 integer points inside and outside the cell, wrap on/off, centres on the 1/4 grid (40% integral), "
                       "radii odd/8 (r^2 is never a squared distance). commensurate: axis-aligned lattices with constants +-2^e, mesh 1/4, radius = distance of "
                       "a chosen image (Pythagorean offsets), images exactly on the closed sphere; exact test only when recivecs/spacings/frac_intvls of the "
                       "implementation are bit-exact (comm_exact of comm). Every argument in several forms (integer dtypes, lists, tuples, Python/NumPy scalars, "
                       "0-d arrays, non-contiguous views, Fortran order, integer radius). A case is distinct by its full input incl. forms; non-trivial = sphere "
                       "non-empty; edge_lo/edge_hi = a needed displacement lies on the lower/upper edge of the enumerated integer box; "
                       "comm_on_sphere_at_box_edge = an image exactly on the sphere needs a displacement on the edge of the box")
    ctx.cov["case_stats"] = stats
    ctx.cov["witnesses_reproduced"] = {k_: True for k_ in known_ok}
    ctx.trusted += [
        "hand model coq/C11/C11_model.v of PeriodicGrid.__init__/get_localgrid (both array layouts), tied by exact correspondence (multiset of "
        "(index, position, weight), integer box, stored points)",
        "NumOps instance at bigQ (Bignums) implements the ordered-field operations used at R; floor/ceil via Qfloor/Qceiling",
        "hypothesis dual B A (b_k . a_l = delta_kl): checked exactly in Coq for the rational reciprocal vectors of every case; the code's "
        "recivecs (SVD pseudo-inverse, or 1/a on the 1-D path) compared with them to 1e-9 (bit-exact in the commensurate family)",
        "hypothesis ball_ok: cKDTree.query_ball_point(c, r, p=2) returns each index with |p_i - c| <= r exactly once (validated on random inputs each run, "
        "including points exactly on the sphere)",
        "brute-force oracle: integer arithmetic on coordinates scaled by 8, closed ball, image box |j_k| <= |b_k| (r + max|p - c|) + 2",
        "commensurate family is an exact test only for inputs where the implementation's recivecs, spacings and frac_intvls are bit-exact "
        "(axis-aligned lattices with power-of-two constants, dyadic points/centres/radii); otherwise cases with an image on the sphere are skipped",
        "the `itertools` name inside grid.periodicgrid is shadowed at run time to observe the enumerated box (information only)",
    ]
    ctx.assumptions += ["dimension <= 3 (vectors are triples)", "grid has at least one point", "radius finite and >= 0",
                        "generic family: radii off every boundary; boundary images are tested in the commensurate family only (exact floats)"]
