"""C14 — multipole moments equal direct quadrature of their defining integrands.

gen:   `generate_orders_horton_order` (src/grid/utils.py) is translated on every run by a small fail-closed
       ast translator (class OrdersTranslator below) into fold-based Gallina over Z lists: build/C14/C14_gen.v.
prove: coq/C14/*.v  (conformance of the translation with the documented order lists for every order,
       row-index arithmetic, entry = quadrature for the hand model of Grid.moments, dipole helper).
       The 1-D Cartesian generator raises today (np.int); the theorems about dimension 1 live in one of two
       alternative files (coq/C14/alt/*_dim1_today.v / *_dim1_fixed.v), selected by what the implementation does;
       the `today` variant always goes together with a ctx.fail for the concrete failing call.
tie:   exact correspondence (vm_compute) of every returned order list (orders 0..8, dims 1..3, all types), of the
       order arrays returned by Grid.moments, and of Cartesian moments on integer grids (Z arithmetic, exact in floats);
       radial / pure / pure-radial moments of the implementation and of the Coq model (run at bigQ with oracle tables)
       against direct quadrature with an independent closed-form solid-harmonic implementation, 1e-10.
       Function values / densities are passed as float64, int64, int32, bool and float32 arrays (contiguous, non-contiguous
       views, write-protected) on non-integer dyadic grids as well (exact bigQ correspondence, zero tolerance): the expected
       value is the float64 quadrature of the given values.
broken tie: when the translator fails closed (or the model no longer compiles against the translation) the Coq side is
       skipped, every implementation-side oracle still runs, and ctx.broken_tie reports the first concrete failing input.
"""
from __future__ import annotations

import ast
import itertools
import math
import re
import sys
from fractions import Fraction

import numpy as np

from vlib.core import REPO, SRC, Ctx, q_bigq, src_sha, z

if str(REPO / "src") not in sys.path:  # scratch-worktree runs
    sys.path.insert(0, str(REPO / "src"))

TYPES = ["cartesian", "radial", "pure", "pure-radial"]


# ====================================================================== translator (py2coq/int, fail closed)
class Unsupported(Exception):
    pass


COQ_RESERVED = {"in", "let", "fun", "if", "then", "else", "match", "with", "end", "forall", "exists", "fix", "as",
                "return", "at", "Type", "Prop", "Set", "R", "Z", "nat", "list", "res", "arr", "Crash", "Ret"}
INT_DTYPES = {"int", "int8", "int16", "int32", "int64", "int_", "intp", "intc", "longlong"}


class OrdersTranslator:
    """Translate an integer list-building function to a Gallina expression of type `res`.

    Supported statements: docstring; `v = []`; `v.append([ints])`; `v += [[ints], ...]`; `for x in range(..)` with
    step +1/-1 whose body only mutates the one list variable; `if/elif/else`; `raise` (-> Crash);
    `v = np.array(v, dtype=int)`; `return v | np.array([ints]) | np.arange(a, b, dtype=D)`.
    Expressions: integer names/literals, + - *, unary -, ==, !=, <, <=, >, >=, not/and/or, string (in)equality and
    `in` / `not in` a literal list of strings for string parameters, `isinstance(<int param>, int)` (-> true).
    A `dtype=np.X` whose attribute X does not exist in the installed NumPy makes the call raise: -> Crash.
    """

    def __init__(self, fn: ast.FunctionDef, int_params, str_params):
        self.fn = fn
        self.notes: list[str] = []
        self.scope = {}
        for a in fn.args.args:
            if a.arg in int_params:
                self.scope[a.arg] = "Z"
            elif a.arg in str_params:
                self.scope[a.arg] = "str"
            else:
                raise Unsupported(f"parameter {a.arg}")
        if fn.args.vararg or fn.args.kwarg or fn.args.kwonlyargs or fn.args.posonlyargs:
            raise Unsupported("signature")
        for n in self.scope:
            if n in COQ_RESERVED:
                raise Unsupported(f"name {n} clashes with Coq")

    # ---------------------------------------------------------------- expressions
    def zexpr(self, n, sc) -> str:
        if isinstance(n, ast.Constant) and isinstance(n.value, int) and not isinstance(n.value, bool):
            return f"({n.value})" if n.value < 0 else str(n.value)
        if isinstance(n, ast.Name):
            if sc.get(n.id) != "Z":
                raise Unsupported(f"name {n.id} is not an integer in scope (line {n.lineno})")
            return n.id
        if isinstance(n, ast.BinOp) and isinstance(n.op, (ast.Add, ast.Sub, ast.Mult)):
            op = {ast.Add: "+", ast.Sub: "-", ast.Mult: "*"}[type(n.op)]
            return f"({self.zexpr(n.left, sc)} {op} {self.zexpr(n.right, sc)})"
        if isinstance(n, ast.UnaryOp) and isinstance(n.op, ast.USub):
            return f"(- {self.zexpr(n.operand, sc)})"
        raise Unsupported(f"integer expression {ast.dump(n)[:80]}")

    def row(self, n, sc) -> str:
        if not isinstance(n, ast.List) or not n.elts:
            raise Unsupported("row literal")
        return "[" + "; ".join(self.zexpr(e, sc) for e in n.elts) + "]"

    def rows(self, n, sc) -> str:
        if not isinstance(n, ast.List) or not n.elts:
            raise Unsupported("list of rows")
        return "[" + "; ".join(self.row(e, sc) for e in n.elts) + "]"

    @staticmethod
    def strlit(n) -> str:
        if isinstance(n, ast.Constant) and isinstance(n.value, str) and '"' not in n.value and n.value.isascii():
            return f'"{n.value}"%string'
        raise Unsupported("string literal")

    def bexpr(self, n, sc) -> str:
        if isinstance(n, ast.UnaryOp) and isinstance(n.op, ast.Not):
            return f"(negb {self.bexpr(n.operand, sc)})"
        if isinstance(n, ast.BoolOp):
            op = "&&" if isinstance(n.op, ast.And) else "||"
            return "(" + f" {op} ".join(self.bexpr(v, sc) for v in n.values) + ")"
        if isinstance(n, ast.Call) and isinstance(n.func, ast.Name) and n.func.id == "isinstance":
            if (len(n.args) == 2 and isinstance(n.args[0], ast.Name) and sc.get(n.args[0].id) == "Z"
                    and isinstance(n.args[1], ast.Name) and n.args[1].id == "int" and not n.keywords):
                self.notes.append(f"isinstance({n.args[0].id}, int) -> true (the model's argument is a Python int)")
                return "true"
            raise Unsupported("isinstance form")
        if isinstance(n, ast.Compare) and len(n.ops) == 1:
            op, l, r = n.ops[0], n.left, n.comparators[0]
            if isinstance(l, ast.Name) and sc.get(l.id) == "str":
                if isinstance(op, (ast.Eq, ast.NotEq)):
                    e = f"(String.eqb {l.id} {self.strlit(r)})"
                    return e if isinstance(op, ast.Eq) else f"(negb {e})"
                if isinstance(op, (ast.In, ast.NotIn)) and isinstance(r, (ast.List, ast.Tuple)):
                    e = f"(existsb (String.eqb {l.id}) [" + "; ".join(self.strlit(x) for x in r.elts) + "])"
                    return e if isinstance(op, ast.In) else f"(negb {e})"
                raise Unsupported("string comparison")
            a, b = self.zexpr(l, sc), self.zexpr(r, sc)
            tab = {ast.Eq: "({} =? {})", ast.NotEq: "(negb ({} =? {}))", ast.Lt: "({} <? {})", ast.LtE: "({} <=? {})",
                   ast.Gt: "({} >? {})", ast.GtE: "({} >=? {})"}
            if type(op) not in tab:
                raise Unsupported("comparison operator")
            return tab[type(op)].format(a, b)
        raise Unsupported(f"boolean expression {ast.dump(n)[:80]}")

    def prange(self, n, sc) -> str:
        if not (isinstance(n, ast.Call) and isinstance(n.func, ast.Name) and n.func.id == "range" and not n.keywords):
            raise Unsupported("loop iterable is not range(...)")
        a = n.args
        if len(a) == 1:
            return f"(range_up 0 {self.zexpr(a[0], sc)})"
        if len(a) == 2:
            return f"(range_up {self.zexpr(a[0], sc)} {self.zexpr(a[1], sc)})"
        if len(a) == 3:
            st = a[2]
            if isinstance(st, ast.UnaryOp) and isinstance(st.op, ast.USub) and isinstance(st.operand, ast.Constant) and st.operand.value == 1:
                return f"(range_down {self.zexpr(a[0], sc)} {self.zexpr(a[1], sc)})"
            if isinstance(st, ast.Constant) and st.value == 1:
                return f"(range_up {self.zexpr(a[0], sc)} {self.zexpr(a[1], sc)})"
        raise Unsupported("range step other than +1/-1")

    def dtype_ok(self, call: ast.Call) -> bool:
        """True: integer dtype that exists; False: evaluating the keyword raises AttributeError."""
        ok = True
        for kw in call.keywords:
            if kw.arg != "dtype":
                raise Unsupported(f"keyword {kw.arg}")
            v = kw.value
            if isinstance(v, ast.Name) and v.id == "int":
                continue
            if isinstance(v, ast.Attribute) and isinstance(v.value, ast.Name) and v.value.id == "np" and v.attr in INT_DTYPES:
                if hasattr(np, v.attr):
                    continue
                self.notes.append(f"line {v.lineno}: np.{v.attr} does not exist in NumPy {np.__version__}: the call raises AttributeError -> Crash")
                ok = False
                continue
            raise Unsupported("dtype expression")
        return ok

    @staticmethod
    def np_call(n, name):
        return (isinstance(n, ast.Call) and isinstance(n.func, ast.Attribute) and isinstance(n.func.value, ast.Name)
                and n.func.value.id == "np" and n.func.attr == name)

    # ---------------------------------------------------------------- statements
    def block(self, stmts, sc, k, loop_var=None, ind=1) -> str:
        """Coq expression for `stmts` followed by continuation `k` (a Coq expression using the scope's names).
        Inside a loop body (loop_var = the one list variable) return/raise are rejected."""
        pad = "  " * ind
        if not stmts:
            return pad + k
        s, rest = stmts[0], stmts[1:]
        sc = dict(sc)
        if isinstance(s, ast.Expr) and isinstance(s.value, ast.Constant) and isinstance(s.value.value, str):
            return self.block(rest, sc, k, loop_var, ind)
        if isinstance(s, ast.Assign):
            if len(s.targets) != 1 or not isinstance(s.targets[0], ast.Name) or loop_var:
                raise Unsupported(f"assignment form (line {s.lineno})")
            v = s.targets[0].id
            if v in COQ_RESERVED:
                raise Unsupported(f"name {v} clashes with Coq")
            if isinstance(s.value, ast.List) and not s.value.elts and v not in sc:
                sc[v] = "rows"
                return f"{pad}let {v} : list (list Z) := [] in\n" + self.block(rest, sc, k, loop_var, ind)
            if self.np_call(s.value, "array") and len(s.value.args) == 1 and isinstance(s.value.args[0], ast.Name) \
                    and s.value.args[0].id == v and sc.get(v) == "rows":
                if not self.dtype_ok(s.value):
                    return pad + "Crash"
                sc[v] = "arr"
                return f"{pad}bind_arr (np_array2 {v}) (fun {v} =>\n" + self.block(rest, sc, k, loop_var, ind) + ")"
            raise Unsupported(f"assignment (line {s.lineno})")
        if isinstance(s, ast.AugAssign):
            if not (isinstance(s.target, ast.Name) and sc.get(s.target.id) == "rows" and isinstance(s.op, ast.Add)):
                raise Unsupported(f"augmented assignment (line {s.lineno})")
            v = s.target.id
            if loop_var and v != loop_var:
                raise Unsupported("loop body mutates a second variable")
            return f"{pad}let {v} := {v} ++ {self.rows(s.value, sc)} in\n" + self.block(rest, sc, k, loop_var, ind)
        if isinstance(s, ast.Expr) and isinstance(s.value, ast.Call):
            c = s.value
            if (isinstance(c.func, ast.Attribute) and c.func.attr == "append" and isinstance(c.func.value, ast.Name)
                    and sc.get(c.func.value.id) == "rows" and len(c.args) == 1 and not c.keywords):
                v = c.func.value.id
                if loop_var and v != loop_var:
                    raise Unsupported("loop body mutates a second variable")
                return f"{pad}let {v} := {v} ++ [{self.row(c.args[0], sc)}] in\n" + self.block(rest, sc, k, loop_var, ind)
            raise Unsupported(f"call statement (line {s.lineno})")
        if isinstance(s, ast.For):
            if s.orelse or not isinstance(s.target, ast.Name):
                raise Unsupported("for form")
            x = s.target.id
            if x in sc or x in COQ_RESERVED:
                raise Unsupported(f"loop variable {x} shadows a name")
            mutated = self.mutated(s.body)
            if len(mutated) != 1:
                raise Unsupported(f"loop must mutate exactly one list (line {s.lineno}): {mutated}")
            v = mutated.pop()
            if sc.get(v) != "rows" or (loop_var and v != loop_var):
                raise Unsupported("loop state variable")
            rng = self.prange(s.iter, sc)
            inner = dict(sc)
            inner[x] = "Z"
            body = self.block(s.body, inner, v, loop_var=v, ind=ind + 2)
            # the loop variable is dropped from scope afterwards (fail closed on Python's leaking loop variable)
            return (f"{pad}let {v} := fold_left (fun {v} {x} =>\n{body})\n{pad}    {rng} {v} in\n"
                    + self.block(rest, sc, k, loop_var, ind))
        if isinstance(s, ast.If):
            c = self.bexpr(s.test, sc)
            return (f"{pad}if {c} then\n" + self.block(list(s.body) + rest, sc, k, loop_var, ind + 1)
                    + f"\n{pad}else\n" + self.block(list(s.orelse) + rest, sc, k, loop_var, ind + 1))
        if isinstance(s, ast.Raise):
            if loop_var:
                raise Unsupported("raise inside a loop")
            return pad + "Crash"
        if isinstance(s, ast.Return):
            if loop_var:
                raise Unsupported("return inside a loop")
            v = s.value
            if isinstance(v, ast.Name) and sc.get(v.id) == "arr":
                return pad + f"Ret {v.id}"
            if self.np_call(v, "array") and len(v.args) == 1 and isinstance(v.args[0], ast.List):
                if not self.dtype_ok(v):
                    return pad + "Crash"
                return pad + f"np_array1 {self.row(v.args[0], sc)}"
            if self.np_call(v, "arange") and len(v.args) == 2:
                a, b = self.zexpr(v.args[0], sc), self.zexpr(v.args[1], sc)
                if not self.dtype_ok(v):
                    return pad + "Crash"
                return pad + f"np_arange {a} {b}"
            raise Unsupported(f"return value (line {s.lineno})")
        raise Unsupported(f"statement {type(s).__name__} (line {s.lineno})")

    def mutated(self, stmts) -> set:
        out = set()
        for s in stmts:
            if isinstance(s, ast.AugAssign) and isinstance(s.target, ast.Name):
                out.add(s.target.id)
            elif isinstance(s, ast.Expr) and isinstance(s.value, ast.Call) and isinstance(s.value.func, ast.Attribute) \
                    and isinstance(s.value.func.value, ast.Name):
                out.add(s.value.func.value.id)
            elif isinstance(s, ast.For):
                out |= self.mutated(s.body)
            elif isinstance(s, ast.If):
                out |= self.mutated(s.body) | self.mutated(s.orelse)
            else:
                raise Unsupported(f"statement {type(s).__name__} in loop body (line {s.lineno})")
        return out

    def translate(self, coq_name: str) -> str:
        params = " ".join(f"({a} : {'Z' if t == 'Z' else 'string'})" for a, t in self.scope.items())
        body = self.block(list(self.fn.body), dict(self.scope), "Crash (* fell off the end: returns None *)")
        return f"Definition {coq_name} {params} : res :=\n{body}.\n"


def find_func(tree, name):
    for n in tree.body:
        if isinstance(n, ast.FunctionDef) and n.name == name:
            return n
    raise Unsupported(f"function {name} not found")


def gen(ctx: Ctx):
    src = (SRC / "utils.py").read_text()
    tree = ast.parse(src)
    fn = find_func(tree, "generate_orders_horton_order")
    tr = OrdersTranslator(fn, int_params={"order", "dim"}, str_params={"type_ord"})
    text = tr.translate("gen_orders")
    hdr = ("(* generated from src/grid/utils.py:generate_orders_horton_order on every run; do not edit *)\n"
           "From Coq Require Import String ZArith List Bool.\nFrom P Require Import C14_model_base.\n"
           "Import ListNotations.\nOpen Scope Z_scope.\n\n")
    seg = ast.get_source_segment(src, fn)
    ctx.gen("C14_gen.v", hdr + text, [{"unit": "generate_orders_horton_order", "file": "src/grid/utils.py",
                                       "lines": [fn.lineno, fn.end_lineno], "sha": src_sha(seg)}])
    for n in tr.notes:
        ctx.notes.append("translator: " + n)
    return tr



# ====================================================================== independent oracles (Python side)
def hidx(m: int) -> int:
    return 2 * m - 1 if m > 0 else 2 * abs(m)


def horton_ms(l: int):
    out = [0]
    for j in range(1, l + 1):
        out += [j, -j]
    return out


def spec_orders(ty: str, dim: int, l: int):
    """The documented list for one order, written independently of the code (brute force / direct enumeration)."""
    if ty == "cartesian":
        return [list(t) for t in sorted((t for t in itertools.product(range(l + 1), repeat=dim) if sum(t) == l), reverse=True)]
    if ty == "radial":
        return [[l]]
    if ty == "pure":
        return [[l, m] for m in horton_ms(l)]
    if ty == "pure-radial":
        return [[l, ll, m] for ll in range(l) for m in horton_ms(ll)]
    raise ValueError(ty)


def spec_rows(ty: str, dim: int, L: int):
    rng = range(1, L + 1) if ty == "pure-radial" else range(0, L + 1)
    return [r for l in rng for r in spec_orders(ty, dim, l)]


def solid_indep(l: int, m: int, x, y, z):
    """Real regular solid harmonic, Racah normalisation, no Condon-Shortley phase (R_1^1 = x, R_1^-1 = y, R_1^0 = z):
    N_lm * Re|Im (x+iy)^|m| * sum_k (-1)^k (2l-2k)! / (2^l k! (l-k)! (l-|m|-2k)!) r^(2k) z^(l-|m|-2k)."""
    am = abs(m)
    re, im = 1.0, 0.0
    for _ in range(am):
        re, im = re * x - im * y, re * y + im * x
    a = re if m >= 0 else im
    r2 = x * x + y * y + z * z
    s = 0.0
    f = math.factorial
    for k in range((l - am) // 2 + 1):
        c = Fraction((-1) ** k * f(2 * l - 2 * k), 2 ** l * f(k) * f(l - k) * f(l - am - 2 * k))
        s += float(c) * r2 ** k * z ** (l - am - 2 * k)
    n = 1.0 if m == 0 else math.sqrt(2.0 * f(l - am) / f(l + am))
    return n * a * s


def basis_value(ty: str, row, v):
    """Value of the basis function named by `row` at displaced point v (floats)."""
    if ty == "cartesian":
        out = 1.0
        for x, e in zip(v, row):
            out *= float(x) ** e
        return out
    r = math.sqrt(sum(float(x) * float(x) for x in v))
    if ty == "radial":
        return r ** row[0]
    if ty == "pure":
        return solid_indep(row[0], row[1], *map(float, v))
    n, l, m = row
    return r ** n * solid_indep(l, m, *map(float, v))


def direct_moments(ty, dim, L, pts, w, cs, f, exact=False):
    """(expected matrix rows x centres, per-row scale) by direct quadrature over the documented rows."""
    rows = spec_rows(ty, dim, L)
    exp, scale = [], []
    for row in rows:
        er, sc = [], 0.0
        for c in cs:
            if exact:  # integer Cartesian: exact rationals
                tot = Fraction(0)
                for p, wi, fi in zip(pts, w, f):
                    b = Fraction(1)
                    for x, cc, e in zip(p, c, row):
                        b *= (Fraction(x) - Fraction(cc)) ** e
                    tot += b * Fraction(fi) * Fraction(wi)
                er.append(tot)
            else:
                tot = 0.0
                for p, wi, fi in zip(pts, w, f):
                    v = [a - b for a, b in zip(p, c)]
                    t = basis_value(ty, row, v) * fi * wi
                    tot += t
                    # natural magnitude of the term: |S_l^m(v)| <= |v|^l, so a harmonic that vanishes by symmetry at the
                    # sampled points still gets the round-off allowance of its radial envelope
                    sc += abs(t) if ty in ("cartesian", "radial") else abs(fi * wi) * math.sqrt(sum(x * x for x in v)) ** (sum(row[:-1]))
                er.append(tot)
        exp.append(er)
        scale.append(sc)
    return rows, exp, scale


def solid_indep_np(l: int, m: int, x, y, z):
    """Vectorised form of solid_indep (same closed form), for large grids."""
    am = abs(m)
    re, im = np.ones_like(x), np.zeros_like(x)
    for _ in range(am):
        re, im = re * x - im * y, re * y + im * x
    a = re if m >= 0 else im
    r2 = x * x + y * y + z * z
    f = math.factorial
    s = np.zeros_like(x)
    for k in range((l - am) // 2 + 1):
        c = float(Fraction((-1) ** k * f(2 * l - 2 * k), 2 ** l * f(k) * f(l - k) * f(l - am - 2 * k)))
        zp = np.ones_like(x)
        for _ in range(l - am - 2 * k):
            zp = zp * z
        rp = np.ones_like(x)
        for _ in range(k):
            rp = rp * r2
        s = s + c * rp * zp
    n = 1.0 if m == 0 else math.sqrt(2.0 * f(l - am) / f(l + am))
    return n * a * s


def direct_moments_np(ty, dim, L, P, w, C, f):
    """Direct quadrature over the documented rows for large grids: powers by repeated multiplication, one row at a time
    (never a rows x points x dim array), float64 pairwise sums.  Returns (rows, expected[rows, centres], scale[rows])."""
    rows = spec_rows(ty, dim, L)
    wf = np.asarray(w, dtype=float) * np.asarray(f, dtype=float)
    exp = np.zeros((len(rows), len(C)))
    scale = np.zeros(len(rows))
    for ic, c in enumerate(C):
        d = np.asarray(P, dtype=float) - np.asarray(c, dtype=float)
        if ty == "cartesian":
            pw = [[np.ones(len(d))] for _ in range(dim)]
            for j in range(dim):
                for _ in range(L):
                    pw[j].append(pw[j][-1] * d[:, j])
        else:
            r = np.sqrt(np.sum(d * d, axis=1))
            rp = [np.ones(len(d))]
            for _ in range(2 * L):
                rp.append(rp[-1] * r)
        cache = {}
        for ir, row in enumerate(rows):
            if ty == "cartesian":
                b = np.ones(len(d))
                for j, e in enumerate(row):
                    b = b * pw[j][e]
            elif ty == "radial":
                b = rp[row[0]]
            else:
                l, m = row[-2], row[-1]
                if (l, m) not in cache:
                    cache[(l, m)] = solid_indep_np(l, m, d[:, 0], d[:, 1], d[:, 2])
                b = cache[(l, m)] if ty == "pure" else rp[row[0]] * cache[(l, m)]
            t = wf * b
            exp[ir, ic] = float(np.sum(t))
            env = np.abs(t) if ty in ("cartesian", "radial") else np.abs(wf) * rp[sum(row[:-1])]   # |S_l^m(v)| <= |v|^l
            scale[ir] += float(np.sum(env))
    return rows, exp, scale


def far_offset(rng, dim: int):
    """A translation far from the origin (|t| between 2^10 and 2^22 per coordinate, integer, so that quarter-step dyadic
    coordinates stay exact after the shift): the property is invariant under a common translation of points and centres."""
    return [float(rng.choice([-1, 1]) * rng.randint(2 ** 10, 2 ** rng.randint(11, 22))) for _ in range(dim)]


def next_prime(n: int) -> int:
    n = max(n, 2)
    while True:
        if all(n % q for q in range(2, int(n ** 0.5) + 1)):
            return n
        n += 1


# ====================================================================== implementation wrappers / Coq encodings
def impl_orders(L, ty, dim):
    from grid.utils import generate_orders_horton_order
    try:
        return generate_orders_horton_order(L, ty, dim)
    except Exception as e:  # noqa: BLE001
        return ("crash", type(e).__name__)


def is_crash(r):
    return isinstance(r, tuple) and len(r) == 2 and isinstance(r[0], str) and r[0] == "crash"


def coq_zlist(xs):
    return "[" + "; ".join(z(int(x)) for x in xs) + "]"


def coq_zrows(rows):
    return "[" + "; ".join(coq_zlist(r) for r in rows) + "]"


def coq_arr(a):
    a = np.asarray(a)
    if a.dtype.kind not in "iu":
        raise ValueError("order array is not of integer type")
    if a.ndim == 1:
        return f"A1 {coq_zlist(a.tolist())}"
    if a.ndim == 2:
        return f"A2 {coq_zrows(a.tolist())}"
    raise ValueError("order array has more than 2 dimensions")


def coq_res(r):
    if is_crash(r):
        return "Crash"
    try:
        return f"Ret ({coq_arr(r)})"
    except ValueError:
        return "Crash (* not an integer array *)"


def coq_qlist(xs):
    return "[" + "; ".join(q_bigq(Fraction(float(x))) for x in xs) + "]"


def coq_qrows(rows):
    return "[" + "; ".join(coq_qlist(r) for r in rows) + "]"


FKINDS = ["float64", "int64", "int32", "bool", "float32"]   # dtypes of the function-value array
LAYOUTS = ["plain", "strided", "readonly"]                   # contiguous / non-contiguous views / write-protected


def lay(a, layout):
    """The same values as a non-contiguous view or a read-only array."""
    a = np.asarray(a)
    if layout == "strided":
        if a.ndim == 1:
            big = np.zeros(2 * len(a), dtype=a.dtype)
            big[::2] = a
            return big[::2]
        big = np.zeros((a.shape[0], a.shape[1] + 2), dtype=a.dtype)
        big[:, 1:-1] = a
        return big[:, 1:-1]
    if layout == "readonly":
        a = a.copy()
        a.setflags(write=False)
    return a


def draw_f(rng, n, kind, mode):
    """Function values of dtype `kind`; returns (array, [float64 value of every element]).
    mode: 'int' integer-valued, 'dyadic' multiples of 1/8, 'float' arbitrary."""
    if kind == "bool":
        v = [rng.random() < 0.6 for _ in range(n)]
        v[rng.randrange(n)] = True
    elif kind in ("int64", "int32") or mode == "int":
        v = [rng.choice([-4, -3, -2, -1, 1, 2, 3, 4, 5]) for _ in range(n)]
    elif mode == "dyadic":
        v = [(rng.randint(-12, 12) or 5) / 8.0 for _ in range(n)]
    else:
        v = [rng.uniform(-2, 2) for _ in range(n)]
    a = np.array(v, dtype=kind)
    return a, [float(x) for x in a]


def impl_moments(pts, w, L, cs, f, ty, layout="plain"):
    """f may be a list (-> float64) or a prepared ndarray of any dtype."""
    from grid.basegrid import Grid
    try:
        fa = lay(f if isinstance(f, np.ndarray) else np.array(f, dtype=float), layout)
        ca = lay(np.array(cs, dtype=float), layout)
        g = Grid(lay(np.array(pts, dtype=float), layout), lay(np.array(w, dtype=float), layout))
        f0 = fa.copy()
        m, o = g.moments(L, ca, fa, ty, return_orders=True)
        m2 = g.moments(L, ca, fa, ty)  # default call path
    except Exception as e:  # noqa: BLE001
        return ("crash", type(e).__name__)
    if np.asarray(m2).shape != np.asarray(m).shape or not np.array_equal(np.asarray(m2), np.asarray(m), equal_nan=True):
        return ("crash", "ResultDependsOnReturnOrders")
    if not np.array_equal(fa, f0):
        return ("crash", "FunctionValuesModified")
    return np.asarray(m), np.asarray(o)


ZHDR = ("From Coq Require Import String ZArith List Bool.\nFrom P Require Import C14_model_base C14_gen C14_model.\n"
        "Import ListNotations.\nOpen Scope Z_scope.\n"
        "Definition zmom := moments ZOps (fun _ => 0) (fun _ _ => []).\n")
QHDR = ("From Coq Require Import String ZArith List Bool.\nFrom Bignums Require Import BigQ.\n"
        "From P Require Import C14_model_base C14_gen C14_model C14_model_exec.\nImport ListNotations.\n"
        "Definition qdip := dipole QOps (fun _ => 0%bigQ) (fun _ _ => []).\n")
TOL = 1e-10


def run(ctx: Ctx):
    import importlib

    import grid.basegrid as gb
    import grid.utils as gu

    importlib.reload(gu)
    importlib.reload(gb)
    quick = ctx.quick
    rng = ctx.rng
    gen_err = None
    try:
        gen(ctx)
    except Exception as e:  # noqa: BLE001 - translator failed closed: the tie is broken, the oracles below still run
        gen_err = e

    # ---------------------------------------------------------------- which dimension-1 variant applies
    LMAX_ORD = 8 if quick else 12
    r3, r0 = impl_orders(3, "cartesian", 1), impl_orders(0, "cartesian", 1)
    dim1_ok = (not is_crash(r3) and not is_crash(r0) and np.asarray(r3).tolist() == [[3]] and np.asarray(r0).tolist() == [[0]])
    variant = "fixed" if dim1_ok else "today"
    if gen_err is None:
        ctx.copy_coq("C14")
        ctx.copy_coq(f"C14/alt/C14_proofs_dim1_{variant}.v", f"C14/alt/C14_props_dim1_{variant}.v")
        ctx.notes.append(f"dimension-1 variant: {variant}")
        status = ctx.coq_build()
        ctx.register_props(status)
        notok = [n for n in ("C14_model_base.v", "C14_gen.v", "C14_model.v", "C14_model_exec.v") if not status.get(n, False)]
        if notok:
            gen_err = RuntimeError("the executable model no longer compiles against the translation: " + ", ".join(notok))
    coq_ok = gen_err is None
    cands: list = []   # failures of the property found on the implementation while the tie is broken

    def emit(ob, key, observed, text, replay=None, found_input=True):
        if coq_ok or not found_input:
            ctx.fail(ob, key, observed, text, replay, found_input)
        else:
            cands.append((key, observed, text, replay))
            if ctx.is_known(key, observed):
                ctx.fail(ob, key, observed, text, replay)

    def coq_bad(name, hdr, cs_, **kw):
        return ctx.coq_bool_cases(name, hdr, cs_, **kw) if coq_ok else []

    # ---------------------------------------------------------------- 1. order lists: property (independent enumeration)
    #                                                                     and exact correspondence with the translation
    cases, meta = [], []
    first_bad: dict = {}
    first_bad_cls: dict = {}
    bad_orders: dict = {}
    for ty in TYPES:
        for dim in (1, 2, 3):
            for L in range(0, LMAX_ORD + 1):
                r = impl_orders(L, ty, dim)
                cases.append(f'res_eqb (gen_orders {L} "{ty}"%string {dim}) ({coq_res(r)})')
                meta.append((ty, dim, L, r))
                ctx.case(("orders", ty, dim, L))
                ctx.count(f"orders:{ty}")
                # the property itself
                if ty == "pure-radial" and L == 0:
                    continue  # n >= 1 is required by Grid.moments; the docs do not prescribe a value
                exp = spec_orders(ty, dim, L)
                exp = exp[0] if ty == "radial" else exp
                obs = r[1] if is_crash(r) else np.asarray(r).tolist()
                bad = is_crash(r) or obs != exp or np.asarray(r).dtype.kind not in "iu"
                if bad:
                    bad_orders.setdefault((ty, dim), set()).add(L)
                    ocls = obs if isinstance(obs, str) else "wrong-list"
                    if (ty, dim, ocls) not in first_bad_cls:   # one report per (generator, kind of failure): a listed known
                        first_bad_cls[(ty, dim, ocls)] = (L, obs, exp)   # finding cannot hide a different failure
                    if (ty, dim) not in first_bad:
                        first_bad[(ty, dim)] = (L, obs, exp)
    for bad_args in [(2, "cartesian", 4), (2, "cartesian", 0), (1, "spherical", 3), (-1, "cartesian", 3), (-2, "pure-radial", 3), (-1, "cartesian", 2)]:
        r = impl_orders(*bad_args)
        cases.append(f'res_eqb (gen_orders {z(bad_args[0])} "{bad_args[1]}"%string {bad_args[2]}) ({coq_res(r)})')
        meta.append((bad_args[1], bad_args[2], bad_args[0], r))
        ctx.case(("orders-edge",) + bad_args)
    for (ty, dim, _ocls), (L, obs, exp) in sorted(first_bad_cls.items()):
        call = f"generate_orders_horton_order({L}, '{ty}', {dim})"
        ob = "orders_cartesian_spec(dim=1)" if (ty, dim) == ("cartesian", 1) else f"orders_{ty.replace('-', '_')}_spec"
        emit(ob, call, obs if isinstance(obs, str) else str(obs),
                 f"{call} " + (f"raises {obs}" if isinstance(obs, str) else f"returns {obs}") + f"; documented order list is {exp}",
                 {"reproduce": f"from grid.utils import generate_orders_horton_order as g; g({L}, '{ty}', {dim})", "expected": exp})
    if variant == "today" and ("cartesian", 1) not in first_bad:
        emit("orders_cartesian_1d_refuted", "dim1-variant", None,
                 "the 1-D generator was classified as not conforming but no failing order <= %d was found" % LMAX_ORD, found_input=False)
    for i in coq_bad("C14_orders", ZHDR, cases):
        ty, dim, L, r = meta[i]
        if (ty, dim) in first_bad:
            continue  # a concrete failing input of the property has been reported for this generator
        ctx.fail("corr_orders", f"orders-model:{ty}:{dim}:{L}", None if is_crash(r) else str(np.asarray(r).tolist()),
                 f"translated generator and implementation disagree on ({L}, {ty}, {dim}) although the implementation returns the documented list",
                 found_input=False)
    ctx.sample({"orders": ["cartesian", 3, 2], "impl": np.asarray(impl_orders(2, "cartesian", 3)).tolist()})
    ctx.sample({"orders": ["pure-radial", 3, 2], "impl": np.asarray(impl_orders(2, "pure-radial", 3)).tolist()})

    # At most MAXREP failing inputs are listed per (obligation, class of inputs) and MAXALL in total; the rest are counted.
    # The class is the key without its numbers (type, tag, dtype, layout, grid class ...).  Listed known findings are
    # always passed through and never use up a slot, so they cannot hide a different failure.
    MAXREP, MAXALL = 2, 12
    nrep: dict = {}

    def report(ob, key, observed, text, replay=None, found_input=True):
        if found_input and ctx.is_known(key, observed):
            emit(ob, key, observed, text, replay, found_input)
            return
        cfg = (ob, re.sub(r"-?\d+(\.\d+)?", "", str(key)))
        nrep[cfg] = nrep.get(cfg, 0) + 1
        nrep["*"] = nrep.get("*", 0) + 1
        if (nrep[cfg] <= MAXREP and nrep["*"] <= MAXALL) or nrep[cfg] == 1 and nrep["*"] <= 3 * MAXALL:
            emit(ob, key, observed, text, replay, found_input)
        else:
            ctx.count(f"failing inputs not listed:{ob}")

    # ---------------------------------------------------------------- helper: property check of one moments call
    def check_property(ty, dim, L, pts, w, cs, f, res, exact, tag, fkind="float64", layout="plain", extra=None):
        """Compare the implementation's result with the float64 direct quadrature of the given values over the documented
        rows (f: the float64 value of every element of the function-value array). Returns True if ok."""
        key = f"moments:{ty}:dim={dim}:L={L}:{tag}:{fkind}:{layout}"
        rp = {"type": ty, "orders": L, "points": [list(map(float, p)) for p in pts], "weights": list(map(float, w)),
              "centers": [list(map(float, c)) for c in cs], "func_vals": list(map(float, f)), "func_vals_dtype": fkind, "layout": layout,
              "reproduce": "Grid(np.array(points), np.array(weights)).moments(orders, np.array(centers), np.array(func_vals, dtype=func_vals_dtype), type, return_orders=True)"}
        if extra:
            rp.update(extra)
        if is_crash(res):
            if ty == "cartesian" and dim == 1 and any(l <= L for l in bad_orders.get(("cartesian", 1), ())):
                ctx.count("moments:1d-skipped(generator finding)")
                return True  # consequence of the reported 1-D generator finding
            what = ("returns a different array with return_orders=False than with return_orders=True"
                    if res[1] == "ResultDependsOnReturnOrders" else f"raises {res[1]}")
            report("entry_is_quadrature_" + ty.replace("-", "_"), key, res[1], f"Grid.moments({L}, type={ty}) on a {dim}-D grid {what}", rp)
            return False
        m, o = res
        rows, exp, scale = direct_moments(ty, dim, L, pts, w, cs, f, exact=exact)
        oa = np.asarray(o)
        if oa.size != sum(len(r) for r in rows) or oa.reshape(len(rows), -1).tolist() != rows:
            report("entry_is_quadrature_" + ty.replace("-", "_"), key, str(np.asarray(o).tolist()),
                     f"Grid.moments({L}, type={ty}, {dim}-D) returns orders {np.asarray(o).tolist()}, documented rows are {rows}", rp)
            return False
        if m.shape != (len(rows), len(cs)):
            report("entry_is_quadrature_" + ty.replace("-", "_"), key, list(m.shape), f"result shape {m.shape}, expected {(len(rows), len(cs))}", rp)
            return False
        for r in range(len(rows)):
            for c in range(len(cs)):
                got = float(m[r, c])
                if exact:
                    ok = Fraction(got) == exp[r][c]
                else:
                    ok = abs(got - exp[r][c]) <= TOL * scale[r] + 1e-13
                if not ok:
                    rp2 = dict(rp, row=r, center=c, order=rows[r], expected=float(exp[r][c]), got=got)
                    report("entry_is_quadrature_" + ty.replace("-", "_"), key, [r, c, got, float(exp[r][c])],
                             f"Grid.moments({L}, type={ty}, {dim}-D): entry [row {r} = order {rows[r]}, centre {c}] is {got!r}, direct quadrature gives {float(exp[r][c])!r}", rp2)
                    return False
        return True

    # ---------------------------------------------------------------- 1b. histories on RETURNED arrays and on argument arrays:
    #      the caller owns what it gets back.  Editing a returned order table / moment matrix in place, or editing the
    #      function-value / centre arrays in place between calls, must not change what a later call returns for the then
    #      current arguments (every call is judged by the same independent enumeration / direct quadrature).
    from grid.basegrid import Grid as _G
    from grid.utils import generate_orders_horton_order as _gen

    def scribble(a):
        """Edit an array in place; False if it is write-protected (then nothing can leak through it)."""
        try:
            if a.size:
                a[...] = a[::-1].copy() if a.ndim else a
                a += 3
            return True
        except (ValueError, TypeError):
            return False

    for ty in TYPES:
        for dim in (1, 2, 3):
            for L in range(0, 5):
                if ty == "pure-radial" and L == 0:
                    continue
                if L in bad_orders.get((ty, dim), ()):
                    continue  # already reported as a single-call failure
                forms = [("g(L, ty, dim)", lambda: _gen(L, ty, dim)), ("g(L, ty, dim=dim)", lambda: _gen(L, ty, dim=dim)),
                         ("g(order=L, type_ord=ty, dim=dim)", lambda: _gen(order=L, type_ord=ty, dim=dim))]
                if dim == 3:
                    forms.append(("g(L, ty)", lambda: _gen(L, ty)))
                exp = spec_orders(ty, dim, L)
                exp = exp[0] if ty == "radial" else exp
                for fname, form in forms:
                    ctx.case(("orders-history", ty, dim, L, fname))
                    try:
                        t1 = form()
                        first = np.asarray(t1).tolist()
                        wrote = scribble(t1)
                        t2 = form()
                        obs = np.asarray(t2).tolist()
                    except Exception as e:  # noqa: BLE001
                        first, wrote, obs = None, False, type(e).__name__
                    if first is not None and first != exp:
                        obs = first
                    if obs != exp:
                        report(f"orders_{ty.replace('-', '_')}_spec", f"orders-history:{ty}:dim={dim}:L={L}:{fname}", str(obs),
                               f"t = {fname} with (L, ty, dim) = ({L}, '{ty}', {dim}); t is edited in place (reversed, += 3); the next {fname} "
                               f"returns {obs}; documented order list is {exp}",
                               {"reproduce": f"from grid.utils import generate_orders_horton_order as g; t = {fname}; t[...] = t[::-1].copy(); t += 3; {fname}",
                                "L": L, "ty": ty, "dim": dim, "expected": exp})
    ctx.count("orders-history forms", 4)
    nali = 24 if quick else 120
    for k in range(nali):
        ty = TYPES[k % 4]
        dim = 3 if ty in ("pure", "pure-radial") else [3, 2, 1][(k // 4) % 3]
        L = (k // 4) % 3 if ty != "pure-radial" else 1 + (k // 4) % 3     # includes L = 0: a single table, no stacking
        npt = rng.randint(2, 6)
        pts = [[rng.randint(-8, 8) / 4.0 for _ in range(dim)] for _ in range(npt)]
        w = [rng.choice([0.25, 0.5, 0.75, 1.25]) for _ in range(npt)]
        C = np.array([[rng.randint(-6, 6) / 4.0 for _ in range(dim)] for _ in range(1 + k % 3)])
        fa = np.array([(rng.randint(-12, 12) or 5) / 8.0 for _ in range(npt)])
        hist = []
        extra = {"history": hist, "reproduce": "replay `history` on one Grid(points, weights): moments calls use the SAME func_vals / centers array "
                                               "objects, which are edited in place between calls as listed; returned arrays are edited in place too"}
        g = _G(np.array(pts), np.array(w))

        def call(tag):
            hist.append({"op": "moments", "type": ty, "orders": L, "centers": C.tolist(), "func_vals": fa.tolist()})
            try:
                m, o = g.moments(L, C, fa, ty, return_orders=True)
                res = (np.asarray(m), np.asarray(o))
            except Exception as e:  # noqa: BLE001
                return None, ("crash", type(e).__name__)
            ok = check_property(ty, dim, L, pts, w, C.tolist(), fa.tolist(), res, False, f"aliasing:{tag}#{k}", "float64", "plain",
                                dict(extra, history=[dict(h) for h in hist]))
            ctx.case(("aliasing", ty, dim, L, tag, k))
            ctx.count(f"aliasing:{ty}")
            return ok, (m, o)

        ok, out = call("first")
        if not ok:
            continue
        # edit everything that was returned, and tables obtained from the public helper, in place
        wrote = [scribble(np.asarray(out[0])), scribble(np.asarray(out[1]))]
        for l in (range(1, L + 1) if ty == "pure-radial" else range(0, L + 1)):
            try:
                wrote.append(scribble(np.asarray(_gen(l, ty, dim))))
            except Exception:  # noqa: BLE001
                pass
        hist.append({"op": "returned matrix, returned order array and generate_orders_horton_order(l, type, dim) tables edited in place", "writable": wrote})
        ok, out = call("after-editing-returned-arrays")
        if not ok:
            continue
        # edit the argument arrays in place: the next call must follow the new values
        fa *= -2.0
        fa += 0.125
        C += 0.25
        hist.append({"op": "func_vals *= -2; func_vals += 0.125; centers += 0.25 (in place, same array objects)"})
        call("after-editing-arguments")

    # ---------------------------------------------------------------- 2. Cartesian moments on integer grids: exact (Z)
    cases, meta = [], []
    ncart = 160 if quick else 4000
    for k in range(ncart):
        dim = [1, 2, 3][k % 3]
        L = rng.randint(0, 6) if k >= 21 else k // 3  # every (dim, L) at least once
        npt = rng.randint(1, 6)
        ncs = 1 + (k % 4)
        pts = [[rng.randint(-3, 3) for _ in range(dim)] for _ in range(npt)]
        w = [rng.choice([-3, -2, -1, 2, 3, 4, 5]) for _ in range(npt)]
        fkind, layout = FKINDS[k % 5], LAYOUTS[(k // 5) % 3]
        fa, f = draw_f(rng, npt, fkind, "int")
        f = [int(x) for x in f]
        cs = [[rng.choice([-2, -1, 1, 2]) if j == 0 or rng.random() < 0.8 else 0 for j in range(dim)] for _ in range(ncs)]
        if k % 4 == 3:   # the same configuration in a frame far from the origin
            t = [int(x) for x in far_offset(rng, dim)]
            pts = [[x + o for x, o in zip(p_, t)] for p_ in pts]
            cs = [[x + o for x, o in zip(c_, t)] for c_ in cs]
            ctx.count("frame:far-from-origin")
        res = impl_moments(pts, w, L, cs, fa, "cartesian", layout)
        if is_crash(res):
            e = "None"
        else:
            m, o = res
            if not all(float(x).is_integer() for x in m.ravel()):
                e = "None (* non-integer entries *)"
            else:
                e = f"Some ({coq_zrows([[int(x) for x in row] for row in m])}, {coq_arr(o)})"
        cases.append(f'zmom_eqb (zmom {dim}%nat {L} "cartesian"%string {coq_zrows(pts)} {coq_zlist(w)} {coq_zrows(cs)} {coq_zlist(f)}) ({e})')
        meta.append((dim, L, pts, w, cs, f, res))
        ctx.case(("cart", dim, L, npt, ncs, k))
        ctx.count(f"cartesian:{dim}D:centres={ncs}")
        ctx.count(f"func_vals:{fkind}:{layout}")
        meta[-1] = meta[-1] + (check_property("cartesian", dim, L, pts, w, cs, f, res, True, f"int#{k}", fkind, layout),)
    # argument validation and edge cases (the model is faithful there too)
    p3 = [[1, 2, 0], [2, -1, 1]]
    edge = [("cartesian", 3, 1, p3, [2, 3], [[0, 1]], [1, 3]),            # centre of wrong dimension
            ("cartesian", 3, 1, p3, [2, 3], [[0, 1, 0]], [1, 3, 4]),      # too many function values
            ("cartesian", 3, -1, p3, [2, 3], [[0, 1, 0]], [1, 3]),        # negative order
            ("pure-radial", 3, 0, p3, [2, 3], [[0, 1, 0]], [1, 3]),       # n must be positive
            ("octupole", 3, 1, p3, [2, 3], [[0, 1, 0]], [1, 3]),          # unknown type
            ("pure", 2, 1, [[1, 2], [2, -1]], [2, 3], [[0, 1]], [1, 3]),  # pure moments need 3-D points
            ("radial", 2, 0, [[1, 2], [2, -1]], [2, 3], [[1, 2]], [1, 3])]  # |0|^0 = 1, 1-D order array
    for ty, dim, L, pts, w, cs, f in edge:
        res = impl_moments(pts, w, L, cs, f, ty)
        if is_crash(res):
            e = "None"
        else:
            m, o = res
            e = f"Some ({coq_zrows([[int(x) for x in row] for row in m])}, {coq_arr(o)})"
        cases.append(f'zmom_eqb (zmom {dim}%nat {z(L)} "{ty}"%string {coq_zrows(pts)} {coq_zlist(w)} {coq_zrows(cs)} {coq_zlist(f)}) ({e})')
        meta.append((dim, L, pts, w, cs, f, res, True))
        ctx.case(("edge", ty, dim, L))
    for i in coq_bad("C14_cart", ZHDR, cases):
        dim, L, pts, w, cs, f, res, ok = meta[i]
        # the property check above already searched this very input; if it passed there, the model is at fault
        if ok:
            report("corr_moments_cartesian", f"moments-model:#{i}:dim={dim}:L={L}", None if is_crash(res) else "values",
                     f"model and implementation disagree on integer grid case #{i} (dim {dim}, order {L})",
                     {"points": pts, "weights": w, "centers": cs, "func_vals": f, "orders": L}, found_input=False)
    ctx.sample({"cartesian_case": {"dim": meta[5][0], "L": meta[5][1], "points": meta[5][2], "weights": meta[5][3], "centers": meta[5][4],
                                   "func_vals": meta[5][5], "impl": None if is_crash(meta[5][6]) else meta[5][6][0].tolist()}})

    # ---------------------------------------------------------------- 2b. Cartesian moments on non-integer dyadic grids with
    #      function values of every dtype: exact (bigQ model, zero tolerance; exact-rational direct quadrature).  The expected
    #      value is the float64 quadrature of the given values, whatever the dtype of the array they come in.
    cases, meta = [], []
    ncq = 120 if quick else 2400
    for k in range(ncq):
        dim = [1, 2, 3][k % 3]
        L = rng.randint(0, 6) if k >= 21 else k // 3
        npt = rng.randint(1, 6)
        ncs = 1 + (k % 4)
        fkind, layout = FKINDS[k % 5], LAYOUTS[(k // 5) % 3]
        pts = [[rng.randint(-8, 8) / 4.0 for _ in range(dim)] for _ in range(npt)]
        w = [rng.choice([-0.75, -0.25, 0.25, 0.5, 0.75, 1.25, 1.5]) for _ in range(npt)]
        fa, f = draw_f(rng, npt, fkind, "dyadic")
        cs = [[(2 * rng.randint(-3, 2) + 1) / 4.0 if j == 0 or rng.random() < 0.8 else 0.5 for j in range(dim)] for _ in range(ncs)]
        far = k % 4 == 1
        if far:
            t = far_offset(rng, dim)
            pts = [[x + o for x, o in zip(p_, t)] for p_ in pts]
            cs = [[x + o for x, o in zip(c_, t)] for c_ in cs]
            ctx.count("frame:far-from-origin")
        res = impl_moments(pts, w, L, cs, fa, "cartesian", layout)
        ok = check_property("cartesian", dim, L, pts, w, cs, f, res, True, f"dyadic{'-far' if far else ''}#{k}", fkind, layout)
        if is_crash(res):
            e = "None"
        else:
            m, o = res
            e = f"Some ({coq_qrows(np.asarray(m, dtype=float).tolist())}, {coq_arr(o)})"
        nrows = len(spec_rows("cartesian", dim, L))
        tols = "[" + "; ".join(["0%bigQ"] * nrows) + "]"
        cases.append(f'qmom_close {tols} (moments QOps (fun _ => 0%bigQ) (fun _ _ => []) {dim}%nat {L} "cartesian"%string '
                     f'{coq_qrows(pts)} {coq_qlist(w)} {coq_qrows(cs)} {coq_qlist(f)}) ({e})')
        meta.append((dim, L, pts, w, cs, f, fkind, ok))
        ctx.case(("cartq", dim, L, npt, ncs, fkind, layout, k))
        ctx.count(f"cartesian:{dim}D:centres={ncs}")
        ctx.count(f"func_vals:{fkind}:{layout}")
    for i in coq_bad("C14_cartq", QHDR, cases, shard=60):
        dim, L, pts, w, cs, f, fkind, ok = meta[i]
        if ok and not (dim == 1 and ("cartesian", 1) in first_bad):
            report("corr_moments_cartesian", f"moments-model-q:#{i}:dim={dim}:L={L}", None,
                   f"bigQ model and implementation disagree on dyadic Cartesian case #{i} (dim {dim}, order {L}, {fkind}) although the implementation matches direct quadrature",
                   {"points": pts, "weights": w, "centers": cs, "func_vals": f, "orders": L}, found_input=False)

    # ---------------------------------------------------------------- 3. oracle hypotheses validated against the library
    lmax_h = 8 if quick else 12
    vs = [[0.0, 0.0, 0.0], [0.0, 0.0, 1.5], [0.0, 0.0, -2.0], [1.0, 0.0, 0.0], [0.0, -1.5, 0.0], [-0.75, 0.0, 0.0], [1.0, 1.0, 0.0]]
    vs += [[rng.randint(-16, 16) / 8.0 for _ in range(3)] for _ in range(20 if quick else 200)]
    hyp_bad = None
    try:
        lib = np.asarray(gu.solid_harmonics(lmax_h, gu.convert_cart_to_sph(np.array(vs))), dtype=float)
    except Exception as e:  # noqa: BLE001
        lib = np.zeros((0, 0))
        hyp_bad = (f"solid_harmonics({lmax_h}, convert_cart_to_sph(points)) raises", type(e).__name__)
    if hyp_bad is not None:
        pass
    elif lib.shape != ((lmax_h + 1) ** 2, len(vs)):
        hyp_bad = ("shape", list(lib.shape))
    else:
        for i, v in enumerate(vs):
            r = math.sqrt(sum(x * x for x in v))
            for l in range(lmax_h + 1):
                for m in range(-l, l + 1):
                    ref = solid_indep(l, m, *v)
                    got = lib[l * l + hidx(m), i]
                    ctx.case(None)
                    if not abs(got - ref) <= TOL * max(1.0, r ** l) and hyp_bad is None:
                        hyp_bad = ((l, m, v), [float(got), float(ref)])
            nv = float(np.linalg.norm(np.array([v]), axis=1)[0])
            if abs(nv - r) > 1e-14 * max(1.0, r) and hyp_bad is None:
                hyp_bad = (("norm", v), [nv, r])
    ctx.count("oracle:solid_rows points", len(vs))
    if hyp_bad:
        report("hyp_solid_rows", f"solid_harmonics:{hyp_bad[0]}", hyp_bad[1],
                 f"oracle hypothesis solid_rows fails on the library: solid_harmonics row l^2+hidx(m) at {hyp_bad[0]} = {hyp_bad[1]} (library, closed form)",
                 {"reproduce": "solid_harmonics(l_max, convert_cart_to_sph(v))[l*l + (2*m-1 if m>0 else 2*abs(m))]"})
    ctx.assumptions.append("solid_rows: forall lmax v l m, 0<=l<=lmax -> -l<=m<=l -> nth (l^2 + hidx m) (solid lmax v) = S l m v, with S the real "
                           "regular solid harmonic (Racah normalisation, no Condon-Shortley phase); validated each run against "
                           f"solid_harmonics(convert_cart_to_sph(.)) for l<={lmax_h} on {len(vs)} points incl. the origin and axis points, 1e-10")

    # ---------------------------------------------------------------- 4. radial / pure / pure-radial: implementation and
    #      Coq model (bigQ, oracle tables) against direct quadrature with the independent harmonics
    cases, meta = [], []
    nsph = 36 if quick else 480
    for k in range(nsph):
        ty = ["radial", "pure", "pure-radial"][k % 3]
        Lhi = {"radial": 6, "pure": 4 if quick else 6, "pure-radial": 3 if quick else 4}[ty]
        L = (k // 3) % (Lhi + 1) if ty != "pure-radial" else 1 + (k // 3) % Lhi
        dim = 3 if ty != "radial" else [3, 2, 1][(k // 3) % 3]
        npt = rng.randint(1, 5)
        ncs = rng.randint(1, 3)
        pts = [[rng.randint(-8, 8) / 4.0 for _ in range(dim)] for _ in range(npt)]
        if k % 5 == 0:
            pts[0] = [0.0] * (dim - 1) + [1.25]  # on the z axis
        w = [rng.choice([-1.5, 0.25, 0.5, 0.75, 1.25, 2.0]) for _ in range(npt)]
        fkind, layout = FKINDS[(k // 3) % 5], LAYOUTS[(k // 15) % 3]
        fa, f = draw_f(rng, npt, fkind, "dyadic")
        cs = [[rng.randint(-6, 6) / 4.0 for _ in range(dim)] for _ in range(ncs)]
        if k % 7 == 0:
            cs[0] = list(pts[-1])  # a centre on a grid point: r = 0
        far = (k // 3) % 2 == 1
        if far:   # exact: quarter-step coordinates plus an integer translation; differences p - c are unchanged
            t = far_offset(rng, dim)
            pts = [[x + o for x, o in zip(p_, t)] for p_ in pts]
            cs = [[x + o for x, o in zip(c_, t)] for c_ in cs]
            ctx.count("frame:far-from-origin")
        res = impl_moments(pts, w, L, cs, fa, ty, layout)
        ok = check_property(ty, dim, L, pts, w, cs, f, res, False, f"dyadic{'-far' if far else ''}#{k}", fkind, layout)
        ctx.count(f"func_vals:{fkind}:{layout}")
        ctx.case(("sph", ty, dim, L, npt, ncs, k))
        ctx.count(f"{ty}:{dim}D:centres={ncs}")
        # Coq model with oracle tables
        rows, exp, scale = direct_moments(ty, dim, L, pts, w, cs, f)
        tab, seen = [], set()
        for c in cs:
            for p in pts:
                v = tuple(a - b for a, b in zip(p, c))
                if v in seen:
                    continue
                seen.add(v)
                nrm = math.sqrt(sum(x * x for x in v))
                col = [] if ty == "radial" else [solid_indep(l, m, *v) for l in range(L + 1) for m in horton_ms(l)]
                tab.append(f"({coq_qlist(v)}, {q_bigq(Fraction(nrm))}, {coq_qlist(col)})")
        tols = "[" + "; ".join(q_bigq(Fraction(TOL * s + 1e-13)) for s in scale) + "]"
        if is_crash(res):
            e = "None"
        else:
            m, o = res
            e = f"Some ({coq_qrows(np.asarray(m, dtype=float).tolist())}, {coq_arr(o)})"
        tabs = "[" + "; ".join(tab) + "]"
        cases.append(f'let t : otab := {tabs} in qmom_close {tols} (moments QOps (tnorm t) (tsolid t) {dim}%nat {L} "{ty}"%string '
                     f'{coq_qrows(pts)} {coq_qlist(w)} {coq_qrows(cs)} {coq_qlist(f)}) ({e})')
        meta.append((ty, dim, L, pts, w, cs, f, ok))
    for i in coq_bad("C14_sph", QHDR, cases, shard=12):
        ty, dim, L, pts, w, cs, f, ok = meta[i]
        if ok:  # the implementation satisfies the property on this input but the model does not reproduce it
            report("corr_moments_" + ty.replace("-", "_"), f"moments-model:{ty}:#{i}:L={L}", None,
                     f"Coq model (bigQ, oracle tables) and implementation disagree on {ty} case #{i} although the implementation matches direct quadrature",
                     {"points": pts, "weights": w, "centers": cs, "func_vals": f, "orders": L, "type": ty}, found_input=False)
    ctx.sample({"pure_radial_case": {"L": meta[2][2], "points": meta[2][3], "centers": meta[2][5], "weights": meta[2][4], "func_vals": meta[2][6]}})
    # float grids, higher orders: property only (this is also the search for the theorems about the hand model)
    nflt = 45 if quick else 1500
    for k in range(nflt):
        ty = ["radial", "pure", "pure-radial"][k % 3]
        Lhi = 6 if quick else 9
        L = rng.randint(0, Lhi) if ty != "pure-radial" else rng.randint(1, Lhi)
        dim = 3 if ty != "radial" else rng.choice([1, 2, 3])
        npt = rng.randint(1, 12)
        ncs = 1 + (k % 4)
        pts = [[rng.uniform(-2, 2) for _ in range(dim)] for _ in range(npt)]
        w = [rng.uniform(-0.5, 2.0) for _ in range(npt)]
        fkind, layout = FKINDS[(k // 3) % 5], LAYOUTS[(k // 15) % 3]
        fa, f = draw_f(rng, npt, fkind, "float")
        cs = [[rng.uniform(-1.5, 1.5) for _ in range(dim)] for _ in range(ncs)]
        frame = ["near", "far", "near", "scaled"][(k // 3) % 4]
        if frame == "far":
            t = far_offset(rng, dim)
            pts = [[x + o for x, o in zip(p_, t)] for p_ in pts]
            cs = [[x + o for x, o in zip(c_, t)] for c_ in cs]
        elif frame == "scaled":
            sc = rng.choice([2.0 ** -12, 2.0 ** -5, 2.0 ** 6, 2.0 ** 11])
            pts = [[x * sc for x in p_] for p_ in pts]
            cs = [[x * sc for x in c_] for c_ in cs]
        ctx.count(f"frame:{frame}")
        res = impl_moments(pts, w, np.int64(L) if k % 4 == 0 else L, cs, fa, ty, layout)  # NumPy integer orders are accepted too
        check_property(ty, dim, L, pts, w, cs, f, res, False, f"float-{frame}#{k}", fkind, layout)
        ctx.count(f"func_vals:{fkind}:{layout}")
        ctx.case(("flt", ty, dim, L, npt, ncs, k))
        ctx.count(f"{ty}:{dim}D:centres={ncs}")

    # ---------------------------------------------------------------- 4b. histories on ONE grid object: every call must be the
    #      quadrature over the points and weights the grid has AT THE TIME OF THE CALL (public points / weights setters),
    #      whatever was computed on the object before.  Judged by the direct-quadrature oracle only (the model is stateless:
    #      the theorems are about one call on the current arrays).
    from grid.angular import AngularGrid
    from grid.basegrid import Grid as BaseGrid
    from grid.basegrid import OneDGrid
    from grid.cubic import UniformGrid

    def make_grid(kind, dim):
        if kind == "Grid":
            n = rng.randint(2, 7)
            return BaseGrid(np.array([[rng.randint(-8, 8) / 4.0 for _ in range(dim)] for _ in range(n)]),
                            np.array([rng.choice([-0.75, 0.25, 0.5, 0.75, 1.25, 1.5]) for _ in range(n)]))
        if kind == "UniformGrid":
            shape = [rng.choice([2, 3]) for _ in range(dim)]
            axes = np.diag([rng.choice([0.25, 0.5, 0.75]) for _ in range(dim)])
            return UniformGrid(np.array([rng.randint(-4, 4) / 4.0 for _ in range(dim)]), axes, np.array(shape))
        if kind == "AngularGrid":
            return AngularGrid(degree=rng.choice([3, 5, 7]))
        if kind == "OneDGrid":
            n = rng.randint(2, 7)
            return OneDGrid(np.array(sorted(rng.sample(range(-12, 13), n))) / 4.0,
                            np.array([rng.choice([0.25, 0.5, 0.75, 1.25, 1.5]) for _ in range(n)]))
        raise ValueError(kind)

    def hist_moments(g, hist, cur, ty, L, cs, fkind, cls, tag):
        """One moments() call inside a history; cur = (points, weights) assigned last, as float lists."""
        fa, f = draw_f(rng, len(cur[1]), fkind, "float")
        hist.append({"op": "moments", "type": ty, "orders": L, "centers": cs, "func_vals": f, "func_vals_dtype": fkind})
        try:
            m, o = g.moments(L, np.array(cs, dtype=float), fa, ty, return_orders=True)
            res = (np.asarray(m), np.asarray(o))
        except Exception as e:  # noqa: BLE001
            res = ("crash", type(e).__name__)
        dim = len(cur[0][0])
        ctx.case(("hist", cls, ty, L, len(cs), tag, len(hist)))
        ctx.count(f"history:{cls}:{ty}")
        return check_property(ty, dim, L, cur[0], cur[1], cs, f, res, False, f"history:{cls}:{tag}:step{len(hist)}", fkind, "plain",
                              {"history": [dict(h) for h in hist], "class": cls,
                               "reproduce": "replay `history` in order on ONE grid object of `class` built from the first `points`/`weights` entry: "
                                            "op=points -> grid.points = np.array(points); op=weights -> grid.weights = np.array(weights); "
                                            "op=moments -> grid.moments(orders, np.array(centers), np.array(func_vals, dtype=func_vals_dtype), type); "
                                            "the last call is the failing one; expected = direct quadrature over the points/weights assigned last"})

    def new_points(pts, how):
        a = np.array(pts, dtype=float)
        if how == "shift":
            a = a + np.array([rng.randint(1, 6) / 4.0 * rng.choice([-1, 1]) for _ in range(a.shape[1])])
        elif how == "scale":
            a = a * rng.choice([0.5, 1.5, 2.0, 3.0])
        elif how == "permute":
            a = a[np.roll(np.arange(len(a)), 1)] if len(a) > 1 else a + 0.25
        elif how == "tiny":
            a = a + np.array([[rng.uniform(1e-6, 3e-6) * rng.choice([-1, 1]) for _ in range(a.shape[1])] for _ in range(len(a))])
        return a

    def new_weights(w, how):
        a = np.array(w, dtype=float)
        if how == "scale":
            return a * rng.choice([0.5, 2.0, 4.0])
        if how == "permute" and len(a) > 1 and len(set(a.tolist())) > 1:
            return a[np.roll(np.arange(len(a)), 1)]
        return a + np.array([rng.choice([0.25, 0.5, -0.125]) for _ in range(len(a))])

    def other(ty, dim):
        pool = [t for t in (TYPES if dim == 3 else ["cartesian", "radial"]) if t != ty]
        return rng.choice(pool)

    # OneDGrid keeps its points as a 1-D array of shape (N,)
    og = OneDGrid(np.array([-0.75, -0.25, 0.5, 1.0]), np.array([0.5, 0.25, 0.75, 0.5]))
    try:
        og.moments(1, np.array([[0.25]]), np.ones(4), "cartesian")
        og_err = None
    except Exception as e:  # noqa: BLE001
        og_err = type(e).__name__
    hist_classes = ["Grid", "UniformGrid", "AngularGrid"] + (["OneDGrid"] if og_err is None else [])
    nhist = 40 if quick else 400
    templates = ["points-same", "points-other", "weights", "funcvals", "interleaved", "shell", "far"]
    hows = ["shift", "scale", "permute", "tiny"]
    for k in range(nhist):
        tpl = templates[k % len(templates)]
        cls = hist_classes[(k // len(templates)) % len(hist_classes)] if tpl != "shell" else "AngularGrid"
        dim = 3 if cls == "AngularGrid" else 1 if cls == "OneDGrid" else [3, 2, 1, 3][(k // 18) % 4]
        if cls == "UniformGrid" and dim == 1:
            dim = 2  # UniformGrid exists in 2-D and 3-D only
        try:
            g = make_grid(cls, dim)
        except Exception as e:  # noqa: BLE001 - construction of the grid classes belongs to other properties
            ctx.count(f"history:{cls} constructor raised {type(e).__name__}")
            continue
        cur = [np.asarray(g.points, dtype=float).reshape(len(g.weights), -1).tolist(), np.asarray(g.weights, dtype=float).tolist()]
        hist = [{"op": "points", "points": cur[0]}, {"op": "weights", "weights": cur[1]}]
        ty = rng.choice(TYPES if dim == 3 else ["cartesian", "radial"])
        L = rng.randint(1, 4) if ty != "pure-radial" else rng.randint(1, 3)
        cs = [[rng.randint(-6, 6) / 4.0 for _ in range(dim)] for _ in range(rng.randint(1, 3))]
        if k % 4 == 0:
            cs[0] = list(cur[0][0])  # a centre on a grid point
        fk = FKINDS[k % 5]
        tag = f"{tpl}#{k}"

        def set_points(how, a=None):
            a = new_points(cur[0], how) if a is None else a
            hist.append({"op": "points", "how": how, "points": a.tolist()})
            try:
                g.points = a[:, 0] if cls == "OneDGrid" else a
            except Exception as e:  # noqa: BLE001
                report("entry_is_quadrature_" + ty.replace("-", "_"), f"history:{cls}:{tag}:points-setter", type(e).__name__,
                       f"{cls}.points = <array of the same shape> raises {type(e).__name__}; later moments cannot follow the new points",
                       {"history": [dict(h) for h in hist], "class": cls})
                return False
            cur[0] = a.tolist()
            return True

        def set_weights(how, a=None):
            a = new_weights(cur[1], how) if a is None else a
            hist.append({"op": "weights", "how": how, "weights": a.tolist()})
            try:
                g.weights = a
            except Exception as e:  # noqa: BLE001
                report("entry_is_quadrature_" + ty.replace("-", "_"), f"history:{cls}:{tag}:weights-setter", type(e).__name__,
                       f"{cls}.weights = <array of the same shape> raises {type(e).__name__}",
                       {"history": [dict(h) for h in hist], "class": cls})
                return False
            cur[1] = a.tolist()
            return True

        ok = hist_moments(g, hist, cur, ty, L, cs, fk, cls, tag)
        if not ok:
            continue
        if tpl == "points-same":           # the same request after the points were replaced
            for how in rng.sample(hows, 2):
                set_points(how)
                ok = ok and hist_moments(g, hist, cur, ty, L, cs, fk, cls, tag)
        elif tpl == "points-other":        # a different type / order / centres after the points were replaced, then the first again
            set_points(rng.choice(hows))
            t2 = other(ty, dim)
            hist_moments(g, hist, cur, t2, rng.randint(1, 3), cs, "float64", cls, tag)
            hist_moments(g, hist, cur, ty, L + 1 if ty != "pure-radial" else max(1, L - 1), cs, fk, cls, tag)
            cs2 = [[c + 0.5 for c in cs[0]]] + cs
            hist_moments(g, hist, cur, ty, L, cs2, fk, cls, tag)
            hist_moments(g, hist, cur, ty, L, cs, fk, cls, tag)
        elif tpl == "weights":             # the same request after the weights were replaced
            for how in ("scale", "permute", "add"):
                set_weights(how)
                hist_moments(g, hist, cur, ty, L, cs, fk, cls, tag)
        elif tpl == "funcvals":            # consecutive calls with different function values (and dtypes)
            for fk2 in rng.sample(FKINDS, 3):
                hist_moments(g, hist, cur, ty, L, cs, fk2, cls, tag)
        elif tpl == "interleaved":         # types interleaved with point / weight changes
            seq = [other(ty, dim), ty, other(ty, dim), ty]
            for i, t2 in enumerate(seq):
                if i == 1:
                    set_points(rng.choice(hows))
                if i == 3:
                    set_weights("scale")
                    set_points(rng.choice(hows))
                hist_moments(g, hist, cur, t2, L if t2 == ty else rng.randint(1, 3), cs, FKINDS[(k + i) % 5], cls, tag)
        elif tpl == "far":                 # the grid is moved far from the origin, the centres move with it
            for _ in range(2):
                t = far_offset(rng, dim)
                if not set_points("far", np.array(cur[0]) + np.array(t)):
                    break
                cs = [[x + o for x, o in zip(c_, t)] for c_ in cs]
                hist_moments(g, hist, cur, ty, L, cs, fk, cls, tag)
                hist_moments(g, hist, cur, other(ty, dim), rng.randint(1, 3), cs, "float64", cls, tag)
        else:                              # the library's own pattern (AtomGrid.get_shell_grid): sphere.points = pts * r; sphere.weights = wts * r**2
            for r in (0.5, 2.0):
                if not (set_points(f"shell r={r}", np.array(cur[0]) * r) and set_weights(f"shell r={r}", np.array(cur[1]) * r ** 2)):
                    break
                hist_moments(g, hist, cur, ty, L, cs, fk, cls, tag)
    ctx.case(("hist", "OneDGrid"))
    if og_err is not None:
        emit("entry_is_quadrature_cartesian", "OneDGrid([-0.75,-0.25,0.5,1.0],[0.5,0.25,0.75,0.5]).moments(1, [[0.25]], ones(4), 'cartesian')", og_err,
             f"Grid.moments on a OneDGrid (points of shape (N,)) raises {og_err}; histories on OneDGrid cannot be run",
             {"reproduce": "from grid.basegrid import OneDGrid; OneDGrid(np.array([-0.75,-0.25,0.5,1.0]), np.array([0.5,0.25,0.75,0.5])).moments(1, np.array([[0.25]]), np.ones(4), 'cartesian')",
              "expected": "rows [0],[1]: sum w f (x-0.25)^n = [2.0, -0.0625]"})
    else:
        ctx.count("history:OneDGrid enabled")

    # ---------------------------------------------------------------- 4c. large grids: "for every grid" includes grids of 1e3..1e6
    #      points, where size-dependent code paths (blocking, chunking, batching) may be taken.  Sizes are primes (not
    #      divisible by any block count), rows x dim x points spans 2e5 .. 1.2e7 (3e7 thorough), function values are of order
    #      one at every point, plus one call whose function is the indicator of the last grid point.  Oracle: direct_moments_np.
    cap = 1.2e7 if quick else 3.0e7
    nlarge = 10 if quick else 40
    for k in range(nlarge):
        ty = ["cartesian", "cartesian", "radial", "cartesian", "pure", "cartesian", "pure-radial"][k % 7]
        dim = 3 if ty in ("pure", "pure-radial") else [3, 2, 1][(k // 7 + k) % 3]
        L = {"cartesian": [8, 6, 9, 4, 2][k % 5], "radial": 6, "pure": rng.randint(3, 6), "pure-radial": rng.randint(2, 4)}[ty]
        nrows = len(spec_rows(ty, dim, L))
        width = dim if ty == "cartesian" else 1
        elems = math.exp(rng.uniform(math.log(2e5), math.log(cap))) if k >= 4 else cap * [0.9, 0.6, 0.45, 0.8][k]
        npt = next_prime(int(min(max(elems / (nrows * width), 1000), 1.2e6)))
        ncs = 1 + k % 2
        seed = rng.randrange(2 ** 31)
        gen_code = ("r = np.random.default_rng(seed); P = r.uniform(-1.5, 1.5, (npt, dim)); w = r.uniform(0.2, 1.0, npt) / npt; "
                    "f = r.uniform(0.5, 2.0, npt) * r.choice([-1.0, 1.0], npt); C = r.uniform(-0.5, 0.5, (ncs, dim))")
        r_ = np.random.default_rng(seed)
        P = r_.uniform(-1.5, 1.5, (npt, dim))
        w = r_.uniform(0.2, 1.0, npt) / npt
        f = r_.uniform(0.5, 2.0, npt) * r_.choice([-1.0, 1.0], npt)
        C = r_.uniform(-0.5, 0.5, (ncs, dim))
        if k % 3 == 2:   # frame far from the origin
            t_ = np.array(far_offset(rng, dim))
            P = P + t_
            C = C + t_
            gen_code += f"; t = np.array({t_.tolist()}); P = P + t; C = C + t"
            ctx.count("frame:far-from-origin")
        onehot = np.zeros(npt)
        onehot[-1] = 1.0
        for label, fv in (("random", f), ("indicator-of-last-point", onehot)):
            key = f"moments-large:{ty}:dim={dim}:L={L}:npt={npt}:centres={ncs}:{label}:seed={seed}"
            rp = {"type": ty, "orders": L, "dim": dim, "npt": npt, "ncs": ncs, "seed": seed, "func": label,
                  "reproduce": gen_code + ("; f = np.zeros(npt); f[-1] = 1.0" if label != "random" else "")
                  + "; Grid(P, w).moments(orders, C, f, type)  # compare with sum_i w_i f_i basis_row(P_i - C_c)"}
            ctx.case(("large", ty, dim, L, npt, ncs, label))
            ctx.count(f"large:{ty}:{dim}D")
            try:
                m, o = BaseGrid(P, w).moments(L, C, fv, ty, return_orders=True)
                m = np.asarray(m, dtype=float)
            except Exception as e:  # noqa: BLE001
                if not (ty == "cartesian" and dim == 1 and ("cartesian", 1) in first_bad):
                    report("entry_is_quadrature_" + ty.replace("-", "_"), key, type(e).__name__,
                           f"Grid.moments({L}, type={ty}) on a {dim}-D grid of {npt} points raises {type(e).__name__}", rp)
                continue
            rows, exp, scale = direct_moments_np(ty, dim, L, P, w, C, fv)
            if m.shape != exp.shape or np.asarray(o).reshape(len(rows), -1).tolist() != rows:
                report("entry_is_quadrature_" + ty.replace("-", "_"), key, list(m.shape),
                       f"Grid.moments({L}, type={ty}) on {npt} points: shape {m.shape} / orders differ from the documented rows", rp)
                continue
            err = np.abs(m - exp) - (TOL * scale[:, None] + 1e-15)
            if np.any(err > 0):
                ir, ic = np.unravel_index(int(np.argmax(err)), err.shape)
                rp2 = dict(rp, row=int(ir), center=int(ic), order=rows[ir], expected=float(exp[ir, ic]), got=float(m[ir, ic]))
                report("entry_is_quadrature_" + ty.replace("-", "_"), key, [int(ir), int(ic), float(m[ir, ic]), float(exp[ir, ic])],
                       f"Grid.moments({L}, type={ty}, {dim}-D) on a grid of {npt} points, function = {label}: entry [row {ir} = order {rows[ir]}, "
                       f"centre {ic}] is {float(m[ir, ic])!r}, direct quadrature gives {float(exp[ir, ic])!r}", rp2)
            del m, exp

    # ---------------------------------------------------------------- 5. dipole helper
    from grid.basegrid import Grid
    cases, meta = [], []
    atoms = [a for a in (1, 2, 3, 6, 7, 8, 9, 16, 17) if a in gu.isotopic_masses]
    ndip = 24 if quick else 400
    for k in range(ndip):
        nat = 1 + (k % 4)
        charges = [rng.choice(atoms) for _ in range(nat)]
        coords = [[rng.randint(-12, 12) / 4.0 for _ in range(3)] for _ in range(nat)]
        npt = rng.randint(1, 8)
        pts = [[rng.randint(-16, 16) / 8.0 for _ in range(3)] for _ in range(npt)]
        w = [rng.choice([0.25, 0.5, 0.75, 1.25, 2.0]) for _ in range(npt)]
        fkind, layout = FKINDS[k % 5], LAYOUTS[(k // 5) % 3]
        if fkind in ("int64", "int32"):
            rho_a = np.array([rng.randint(1, 6) for _ in range(npt)], dtype=fkind)      # electron counts per cell
        elif fkind == "bool":
            rho_a = np.array([True] + [rng.random() < 0.5 for _ in range(npt - 1)])     # occupancy mask
        else:
            rho_a = np.array([rng.randint(1, 24) / 8.0 for _ in range(npt)], dtype=fkind)
        rho = [float(x) for x in rho_a]
        masses = [float(gu.isotopic_masses[q]) for q in charges]
        try:
            d = gu.dipole_moment_of_molecule(Grid(lay(np.array(pts), layout), lay(np.array(w), layout)), lay(rho_a, layout),
                                             lay(np.array(coords), layout), np.array(charges))
            d = [float(x) for x in np.asarray(d).ravel()]
        except Exception as e:  # noqa: BLE001
            d = ("crash", type(e).__name__)
        # documented formula in exact rationals
        F = Fraction
        mt = sum(F(m) for m in masses)
        C = [sum(F(R[j]) * F(m) for R, m in zip(coords, masses)) / mt for j in range(3)]
        exp = [sum(F(q) * (F(R[j]) - C[j]) for R, q in zip(coords, charges))
               - sum((F(p[j]) - C[j]) * F(r) * F(ww) for p, r, ww in zip(pts, rho, w)) for j in range(3)]
        scale = max(1.0, sum(abs(q) * 4 for q in charges) + sum(abs(r * ww) * 4 for r, ww in zip(rho, w)))
        key = f"dipole:#{k}:atoms={charges}:{fkind}:{layout}"
        rp = {"points": pts, "weights": w, "density": rho, "density_dtype": fkind, "layout": layout, "coords": coords, "charges": charges,
              "reproduce": "dipole_moment_of_molecule(Grid(np.array(points), np.array(weights)), np.array(density), np.array(coords), np.array(charges))"}
        ctx.case(("dipole", nat, npt, k))
        ctx.count(f"dipole:atoms={nat}")
        ctx.count(f"density:{fkind}:{layout}")
        dok = True
        if is_crash(d):
            report("dipole_spec", key, d[1], f"dipole_moment_of_molecule raises {d[1]}", rp)
            e, dok = "None", False
        else:
            if len(d) != 3 or any(abs(a - float(b)) > TOL * scale for a, b in zip(d, exp)):
                dok = False
                report("dipole_spec", key, d, f"dipole_moment_of_molecule = {d}, nuclear minus electronic first moments about the centre of mass = {[float(x) for x in exp]}", rp)
            e = "Some " + coq_qlist(d)
        cases.append(f"qopt_close {q_bigq(Fraction(TOL * scale))} (qdip {coq_qrows(pts)} {coq_qlist(w)} {coq_qlist(rho)} {coq_qrows(coords)} "
                     f"{coq_qlist(charges)} {coq_qlist(masses)}) ({e})")
        meta.append((k, charges, dok))
    for npt in ([360007] if quick else [360007, 900001]):
        seed = rng.randrange(2 ** 31)
        r_ = np.random.default_rng(seed)
        P = r_.uniform(-2, 2, (npt, 3))
        w = r_.uniform(0.2, 1.0, npt) / npt
        rho = r_.uniform(0.5, 2.0, npt)
        coords = np.array([[0.0, 0.0, -0.5], [0.25, 0.5, 0.75]])
        charges = np.array([atoms[0], atoms[-1]])
        masses = np.array([float(gu.isotopic_masses[q]) for q in charges])
        com = (coords * masses[:, None]).sum(axis=0) / masses.sum()
        exp = (charges[:, None] * (coords - com)).sum(axis=0) - ((P - com) * (rho * w)[:, None]).sum(axis=0)
        key = f"dipole-large:npt={npt}:seed={seed}"
        rp = {"npt": npt, "seed": seed, "coords": coords.tolist(), "charges": charges.tolist(),
              "reproduce": "r = np.random.default_rng(seed); P = r.uniform(-2, 2, (npt, 3)); w = r.uniform(0.2, 1.0, npt) / npt; rho = r.uniform(0.5, 2.0, npt); "
                           "dipole_moment_of_molecule(Grid(P, w), rho, np.array(coords), np.array(charges))"}
        ctx.case(("dipole-large", npt))
        ctx.count("dipole:large")
        try:
            d = np.asarray(gu.dipole_moment_of_molecule(Grid(P, w), rho, coords, charges), dtype=float).ravel()
        except Exception as e:  # noqa: BLE001
            report("dipole_spec", key, type(e).__name__, f"dipole_moment_of_molecule on {npt} points raises {type(e).__name__}", rp)
            continue
        if d.shape != (3,) or np.any(np.abs(d - exp) > TOL * 50):
            report("dipole_spec", key, d.tolist(), f"dipole_moment_of_molecule on a grid of {npt} points = {d.tolist()}, "
                   f"nuclear minus electronic first moments about the centre of mass = {exp.tolist()}", rp)
    for i in coq_bad("C14_dip", QHDR, cases, shard=20):
        if meta[i][2]:
            report("corr_dipole", f"dipole-model:#{meta[i][0]}", None, f"Coq model of the dipole helper and the implementation disagree on case #{meta[i][0]}", found_input=False)

    if gen_err is not None:
        ctx.broken_tie("translator(generate_orders_horton_order)", gen_err, cands)

    ctx.cov["rule"] = ("order lists: every (type, dim 1..3, order 0..%d) compared exactly with the translated generator (vm_compute) and with an "
                       "independent enumeration; Cartesian moments: random integer grids (1-3 D, orders 0-6, 1-4 non-zero centres, non-unit "
                       "weights) compared exactly with the Z instance of the model and with exact-rational direct quadrature; radial/pure/"
                       "pure-radial: dyadic grids (incl. points on the z axis and a centre on a grid point) compared, implementation and bigQ "
                       "model with oracle tables alike, with direct quadrature using closed-form solid harmonics (1e-10), plus float grids up to "
                       "order %d; dipole: random molecules against the exact-rational documented formula and the bigQ model; a case is distinct "
                       "by (type, dim, order, #points, #centres, draw); function values / densities are passed as float64, int64, int32, bool and "
                       "float32 arrays, contiguous, as non-contiguous views and write-protected (all arrays), with non-integer points and "
                       "centres; the expected value is always the float64 quadrature of the given values; Python lists are rejected by the "
                       "API (AttributeError on .ndim) and are not part of the domain; histories on ONE grid object (Grid 1-3 D, UniformGrid, "
                       "AngularGrid): moments -> reassign points (shift, scale, permutation, 1e-6 perturbation) or weights -> moments with the "
                       "same and with different type/order/centres, consecutive calls with different function values, interleaved types, "
                       "the AtomGrid.get_shell_grid pattern; every call judged by direct quadrature over the arrays assigned last; large grids "
                       "(prime sizes 1e3..1.2e6, rows*dim*points up to 1.2e7 quick / 3e7 thorough, all types, function of order one at every "
                       "point and the indicator of the last point; dipole on 360007 points) against a vectorised row-by-row direct quadrature; "
                       "coordinate frames: a share of all case families is translated far from the origin (integer offsets 2^10..2^22 per "
                       "coordinate applied to points and centres alike, exact for the dyadic families) or rescaled by 2^-12..2^11; aliasing "
                       "histories: returned order tables / moment matrices and tables from generate_orders_horton_order (all call spellings) "
                       "are edited in place, then the same request is repeated; function values and centres edited in place between calls" % (LMAX_ORD, 6 if quick else 9))
    ctx.trusted += [
        "py2coq/int translator OrdersTranslator (tools/props/c14.py) for generate_orders_horton_order; validated by exact correspondence on all orders 0..%d" % LMAX_ORD,
        "NumPy semantics assumed by the model vocabulary: np.array of int rows (ragged -> error, [] -> shape (0,)), np.vstack row stacking with equal widths, np.arange, np.ravel; a dtype attribute missing from the installed NumPy raises",
        "hand model of Grid.moments / dipole_moment_of_molecule (coq/C14/C14_model.v), tied by exact (Z) and 1e-10 (bigQ + oracle tables) correspondence",
        "closed-form real regular solid harmonics in tools/props/c14.py (solid_indep) as the independent oracle; tolerance 1e-10 relative to sum |w f basis|",
        "isotopic_masses table read from the library for the dipole cases",
    ]
