"""C03 — radial transforms are analytically self-consistent for all parameters.

gen:   every transform/inverse/deriv/deriv2/deriv3 of the 11 concrete classes + the generic
       BaseTransform.deriv*_inverse / InverseRTransform formulas are re-translated from rtransform.py (py2coq/real).
prove: coq/C03/*.v (auto_derive + field on the generated terms, symbolic parameters).
tie:   translation validation by `interval` enclosures of the generated terms against the implementation's float
       output at random dyadic inputs (array and scalar calls).
search: high-order central differences / mpmath on the implementation.
"""
from __future__ import annotations

import ast
import math
import warnings
from fractions import Fraction

import numpy as np

from vlib import py2coq_real as P
from vlib.core import SRC, Ctx, r_lit, src_sha

CLASSES = ["BeckeRTransform", "LinearFiniteRTransform", "IdentityRTransform", "LinearInfiniteRTransform",
           "ExpRTransform", "PowerRTransform", "HyperbolicRTransform", "MultiExpRTransform",
           "KnowlesRTransform", "HandyRTransform", "HandyModRTransform"]
METHODS = ["transform", "inverse", "deriv", "deriv2", "deriv3"]


def short(c):
    return c.replace("RTransform", "")


def gen(ctx: Ctx):
    src = (SRC / "rtransform.py").read_text()
    tree = ast.parse(src)
    classes = {c.name: c for c in tree.body if isinstance(c, ast.ClassDef)}
    out = [P.HEADER, "(* generated from src/grid/rtransform.py on every run; do not edit *)"]
    units = []
    sigs = {}
    for cname in CLASSES:
        if cname not in classes:
            raise P.Unsupported(f"class {cname} not found")
        attrs, props, methods = P.class_info(classes[cname])
        params = ["p" + a for a in attrs]
        sigs[cname] = attrs
        ptxt = ("(" + " ".join(params) + " : R) ") if params else ""
        for m in METHODS:
            if m not in methods:
                raise P.Unsupported(f"{cname}.{m} not found")
            fn = methods[m]
            if len(fn.args.args) != 2:
                raise P.Unsupported(f"{cname}.{m} signature")
            arg = fn.args.args[1].arg
            sib = {mm: f"{short(cname)}_{mm} " + " ".join(params) for mm in METHODS}
            variants = [("", False)] + ([("_scalar", True)] if P.has_scalar_branch(fn) else [])
            for suffix, scalar in variants:
                env = P.Env({a: "p" + a for a in attrs}, props, sib)
                term = P.Tr(env).body(fn.body, scalar)
                out.append(f"Definition {short(cname)}_{m}{suffix} {ptxt}(v_{arg} : R) : R :=\n  {term}.")
                seg = ast.get_source_segment(src, fn)
                units.append({"unit": f"{cname}.{m}{suffix}", "file": "src/grid/rtransform.py", "lines": [fn.lineno, fn.end_lineno],
                              "sha": src_sha(seg), "guards": env.guards, "notes": sorted(set(env.notes))})
    # generic inverse-derivative formulas of the base class
    _, _, bm = P.class_info(classes["BaseTransform"])
    fpar = "(f_transform f_inverse f_deriv f_deriv2 f_deriv3 : R -> R) "
    for m in ["deriv_inverse", "deriv2_inverse", "deriv3_inverse"]:
        fn = bm[m]
        env = P.Env({}, {}, {mm: f"f_{mm}" for mm in METHODS})
        term = P.Tr(env).body(fn.body, False)
        out.append(f"Definition Base_{m} {fpar}(v_{fn.args.args[1].arg} : R) : R :=\n  {term}.")
        units.append({"unit": f"BaseTransform.{m}", "file": "src/grid/rtransform.py", "lines": [fn.lineno, fn.end_lineno],
                      "sha": src_sha(ast.get_source_segment(src, fn)), "guards": env.guards})
    # InverseRTransform
    _, _, im = P.class_info(classes["InverseRTransform"])
    held = {"_tfm": {mm: f"f_{mm}" for mm in METHODS}}
    for m in ["_d1", "transform", "inverse", "deriv", "deriv2", "deriv3"]:
        fn = im[m]
        env = P.Env({}, {}, {"_d1": "Inverse__d1 f_transform f_inverse f_deriv f_deriv2 f_deriv3"}, held)
        term = P.Tr(env).body(fn.body, False)
        out.append(f"Definition Inverse_{m} {fpar}(v_{fn.args.args[1].arg} : R) : R :=\n  {term}.")
        units.append({"unit": f"InverseRTransform.{m}", "file": "src/grid/rtransform.py", "lines": [fn.lineno, fn.end_lineno],
                      "sha": src_sha(ast.get_source_segment(src, fn)), "guards": env.guards})
    ctx.gen("C03_gen.v", "\n".join(out) + "\n", units)
    return sigs


def run(ctx: Ctx):
    sigs = gen(ctx)
    ctx.copy_coq("C03")
    status = ctx.coq_build()
    ctx.register_props(status)


# ======================================================================== correspondence + search
import grid.rtransform as RT  # noqa: E402


def dy(rng, lo, hi, bits=10):
    """random dyadic in (lo, hi) with `bits` fractional bits (exact in binary64 and in Coq)."""
    q = 1 << bits
    a, b = math.ceil(lo * q + 1e-9), math.floor(hi * q - 1e-9)
    return rng.randint(a, b) / q


def sample_params(cname, rng):
    """admissible parameters (as python floats that are exact dyadics) + interior domain interval for x."""
    if cname == "BeckeRTransform":
        p = dict(rmin=rng.choice([0.0, 0.125, 1.5]), R=dy(rng, 0.2, 4))
        return p, (-1, 1), {}
    if cname == "LinearFiniteRTransform":
        rmin = dy(rng, -2, 2)
        return dict(rmin=rmin, rmax=rmin + dy(rng, 0.25, 8)), (-1, 1), {}
    if cname == "IdentityRTransform":
        return {}, (0, 20), {}
    if cname in ("LinearInfiniteRTransform",):
        rmin = dy(rng, 0, 2)
        return dict(rmin=rmin, rmax=rmin + dy(rng, 0.5, 20), b=dy(rng, 0.5, 30)), (0, 30), {}
    if cname in ("ExpRTransform", "PowerRTransform"):
        rmin = dy(rng, 0.01, 1)
        return dict(rmin=rmin, rmax=rmin + dy(rng, 1, 30), b=dy(rng, 0.5, 30)), (0, 30), {}
    if cname == "HyperbolicRTransform":
        a, b = dy(rng, 0.1, 4), dy(rng, 0.01, 0.5)
        return dict(a=a, b=b), (0, 0.9 / b), {}
    if cname == "MultiExpRTransform":
        return dict(rmin=rng.choice([0.0, 0.125, 1.5]), R=dy(rng, 0.2, 4)), (-1, 1), {}
    if cname == "KnowlesRTransform":
        return dict(rmin=rng.choice([0.0, 0.125]), R=dy(rng, 0.2, 4), k=rng.choice([1, 1.5, 2, 2.5, 3, 7])), (-1, 1), {}
    if cname == "HandyRTransform":
        return dict(rmin=rng.choice([0.0, 0.125]), R=dy(rng, 0.2, 4), m=rng.choice([1, 1.5, 2, 2.5, 3, 5])), (-1, 1), {}
    if cname == "HandyModRTransform":
        m = rng.choice([1, 1.5, 2, 2.5, 3, 4])
        rmin = rng.choice([0.0, 0.125])
        return dict(rmin=rmin, rmax=rmin + 2 ** m + dy(rng, 0.5, 30), m=m), (-1, 1), {}
    raise KeyError(cname)


def make_tf(cname, p, trim=True):
    cls = getattr(RT, cname)
    kw = dict(p)
    if "trim_inf" in cls.__init__.__code__.co_varnames:
        kw["trim_inf"] = trim
    return cls(**kw)


def coq_params(sigs, cname, p):
    return " ".join(r_lit(p[a.lstrip("_")]) for a in sigs[cname])


def call_impl(tf, meth, x):
    with warnings.catch_warnings():
        warnings.simplefilter("ignore")
        with np.errstate(all="ignore"):
            v = getattr(tf, meth)(np.array([x], dtype=float))
    v = np.asarray(v, dtype=float).ravel()
    return float(v[0])


def fd(f, x, h):
    """6th-order central difference."""
    return (45 * (f(x + h) - f(x - h)) - 9 * (f(x + 2 * h) - f(x - 2 * h)) + (f(x + 3 * h) - f(x - 3 * h))) / (60 * h)


GEN_NAMES = None


def all_gen_names(ctx):
    import re
    return re.findall(r"^Definition (\w+)", (ctx.build / "C03_gen.v").read_text(), flags=re.M)


def correspondence(ctx: Ctx, sigs):
    names = all_gen_names(ctx)
    hdr = ("From Coq Require Import Reals.\nFrom Coquelicot Require Import Coquelicot.\nFrom Interval Require Import Tactic.\n"
           "From P Require Import C03_gen.\nOpen Scope R_scope.\n")
    unfold = "cbv beta zeta delta [" + " ".join(names) + "]"
    cases, meta = [], []
    n_per = 4 if ctx.quick else 30
    for cname in CLASSES:
        for it in range(n_per):
            p, (lo, hi), _ = sample_params(cname, ctx.rng)
            tf = make_tf(cname, p, trim=bool(it % 2))
            span = hi - lo
            xs = [dy(ctx.rng, lo + span / 64, hi - span / 64, 12) for _ in range(2)]
            if it in (0, 1):  # close to the ends of the domain, once with trimming off and once on
                xs.append(lo + span * 2.0 ** -20)
                if hi < 1e6:
                    xs.append(hi - span * 2.0 ** -20)
            for x in xs:
                for m in METHODS:
                    arg = x
                    if m == "inverse":
                        arg = call_impl(tf, "transform", x)  # a codomain point (exact float)
                        if "rmin" in p and not arg > p["rmin"] + 1e-9:
                            continue  # rounded onto the codomain end: outside the interior the theorems are about
                    y = call_impl(tf, m, arg)
                    if not math.isfinite(y):
                        continue
                    tol = Fraction(1, 10 ** 9) * (1 + abs(Fraction(y)))
                    cp = coq_params(sigs, cname, p)
                    goal = f"Rabs ({short(cname)}_{m} {cp} {r_lit(arg)} - {r_lit(y)}) <= {r_lit(tol)}"
                    cases.append((goal, f"{unfold}; interval with (i_prec 90)"))
                    meta.append((cname, m, dict(p), arg, y))
                    ctx.case((cname, m, tuple(p.items()), arg))
                    ctx.count(f"{short(cname)}.{m}")
                # generic inverse-derivative formulas through the base class and InverseRTransform
                r = call_impl(tf, "transform", x)
                if "rmin" in p and not r > p["rmin"] + 1e-6 * (1 + abs(p["rmin"])):
                    continue  # within rounding distance of the codomain end 1 - exp(..) cancels: floating point, not the formulas
                itf = RT.InverseRTransform(tf)
                cp = coq_params(sigs, cname, p)
                fs = " ".join(f"({short(cname)}_{mm} {cp})" for mm in METHODS)
                for bm, im in (("deriv_inverse", "deriv"), ("deriv2_inverse", "deriv2"), ("deriv3_inverse", "deriv3")):
                    try:
                        y = call_impl(tf, bm, r)
                        y2 = call_impl(itf, im, r)
                    except ZeroDivisionError:
                        continue
                    if not (math.isfinite(y) and math.isfinite(y2)):
                        continue
                    for (nm, yy) in ((f"Base_{bm}", y), (f"Inverse_{im}", y2)):
                        tol = Fraction(1, 10 ** 8) * (1 + abs(Fraction(yy)))
                        goal = f"Rabs ({nm} {fs} {r_lit(r)} - {r_lit(yy)}) <= {r_lit(tol)}"
                        cases.append((goal, f"{unfold}; interval with (i_prec 90)"))
                        meta.append((cname, nm, dict(p), r, yy))
                        ctx.case((cname, nm, tuple(p.items()), r))
                        ctx.count(nm)
    bad = ctx.coq_tactic_cases("C03_corr", hdr, cases, shard=max(20, len(cases) // 16 + 1), timeout=1500)
    for i in bad:
        cname, m, p, arg, y = meta[i]
        ctx.fail(f"corr_{short(cname)}_{m}", f"corr:{cname}.{m}:{p}:{arg}", y,
                 f"generated model of {cname}.{m} does not enclose the implementation's value {y} at params {p}, argument {arg}",
                 {"reproduce": f"{cname}(**{p}).{m}(np.array([{arg}]))", "goal": cases[i][0][:400]}, found_input=False)
    if meta:
        ctx.sample({"class": meta[0][0], "method": meta[0][1], "params": meta[0][2], "arg": meta[0][3], "impl": meta[0][4]})
        ctx.sample({"class": meta[-1][0], "method": meta[-1][1], "params": meta[-1][2], "arg": meta[-1][3], "impl": meta[-1][4]})
    return len(cases)


# canonical corpus (runs first, fixed order): inputs on which defects were found
CORPUS = [("HandyModRTransform", dict(rmin=0.0, rmax=10.0, m=3), 0.0)]

KIND_OF = {"dtype_transform": "point-array dtype", "dtype_deriv": "point-array dtype", "dtype_deriv2": "point-array dtype", "dtype_deriv3": "point-array dtype",
           "inv_tf": "inverse(transform(x)) = x", "tf_inv": "transform(inverse(r)) = r", "d1": "deriv", "d2": "deriv2", "d3": "deriv3",
           "id1": "deriv_inverse", "id2": "deriv2_inverse", "id3": "deriv3_inverse", "mono": "monotone", "ends": "end points", "reuse": "same-array reuse", "trim": "infinity trimming", "extreme": "extreme admissible parameters"}


def property_checks(tf, cname, p, x, lo, hi):
    """Evaluate the property's own oracle on the implementation at one interior point; yields (kind, observed, expected)."""
    span = min(hi - lo, 4.0)
    h = span * 2.0 ** -9
    if x - 3 * h <= lo or x + 3 * h >= hi:
        return
    t = lambda m: (lambda z: call_impl(tf, m, z))  # noqa: E731
    r = t("transform")(x)
    scale = lambda *v: 1e-6 * max(1.0, *[abs(a) for a in v])  # noqa: E731
    xi = t("inverse")(r)
    if abs(xi - x) > 1e-8 * max(1, abs(x)):
        yield "inv_tf", xi, x
    for kind, f, df in (("d1", "transform", "deriv"), ("d2", "deriv", "deriv2"), ("d3", "deriv2", "deriv3")):
        num1, num, ana = fd(t(f), x, h), fd(t(f), x, h / 2), t(df)(x)
        fd_err = abs(num1 - num)  # the two step sizes must agree, otherwise finite differences cannot judge this point
        if fd_err <= 1e-7 * max(1.0, abs(num)) and abs(num - ana) > 100 * fd_err + scale(num, ana):
            yield kind, ana, num
    d1, d2, d3 = t("deriv")(x), t("deriv2")(x), t("deriv3")(x)
    # inverse derivatives: the inverse-function-theorem values computed from the implementation's own d1, d2, d3 at x = inverse(r)
    # (finite differences of the inverse are too ill-conditioned near the domain ends to serve as an oracle)
    if d1 != 0 and abs(xi - x) <= 1e-8 * max(1, abs(x)):
        xr = xi
        e1, e2, e3 = t("deriv")(xr), t("deriv2")(xr), t("deriv3")(xr)
        for kind, df, exp in (("id1", "deriv_inverse", 1 / e1), ("id2", "deriv2_inverse", -e2 / e1 ** 3),
                              ("id3", "deriv3_inverse", (3 * e2 ** 2 - e1 * e3) / e1 ** 5)):
            for obj, meth in ((tf, df), (RT.InverseRTransform(tf), df.replace("_inverse", ""))):
                ana = call_impl(obj, meth, r)
                if math.isfinite(exp) and abs(ana - exp) > 1e-9 * max(1.0, abs(exp)):
                    yield kind, ana, exp
    decreasing = cname == "MultiExpRTransform"
    if (d1 < 0) != decreasing or d1 == 0:
        yield "mono", d1, ("negative" if decreasing else "positive")


def endpoint_checks(cname, p):
    out = []
    inf_classes = {"BeckeRTransform": 1.0, "MultiExpRTransform": -1.0, "KnowlesRTransform": 1.0, "HandyRTransform": 1.0}
    for trim in (True, False):
        tf = make_tf(cname, p, trim)
        ends = []
        if cname in ("BeckeRTransform", "KnowlesRTransform", "HandyRTransform"):
            ends = [(-1.0, p["rmin"])]
        elif cname == "MultiExpRTransform":
            ends = [(1.0, p["rmin"])]
        elif cname in ("LinearFiniteRTransform", "HandyModRTransform"):
            ends = [(-1.0, p["rmin"]), (1.0, p["rmax"])]
        elif cname in ("IdentityRTransform", "HyperbolicRTransform"):
            ends = [(0.0, 0.0)]
        elif cname in ("LinearInfiniteRTransform", "ExpRTransform", "PowerRTransform"):
            ends = [(0.0, p["rmin"]), (p["b"], p["rmax"])]
        for x, exp in ends:
            v = call_impl(tf, "transform", x)
            if not abs(v - exp) <= 1e-9 * max(1.0, abs(exp)):
                out.append((f"ends:x={x}:trim={trim}", v, exp))
        if cname in inf_classes:
            v = call_impl(tf, "transform", inf_classes[cname])
            exp = 1e16 if trim else float("inf")
            if v != exp:
                out.append((f"ends:x={inf_classes[cname]}:trim={trim}", v, exp))
        if not hasattr(tf, "trim_inf"):
            break
    return out


def sweep(ctx: Ctx):
    """Property oracle on the implementation. Per (class, kind) only the canonical first failing input is reported."""
    first: dict = {}
    npts = 0
    plan = [(c, p, x) for c, p, x in CORPUS]
    for cname in CLASSES:
        for _ in range(6 if ctx.quick else 60):
            p, (lo, hi), _ = sample_params(cname, ctx.rng)
            span = hi - lo
            for _ in range(3):
                plan.append((cname, p, dy(ctx.rng, lo + span / 16, hi - span / 16, 8)))
    for cname, p, x in plan:
        _, (lo, hi), _ = sample_params(cname, __import__("random").Random(0))
        if cname == "HyperbolicRTransform":
            lo, hi = 0, 0.9 / p["b"]
        tf = make_tf(cname, p, True)
        npts += 1
        for kind, obs, exp in property_checks(tf, cname, p, x, lo, hi):
            first.setdefault((cname, kind), (p, x, obs, exp))
    # end points: a fixed parameter corpus first (so that a finding reproduces under every seed), then the sampled parameters
    ends_plan = []
    for kk in (1, 1.5, 2, 2.5, 3, 7):
        ends_plan += [("KnowlesRTransform", dict(rmin=0.0, R=1.5, k=kk)), ("HandyRTransform", dict(rmin=0.0, R=1.5, m=kk)),
                      ("HandyModRTransform", dict(rmin=0.0, rmax=2.0 ** kk + 10.0, m=kk))]
    ends_plan += [(c, p) for c, p, _ in plan]
    for cname, p in ends_plan:
        for kind, obs, exp in endpoint_checks(cname, p):
            first.setdefault((cname, "ends"), (p, kind, obs, exp))
    # no hidden state: refilling the SAME array object in place and calling again must give the values of a fresh array
    # (history: fill, call every method, refill in place, call again on the same instance)
    meths = ["transform", "inverse", "deriv", "deriv2", "deriv3", "deriv_inverse", "deriv2_inverse", "deriv3_inverse"]
    for cname in CLASSES:
        rr = __import__("random").Random(f"reuse:{cname}")
        p, (lo, hi), _ = sample_params(cname, rr)
        if cname == "HyperbolicRTransform":
            hi = 0.05 / p["b"]
        span = hi - lo
        for wrap in (False, True):
            tf = make_tf(cname, p, True)
            obj = RT.InverseRTransform(tf) if wrap else tf
            x1 = np.array([lo + span * f for f in (0.30, 0.45, 0.60)])
            x2 = np.array([lo + span * f for f in (0.35, 0.50, 0.70)])
            with warnings.catch_warnings():
                warnings.simplefilter("ignore")
                with np.errstate(all="ignore"):
                    try:
                        r1, r2 = tf.transform(x1.copy()), tf.transform(x2.copy())
                    except Exception as e:  # noqa: BLE001
                        first.setdefault((cname, "reuse"), (p, f"transform of the admissible 3-point array {x1.tolist()}", f"{type(e).__name__}: {str(e)[:60]}", "its values"))
                        continue
                    for m in meths:
                        dom = m in ("transform", "deriv", "deriv2", "deriv3")
                        if wrap:
                            dom = not dom  # InverseRTransform swaps domain and codomain
                        a, b_ = (x1, x2) if dom else (r1, r2)
                        try:
                            buf = a.copy()
                            getattr(obj, m)(buf)
                            buf[:] = b_
                            got = np.asarray(getattr(obj, m)(buf), dtype=float)
                            fresh = np.asarray(getattr(make_tf(cname, p, True) if not wrap else RT.InverseRTransform(make_tf(cname, p, True)), m)(b_.copy()), dtype=float)
                        except Exception as e:  # noqa: BLE001
                            first.setdefault((cname, "reuse"), (p, f"{'InverseRTransform.' if wrap else ''}{m}", type(e).__name__, "values of a fresh array"))
                            continue
                        npts += 1
                        if not np.allclose(got, fresh, rtol=1e-12, atol=0, equal_nan=True):
                            first.setdefault((cname, "reuse"), (p, f"{'InverseRTransform.' if wrap else ''}{m}: buffer refilled in place from {a.tolist()} to {b_.tolist()}",
                                                                float(got[0]), float(fresh[0])))
    # the SAME argument array passed to one method and then, untouched by the caller, to another: every answer must be that of
    # the points the caller holds (history: m1(buf); m2(buf) versus m2 on a fresh copy)
    for cname in CLASSES:
        rr = __import__("random").Random(f"twice:{cname}")
        p, (lo, hi), _ = sample_params(cname, rr)
        if cname == "HyperbolicRTransform":
            hi = 0.05 / p["b"]
        span = hi - lo
        for wrap in (False, True):
            mk = (lambda: RT.InverseRTransform(make_tf(cname, p, True))) if wrap else (lambda: make_tf(cname, p, True))  # noqa: E731
            x1 = np.array([lo + span * f for f in (0.30, 0.45, 0.60)])
            with warnings.catch_warnings():
                warnings.simplefilter("ignore")
                with np.errstate(all="ignore"):
                    try:
                        r1 = make_tf(cname, p, True).transform(x1.copy())
                    except Exception as e:  # noqa: BLE001
                        first.setdefault((cname, "reuse"), (p, f"transform of the admissible 3-point array {x1.tolist()}", f"{type(e).__name__}: {str(e)[:60]}", "its values"))
                        continue
                    for grp in (("transform", "deriv", "deriv2", "deriv3"), ("inverse", "deriv_inverse", "deriv2_inverse", "deriv3_inverse")):
                        a = x1 if (grp[0] == "transform") != wrap else r1
                        for m1 in grp:
                            for m2 in grp:
                                try:
                                    obj, buf = mk(), a.copy()
                                    getattr(obj, m1)(buf)
                                    got = np.asarray(getattr(obj, m2)(buf), dtype=float)
                                    fresh = np.asarray(getattr(mk(), m2)(a.copy()), dtype=float)
                                except Exception as e:  # noqa: BLE001
                                    first.setdefault((cname, "reuse"), (p, f"{'InverseRTransform.' if wrap else ''}{m1} then {m2} on the same array {a.tolist()}", type(e).__name__, "values of a fresh array"))
                                    continue
                                npts += 1
                                if not np.allclose(got, fresh, rtol=1e-12, atol=0, equal_nan=True):
                                    first.setdefault((cname, "reuse"), (p, f"{'InverseRTransform.' if wrap else ''}{m1}(a) then {m2}(a) on the same array a = {a.tolist()} (a is now {buf.tolist()})",
                                                                        float(got[0]), float(fresh[0])))
    # the values do not depend on the dtype of the point array: integer-typed (and float32) arrays of interior points give what the
    # float64 array of the same numbers gives
    for cname in CLASSES:
        rr = __import__("random").Random(f"dtype:{cname}")
        p, (lo, hi), _ = sample_params(cname, rr)
        if cname == "HyperbolicRTransform":
            p = dict(p, b=min(p["b"], 0.05))
        ints = [v for v in (0,) if lo < v < hi] if hi <= 1 else [v for v in range(1, 9) if lo < v < min(hi, 0.9 / p["b"] if cname == "HyperbolicRTransform" else hi)]
        if not ints:
            continue
        for wrap in (False,):
            for dt, rtol in ((np.int64, 1e-13), (np.int32, 1e-13), (np.float32, 1e-6)):
                xi = np.array(ints, dtype=dt)
                for m in ("transform", "deriv", "deriv2", "deriv3"):
                    try:
                        with warnings.catch_warnings():
                            warnings.simplefilter("ignore")
                            with np.errstate(all="ignore"):
                                got = np.asarray(getattr(make_tf(cname, p, True), m)(xi), dtype=float)
                                ref = np.asarray(getattr(make_tf(cname, p, True), m)(xi.astype(np.float64)), dtype=float)
                    except Exception as e:  # noqa: BLE001
                        first.setdefault((cname, f"dtype_{m}"), (p, f"{m} on the {np.dtype(dt).name} array {ints}", f"{type(e).__name__}: {str(e)[:50]}", "the values of the float64 array"))
                        continue
                    npts += 1
                    if got.shape != ref.shape or not np.allclose(got, ref, rtol=rtol, atol=0):
                        j = int(np.argmax(np.abs(got - ref))) if got.shape == ref.shape else 0
                        first.setdefault((cname, f"dtype_{m}"), (p, f"{m} on the {np.dtype(dt).name} array {ints} (element {j})", float(got.ravel()[j]), float(ref.ravel()[j])))
    # admissibility boundary of the size-dependent guard of HyperbolicRTransform: every N-point array with b*(N-1) < 1 is admissible
    for N in (2, 3, 5, 10, 33):
        for b_ in (1.0 / (N - 0.5), 0.999 / (N - 1), 1.0 / N):
            pH = dict(a=1.5, b=b_)
            xH = np.linspace(0.0, 0.9 / b_, N)
            for wrap in (False, True):
                try:
                    tfh = make_tf("HyperbolicRTransform", pH, True)
                    rH = tfh.transform(xH.copy())
                    back = (RT.InverseRTransform(tfh).transform(rH.copy()) if wrap else tfh.inverse(rH.copy()))
                    for m in ("deriv", "deriv2", "deriv3"):
                        getattr(tfh, m)(xH.copy())
                    for m in ("deriv_inverse", "deriv2_inverse", "deriv3_inverse"):
                        getattr(tfh, m)(rH.copy())
                    npts += 1
                    if not np.allclose(back, xH, rtol=1e-9, atol=1e-12):
                        first.setdefault(("HyperbolicRTransform", "inv_tf"), (pH, f"inverse(transform(x)) on the {N}-point array linspace(0, 0.9/b, {N})", float(back[-1]), float(xH[-1])))
                except Exception as e:  # noqa: BLE001
                    first.setdefault(("HyperbolicRTransform", "extreme"), (pH, f"the admissible {N}-point array linspace(0, 0.9/b, {N}) (b*(N-1) = {b_ * (N - 1):.4f} < 1)",
                                                                          f"{type(e).__name__}: {str(e)[:50]}", "values"))
    # infinity trimming replaces ONLY infinities (finite values, however large, are left alone), scalars and arrays
    tfc = make_tf("BeckeRTransform", dict(rmin=0.0, R=1.0), True)
    arr = np.array([-np.inf, -1e300, -1e17, -1.0, 0.0, 2.5, 1e16, 3e16, 1e200, np.inf])
    exp_arr = arr.copy()
    exp_arr[0], exp_arr[-1] = -1e16, 1e16
    try:
        got = np.asarray(tfc._convert_inf(arr.copy()), dtype=float)
        scal = [float(tfc._convert_inf(float(v))) for v in arr]
        if not np.array_equal(got, exp_arr):
            i = int(np.argmax(got != exp_arr))
            first.setdefault(("BaseTransform", "trim"), ({}, f"_convert_inf(array) element {arr[i]!r}", float(got[i]), float(exp_arr[i])))
        elif scal != list(exp_arr):
            i = [a != b for a, b in zip(scal, exp_arr)].index(True)
            first.setdefault(("BaseTransform", "trim"), ({}, f"_convert_inf(scalar {arr[i]!r})", scal[i], float(exp_arr[i])))
    except Exception as e:  # noqa: BLE001
        first.setdefault(("BaseTransform", "trim"), ({}, "_convert_inf", type(e).__name__, "trimmed values"))
    # with trimming ON, finite derivatives beyond 1e16 near the singular end must still be the true (untrimmed) values
    for cname, p, x in (("HandyRTransform", dict(rmin=0.0, R=1.5, m=3), 1 - 2.0 ** -20), ("HandyRTransform", dict(rmin=0.0, R=1.5, m=2), 0.999),
                        ("BeckeRTransform", dict(rmin=0.0, R=1.5), 1 - 2.0 ** -30), ("KnowlesRTransform", dict(rmin=0.0, R=1.5, k=3), 1 - 2.0 ** -40),
                        ("HandyModRTransform", dict(rmin=0.0, rmax=20.0, m=3), 1 - 2.0 ** -20)):
        t_on, t_off = make_tf(cname, p, True), make_tf(cname, p, False)
        for m in ("transform", "deriv", "deriv2", "deriv3"):
            a, b_ = call_impl(t_on, m, x), call_impl(t_off, m, x)
            npts += 1
            if math.isfinite(b_) and a != b_:
                first.setdefault((cname, "trim"), (p, f"{m} with trim_inf=True at interior x={x}", a, b_))
    # extreme but admissible parameters: very flat maps; the inverse-derivative methods must return the inverse-function-theorem values
    for cname, p, x in (("ExpRTransform", dict(rmin=1e-10, rmax=10.0, b=99.0), 3.0), ("PowerRTransform", dict(rmin=1e-9, rmax=1.0, b=99.0), 0.5),
                        ("LinearFiniteRTransform", dict(rmin=1.0, rmax=1.0 + 2.0 ** -29), 0.25), ("LinearInfiniteRTransform", dict(rmin=0.0, rmax=2.0 ** -28, b=50.0), 7.0),
                        ("HandyRTransform", dict(rmin=0.0, R=1.5, m=3), -0.9999), ("BeckeRTransform", dict(rmin=0.0, R=2.0 ** -30), 0.0)):
        tf = make_tf(cname, p, True)
        try:
            r = call_impl(tf, "transform", x)
            e1, e2, e3 = call_impl(tf, "deriv", x), call_impl(tf, "deriv2", x), call_impl(tf, "deriv3", x)
            xi = call_impl(tf, "inverse", r)
        except Exception as e:  # noqa: BLE001
            first.setdefault((cname, "extreme"), (p, f"forward methods at x={x}", type(e).__name__, "values"))
            continue
        if e1 == 0 or abs(xi - x) > 1e-6 * max(1, abs(x)):
            continue
        for df, exp in (("deriv_inverse", 1 / e1), ("deriv2_inverse", -e2 / e1 ** 3), ("deriv3_inverse", (3 * e2 ** 2 - e1 * e3) / e1 ** 5)):
            for obj, meth in ((tf, df), (RT.InverseRTransform(tf), df.replace("_inverse", ""))):
                npts += 1
                try:
                    ana = call_impl(obj, meth, r)
                except Exception as e:  # noqa: BLE001
                    first.setdefault((cname, "extreme"), (p, f"{type(obj).__name__}.{meth}(r={r}) (|dr/dx| = {abs(e1):.3g} is small but non-zero)", type(e).__name__, exp))
                    continue
                # the point x is recovered through inverse(r): allow for its conditioning
                if math.isfinite(exp) and abs(ana - exp) > 1e-6 * max(1e-300, abs(exp)):
                    first.setdefault((cname, "extreme"), (p, f"{type(obj).__name__}.{meth}(r={r})", ana, exp))
    ctx.cov["sweep_points"] = npts
    return first


def run(ctx: Ctx):  # noqa: F811
    gen_err, sigs, status = None, None, {}
    try:
        sigs = gen(ctx)
    except P.Unsupported as e:  # translator fails closed: the tie is broken; still search the implementation for a failing input
        gen_err = e
    if gen_err is None:
        ctx.copy_coq("C03")
        status = ctx.coq_build()
        ctx.register_props(status)
    failures = sweep(ctx)
    # a property theorem that no longer checks: attach the concrete failing input of the same (class, kind) if the sweep has one
    used = set()
    for name, ob in list(ctx.obligations.items()):
        if ob["status"] == "discharged":
            continue
        parts = name.split("_")  # C03_<Class>_<kind...>
        cls = parts[1] + "RTransform" if len(parts) > 2 else ""
        kind = "_".join(parts[2:])
        hit = failures.get((cls, kind))
        if hit:
            p, x, obs, exp = hit
            used.add((cls, kind))
            extra = ""
            if status.get("C03_refuted_handymod_d3.v") and name == "C03_HandyMod_d3":
                extra = " (Coq: HandyMod_d3_refuted_lemma proves that the generated deriv3 is not the derivative of deriv2)"
            ctx.fail(name, f"{cls}.{KIND_OF.get(kind, kind)}:{p}:x={x}", round(float(obs), 9),
                     f"{cls}({p}): {KIND_OF.get(kind, kind)} at x={x} is {obs}, the true value is {exp}{extra}",
                     {"reproduce": f"tf={cls}(**{p}); tf.{KIND_OF.get(kind, kind)}(np.array([{x}]))  # vs finite differences", "expected": exp})
    cands = []
    for (cls, kind), (p, x, obs, exp) in failures.items():
        if (cls, kind) in used:
            continue
        key = f"{cls}.{KIND_OF.get(kind, kind)}:{p}:x={x}"
        ob_ = round(float(obs), 9) if isinstance(obs, float) else obs
        text = f"{cls}({p}): {KIND_OF.get(kind, kind)} at x={x} is {obs}, expected {exp}"
        rp = {"reproduce": f"tf={cls}(**{p}); tf.{KIND_OF.get(kind, kind)}(np.array([{x}]))", "expected": exp}
        if gen_err is not None and not ctx.is_known(key, ob_):
            cands.append((key, ob_, text, rp))
        else:
            ctx.fail(f"sweep_{short(cls)}_{kind}", key, ob_, text, rp)
    if gen_err is not None:
        ctx.broken_tie("translator(rtransform.py)", gen_err, cands)
    if status.get("C03_gen.v"):
        correspondence(ctx, sigs)
    ctx.cov["rule"] = ("interval correspondence: random admissible dyadic parameters (k, m in {1,1.5,2,2.5,3,..}) and interior/near-end points per class "
                       "and method, the generated Coq term must enclose the implementation's float; sweep: finite-difference / round-trip / monotonicity / "
                       "end-point oracle on the implementation; distinct = (class, method, params, argument)")
    ctx.trusted += ["py2coq/real translator (validated by interval enclosures each run)", "interval tactic (Interval 4.6, i_prec 90)",
                    "IEEE rounding of the implementation assumed below 1e-9 relative at sampled points",
                    "trim_inf/_convert_inf modelled as identity on finite values; end-point branch checked on the implementation only",
                    "set_maximum_parameter_b state (inferred b) is C19's model; here b is a parameter"]
    ctx.assumptions += ["HandyMod theorems carry the hypothesis HandyMod_D <> 0 (resp. 2^m - 1 < rmax - rmin for monotonicity/inverse)",
                        "Rpower-based formulas are stated on the interior of the domain (positive bases)"]
