"""C03 — radial transforms are analytically self-consistent for all parameters.

gen:   every transform/inverse/deriv/deriv2/deriv3 of the 11 concrete classes + the generic
       BaseTransform.deriv*_inverse / InverseRTransform formulas are re-translated from rtransform.py (py2coq/real).
prove: coq/C03/*.v (auto_derive + field on the generated terms, symbolic parameters).
tie:   translation validation by `interval` enclosures of the generated terms against the implementation's float
       output at random dyadic inputs (array and scalar calls).
search: high-order central differences / mpmath on the implementation.
"""
from __future__ import annotations

import ast
import math
import warnings
from fractions import Fraction

import numpy as np

from vlib import py2coq_real as P
from vlib.core import SRC, Ctx, r_lit, src_sha

CLASSES = ["BeckeRTransform", "LinearFiniteRTransform", "IdentityRTransform", "LinearInfiniteRTransform",
           "ExpRTransform", "PowerRTransform", "HyperbolicRTransform", "MultiExpRTransform",
           "KnowlesRTransform", "HandyRTransform", "HandyModRTransform"]
METHODS = ["transform", "inverse", "deriv", "deriv2", "deriv3"]


def short(c):
    return c.replace("RTransform", "")


def gen(ctx: Ctx):
    src = (SRC / "rtransform.py").read_text()
    tree = ast.parse(src)
    classes = {c.name: c for c in tree.body if isinstance(c, ast.ClassDef)}
    out = [P.HEADER, "(* generated from src/grid/rtransform.py on every run; do not edit *)"]
    units = []
    sigs = {}
    for cname in CLASSES:
        if cname not in classes:
            raise P.Unsupported(f"class {cname} not found")
        attrs, props, methods = P.class_info(classes[cname])
        params = ["p" + a for a in attrs]
        sigs[cname] = attrs
        ptxt = ("(" + " ".join(params) + " : R) ") if params else ""
        for m in METHODS:
            if m not in methods:
                raise P.Unsupported(f"{cname}.{m} not found")
            fn = methods[m]
            if len(fn.args.args) != 2:
                raise P.Unsupported(f"{cname}.{m} signature")
            arg = fn.args.args[1].arg
            sib = {mm: f"{short(cname)}_{mm} " + " ".join(params) for mm in METHODS}
            variants = [("", False)] + ([("_scalar", True)] if P.has_scalar_branch(fn) else [])
            for suffix, scalar in variants:
                env = P.Env({a: "p" + a for a in attrs}, props, sib)
                term = P.Tr(env).body(fn.body, scalar)
                out.append(f"Definition {short(cname)}_{m}{suffix} {ptxt}(v_{arg} : R) : R :=\n  {term}.")
                seg = ast.get_source_segment(src, fn)
                units.append({"unit": f"{cname}.{m}{suffix}", "file": "src/grid/rtransform.py", "lines": [fn.lineno, fn.end_lineno],
                              "sha": src_sha(seg), "guards": env.guards, "notes": sorted(set(env.notes))})
    # generic inverse-derivative formulas of the base class
    _, _, bm = P.class_info(classes["BaseTransform"])
    fpar = "(f_transform f_inverse f_deriv f_deriv2 f_deriv3 : R -> R) "
    for m in ["deriv_inverse", "deriv2_inverse", "deriv3_inverse"]:
        fn = bm[m]
        env = P.Env({}, {}, {mm: f"f_{mm}" for mm in METHODS})
        term = P.Tr(env).body(fn.body, False)
        out.append(f"Definition Base_{m} {fpar}(v_{fn.args.args[1].arg} : R) : R :=\n  {term}.")
        units.append({"unit": f"BaseTransform.{m}", "file": "src/grid/rtransform.py", "lines": [fn.lineno, fn.end_lineno],
                      "sha": src_sha(ast.get_source_segment(src, fn)), "guards": env.guards})
    # InverseRTransform
    _, _, im = P.class_info(classes["InverseRTransform"])
    held = {"_tfm": {mm: f"f_{mm}" for mm in METHODS}}
    for m in ["_d1", "transform", "inverse", "deriv", "deriv2", "deriv3"]:
        fn = im[m]
        env = P.Env({}, {}, {"_d1": "Inverse__d1 f_transform f_inverse f_deriv f_deriv2 f_deriv3"}, held)
        term = P.Tr(env).body(fn.body, False)
        out.append(f"Definition Inverse_{m} {fpar}(v_{fn.args.args[1].arg} : R) : R :=\n  {term}.")
        units.append({"unit": f"InverseRTransform.{m}", "file": "src/grid/rtransform.py", "lines": [fn.lineno, fn.end_lineno],
                      "sha": src_sha(ast.get_source_segment(src, fn)), "guards": env.guards})
    ctx.gen("C03_gen.v", "\n".join(out) + "\n", units)
    return sigs


def run(ctx: Ctx):
    sigs = gen(ctx)
    ctx.copy_coq("C03")
    status = ctx.coq_build()
    ctx.register_props(status)
