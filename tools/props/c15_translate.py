"""C15 translator: a fail-closed symbolic interpreter (Python ast) for the helpers of src/grid/ode.py.

It executes the statements of
    _evaluate_coeffs_on_points, _transform_ode_from_derivs, _transform_ode_from_rtransform,
    _transform_and_rearrange_to_explicit_ode, _rearrange_to_explicit_ode, _derivative_transformation_matrix
and of the nested right-hand-side functions `func` of solve_ode_ivp / solve_ode_bvp on SYMBOLIC real inputs with
CONCRETE sizes (ODE order K = 1..3, matrix order N = 1..3) and emits the resulting values as Coq terms over R
(C15_gen.v).  Loops over fixed-size ranges are unrolled, `if` on sizes/kinds is decided, calls between the helpers are
inlined.  The mesh axis of every array is collapsed to one point (all operations of these functions are elementwise
in the mesh points), i.e. `x` is one real number, an array of shape (K+1, N) is a vector of K+1 reals.

Anything outside the supported subset raises Unsupported (reported by the entry point as a broken tie).
Values:  ("r", term) real | ("i", n) int | ("b", bool) | ("v", [terms]) vector | ("m", [[terms]]) matrix |
         ("f", builder) callable R->R (builder: term -> term) | ("l", [values]) python list | ("tf", {method: builder}) |
         ("none",)
"""
from __future__ import annotations

import ast

from vlib import py2coq_real as P

Unsupported = P.Unsupported

HELPERS = ["_evaluate_coeffs_on_points", "_transform_ode_from_derivs", "_transform_ode_from_rtransform",
           "_transform_and_rearrange_to_explicit_ode", "_rearrange_to_explicit_ode", "_derivative_transformation_matrix"]


class Return(Exception):
    def __init__(self, value):
        self.value = value


def R(term):
    return ("r", term)


def to_real(v):
    if v[0] == "r":
        return v[1]
    if v[0] == "i":
        return P.lit(v[1])
    raise Unsupported(f"real value expected, got {v[0]}")


class Interp:
    def __init__(self, funcs: dict[str, ast.FunctionDef]):
        self.funcs = funcs
        self.guards: list[str] = []
        self.depth = 0

    # ------------------------------------------------------------------ calls of module-level helpers (inlined)
    def call_function(self, name: str, args: list):
        fn = self.funcs[name]
        params = [a.arg for a in fn.args.args]
        if len(params) != len(args) or fn.args.vararg or fn.args.kwarg or fn.args.kwonlyargs:
            raise Unsupported(f"call of {name}: arity")
        self.depth += 1
        if self.depth > 8:
            raise Unsupported("call depth")
        env = dict(zip(params, args))
        try:
            self.block(fn.body, env)
        except Return as r:
            return r.value
        finally:
            self.depth -= 1
        raise Unsupported(f"{name}: no return")

    # ------------------------------------------------------------------ statements
    def block(self, stmts, env):
        for s in stmts:
            self.stmt(s, env)

    def stmt(self, s, env):
        if isinstance(s, ast.Expr) and isinstance(s.value, ast.Constant) and isinstance(s.value.value, str):
            return
        if isinstance(s, ast.Return):
            if s.value is None:
                raise Unsupported("bare return")
            raise Return(self.ev(s.value, env))
        if isinstance(s, ast.Assign):
            if len(s.targets) != 1:
                raise Unsupported("multiple assignment targets")
            return self.assign(s.targets[0], self.ev(s.value, env), env)
        if isinstance(s, ast.AugAssign):
            op = {ast.Add: "+", ast.Sub: "-", ast.Mult: "*", ast.Div: "/"}.get(type(s.op))
            if op is None:
                raise Unsupported("augmented operator")
            cur = self.ev(s.target, env)
            val = self.ev(s.value, env)
            if cur[0] == "v" or val[0] == "v":
                raise Unsupported(f"augmented assignment on a whole array: {ast.unparse(s)[:60]}")
            new = R(f"({to_real(cur)} {op} {to_real(val)})")
            return self.assign(s.target, new, env, aug=True)
        if isinstance(s, ast.If):
            return self.if_stmt(s, env)
        if isinstance(s, ast.For):
            return self.for_stmt(s, env)
        if isinstance(s, ast.Expr) and isinstance(s.value, ast.Call) and ast.unparse(s.value.func).startswith("warnings."):
            return
        if isinstance(s, ast.Raise):
            raise Unsupported(f"raise reached in the model instance: {ast.unparse(s)[:70]}")
        raise Unsupported(f"statement {type(s).__name__}: {ast.unparse(s)[:70]}")

    def assign(self, tgt, val, env, aug=False):
        if isinstance(tgt, ast.Name):
            # NumPy arrays are references: `result = fx` followed by `result -= ...` mutates fx (C20's finding); the
            # VALUE computed is the same, which is what this model is about.
            env[tgt.id] = val
            return
        if isinstance(tgt, ast.Subscript) and isinstance(tgt.value, ast.Name):
            arr = env.get(tgt.value.id)
            if arr is None:
                raise Unsupported(f"assignment into unknown {tgt.value.id}")
            idx = self.index(tgt.slice, env)
            if arr[0] == "v" and len(idx) == 1 and isinstance(idx[0], int):
                i = self.norm(idx[0], len(arr[1]))
                arr[1][i] = to_real(val)
                return
            if arr[0] == "m" and len(idx) == 2 and all(isinstance(k, int) for k in idx):
                i, j = self.norm(idx[0], len(arr[1])), self.norm(idx[1], len(arr[1][0]) if arr[1] else 0)
                arr[1][i][j] = to_real(val)
                return
        raise Unsupported(f"assignment target {ast.unparse(tgt)[:60]}")

    @staticmethod
    def norm(i, n):
        if not -n <= i < n:
            raise Unsupported(f"index {i} out of range {n} (the implementation would raise IndexError)")
        return i % n

    def if_stmt(self, s, env):
        # warning-only branch: skipped without evaluating the test
        if not s.orelse and all(isinstance(b, ast.Expr) and ast.unparse(b).startswith("warnings.") for b in s.body):
            return
        t = self.ev(s.test, env)
        if t[0] not in ("b", "tf", "none"):
            raise Unsupported(f"if on a non-decidable test: {ast.unparse(s.test)[:60]}")
        t = ("b", self.truth(t))
        if len(s.body) == 1 and isinstance(s.body[0], ast.Raise) and not s.orelse:
            self.guards.append(ast.unparse(s.test))
            if t[1]:
                raise Unsupported(f"guard fires in the model instance: {ast.unparse(s.test)[:60]}")
            return
        self.block(s.body if t[1] else s.orelse, env)

    def for_stmt(self, s, env):
        if s.orelse:
            raise Unsupported("for-else")
        it = s.iter
        if isinstance(it, ast.Call) and isinstance(it.func, ast.Name) and it.func.id == "range" and not it.keywords:
            a = [self.ev(x, env) for x in it.args]
            if not all(v[0] == "i" for v in a) or not 1 <= len(a) <= 3:
                raise Unsupported("range with non-concrete bounds")
            rng = range(*[v[1] for v in a])
            if len(rng) > 16:
                raise Unsupported("loop too long to unroll")
            if not isinstance(s.target, ast.Name):
                raise Unsupported("for target")
            for k in rng:
                env[s.target.id] = ("i", k)
                self.block(s.body, env)
            return
        if isinstance(it, ast.Call) and isinstance(it.func, ast.Name) and it.func.id == "enumerate" and len(it.args) == 1 and not it.keywords:
            seq = self.ev(it.args[0], env)
            if seq[0] == "v":
                items = [R(t) for t in seq[1]]
            elif seq[0] == "l":
                items = list(seq[1])
            else:
                raise Unsupported("enumerate over a non-sequence")
            if not (isinstance(s.target, ast.Tuple) and len(s.target.elts) == 2 and all(isinstance(e, ast.Name) for e in s.target.elts)):
                raise Unsupported("enumerate target")
            for k, item in enumerate(items):
                env[s.target.elts[0].id] = ("i", k)
                env[s.target.elts[1].id] = item
                self.block(s.body, env)
            return
        raise Unsupported(f"for over {ast.unparse(it)[:60]}")

    # ------------------------------------------------------------------ expressions
    def index(self, sl, env):
        """-> list of int | slice(lo, hi) objects | ':' (full slice)"""
        elts = sl.elts if isinstance(sl, ast.Tuple) else [sl]
        out = []
        for e in elts:
            if isinstance(e, ast.Slice):
                if e.step is not None:
                    raise Unsupported("slice step")
                lo = self.ev(e.lower, env) if e.lower is not None else None
                hi = self.ev(e.upper, env) if e.upper is not None else None
                for b in (lo, hi):
                    if b is not None and b[0] != "i":
                        raise Unsupported("slice bound")
                out.append(slice(lo[1] if lo else None, hi[1] if hi else None))
            else:
                v = self.ev(e, env)
                if v[0] != "i":
                    raise Unsupported(f"non-integer index {ast.unparse(e)}")
                out.append(v[1])
        return out

    def ev(self, e, env):
        if isinstance(e, ast.Constant):
            if isinstance(e.value, bool):
                return ("b", e.value)
            if isinstance(e.value, int):
                return ("i", e.value)
            if isinstance(e.value, float):
                return R(P.lit(e.value))
            if e.value is None:
                return ("none",)
            raise Unsupported(f"constant {e.value!r}")
        if isinstance(e, ast.Name):
            if e.id not in env:
                raise Unsupported(f"unbound name {e.id}")
            return env[e.id]
        if isinstance(e, ast.UnaryOp):
            v = self.ev(e.operand, env)
            if isinstance(e.op, ast.Not):
                return ("b", not self.truth(v))
            if isinstance(e.op, ast.USub):
                return ("i", -v[1]) if v[0] == "i" else R(f"(- {to_real(v)})")
            raise Unsupported("unary operator")
        if isinstance(e, ast.BinOp):
            a, b = self.ev(e.left, env), self.ev(e.right, env)
            if isinstance(e.op, ast.Pow):
                if b[0] != "i" or b[1] < 0:
                    raise Unsupported("exponent must be a literal non-negative integer")
                return ("i", a[1] ** b[1]) if a[0] == "i" else R(f"({to_real(a)} ^ {b[1]})")
            if a[0] == "i" and b[0] == "i" and not isinstance(e.op, ast.Div):
                f = {ast.Add: int.__add__, ast.Sub: int.__sub__, ast.Mult: int.__mul__}.get(type(e.op))
                if f is None:
                    raise Unsupported("integer operator")
                return ("i", f(a[1], b[1]))
            op = {ast.Add: "+", ast.Sub: "-", ast.Mult: "*", ast.Div: "/"}.get(type(e.op))
            if op is None:
                raise Unsupported(f"binary operator {type(e.op).__name__}")
            return R(f"({to_real(a)} {op} {to_real(b)})")
        if isinstance(e, ast.Compare):
            if len(e.ops) != 1:
                raise Unsupported("chained comparison")
            a, b = self.ev(e.left, env), self.ev(e.comparators[0], env)
            if a[0] != "i" or b[0] != "i":
                raise Unsupported(f"comparison of non-integers: {ast.unparse(e)[:60]}")
            f = {ast.Gt: int.__gt__, ast.Lt: int.__lt__, ast.GtE: int.__ge__, ast.LtE: int.__le__, ast.Eq: int.__eq__, ast.NotEq: int.__ne__}.get(type(e.ops[0]))
            if f is None:
                raise Unsupported("comparison operator")
            return ("b", f(a[1], b[1]))
        if isinstance(e, ast.Subscript):
            return self.subscript(e, env)
        if isinstance(e, ast.Attribute):
            base = self.ev(e.value, env)
            if base[0] == "tf":
                if e.attr not in base[1]:
                    raise Unsupported(f"transform attribute {e.attr}")
                return ("f", base[1][e.attr])
            if base[0] in ("r", "v") and e.attr == "size":
                return ("ptaxis",)
            raise Unsupported(f"attribute {ast.unparse(e)[:60]}")
        if isinstance(e, ast.List):
            return ("l", [self.ev(x, env) for x in e.elts])
        if isinstance(e, ast.Tuple):
            out = []
            for x in e.elts:
                if isinstance(x, ast.Starred):
                    v = self.ev(x.value, env)
                    if v[0] != "v":
                        raise Unsupported("starred non-vector")
                    out += [R(t) for t in v[1]]
                else:
                    out.append(self.ev(x, env))
            return ("l", out)
        if isinstance(e, ast.ListComp):
            if len(e.generators) != 1 or e.generators[0].ifs or not isinstance(e.generators[0].target, ast.Name):
                raise Unsupported("list comprehension shape")
            seq = self.ev(e.generators[0].iter, env)
            if seq[0] != "l":
                raise Unsupported("comprehension over a non-list")
            out = []
            for item in seq[1]:
                env2 = dict(env)
                env2[e.generators[0].target.id] = item
                out.append(self.ev(e.elt, env2))
            return ("l", out)
        if isinstance(e, ast.Call):
            return self.call(e, env)
        raise Unsupported(f"expression {type(e).__name__}: {ast.unparse(e)[:60]}")

    @staticmethod
    def truth(v):
        if v[0] == "b":
            return v[1]
        if v[0] == "none":
            return False
        if v[0] == "tf":
            return True
        raise Unsupported(f"truth value of {v[0]}")

    def subscript(self, e, env):
        base = self.ev(e.value, env)
        idx = self.index(e.slice, env)
        if base[0] == "r" and len(idx) == 1 and isinstance(idx[0], int):
            return base  # pt[i]: one point of the collapsed mesh axis
        if base[0] in ("v", "l"):
            seq = base[1]
            # arrays of shape (K, N): the second index addresses the collapsed mesh axis
            if len(idx) == 2:
                if base[0] != "v" or not (isinstance(idx[1], slice) and idx[1] == slice(None, None)):
                    raise Unsupported(f"second index {ast.unparse(e)[:60]}")
                idx = idx[:1]
            if len(idx) != 1:
                raise Unsupported("index arity")
            k = idx[0]
            if isinstance(k, slice):
                return (base[0], list(seq[k]))
            item = seq[self.norm(k, len(seq))]
            return R(item) if base[0] == "v" else item
        if base[0] == "m" and len(idx) == 2 and all(isinstance(k, int) for k in idx):
            return R(base[1][self.norm(idx[0], len(base[1]))][self.norm(idx[1], len(base[1][0]))])
        raise Unsupported(f"subscript {ast.unparse(e)[:60]}")

    def as_vector(self, v):
        if v[0] == "v":
            return list(v[1])
        if v[0] == "l":
            return [to_real(x) for x in v[1]]
        raise Unsupported("vector expected")

    def call(self, e, env):
        f = e.func
        src = ast.unparse(f)
        kw = {k.arg: k.value for k in e.keywords}
        # ---- numpy constructors
        if src in ("np.array", "np.asarray"):
            if len(e.args) != 1 or set(kw) - {"dtype"} or ("dtype" in kw and ast.unparse(kw["dtype"]) != "float"):
                raise Unsupported(f"np.array call {ast.unparse(e)[:60]}")
            v = self.ev(e.args[0], env)
            if v[0] == "l" and len(v[1]) == 1 and isinstance(e.args[0], ast.List) and v[1][0][0] == "r" \
                    and isinstance(e.args[0].elts[0], ast.Name):
                return v[1][0]  # np.array([x]) of the scalar mesh point: the collapsed mesh axis
            if v[0] == "r":
                return v  # a (copy of a) mesh-axis array: one real in the collapsed model
            return ("v", self.as_vector(v))
        if src == "np.zeros":
            if len(e.args) != 1 or set(kw) - {"dtype"} or ("dtype" in kw and ast.unparse(kw["dtype"]) != "float"):
                raise Unsupported(f"np.zeros call {ast.unparse(e)[:60]}")
            shp = self.ev(e.args[0], env)
            if shp[0] != "l" or len(shp[1]) != 2 or shp[1][0][0] != "i":
                raise Unsupported("np.zeros shape")
            n = shp[1][0][1]
            if shp[1][1][0] == "ptaxis":
                return ("v", ["0"] * n)
            if shp[1][1][0] == "i":
                return ("m", [["0"] * shp[1][1][1] for _ in range(n)])
            raise Unsupported("np.zeros shape")
        if src in ("np.ravel", "np.atleast_1d", "np.copy") and len(e.args) == 1 and not kw:
            v = self.ev(e.args[0], env)
            if v[0] in ("r", "v"):
                return v  # reshaping / copying along the collapsed mesh axis
            raise Unsupported(f"{src} of a {v[0]}")
        if isinstance(f, ast.Attribute) and f.attr == "copy" and not e.args and not kw:
            v = self.ev(f.value, env)
            if v[0] == "r":
                return v
            if v[0] == "v":
                return ("v", list(v[1]))
            raise Unsupported(f"copy of a {v[0]}")
        if src == "np.vstack":
            if len(e.args) != 1 or kw:
                raise Unsupported("np.vstack call")
            v = self.ev(e.args[0], env)
            return ("v", self.as_vector(v))
        if e.keywords:
            raise Unsupported(f"keyword arguments in {ast.unparse(e)[:60]}")
        if src == "isinstance" and len(e.args) == 2:
            kinds = ast.unparse(e.args[1])
            if kinds == "Number" or kinds == "(Real, float)":
                return ("b", self.ev(e.args[0], env)[0] in ("r", "i"))
            raise Unsupported(f"isinstance(.., {kinds})")
        args = [self.ev(a, env) for a in e.args]
        if src == "len" and len(args) == 1 and args[0][0] in ("v", "l"):
            return ("i", len(args[0][1]))
        if src == "float" and len(args) == 1 and args[0][0] in ("r", "i"):
            return R(to_real(args[0]))
        if src in ("np.abs", "np.absolute", "np.fabs", "abs") and len(args) == 1 and args[0][0] in ("r", "i"):
            return R(f"(Rabs {to_real(args[0])})")
        if src == "bell" and len(args) == 3:
            if args[0][0] != "i" or args[1][0] != "i" or args[2][0] != "v":
                raise Unsupported("bell arguments")
            return R(f"(bell {args[0][1]} {args[1][1]} [{'; '.join(args[2][1])}])")
        if src == "callable" and len(args) == 1:
            return ("b", args[0][0] == "f")
        # ---- a callable value (coefficient function, transform method, right-hand side)
        if isinstance(f, ast.Name) and f.id in env and env[f.id][0] == "f":
            if len(args) != 1:
                raise Unsupported("callable arity")
            return R(env[f.id][1](to_real(args[0])))
        if isinstance(f, ast.Attribute):
            try:
                fv = self.ev(f, env)
            except Unsupported:
                fv = None
            if fv is not None and fv[0] == "f":
                if len(args) != 1:
                    raise Unsupported("callable arity")
                return R(fv[1](to_real(args[0])))
        # ---- another helper of ode.py
        if isinstance(f, ast.Name) and f.id in self.funcs:
            return self.call_function(f.id, args)
        raise Unsupported(f"call {ast.unparse(e)[:70]}")


# ---------------------------------------------------------------------------------------------------- generation
def app(name):
    return lambda t: f"({name} {t})"


def const(term):
    return lambda t: term


def find_nested(fn: ast.FunctionDef, name: str) -> ast.FunctionDef:
    hits = [n for n in fn.body if isinstance(n, ast.FunctionDef) and n.name == name]
    if len(hits) != 1:
        raise Unsupported(f"{fn.name}: nested function {name} not found")
    return hits[0]


def generate(src: str):
    """-> (coq text, units, guards)."""
    tree = ast.parse(src)
    funcs = {n.name: n for n in tree.body if isinstance(n, ast.FunctionDef)}
    for h in HELPERS + ["solve_ode_ivp", "solve_ode_bvp", "_transform_solution_to_original_domain"]:
        if h not in funcs:
            raise Unsupported(f"{h} not found in ode.py")
    imports = {ast.unparse(n) for n in tree.body if isinstance(n, (ast.Import, ast.ImportFrom))}
    if "from sympy import bell" not in imports:
        raise Unsupported("`bell` is no longer sympy.bell")
    if "from scipy.linalg import solve" not in imports or "from scipy.integrate import solve_bvp, solve_ivp" not in imports:
        raise Unsupported("SciPy oracles (solve, solve_ivp, solve_bvp) are imported differently")
    out = ["From Coq Require Import Reals List.", "From Coquelicot Require Import Coquelicot.", "From P Require Import C15_bell.",
           "Import ListNotations.", "Open Scope R_scope.", "(* generated from src/grid/ode.py on every run; do not edit *)"]
    guards = {}

    def run(name, args):
        it = Interp(funcs)
        v = it.call_function(name, args)
        guards.setdefault(name, set()).update(it.guards)
        return v

    # _evaluate_coeffs_on_points on one constant / one callable coefficient
    v = run("_evaluate_coeffs_on_points", [R("v_x"), ("l", [R("v_c")])])
    if v[0] != "v" or len(v[1]) != 1:
        raise Unsupported("_evaluate_coeffs_on_points: shape")
    out.append(f"Definition coeff_const (v_c v_x : R) : R := {v[1][0]}.")
    v = run("_evaluate_coeffs_on_points", [R("v_x"), ("l", [("f", app("f_c"))])])
    out.append(f"Definition coeff_fun (f_c : R -> R) (v_x : R) : R := {v[1][0]}.")

    dlist = ("l", [("f", const("v_d1")), ("f", const("v_d2")), ("f", const("v_d3"))])
    for K in (1, 2, 3):
        a_names = [f"v_a{k}" for k in range(K + 1)]
        v = run("_transform_ode_from_derivs", [("l", [R(a) for a in a_names]), dlist, R("v_x")])
        if v[0] != "v" or len(v[1]) != K + 1:
            raise Unsupported("_transform_ode_from_derivs: shape of the result")
        for j, t in enumerate(v[1]):
            out.append(f"Definition tode_b{K}_{j} ({' '.join(a_names)} v_d1 v_d2 v_d3 : R) : R :=\n  {t}.")
    for K in (1, 2, 3):
        b = [f"v_b{k}" for k in range(K + 1)]
        y = [f"v_y{k}" for k in range(K)]
        v = run("_rearrange_to_explicit_ode", [("v", list(y)), ("v", list(b)), R("v_fx")])
        out.append(f"Definition explicit_{K} ({' '.join(b)} v_fx {' '.join(y)} : R) : R :=\n  {to_real(v)}.")
    for N in (1, 2, 3):
        v = run("_derivative_transformation_matrix", [dlist, R("v_pt"), ("i", N)])
        if v[0] != "m" or len(v[1]) != N or any(len(r) != N for r in v[1]):
            raise Unsupported("_derivative_transformation_matrix: shape of the result")
        for i in range(N):
            for j in range(N):
                out.append(f"Definition dtm_{N}_{i}_{j} (v_d1 v_d2 v_d3 : R) : R := {v[1][i][j]}.")
    # order 0 (first-order ODE): an empty matrix
    v = run("_derivative_transformation_matrix", [dlist, R("v_pt"), ("i", 0)])
    if v != ("m", []):
        raise Unsupported("_derivative_transformation_matrix(order=0) is not the empty matrix")

    tf = ("tf", {"transform": app("f_transform"), "inverse": app("f_inverse"), "deriv": app("f_deriv"),
                 "deriv2": app("f_deriv2"), "deriv3": app("f_deriv3")})
    for K in (1, 2, 3):
        fa = [f"f_a{k}" for k in range(K + 1)]
        y = [f"v_y{k}" for k in range(K)]
        coeffs = ("l", [("f", app(a)) for a in fa])
        v = run("_transform_and_rearrange_to_explicit_ode", [R("v_x"), ("v", list(y)), coeffs, tf, ("f", app("f_fx"))])
        out.append(f"Definition tre_{K} ({' '.join(fa)} f_deriv f_deriv2 f_deriv3 f_fx : R -> R) (v_x {' '.join(y)} : R) : R :=\n  {to_real(v)}.")
    # right-hand sides handed to SciPy: nested `func` of both solvers, with and without a transform
    for solver, short in (("solve_ode_ivp", "ivp"), ("solve_ode_bvp", "bvp")):
        func = find_nested(funcs[solver], "func")
        if [a.arg for a in func.args.args] != ["x", "y"]:
            raise Unsupported(f"{solver}.func signature")
        for K in (1, 2, 3):
            fa = [f"f_a{k}" for k in range(K + 1)]
            y = [f"v_y{k}" for k in range(K)]
            coeffs = ("l", [("f", app(a)) for a in fa])
            ty = "R" if K == 1 else " * ".join(["R"] * K)
            for tag, tfv, extra in (("T", tf, " f_inverse f_deriv f_deriv2 f_deriv3"), ("D", ("none",), "")):
                it = Interp(funcs)
                env = {"x": R("v_x"), "y": ("v", list(y)), "transform": tfv, "coeffs": coeffs, "fx": ("f", app("f_fx"))}
                try:
                    it.block(func.body, env)
                    raise Unsupported(f"{solver}.func: no return")
                except Return as r:
                    v = r.value
                if v[0] != "v" or len(v[1]) != K:
                    raise Unsupported(f"{solver}.func: result shape")
                if v[1][:-1] != y[1:]:
                    raise Unsupported(f"{solver}.func: the leading rows are not y[1:]")
                body = v[1][0] if K == 1 else "(" + ", ".join(v[1]) + ")"
                out.append(f"Definition {short}_rhs{tag}_{K} ({' '.join(fa)}{extra} f_fx : R -> R) (v_x {' '.join(y)} : R) : {ty} :=\n  {body}.")
    units = []
    for name in HELPERS + ["solve_ode_ivp", "solve_ode_bvp"]:
        fn = funcs[name]
        units.append({"unit": name + (".func" if name.startswith("solve_") else ""), "file": "src/grid/ode.py", "lines": [fn.lineno, fn.end_lineno],
                      "sha": __import__("vlib.core", fromlist=["src_sha"]).src_sha(ast.get_source_segment(src, fn)),
                      "guards": sorted(guards.get(name, []))})
    return "\n".join(out) + "\n", units, funcs


# ---------------------------------------------------------------------------------------------------- wiring pattern check
WIRING = {
    "solve_ode_ivp": [
        "order = len(coeffs) - 1",
        "deriv = _derivative_transformation_matrix([transform.deriv, transform.deriv2, transform.deriv3], x_span[0], order - 1)",
        "x_span = transform.transform(np.array(list(x_span)))",
        "y_derivs = solve(deriv, np.array(y0[1:]))",
        "y0 = np.hstack(([y0[0]], y_derivs))",
        "res = solve_ivp(func, x_span, y0=y0, dense_output=True, vectorized=True, rtol=rtol, atol=atol, method=method)",
        "return _transform_solution_to_original_domain(res, transform, no_derivatives, order)",
        "return res.sol",
    ],
    "solve_ode_bvp": [
        "order = len(coeffs) - 1",
        "bonds = [ya, yb]",
        "conds.append(bonds[i][deriv] - value)",
        "return np.array(conds)",
        "pts_tf = transform.transform(x)",
        "res = solve_bvp(func, bc, pts_tf, y=initial_guess_y, tol=tol, max_nodes=max_nodes)",
        "res = solve_bvp(func, bc, x, y=initial_guess_y, tol=tol, max_nodes=max_nodes)",
        "return _transform_solution_to_original_domain(res, transform, no_derivatives, order)",
        "return res.sol",
    ],
    "_transform_solution_to_original_domain": [
        "transf_pts = tf.transform(pt)",
        "interpolated = result.sol(transf_pts)",
        "deriv_funcs = [tf.deriv, tf.deriv2, tf.deriv3]",
        "new_interpolate[0, :] = interpolated[0, :]",
        "deriv = _derivative_transformation_matrix(deriv_funcs, pt[i], order - 1)",
        "new_interpolate[1:, i] = deriv.dot(interpolated[1:, i])",
        "return interpolate_wrt_original_var",
    ],
}


def wiring_statements(funcs) -> dict[str, list[str]]:
    """statements of the hand-modelled wiring that are missing from the source (normalised with ast.unparse)."""
    missing = {}
    for name, wanted in WIRING.items():
        have = set()
        for n in ast.walk(funcs[name]):
            if isinstance(n, ast.stmt) and not isinstance(n, (ast.FunctionDef, ast.If, ast.For)):
                have.add(ast.unparse(n))
        miss = [w for w in wanted if w not in have]
        if miss:
            missing[name] = miss
    return missing
