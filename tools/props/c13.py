"""C13 - rectilinear grids keep a lexicographic tensor layout with invertible index maps.

gen:   `_HyperRectangleGrid.coordinates_to_index` / `index_to_coordinates` are translated from src/grid/cubic.py
       (props/c13_translate.py: ast, symbolic unrolling for ndim 2 and 3, fail closed) into C13_gen.v.
prove: coq/C13/*.v - index round trips / ranges / strides on the generated functions (every shape); lexicographic
       layout of UniformGrid and Tensor1DGrids points and kron weights through the generated index map (any vector
       type, skewed axes); separable integrands; sum bound of the constant weight schemes (all shapes, 2-D/3-D);
       Fourier1: factorisation into closed-form per-direction factors (all shapes), bound for n_i <= 64 (partial); Fourier2 refuted; from_molecule box arithmetic (partial + refuted);
       closest_point (partial + refuted); for the three repairable clauses (Fourier2 in 2-D, box centre, closest_point) the
       full-strength theorem is an obligation of its own (C13_props_{f2d,boxfull,closestfull}.v) that compiles on repaired code;
       on the pinned commit C13_refuted_*.v explains the failure (ctx.mark_refuted) and the known finding is re-derived; cube data block chunking (partial); nested-spline interpolation reproduces
       tricubic polynomials and derivatives (spline = oracle Section variable); log-variant chain rule, orders 1-3.
tie:   exhaustive index tables for a family of small shapes (vm_compute on the generated functions); exact
       correspondence of points / weights on integer origins, axes, shapes; rational correspondence of the weight
       schemes, the from_molecule box and closest_point; interval correspondence of the Fourier weights.
search: brute-force oracles of the property itself on the implementation (exact integers / rationals).
"""
from __future__ import annotations

import contextlib
import io
import itertools
import math
import types
from fractions import Fraction

import numpy as np

from vlib.core import SRC, Ctx

from . import c13_translate

TOL = Fraction(1, 10**12)


# ----------------------------------------------------------------------------------------------- Coq literals
def zz(n) -> str:
    n = int(n)
    return f"({n})%Z" if n < 0 else f"{n}%Z"


def zt(t) -> str:
    return "(" + ", ".join(zz(v) for v in t) + ")"


def zl(xs) -> str:
    return "[" + "; ".join(zz(v) for v in xs) + "]"


def qq(x) -> str:
    fr = Fraction(x)
    return f"(Qmake ({fr.numerator})%Z {fr.denominator}%positive)"


def qt(t) -> str:
    return "(" + ", ".join(qq(v) for v in t) + ")"


def ql(xs) -> str:
    return "[" + "; ".join(qq(v) for v in xs) + "]"


def rr(x) -> str:
    fr = Fraction(x)
    if fr.denominator == 1:
        return f"(IZR ({fr.numerator}))"
    return f"(IZR ({fr.numerator}) / IZR {fr.denominator})"


HDR_BOOL = ("From Coq Require Import ZArith List Bool QArith Qround Qabs Qminmax.\n"
            "From P Require Import C13_gen C13_model.\nImport ListNotations.\n")
HDR_TAC = ("From Coq Require Import ZArith List Reals Lra.\nFrom Interval Require Import Tactic.\n"
           "From P Require Import C13_gen C13_model.\nImport ListNotations.\nOpen Scope R_scope.\n"
           "Ltac ev := cbv -[IZR sin cos PI Rabs Rdiv Rminus Rplus Rmult Rinv Ropp Rle Rlt pow].\n")


def prod(xs):
    r = 1
    for x in xs:
        r *= int(x)
    return r


def det_int(rows):
    if len(rows) == 2:
        return rows[0][0] * rows[1][1] - rows[0][1] * rows[1][0]
    a, b, c = rows
    return (a[0] * (b[1] * c[2] - b[2] * c[1]) - a[1] * (b[0] * c[2] - b[2] * c[0]) + a[2] * (b[0] * c[1] - b[1] * c[0]))


class Cases:
    """Accumulates boolean Coq cases with a handler that is called when a case evaluates to false."""

    def __init__(self):
        self.exprs, self.handlers = [], []

    def add(self, expr, handler):
        self.exprs.append(expr)
        self.handlers.append(handler)


# ----------------------------------------------------------------------------------------------- stage A: index maps
def index_tables(shape, extra=3):
    """Implementation answers for one shape through the unbound methods (works for shapes with 1-sized axes,
    which no grid constructor accepts)."""
    from grid.cubic import _HyperRectangleGrid as H

    stub = types.SimpleNamespace(ndim=len(shape), shape=tuple(int(s) for s in shape))
    fwd = [int(H.coordinates_to_index(stub, c)) for c in itertools.product(*[range(s) for s in shape])]
    n = prod(shape)
    bwd = [tuple(int(v) for v in H.index_to_coordinates(stub, idx)) for idx in range(n + extra)]
    try:
        neg = tuple(int(v) for v in H.index_to_coordinates(stub, -1))
    except ValueError:
        neg = None
    return fwd, bwd, neg


def stage_index(ctx: Ctx, cs: Cases):
    from grid.cubic import UniformGrid

    shapes3 = [(2, 3, 5), (1, 4, 1), (3, 2, 4), (5, 1, 2), (2, 2, 2), (4, 3, 2), (1, 1, 1), (7, 2, 3), (1, 1, 6), (3, 5, 1)]
    shapes2 = [(2, 3), (5, 4), (1, 6), (3, 1), (4, 4), (7, 2), (1, 1), (2, 9)]
    nrand = 4 if ctx.quick else 150
    for _ in range(nrand):
        shapes3.append(tuple(ctx.rng.randint(1, 6 if ctx.quick else 11) for _ in range(3)))
        shapes2.append(tuple(ctx.rng.randint(1, 12 if ctx.quick else 40) for _ in range(2)))
    for shape in dict.fromkeys(shapes3 + shapes2):
        d = len(shape)
        n = prod(shape)
        key = "index:" + "x".join(map(str, shape))
        try:
            fwd, bwd, neg = index_tables(shape)
        except Exception as e:
            ctx.fail(f"index_roundtrip{d}", key, type(e).__name__, f"index maps raise {type(e).__name__} on shape {shape}: {e}",
                     {"reproduce": f"_HyperRectangleGrid.coordinates_to_index/index_to_coordinates on a grid of shape {shape}"})
            continue
        ctx.case(key, traces=2 * n)
        ctx.count(f"index_shapes_{d}d")
        coords = list(itertools.product(*[range(s) for s in shape]))
        # ---- the property itself on the implementation (brute force)
        bad = None
        for c, idx in zip(coords, fwd):
            if not (0 <= idx < n) or bwd[idx] != c:
                bad = ("coords->index->coords", c, idx, bwd[idx] if 0 <= idx < len(bwd) else None)
                break
        if bad is None:
            for idx in range(n):
                c = bwd[idx]
                if not all(0 <= v < s for v, s in zip(c, shape)) or fwd[coords.index(c)] != idx:
                    bad = ("index->coords->index", idx, c, None)
                    break
        if bad is None and fwd != list(range(n)):
            k = next(i for i, v in enumerate(fwd) if v != i)
            bad = ("lexicographic order (last index fastest)", coords[k], fwd[k], k)
        if bad is None and neg is not None:
            bad = ("negative index accepted", -1, neg, None)
        if bad is not None:
            ctx.fail(f"index_roundtrip{d}", f"{key}:{bad[1]}", str(bad[2:]),
                     f"shape {shape}: {bad[0]} fails at {bad[1]}: got {bad[2]} (then {bad[3]})",
                     {"reproduce": f"g with g.shape={shape}; g.coordinates_to_index / g.index_to_coordinates at {bad[1]}"})
        # ---- real grid objects use the same code path (shapes the constructors accept)
        if all(s > 1 for s in shape):
            g = UniformGrid(np.zeros(d), np.eye(d), np.array(shape), weight="Rectangle")
            f2 = [int(g.coordinates_to_index(c)) for c in coords]
            b2 = [tuple(int(v) for v in g.index_to_coordinates(idx)) for idx in range(n)]
            b3 = [tuple(int(v) for v in g.index_to_coordinates(np.int64(idx))) for idx in range(n)]
            if f2 != fwd or b2 != bwd[:n] or b3 != b2:
                ctx.fail(f"index_roundtrip{d}", f"{key}:object", None,
                         f"UniformGrid of shape {shape}: bound index methods disagree with the class functions / np.int64 input",
                         found_input=False)
        # ---- model (generated functions) against the implementation's tables
        some = "; ".join(f"Some {zt(c)}" for c in bwd)
        expr = f"check_index{d} {' '.join(zz(s) for s in shape)} {zl(fwd)} [{some}]"
        negm = "None" if neg is None else f"Some {zt(neg)}"
        expr += f" && oz{d}eqb (index_to_coordinates{d} {' '.join(zz(s) for s in shape)} (-1)%Z) ({negm})"

        def handler(shape=shape, key=key, d=d, reported=bad is not None):
            if not reported:
                ctx.fail(f"index_roundtrip{d}", key, None,
                         f"generated index maps and the implementation disagree on shape {shape} although the round trips hold there",
                         found_input=False)
        cs.add(expr, handler)
    ctx.sample({"stage": "index", "shape": [2, 3, 5], "fwd_first": index_tables((2, 3, 5))[0][:7], "bwd_7": index_tables((2, 3, 5))[1][7]})


# ----------------------------------------------------------------------------------------------- stage B: layout
def rand_axes(ctx, d, lo=-3, hi=3):
    while True:
        rows = [[ctx.rng.randint(lo, hi) for _ in range(d)] for _ in range(d)]
        if det_int(rows) != 0:
            return rows


def stage_layout(ctx: Ctx, cs: Cases):
    from grid.basegrid import OneDGrid
    from grid.cubic import Tensor1DGrids, UniformGrid

    confs = [((10, 20, 30), [[1, 1, 0], [0, 2, 0], [0, 1, 3]], (2, 3, 5)),
             ((0, 0, 0), [[1, 0, 0], [0, 1, 0], [0, 0, 1]], (3, 2, 4)),
             ((-1, 2, -3), [[0, 0, 2], [3, 0, 0], [0, -1, 0]], (4, 3, 2)),
             ((5, -7), [[2, 1], [-1, 3]], (2, 3)), ((0, 0), [[1, 0], [0, 1]], (5, 4)), ((1, 1), [[0, 2], [3, 1]], (7, 2))]
    for _ in range(6 if ctx.quick else 200):
        d = ctx.rng.choice([2, 3])
        confs.append((tuple(ctx.rng.randint(-9, 9) for _ in range(d)), rand_axes(ctx, d),
                      tuple(ctx.rng.randint(2, 5 if ctx.quick else 8) for _ in range(d))))
    for o, axes, shape in confs:
        d = len(shape)
        n = prod(shape)
        key = f"uniform:{o}:{axes}:{shape}"
        ctx.case(key, traces=n)
        ctx.count(f"uniform_layout_{d}d")
        rep = f"UniformGrid(np.array({list(map(float, o))}), np.array({axes}, float), np.array({list(shape)}))"
        try:
            g = UniformGrid(np.array(o, float), np.array(axes, float), np.array(shape), weight="Rectangle")
            pts = np.asarray(g.points)
        except Exception as e:
            ctx.fail(f"layout{d}", key, type(e).__name__, f"{rep} raises {type(e).__name__}: {e}", {"reproduce": rep})
            continue
        bad = None
        if pts.shape != (n, d) or not np.array_equal(pts, np.rint(pts)):
            bad = ("points are not the expected integer array", None, list(pts.shape))
        else:
            ip = pts.astype(int)
            for c in itertools.product(*[range(s) for s in shape]):
                idx = int(g.coordinates_to_index(c))
                want = tuple(o[m] + sum(c[a] * axes[a][m] for a in range(d)) for m in range(d))
                if not (0 <= idx < n) or tuple(ip[idx]) != want:
                    bad = ("point at coordinates", c, [idx, list(map(int, ip[idx])) if 0 <= idx < n else None, list(want)])
                    break
            if bad is None:  # last index fastest: consecutive rows differ by the last axis inside a row
                for idx in range(n - 1):
                    if (idx + 1) % shape[-1] and tuple(ip[idx + 1] - ip[idx]) != tuple(axes[-1]):
                        bad = ("last index is not the fastest at flat index", idx, [list(map(int, ip[idx])), list(map(int, ip[idx + 1]))])
                        break
        if bad is not None:
            ctx.fail(f"layout{d}", f"{key}:{bad[1]}", str(bad[2]), f"{rep}: {bad[0]} {bad[1]}: {bad[2]}", {"reproduce": rep + ".points"})
            continue
        implpts = "[" + "; ".join(zt(r) for r in ip.tolist()) + "]"
        vecs = " ".join(zt(v) for v in [o] + axes)
        expr = (f"list_eqb z{d}eqb (uniform_points{d} zadd{d} zsmul{d} {vecs} {' '.join(str(s) + '%nat' for s in shape)}) {implpts}")

        def handler(key=key, rep=rep, d=d):
            ctx.fail(f"layout{d}", key, None, f"{rep}: points differ from the lexicographic model although every point is at its index", found_input=False)
        cs.add(expr, handler)
        if len(ctx.samples) < 3:
            ctx.sample({"stage": "layout", "origin": o, "axes": axes, "shape": shape, "points[7]": ip[7].tolist() if n > 7 else None})

    # ---- Tensor1DGrids: integer nodes and (distinct, coprime) integer weights
    primes = [2, 3, 5, 7, 11, 13, 17, 19, 23, 29, 31, 37, 41, 43, 47, 53, 59, 61, 67, 71, 73, 79]
    tconfs = [(2, 3, 5), (3, 2, 4), (4, 3, 2), (2, 3), (5, 4), (7, 2)]
    for _ in range(4 if ctx.quick else 150):
        d = ctx.rng.choice([2, 3])
        tconfs.append(tuple(ctx.rng.randint(2, 5 if ctx.quick else 7) for _ in range(d)))
    for shape in tconfs:
        d = len(shape)
        n = prod(shape)
        pool = ctx.rng.sample(primes, sum(shape))
        nodes, wts = [], []
        for s in shape:
            nodes.append(sorted(ctx.rng.sample(range(-20, 21), s)))
            wts.append([pool.pop() for _ in range(s)])
        key = f"tensor:{nodes}:{wts}"
        ctx.case(key, traces=n)
        ctx.count(f"tensor_layout_{d}d")
        rep = "Tensor1DGrids(" + ", ".join(f"OneDGrid(np.array({list(map(float, x))}), np.array({list(map(float, w))}))" for x, w in zip(nodes, wts)) + ")"
        try:
            g = Tensor1DGrids(*[OneDGrid(np.array(x, float), np.array(w, float)) for x, w in zip(nodes, wts)])
            ip, iw = np.asarray(g.points), np.asarray(g.weights)
        except Exception as e:
            ctx.fail(f"tensor_layout{d}", key, type(e).__name__, f"{rep} raises {type(e).__name__}: {e}", {"reproduce": rep})
            continue
        bad = None
        if ip.shape != (n, d) or iw.shape != (n,) or tuple(g.shape) != tuple(shape):
            bad = ("array shapes", None, [list(ip.shape), list(iw.shape)])
        else:
            for c in itertools.product(*[range(s) for s in shape]):
                idx = int(g.coordinates_to_index(c))
                wantp = tuple(float(nodes[a][c[a]]) for a in range(d))
                wantw = float(prod(wts[a][c[a]] for a in range(d)))
                if not (0 <= idx < n) or tuple(ip[idx]) != wantp or iw[idx] != wantw:
                    bad = ("point/weight at coordinates", c, [idx, ip[idx].tolist() if 0 <= idx < n else None, float(iw[idx]) if 0 <= idx < n else None, wantp, wantw])
                    break
            if bad is None:
                axes_pts = g.get_points_along_axes()
                if any(list(map(float, a)) != list(map(float, b)) for a, b in zip(axes_pts, nodes)):
                    bad = ("get_points_along_axes", None, [list(map(float, a)) for a in axes_pts])
            if bad is None:  # separable integrand: exact in integers
                polys = [lambda t: t * t - 3 * t + 1, lambda t: 2 * t + 5, lambda t: t * t * t - t][:d]
                vals = np.prod([polys[a](ip[:, a]) for a in range(d)], axis=0)
                got = float(g.integrate(vals))
                want = prod(sum(w * polys[a](x) for x, w in zip(nodes[a], wts[a])) for a in range(d))
                if got != float(want):
                    bad = ("separable integrand", None, [got, want])
        if bad is not None:
            ctx.fail(f"tensor_layout{d}" if bad[0] != "separable integrand" else f"tensor_separable{d}", f"{key}:{bad[1]}", str(bad[2]),
                     f"{rep}: {bad[0]} {bad[1]}: {bad[2]}", {"reproduce": rep})
            continue
        implp = "[" + "; ".join(zt(r) for r in ip.astype(int).tolist()) + "]"
        expr = (f"list_eqb z{d}eqb (tensor_points{d} {' '.join(zl(x) for x in nodes)}) {implp} && "
                f"list_eqb Z.eqb (tensor_weights{d} Z.mul {' '.join(zl(w) for w in wts)}) {zl(iw.astype(int).tolist())}")

        def handler(key=key, rep=rep, d=d):
            ctx.fail(f"tensor_layout{d}", key, None, f"{rep}: points/weights differ from the meshgrid/kron model", found_input=False)
        cs.add(expr, handler)


# ----------------------------------------------------------------------------------------------- stage C: weights
SCHEMES = ["Rectangle", "Trapezoid", "Alternative", "Fourier1", "Fourier2"]
F2_SUM_KEY = "fourier2:sum:shape=(4,4,4):axes=identity"
F2_2D_KEY = "fourier2:2d:shape=(4,4)"


def stage_weights(ctx: Ctx, cs: Cases, tac: list):
    from grid.cubic import UniformGrid

    confs = [([[1, 0, 0], [0, 1, 0], [0, 0, 1]], (4, 4, 4)), ([[1, 1, 0], [0, 2, 0], [0, 1, 3]], (2, 3, 5)),
             ([[2, 0, 0], [0, 1, 0], [0, 0, 3]], (3, 2, 4)), ([[1, 0], [0, 1]], (4, 4)), ([[2, 1], [-1, 3]], (2, 3)),
             ([[1, 0, 0], [0, 1, 0], [0, 0, 1]], (30, 40, 50)), ([[1, 2, 0], [0, 1, 0], [1, 0, 1]], (17, 9, 23)),
             ([[1, 0], [0, 1]], (25, 60)), ([[3, 1], [1, 2]], (31, 8))]
    for _ in range(4 if ctx.quick else 120):
        d = ctx.rng.choice([2, 3])
        confs.append((rand_axes(ctx, d), tuple(ctx.rng.randint(2, 9 if ctx.quick else 30) for _ in range(d))))
    fourier_small = 0
    for axes, shape in confs:
        d = len(shape)
        n = prod(shape)
        vol = abs(Fraction(det_int(axes)) * n)
        bound = sum(Fraction(1, s) for s in shape)
        for scheme in SCHEMES:
            if scheme in ("Fourier1", "Fourier2") and n > 4000:
                continue
            key = f"weights:{scheme}:{axes}:{shape}"
            ctx.case(key, traces=n)
            ctx.count(f"weights_{scheme}_{d}d")
            rep = f"UniformGrid(np.zeros({d}), np.array({axes}, float), np.array({list(shape)}), weight='{scheme}')"
            try:
                w = np.asarray(UniformGrid(np.zeros(d), np.array(axes, float), np.array(shape), weight=scheme).weights)
                err = None
            except Exception as e:
                w, err = None, type(e).__name__
            if scheme == "Fourier2":
                # known-refuted clause (weights sum to ~0): the sum bound is not demanded again, the model is tied only
                if d == 2 and not VARIANT["fourier2_2d_ok"]:
                    if err != "IndexError":
                        ctx.fail("fourier2_2d_constructs", key, err, f"{rep}: the directed witness (4x4) says 2-D Fourier2 raises IndexError, here the implementation gives {err or 'a grid'}", found_input=False)
                    continue
                if err is not None:
                    ctx.fail("fourier2_2d_constructs" if d == 2 else "fourier2_refuted", key, err, f"{rep}: documented scheme cannot be constructed ({err})", {"reproduce": rep})
                    continue
            elif err is not None:
                ctx.fail(f"weights_sum_bound{d}", key, err, f"{rep}: documented scheme cannot be constructed ({err})", {"reproduce": rep})
                continue
            if w.shape != (n,):
                ctx.fail(f"weights_length", key, list(w.shape), f"{rep}: weights have shape {w.shape}, expected ({n},)", {"reproduce": rep + ".weights"})
                continue
            ratio = sum(Fraction(float(x)) for x in w) / vol - 1
            if scheme != "Fourier2" and abs(ratio) > bound + TOL:
                ctx.fail(f"weights_sum_bound{d}" if scheme != "Fourier1" else f"fourier1_sum_bound{d}_partial", key, float(ratio),
                         f"{rep}: sum(weights)/volume - 1 = {float(ratio):.6g}, bound sum 1/n_i = {float(bound):.6g}",
                         {"reproduce": rep + ".weights.sum()", "volume": float(vol)})
                continue
            qaxes = " ".join(qt(r) for r in axes)
            zshape = " ".join(zz(s) for s in shape)
            if scheme in ("Rectangle", "Trapezoid", "Alternative"):
                wmin, wmax = Fraction(float(w.min())), Fraction(float(w.max()))
                model = f"const_weight QOps {scheme} (volume{d} QOps {qaxes} {zshape}) {zl(shape)}"
                expr = f"Qclose {qq(TOL)} ({model}) {qq(wmin)} && Qclose {qq(TOL)} ({model}) {qq(wmax)}"
                if n <= 200:
                    expr += f" && (length (weights{d} QOps {scheme} {qaxes} {zshape}) =? {n})%nat"

                def handler(key=key, rep=rep, d=d):
                    ctx.fail(f"weights_sum_bound{d}", key, None, f"{rep}: weights differ from the model (the sum bound still holds here)", found_input=False)
                cs.add(expr, handler)
            elif n <= 64 and fourier_small < (6 if ctx.quick else 40):
                # interval correspondence, weight by weight
                fourier_small += scheme == "Fourier2" or d == 2
                fn = "fourier1_weights" if scheme == "Fourier1" else "fourier2_weights"
                for idx in range(n):
                    wi = Fraction(float(w[idx]))
                    goal = f"Rabs (nth {idx} ({fn}{d} {rr(vol)} {zshape}) 0 - {rr(wi)}) <= {rr(max(1, abs(wi)) / 10**11)}"
                    tac.append((goal, "ev; interval", (key, rep, idx, scheme, d)))
    # ---- the two Fourier2 findings, on their canonical inputs
    rep = "UniformGrid(np.zeros(3), np.eye(3), np.array([4, 4, 4]), weight='Fourier2')"
    try:
        w = np.asarray(UniformGrid(np.zeros(3), np.eye(3), np.array([4, 4, 4]), weight="Fourier2").weights)
        ratio = float(sum(Fraction(float(x)) for x in w) / 64 - 1)
        if abs(ratio) > 0.75 + 1e-12:
            ctx.fail("fourier2_refuted", F2_SUM_KEY, round(ratio, 9),
                     f"{rep}: sum(weights)/volume - 1 = {ratio:.6g} (weights sum to {float(w.sum()):.3g}, volume 64), bound 0.75",
                     {"reproduce": rep + ".weights.sum()"})
    except Exception as e:
        ctx.fail("fourier2_refuted", F2_SUM_KEY, type(e).__name__, f"{rep} raises {type(e).__name__}", {"reproduce": rep})
    rep = "UniformGrid(np.zeros(2), np.eye(2), np.array([4, 4]), weight='Fourier2')"
    try:
        UniformGrid(np.zeros(2), np.eye(2), np.array([4, 4]), weight="Fourier2")
    except Exception as e:
        ctx.fail("fourier2_2d_constructs", F2_2D_KEY, type(e).__name__,
                 f"{rep}: documented scheme cannot be constructed in two dimensions ({type(e).__name__}: {e})", {"reproduce": rep})


# ----------------------------------------------------------------------------------------------- stage D: from_molecule
BOX_KEY = "from_molecule:atcorenums=[1,80]:atcoords=[[0,0,0],[10,0,0]]:spacing=0.2:extension=5.0:rotate=False"
BOXROT_KEY = "from_molecule:atcorenums=[8,8,1,1]:atcoords=[[1,2,3],[-1,-2,-3],[2,-1,.5],[-2,1,-.5]]:spacing=0.25:extension=2.0:rotate=True"


def box_margins(g, coords):
    """Exact margins (per nucleus, per direction) of an axis-aligned grid: (lo, hi)."""
    o = [Fraction(float(v)) for v in g.origin]
    s = [Fraction(float(g.axes[c, c])) for c in range(3)]
    out = []
    for xyz in coords:
        for c in range(3):
            x = Fraction(float(xyz[c]))
            out.append((x - o[c], o[c] + (int(g.shape[c]) - 1) * s[c] - x, c))
    return out


def stage_box(ctx: Ctx, cs: Cases):
    from grid.cubic import UniformGrid

    def build(nums, coords, spacing, ext, rotate=False):
        return UniformGrid.from_molecule(np.array(nums, float), np.array(coords, float), spacing=spacing, extension=ext, rotate=rotate, weight="Rectangle")

    mols = [([1, 80], [[0, 0, 0], [10, 0, 0]], 0.25, 5.0), ([8, 8], [[-1, 0, 0], [1, 0, 0]], 0.5, 2.0),
            ([6, 6, 6, 6], [[1, 1, 0], [-1, 1, 0], [1, -1, 0], [-1, -1, 0]], 0.25, 1.0), ([1, 80], [[0, 0, 0], [10, 0, 0]], 0.2, 5.0)]
    for _ in range(25 if ctx.quick else 1500):
        na = ctx.rng.randint(1, 5)
        sym = ctx.rng.random() < 0.4
        if sym:  # inversion-symmetric molecule with equal charges on partners: centre of charge = middle of the extent
            half = [[ctx.rng.randint(-24, 24) / 8 for _ in range(3)] for _ in range(na)]
            zs = [ctx.rng.randint(1, 20) for _ in range(na)]
            coords = half + [[-v for v in r] for r in half]
            nums = zs + zs
        else:
            coords = [[ctx.rng.randint(-24, 24) / 8 for _ in range(3)] for _ in range(na)]
            nums = [ctx.rng.randint(1, 20) for _ in range(na)]
        spacing, ext = ctx.rng.choice([0.125, 0.25, 0.5, 1.0]), ctx.rng.choice([0.0, 0.5, 1.0, 2.25, 5.0])
        if any(max(r[c] for r in coords) - min(r[c] for r in coords) + 2 * ext < 2 * spacing for c in range(3)):
            ext = 2.25  # degenerate box (fewer than two planes in some direction): no grid can be constructed at all
        mols.append((nums, coords, spacing, ext))
    for nums, coords, spacing, ext in mols:
        key = f"box:{nums}:{coords}:{spacing}:{ext}"
        ctx.case(key)
        ctx.count("from_molecule_norotate")
        rep = f"UniformGrid.from_molecule(np.array({nums}, float), np.array({coords}, float), spacing={spacing}, extension={ext}, rotate=False)"
        try:
            g = build(nums, coords, spacing, ext)
        except Exception as e:
            ctx.fail("box_margin_partial", key, type(e).__name__, f"{rep} raises {type(e).__name__}: {e}", {"reproduce": rep})
            continue
        if not np.array_equal(np.asarray(g.axes), np.diag([spacing] * 3)):
            ctx.fail("box_margin_partial", key, np.asarray(g.axes).tolist(), f"{rep}: axes are not diag(spacing)", {"reproduce": rep + ".axes"})
            continue
        # ---- the strongest compiled theorem, checked exactly on the implementation: box_contains_nuclei (margins >= ext - spacing
        #      for every molecule) when it is proved of the generated box arithmetic, box_margin_partial otherwise
        fz = [Fraction(z) for z in nums]
        s, e = Fraction(spacing), Fraction(ext)
        bad = None
        for c in range(3):
            xs = [Fraction(r[c]) for r in coords]
            com = sum(z * x for z, x in zip(fz, xs)) / sum(fz)
            off = Fraction(0) if VARIANT["box_full"] else abs(com - (max(xs) + min(xs)) / 2)
            for lo, hi, cc in box_margins(g, coords):
                if cc == c and (lo < e - off - TOL * 100 or hi < e - s - off - TOL * 100):
                    bad = (c, float(lo), float(hi), float(e - off), float(e - s - off))
        if bad is not None:
            ctx.fail("box_contains_nuclei" if VARIANT["box_full"] else "box_margin_partial", key, list(bad[1:3]),
                     f"{rep}: direction {bad[0]} margins (lo,hi)=({bad[1]:.6g},{bad[2]:.6g}) below the guaranteed ({bad[3]:.6g},{bad[4]:.6g})",
                     {"reproduce": rep + ".points"})
            continue
        # ---- model
        parts = []
        for c in range(3):
            xs = ql([r[c] for r in coords])
            parts.append(f"(shape_axis QOps {ql(nums)} {xs} {qq(spacing)} {qq(ext)} =? {zz(int(g.shape[c]))})%Z")
            parts.append(f"Qclose {qq(TOL)} (origin_axis QOps {ql(nums)} {xs} {qq(spacing)} {qq(ext)}) {qq(float(g.origin[c]))}")

        def handler(key=key, rep=rep):
            ctx.fail("box_margin_partial", key, None, f"{rep}: origin/shape differ from the model (margins still as guaranteed)", found_input=False)
        cs.add(" && ".join(parts), handler)
    ctx.sample({"stage": "from_molecule", "input": mols[0][:2], "spacing": mols[0][2], "extension": mols[0][3],
                "origin": np.asarray(build(*mols[0]).origin).tolist(), "shape": np.asarray(build(*mols[0]).shape).tolist()})
    # ---- the finding on its canonical input (default spacing and extension)
    rep = "UniformGrid.from_molecule(np.array([1, 80]), np.array([[0., 0, 0], [10, 0, 0]]), rotate=False)"
    g = UniformGrid.from_molecule(np.array([1, 80]), np.array([[0.0, 0, 0], [10, 0, 0]]), rotate=False)
    worst = min(min(lo, hi) for lo, hi, _ in box_margins(g, [[0.0, 0, 0], [10.0, 0, 0]]))
    if worst < Fraction(48, 10) - TOL * 100:
        g2 = UniformGrid.from_molecule(np.array([1, 80]), np.array([[0.0, 0, 0], [10, 0, 0]]), extension=2.0, rotate=False)
        ctx.fail("box_contains_nuclei", BOX_KEY + (":although-proved-of-the-model" if VARIANT["box_full"] else ""), round(float(worst), 9),
                 f"{rep}: the hydrogen at x=0 is only {float(worst):.4f} inside the first grid plane (extension 5.0 - spacing 0.2 = 4.8 promised); "
                 f"with extension=2.0 the grid starts at x={float(g2.origin[0]):.4f}, i.e. the nucleus is outside the box",
                 {"reproduce": rep + ".origin", "origin": np.asarray(g.origin).tolist(), "shape": np.asarray(g.shape).tolist()})
    # ---- rotate=True (eigenvector frame is an oracle): orthogonal axes of length `spacing`, guaranteed margins in the grid's frame
    for _ in range(10 if ctx.quick else 300):
        na = ctx.rng.randint(2, 5)
        coords = np.array([[ctx.rng.randint(-24, 24) / 8 for _ in range(3)] for _ in range(na)])
        nums = np.array([float(ctx.rng.randint(1, 20)) for _ in range(na)])
        spacing, ext = ctx.rng.choice([0.25, 0.5]), ctx.rng.choice([1.0, 2.5])
        key = f"boxrot:{nums.tolist()}:{coords.tolist()}:{spacing}:{ext}"
        ctx.case(key)
        ctx.count("from_molecule_rotate")
        rep = f"UniformGrid.from_molecule(np.array({nums.tolist()}), np.array({coords.tolist()}), spacing={spacing}, extension={ext}, rotate=True)"
        try:
            g = UniformGrid.from_molecule(nums, coords, spacing=spacing, extension=ext, rotate=True, weight="Rectangle")
        except Exception as e:
            ctx.fail("box_margin_partial", key, type(e).__name__, f"{rep} raises {type(e).__name__}: {e}", {"reproduce": rep})
            continue
        ax = np.asarray(g.axes)
        if not np.allclose(ax @ ax.T, spacing**2 * np.eye(3), atol=1e-9):
            ctx.fail("box_margin_partial", key, (ax @ ax.T).tolist(), f"{rep}: axes are not orthogonal with length spacing", {"reproduce": rep + ".axes"})
            continue
        # the box is centred on the centre of nuclear charge (that much holds by construction in any frame)
        com = nums @ coords / nums.sum()
        centre = np.asarray(g.origin) + 0.5 * np.asarray(g.shape) @ ax
        if not np.allclose(centre, com, atol=1e-9):
            ctx.fail("box_margin_partial", key, centre.tolist(), f"{rep}: the box is not centred on the centre of nuclear charge {com.tolist()}", {"reproduce": rep + ".origin"})
    # ---- rotate=True finding on its canonical input: the extents are measured along the eigenvectors (columns of v) but the
    #      grid axes are the ROWS of v, so even an inversion-symmetric molecule (centre of charge = middle) is not enclosed
    nums = np.array([8.0, 8.0, 1.0, 1.0])
    coords = np.array([[1.0, 2.0, 3.0], [-1.0, -2.0, -3.0], [2.0, -1.0, 0.5], [-2.0, 1.0, -0.5]])
    rep = ("UniformGrid.from_molecule(np.array([8., 8., 1., 1.]), np.array([[1., 2, 3], [-1, -2, -3], [2, -1, .5], [-2, 1, -.5]]), "
           "spacing=0.25, extension=2.0, rotate=True)")
    g = UniformGrid.from_molecule(nums, coords, spacing=0.25, extension=2.0, rotate=True)
    ax = np.asarray(g.axes)
    t = (coords - np.asarray(g.origin)) @ np.linalg.inv(ax)  # fractional grid coordinates of the nuclei
    worst = float(min(t.min(), (np.asarray(g.shape) - 1 - t).min()) * 0.25)
    if worst < 1.75 - 1e-9:
        ctx.fail("box_contains_nuclei_rotated", BOXROT_KEY, round(worst, 6),
                 f"{rep}: an inversion-symmetric molecule; in the grid's own (orthogonal) frame a nucleus lies {-worst:.4f} OUTSIDE the box "
                 "(margin extension - spacing = 1.75 promised): box extents are measured along the columns of the eigenvector matrix, "
                 "the grid axes are its rows",
                 {"reproduce": rep + ".points", "axes": ax.tolist(), "shape": np.asarray(g.shape).tolist()})


# ----------------------------------------------------------------------------------------------- stage E: closest_point
CLOSE_NEG_KEY = "closest_point:origin=0:axes=diag(-1,1,1):shape=(3,3,3):point=(-1,0,0)"
CLOSE_OUT_KEY = "closest_point:origin=0:axes=identity:shape=(3,4,5):point=(0,0,7)"


def true_nearest(o, diag, shape, p):
    """All flat indices (row-major) of nodes at minimal exact distance from p."""
    best, arg = None, []
    for c in itertools.product(*[range(s) for s in shape]):
        d2 = sum((Fraction(p[a]) - (Fraction(o[a]) + c[a] * Fraction(diag[a]))) ** 2 for a in range(len(shape)))
        idx = 0
        for a in range(len(shape)):
            idx = idx * shape[a] + c[a]
        if best is None or d2 < best:
            best, arg = d2, [idx]
        elif d2 == best:
            arg.append(idx)
    return arg, best


def stage_closest(ctx: Ctx, cs: Cases):
    from grid.cubic import UniformGrid

    full = VARIANT["closest_full"]
    grids = [((0, 0, 0), (1, 1, 1), (3, 4, 5)), ((-1, 0.5, 2), (0.25, 0.5, 2), (4, 3, 2)), ((0, 0), (1, 1), (5, 4)), ((1.5, -2), (0.125, 3), (7, 2))]
    if full:  # proved for axes of either sign
        grids += [((0, 0, 0), (-1, 1, 1), (3, 3, 3)), ((1, -1), (0.5, -0.25), (4, 5))]
    for _ in range(3 if ctx.quick else 100):
        d = ctx.rng.choice([2, 3])
        grids.append((tuple(ctx.rng.randint(-16, 16) / 8 for _ in range(d)),
                      tuple(ctx.rng.choice([0.125, 0.25, 0.5, 1, 2, 3]) * (ctx.rng.choice([1, -1]) if full else 1) for _ in range(d)),
                      tuple(ctx.rng.randint(2, 5) for _ in range(d))))
    types_seen = set()
    for o, diag, shape in grids:
        d = len(shape)
        g = UniformGrid(np.array(o, float), np.diag(np.array(diag, float)), np.array(shape), weight="Rectangle")
        pbuf = np.zeros(d)
        for q in range(12 if ctx.quick else 60):
            # inside the box extended by (almost) half a spacing (anywhere up to three spacings outside when the full theorem
            # is proved of the generated code); every fourth query exactly on a tie or on a node
            t = []
            for a in range(d):
                if q % 4 == 0:
                    t.append(Fraction(ctx.rng.randint(0, 2 * (shape[a] - 1)), 2))
                elif full and q % 4 == 1:
                    t.append(Fraction(ctx.rng.randint(-48, 16 * shape[a] + 32), 16))
                else:
                    t.append(Fraction(ctx.rng.randint(-7, 16 * shape[a] - 9), 16))
            p = [float(Fraction(o[a]) + t[a] * Fraction(diag[a])) for a in range(d)]
            if full and q % 6 == 5:
                # "any query point" includes points astronomically far from the box: a fractional coordinate beyond the int32 / exactly
                # representable / int64 ranges, up to the largest doubles (the nearest node is then the end of that axis; judged exactly)
                far_axes = ctx.rng.sample(range(d), ctx.rng.randint(1, d))
                for a in far_axes:
                    steps = ctx.rng.choice([2.0**31 + 0.5, 2.0**32, 2.0**53, 2.0**62, 2.0**63, 2.0**64, 1e19, 1e30, 1e100, 1e300])
                    v = ctx.rng.choice([-1, 1]) * steps * abs(diag[a])
                    p[a] = float(v) if abs(v) < 1e308 else ctx.rng.choice([-1, 1]) * 1.7e308
            key = f"closest:{o}:{diag}:{shape}:{p}"
            ctx.case(key)
            ctx.count(f"closest_point_{d}d")
            rep = f"UniformGrid(np.array({list(map(float, o))}), np.diag({list(map(float, diag))}), np.array({list(shape)})).closest_point(np.array({p}))"
            try:
                pbuf[:] = p  # one query buffer per grid, refilled in place: the answer may depend on its current content only
                r = g.closest_point(pbuf, "closest")
            except Exception as e:
                ctx.fail(f"closest_is_nearest{d}_partial", key, type(e).__name__, f"{rep} raises {type(e).__name__}: {e}", {"reproduce": rep})
                continue
            types_seen.add(type(r).__name__)
            if all(float(x).is_integer() and abs(x) < 2**53 for x in p):  # the same point as an integer array
                try:
                    r_int = g.closest_point(np.array(p, dtype=np.int64), "closest")
                except Exception as e:
                    r_int = type(e).__name__
                if r_int != r:
                    ctx.fail("closest_is_nearest" if full else f"closest_is_nearest{d}_partial", key + ":int64-array", str(r_int),
                             f"{rep}: the same query point given as an int64 array gives {r_int!r} instead of {r!r}", {"reproduce": rep.replace("np.array(", "np.array(", 1)})
                    continue
            arg, _ = true_nearest(o, diag, shape, p)
            if float(r) != int(r) or int(r) not in arg:
                ctx.fail("closest_is_nearest" if full else f"closest_is_nearest{d}_partial", key, float(r), f"{rep} = {r!r}; the nearest node(s) have flat index {arg}", {"reproduce": rep})
                continue
            qo, qp = qt(o), qt(p)
            tupl = "fun r => let '(_, idx) := r in (idx =? " + zz(int(r)) + ")%Z"
            expr = f"({tupl}) (closest{d} QOps {qo} {' '.join(qq(v) for v in diag)} {' '.join(zz(s) for s in shape)} {qp})"

            def handler(key=key, rep=rep, d=d):
                ctx.fail(f"closest_is_nearest{d}_partial", key, None, f"{rep}: differs from the rint model (a nearest node is still returned)", found_input=False)
            cs.add(expr, handler)
    ctx.notes.append(f"closest_point returns the flat index as {sorted(types_seen)}; it is compared by VALUE (a float index that identifies the nearest "
                     "node satisfies the property text; recorded as an observation, not as a violation)")
    # ---- the two findings on their canonical inputs (tied to the model's refutation as well)
    for key, axes, shape, p, want in [(CLOSE_NEG_KEY, (-1.0, 1.0, 1.0), (3, 3, 3), (-1.0, 0.0, 0.0), 9), (CLOSE_OUT_KEY, (1.0, 1.0, 1.0), (3, 4, 5), (0.0, 0.0, 7.0), 4)]:
        rep = f"UniformGrid(np.zeros(3), np.diag({list(axes)}), np.array({list(shape)})).closest_point(np.array({list(p)}))"
        g = UniformGrid(np.zeros(3), np.diag(axes), np.array(shape), weight="Rectangle")
        try:
            r = float(g.closest_point(np.array(p)))
        except Exception as e:
            ctx.fail("closest_is_nearest", key, type(e).__name__, f"{rep} raises {type(e).__name__}", {"reproduce": rep})
            continue
        d2 = ((np.asarray(g.points) - np.array(p)) ** 2).sum(axis=1)
        nearest = [int(i) for i in np.flatnonzero(d2 == d2.min())]
        assert nearest == [want]
        if r != int(r) or int(r) not in nearest:
            ctx.fail("closest_is_nearest", key + (":although-proved-of-the-model" if full else ""), r,
                     f"{rep} = {r}: the nearest node is index {want} at distance {math.sqrt(d2.min()):.4g}"
                     + (f"; index {int(r)} is a node at distance {math.sqrt(d2[int(r)]):.4g}" if 0 <= r < len(d2) else "; the returned index is negative"),
                     {"reproduce": rep})
        expr = (f"(fun r => let '(_, idx) := r in (idx =? {zz(int(r))})%Z) (closest3 QOps (0, 0, 0)%Q {' '.join(qq(v) for v in axes)} "
                f"{' '.join(zz(s) for s in shape)} {qt(p)})")

        def handler(key=key, rep=rep):
            ctx.fail("closest_is_nearest", key + ":model", None, f"{rep}: the implementation does not behave like the coordinate computation generated from its source", found_input=False)
        cs.add(expr, handler)


# ----------------------------------------------------------------------------------------------- stage F: cube files (sweep)
CUBE_SPECIAL_DATA = [-4.41561e-178, 4.41561e-178, 9.999996e99, -9.999996e99, 9.999996e-100, -9.999996e-100, 1e-320, -1e-320, 5e-324, -5e-324,
                     0.0, -0.0, 1.7976931348623157e308, -1.7976931348623157e308, 2.2250738585072014e-308, -1e-300, 1e300, -9.9999949e-10, 9.9999951e9,
                     -1e100, 1e-100, -123456.5, 1.0]


def cube_value(ctx, extreme):
    if not extreme:
        return ctx.rng.choice([-1, 1]) * ctx.rng.random() * 10.0 ** ctx.rng.randint(-8, 8)
    if ctx.rng.random() < 0.25:
        return ctx.rng.choice(CUBE_SPECIAL_DATA)
    return ctx.rng.choice([-1, 1]) * ctx.rng.uniform(1.0, 10.0) * 10.0 ** ctx.rng.randint(-300, 300)


def cube_length(ctx, extreme):
    """A coordinate / axis entry: ordinary, or (extreme) anything between 1e-7 and 99999.999999 of either sign."""
    if not extreme:
        return ctx.rng.randint(-6400, 6400) / 1024
    return ctx.rng.choice([-1, 1]) * ctx.rng.choice([1e-7, 0.999999, 12.5, 999.9999995, 1000.0, 1234.567891, 99999.0, 99999.999999, ctx.rng.uniform(0, 99999)])


def cube_close(got, want, scale):
    got, want = np.asarray(got, float), np.asarray(want, float)
    return got.shape == want.shape and bool(np.all(np.abs(got - want * scale) <= 0.5000001e-6 * scale + 1e-14 * np.abs(want * scale)))


def cube_data_close(got, want):
    got, want = np.asarray(got, float), np.asarray(want, float)
    # six significant digits; one unit in the last place of a denormal on top
    return got.shape == want.shape and bool(np.all(np.abs(got - want) <= 0.5000001e-5 * np.abs(want) + 5e-324))


def cube_tokens_ok(lines, natom, o, axes, shape, atnums, pseudo, atcoords, data):
    """Independent reading of the written text: whitespace-separated tokens, header / atoms / rows of at most six values,
    every number equal to the written one to the printed precision.  Returns None or a description of the first defect."""
    n = len(data)
    if len(lines) != 6 + natom + math.ceil(n / 6):
        return f"{len(lines)} lines instead of {6 + natom + math.ceil(n / 6)}"
    try:
        head = [ln.split() for ln in lines[2:6 + natom]]
        want_head = [[natom] + list(o)] + [[shape[c]] + list(axes[c]) for c in range(3)] + [[atnums[a], pseudo[a]] + list(atcoords[a]) for a in range(natom)]
        for k, (t, w) in enumerate(zip(head, want_head)):
            if len(t) != len(w):
                return f"line {3 + k} has {len(t)} fields instead of {len(w)}: {lines[2 + k]!r}"
            if int(t[0]) != int(w[0]) or not cube_close([float(x) for x in t[1:]], w[1:], 1.0):
                return f"line {3 + k} does not carry {w}: {lines[2 + k]!r}"
        toks = [ln.split() for ln in lines[6 + natom:]]
        if not (all(1 <= len(t) <= 6 for t in toks) and all(len(t) == 6 for t in toks[:-1]) and sum(len(t) for t in toks) == n):
            k = next((j for j, t in enumerate(toks) if len(t) != min(6, n - 6 * j)), 0)
            return f"data row {k + 1} has {len(toks[k])} values instead of {min(6, n - 6 * k)}: {lines[6 + natom + k]!r}"
        if not cube_data_close([float(x) for t in toks for x in t], data):
            return "data tokens do not carry the data to six significant digits"
    except ValueError as e:
        return f"unparsable field ({e})"
    return None


def stage_cube(ctx: Ctx):
    from grid.cubic import UniformGrid
    from grid.utils import ANGSTROM_TO_BOHR

    tmp = ctx.build / "cube_tmp"
    tmp.mkdir(exist_ok=True)
    # data lengths of every residue modulo 6 (a grid has at least 2x2x2 points; shorter data: writer-only check below)
    shapes_dir = [(2, 2, 2), (2, 2, 3), (3, 3, 3), (2, 2, 4), (5, 5, 5), (7, 7, 7), (2, 3, 5), (3, 3, 5), (2, 5, 2)]
    nord = 6 if ctx.quick else 200
    next_ = len(shapes_dir) + (25 if ctx.quick else 1500)
    for trial in range(nord + next_):
        extreme = trial >= nord
        if extreme and trial - nord < len(shapes_dir):
            shape = shapes_dir[trial - nord]
        else:
            shape = tuple(ctx.rng.randint(2, 5) for _ in range(3))
        n = prod(shape)
        if not extreme:
            o = [ctx.rng.randint(-640, 640) / 64 for _ in range(3)]
            axes = [[ctx.rng.randint(-32, 32) / 64 for _ in range(3)] for _ in range(3)]
            if abs(np.linalg.det(np.array(axes))) < 1e-3:
                axes = [[0.5, 0, 0], [0, 0.25, 0], [0.125, 0, 1.0]]
        else:
            o = [cube_length(ctx, True) for _ in range(3)]
            # diagonal entries of full size and of either sign, small / tiny off-diagonal ones: never singular
            axes = [[(ctx.rng.choice([-1, 1]) * ctx.rng.choice([0.25, 1.5, 1234.567891, 99999.999999]) if r == c else ctx.rng.choice([0.0, 1e-7, -1e-7, 0.015625]))
                     for c in range(3)] for r in range(3)]
        na = ctx.rng.randint(1, 4)
        if extreme:  # ends of the ranges: dummy atom (0, 0.0), hydrogen, oganesson; core charges from 1 to Z (and a negative four-digit one)
            atnums = [ctx.rng.choice([0, 1, 2, 117, 118]) for _ in range(na)]
            pseudo = [0.0 if z == 0 else float(ctx.rng.choice([1, z])) for z in atnums]
            if trial % 3 == 0:
                atnums[0], pseudo[0] = 118, -1000.5
        else:
            atnums = [ctx.rng.randint(1, 90) for _ in range(na)]
            pseudo = [float(z - ctx.rng.choice([0, 2, 10])) if z > 10 else float(z) for z in atnums]
        atcoords = [[cube_length(ctx, extreme) for _ in range(3)] for _ in range(na)]
        data = np.array([cube_value(ctx, extreme) for _ in range(n)])
        if trial == 0:
            data[:3] = [0.0, 1.0, -123456.5]
        if extreme and trial - nord < len(shapes_dir):  # every special value, at every position of a row
            k0 = (trial - nord) % 6
            for j, v in enumerate(CUBE_SPECIAL_DATA[: max(0, n - k0)]):
                data[k0 + j] = v
        key = f"cube:{shape}:{trial}" + (":extreme" if extreme else "")
        ctx.case(key, traces=n)
        ctx.count("cube_roundtrips_extreme" if extreme else "cube_roundtrips")
        f = tmp / f"t{trial}.cube"
        g = UniformGrid(np.array(o), np.array(axes), np.array(shape), weight="Rectangle")
        rep = {"origin": o, "axes": axes, "shape": shape, "atnums": atnums, "pseudo": pseudo, "atcoords": atcoords, "data": data.tolist(),
               "reproduce": "g = UniformGrid(np.array(origin), np.array(axes), np.array(shape)); g.generate_cube('t.cube', np.array(data), np.array(atcoords), "
                            "np.array(atnums), np.array(pseudo)); UniformGrid.from_cube('t.cube', return_data=True)"}
        try:
            g.generate_cube(str(f), data, np.array(atcoords), np.array(atnums), np.array(pseudo))
            lines = f.read_text().splitlines()
            defect = cube_tokens_ok(lines, na, o, axes, shape, atnums, pseudo, atcoords, data)
            if defect is not None:
                try:
                    with contextlib.redirect_stdout(io.StringIO()):
                        g2, cd = UniformGrid.from_cube(str(f), weight="Rectangle", return_data=True)
                    back = ("from_cube reads it back without error but " +
                            ("with a different grid / atoms / data" if not (cube_close(g2.origin, o, 1.0) and cube_close(g2.axes, axes, 1.0)
                                                                            and cube_close(cd["atcoords"], atcoords, 1.0) and cube_data_close(cd["data"], data))
                             else "this reader does not"))
                except Exception as e:
                    back = f"from_cube raises {type(e).__name__}: {str(e)[:120]}"
                ctx.fail("cube_data_roundtrip_partial", key, defect[:60],
                         f"generate_cube -> from_cube: the written file does not carry grid, atoms and data as separate fields: {defect}; {back}", {"input": rep})
                continue
            for angstrom in (False, True):
                scale = 1.0
                if angstrom:  # the other unit convention: negative first count, lengths in angstrom
                    parts = lines[3].split()
                    lines2 = list(lines)
                    lines2[3] = f"{-int(parts[0]):5d} " + " ".join(parts[1:])
                    f.write_text("\n".join(lines2) + "\n")
                    scale = ANGSTROM_TO_BOHR
                with contextlib.redirect_stdout(io.StringIO()):
                    g2, cd = UniformGrid.from_cube(str(f), weight="Rectangle", return_data=True)
                    g3 = UniformGrid.from_cube(str(f), weight="Rectangle")
                errs = []
                if tuple(int(s) for s in g2.shape) != shape or tuple(int(s) for s in g3.shape) != shape:
                    errs.append(("shape", list(map(int, g2.shape))))
                for name, got, want in [("origin", g2.origin, o), ("axes", g2.axes, axes), ("atcoords", cd["atcoords"], atcoords),
                                        ("origin(return_data=False)", g3.origin, o), ("axes(return_data=False)", g3.axes, axes)]:
                    if not cube_close(got, want, scale):
                        errs.append((name, np.asarray(got).tolist()))
                if list(map(int, cd["atnums"])) != atnums or not cube_close(cd["atcorenums"], pseudo, 1.0):
                    errs.append(("atoms", [cd["atnums"].tolist(), cd["atcorenums"].tolist()]))
                if not cube_data_close(cd["data"], data):
                    errs.append(("data", cd["data"].tolist()))
                tol_pts = 1e-5 * scale * max(shape) * (1 + 1e-6 * float(np.abs(g.points).max()))
                if np.shape(g2.points) != np.shape(g.points) or not np.all(np.abs(g2.points - g.points * scale) <= tol_pts):
                    errs.append(("points", None))
                if errs:
                    ctx.fail("cube_data_roundtrip_partial", key + (":angstrom" if angstrom else ""), str(errs[0][0]),
                             f"generate_cube -> from_cube ({'angstrom' if angstrom else 'bohr'} convention) does not reproduce {errs[0][0]} to the printed precision: {errs[0][1]}",
                             {"input": rep})
                    break
        except Exception as e:
            ctx.fail("cube_data_roundtrip_partial", key, type(e).__name__, f"cube write/read raises {type(e).__name__}: {e}", {"input": rep})
        finally:
            if f.exists():
                f.unlink()
    # ---- data of length 1..7 (no grid that short can be constructed or read back: shapes with a 1 are rejected by the constructors):
    #      the writer alone, on a stand-in object, read by the independent token reader
    for n in range(1, 8):
        stub = types.SimpleNamespace(points=np.zeros((n, 3)), _origin=np.array([-99999.5, 1e-7, 0.25]),
                                     _axes=np.array([[-1234.567891, 0, 0], [0, 1.0, 0], [0, 0, 99999.999999]]), _shape=np.array([1, 1, n]))
        data = np.array((CUBE_SPECIAL_DATA * 2)[n - 1: 2 * n - 1])
        key = f"cube:writer-only:length={n}"
        ctx.case(key, traces=n)
        ctx.count("cube_writer_only")
        f = tmp / f"w{n}.cube"
        try:
            UniformGrid.generate_cube(stub, str(f), data, np.array([[-99999.999999, 0.0, 1e-7]]), np.array([118]), np.array([-1000.5]))
            defect = cube_tokens_ok(f.read_text().splitlines(), 1, stub._origin, stub._axes, (1, 1, n), [118], [-1000.5], [[-99999.999999, 0.0, 1e-7]], data)
            if defect is not None:
                ctx.fail("cube_data_roundtrip_partial", key, defect[:60], f"generate_cube with {n} data values {data.tolist()}: {defect}",
                         {"data": data.tolist(), "reproduce": "UniformGrid.generate_cube(<object with points of that length, _origin, _axes, _shape>, ...)"})
        except Exception as e:
            ctx.fail("cube_data_roundtrip_partial", key, type(e).__name__, f"generate_cube with {n} data values raises {type(e).__name__}: {e}", {"data": data.tolist()})
        finally:
            if f.exists():
                f.unlink()
    tmp.rmdir()


# ----------------------------------------------------------------------------------------------- stage G: interpolation (sweep)
def stage_interp(ctx: Ctx):
    from numpy.polynomial import polynomial as Pn

    from grid.basegrid import OneDGrid
    from grid.cubic import Tensor1DGrids, UniformGrid

    def pder(c, nu):
        for ax, k in enumerate(nu):
            for _ in range(k):
                c = Pn.polyder(c, axis=ax)
        return c

    from scipy.interpolate import CubicSpline

    # ---- oracle hypothesis of tricubic_reproduced, validated on the library: for >= 4 nodes,
    #      CubicSpline(nodes, cubic(nodes))(t, nu) = sum_c coef_c * dmono_std c nu t      (nu = 0..3; 0 beyond)
    def dmono_std(c, nu, t):
        return 0.0 if nu > c else math.perm(c, nu) * t ** (c - nu)

    for trial in range(40 if ctx.quick else 400):
        m = ctx.rng.randint(4, 9)
        nodes = np.cumsum([ctx.rng.randint(1, 8) / 8 for _ in range(m)]) - ctx.rng.randint(0, 3)
        cf = [ctx.rng.randint(-5, 5) for _ in range(4)]
        t = ctx.rng.uniform(nodes[0], nodes[-1])
        vals = sum(cf[c] * nodes**c for c in range(4))
        ctx.case(("spline_oracle", trial))
        for nu in range(0, 4):
            got = float(CubicSpline(nodes, vals)(t, nu))
            want = sum(cf[c] * dmono_std(c, nu, t) for c in range(4))
            if not abs(got - want) <= 1e-8 * (1 + abs(want)) * (1 + 1 / np.min(np.diff(nodes)) ** nu):
                ctx.fail("tricubic_reproduced", f"spline_oracle:{nodes.tolist()}:{cf}:{t}:{nu}", got,
                         f"oracle hypothesis spline_exact fails: CubicSpline({nodes.tolist()}, cubic{cf})({t}, {nu}) = {got}, expected {want}",
                         found_input=False)
    ctx.count("spline_oracle_validations", 40 if ctx.quick else 400)

    def mirror(nodes, shape, values, pts, nu):
        """interpolate_model of C13_proofs_interp.v with scipy's CubicSpline as the oracle: interior nodes 1..n-3 per direction."""
        v = values.reshape(shape)
        xs, ys, zs = (nodes[a][1:shape[a] - 2] for a in range(3))
        out = []
        for x, y, z in pts:
            gx = [CubicSpline(ys, [CubicSpline(zs, v[i, j, 1:shape[2] - 2])(z, nu[2]) for j in range(1, shape[1] - 2)])(y, nu[1])
                  for i in range(1, shape[0] - 2)]
            out.append(float(CubicSpline(xs, gx)(x, nu[0])))
        return np.array(out)

    worst = 0.0
    for trial in range(4 if ctx.quick else 80):
        shape = tuple(ctx.rng.randint(7, 9) for _ in range(3))
        if trial % 2 == 0:
            o = np.array([ctx.rng.randint(-8, 8) / 8 for _ in range(3)])
            h = np.array([ctx.rng.choice([0.125, 0.25, 0.5]) for _ in range(3)])
            g = UniformGrid(o, np.diag(h), np.array(shape), weight="Rectangle")
            nodes = [o[a] + h[a] * np.arange(shape[a]) for a in range(3)]
            kind = f"UniformGrid(origin={o.tolist()}, axes=diag({h.tolist()}), shape={shape})"
        else:
            nodes = [np.cumsum([ctx.rng.randint(1, 4) / 8 for _ in range(s)]) - 1.0 for s in shape]
            g = Tensor1DGrids(*[OneDGrid(x, np.ones_like(x)) for x in nodes])
            kind = f"Tensor1DGrids(nodes={[x.tolist() for x in nodes]})"
        coef = np.array([[[ctx.rng.randint(-3, 3) for _ in range(4)] for _ in range(4)] for _ in range(4)], float)
        P = np.asarray(g.points)
        vals = Pn.polyval3d(P[:, 0], P[:, 1], P[:, 2], coef)
        # interior query points: between the second and the last-but-two node in every direction
        pts = np.array([[ctx.rng.uniform(nodes[a][1], nodes[a][shape[a] - 3]) for a in range(3)] for _ in range(2)])
        key = f"interp:{trial}:{shape}"
        ctx.case(key, traces=len(pts))
        ctx.count("interpolation_grids")
        for nu in [(0, 0, 0), (1, 0, 0), (0, 1, 0), (0, 0, 1), (2, 0, 0), (0, 2, 1), (1, 1, 1), (0, 0, 3), (3, 0, 0), (2, 3, 1)]:
            try:
                got = np.asarray(g.interpolate(pts, vals, nu_x=nu[0], nu_y=nu[1], nu_z=nu[2]), float)
            except Exception as e:
                ctx.fail("interpolation_sweep", f"{key}:{nu}", type(e).__name__, f"{kind}.interpolate(nu={nu}) raises {type(e).__name__}: {e}",
                         {"coef": coef.tolist(), "points": pts.tolist()})
                break
            want = Pn.polyval3d(pts[:, 0], pts[:, 1], pts[:, 2], pder(coef, nu))
            scale = 1.0 + np.abs(coef).sum() * max(1.0, np.abs(pts).max()) ** 9 / min(np.min(np.diff(x)) for x in nodes) ** sum(nu)
            err = float(np.max(np.abs(got - want)) / scale)
            worst = max(worst, err)
            if got.shape != want.shape or not err < 1e-9:
                ctx.fail("tricubic_reproduced", f"{key}:{nu}", err, f"{kind}: cubic interpolation (nu={nu}) of a tricubic polynomial is off by {np.max(np.abs(got - want)):.3g} at {pts.tolist()}",
                         {"coef": coef.tolist(), "points": pts.tolist(), "got": got.tolist(), "want": want.tolist()})
                break
        # the Coq model (with the library spline as oracle) against the implementation on arbitrary data
        rnd = np.array([ctx.rng.uniform(-1, 1) for _ in range(len(P))])
        for nu in [(0, 0, 0), (1, 0, 2), (0, 1, 0)]:
            try:
                got = np.asarray(g.interpolate(pts, rnd, nu_x=nu[0], nu_y=nu[1], nu_z=nu[2]), float)
            except Exception:
                break  # already reported above for the polynomial data
            want = mirror(nodes, shape, rnd, pts, nu)
            if got.shape != want.shape or not np.max(np.abs(got - want)) <= 1e-9 * (1 + np.max(np.abs(want))):
                ctx.fail("tricubic_reproduced", f"{key}:model:{nu}", float(np.max(np.abs(got - want))),
                         f"{kind}: interpolate(nu={nu}) on random data differs from the nested-spline model over the interior nodes",
                         {"values": rnd.tolist(), "points": pts.tolist(), "got": got.tolist(), "model": want.tolist()}, found_input=False)
                break
        # logarithmic variant on a positive function exp(p), p tricubic (small coefficients)
        lc = coef / 64.0
        lvals = np.exp(Pn.polyval3d(P[:, 0], P[:, 1], P[:, 2], lc))
        f0 = np.exp(Pn.polyval3d(pts[:, 0], pts[:, 1], pts[:, 2], lc))
        for ax in range(3):
            d = [Pn.polyval3d(pts[:, 0], pts[:, 1], pts[:, 2], pder(lc, tuple(k if a == ax else 0 for a in range(3)))) for k in (1, 2, 3)]
            wants = [f0, f0 * d[0], f0 * (d[1] + d[0] ** 2), f0 * (d[2] + 3 * d[0] * d[1] + d[0] ** 3)]
            for k in range(0, 4 if (not ctx.quick or ax == trial % 3) else 2):
                nu = tuple(k if a == ax else 0 for a in range(3))
                try:
                    got = np.asarray(g.interpolate(pts, lvals, use_log=True, nu_x=nu[0], nu_y=nu[1], nu_z=nu[2]), float)
                except Exception as e:
                    ctx.fail("interpolation_sweep", f"{key}:log:{nu}", type(e).__name__, f"{kind}.interpolate(use_log=True, nu={nu}) raises {type(e).__name__}: {e}",
                             {"coef": lc.tolist(), "points": pts.tolist()})
                    break
                err = float(np.max(np.abs(got - wants[k]) / (1 + np.abs(wants[k]))))
                worst = max(worst, err)
                if not err < 1e-8:
                    ctx.fail("log_variant_chain_rule_partial", f"{key}:log:{nu}", err, f"{kind}: log-variant interpolation (nu={nu}) of exp(tricubic) is off by relative {err:.3g}",
                             {"coef": lc.tolist(), "points": pts.tolist(), "got": got.tolist(), "want": wants[k].tolist()})
                    break
        # ---- call histories on ONE grid object: the answer of a call may depend only on its arguments' current content, not on
        #      earlier calls - the same value / point buffers are refilled and rescaled in place between calls, derivative orders,
        #      methods and the log variant are interleaved; every call is judged against the exact polynomial
        coef2 = np.array([[[ctx.rng.randint(-3, 3) for _ in range(4)] for _ in range(4)] for _ in range(4)], float)
        vals2 = Pn.polyval3d(P[:, 0], P[:, 1], P[:, 2], coef2)
        pts2 = np.array([[ctx.rng.uniform(nodes[a][1], nodes[a][shape[a] - 3]) for a in range(3)] for _ in range(2)])
        hmin = min(np.min(np.diff(x)) for x in nodes)
        buf, pbuf, history = vals.copy(), pts.copy(), []

        def call(what, cf, nu, factor=1.0, **kw):
            """One step of the history; returns False (after reporting) when the call is wrong."""
            history.append(what)
            try:
                got = np.asarray(g.interpolate(pbuf, buf, nu_x=nu[0], nu_y=nu[1], nu_z=nu[2], **kw), float)
            except Exception as e:
                ctx.fail("interpolation_sweep", f"{key}:history:{len(history)}", type(e).__name__,
                         f"{kind}: after the calls {history[:-1]} the call {what} raises {type(e).__name__}: {e}", {"history": list(history), "coef": cf.tolist()})
                return False
            if kw.get("use_log"):
                lw = Pn.polyval3d(pbuf[:, 0], pbuf[:, 1], pbuf[:, 2], cf)
                want = np.exp(lw) * (Pn.polyval3d(pbuf[:, 0], pbuf[:, 1], pbuf[:, 2], pder(cf, nu)) if sum(nu) else 1.0)
                tol = 1e-8 * (1 + np.abs(want).max())
            else:
                want = factor * Pn.polyval3d(pbuf[:, 0], pbuf[:, 1], pbuf[:, 2], pder(cf, nu))
                tol = 1e-9 * abs(factor) * (1.0 + np.abs(cf).sum() * max(1.0, np.abs(pbuf).max()) ** 9 / hmin ** sum(nu))
            if got.shape != want.shape or not np.max(np.abs(got - want)) <= tol:
                ctx.fail("tricubic_reproduced" if not kw else "interpolation_sweep", f"{key}:history:{len(history)}", float(np.max(np.abs(got - want))),
                         f"{kind}: call history on one grid object {history}: the last call returns {got.tolist()}, the function stored in the array now has {want.tolist()}",
                         {"history": list(history), "coef_first": coef.tolist(), "coef_second": coef2.tolist(), "points": pbuf.tolist(),
                          "reproduce": "v = f1(grid.points); grid.interpolate(pts, v); v[:] = f2(grid.points); grid.interpolate(pts, v)  # same array object, new content"})
                return False
            return True

        ok = call("interpolate(pts, v) with v = p1(points)", coef, (0, 0, 0))
        buf[:] = vals2
        ok = ok and call("v[:] = p2(points); interpolate(pts, v)", coef2, (0, 0, 0))
        ok = ok and call("interpolate(pts, v, nu_x=1, nu_z=1)", coef2, (1, 0, 1))
        buf *= -2.0
        ok = ok and call("v *= -2; interpolate(pts, v, nu_y=1)", coef2, (0, 1, 0), factor=-2.0)
        pbuf[:] = pts2
        ok = ok and call("pts[:] = other points; interpolate(pts, v)", coef2, (0, 0, 0), factor=-2.0)
        buf[:] = vals
        ok = ok and call("v[:] = p1(points); interpolate(pts, v, nu_z=2)", coef, (0, 0, 2))
        buf[:] = np.exp(Pn.polyval3d(P[:, 0], P[:, 1], P[:, 2], coef / 64.0))
        ok = ok and call("v[:] = exp(p1/64)(points); interpolate(pts, v, use_log=True)", coef / 64.0, (0, 0, 0), use_log=True)
        buf[:] = np.exp(Pn.polyval3d(P[:, 0], P[:, 1], P[:, 2], coef2 / 64.0))
        ok = ok and call("v[:] = exp(p2/64)(points); interpolate(pts, v, use_log=True, nu_x=1)", coef2 / 64.0, (1, 0, 0), use_log=True)
        buf[:] = Pn.polyval3d(P[:, 0], P[:, 1], P[:, 2], coef[:2, :2, :2])
        ok = ok and call("v[:] = trilinear t1(points); interpolate(pts, v, method='linear')", coef[:2, :2, :2], (0, 0, 0), method="linear")
        buf[:] = Pn.polyval3d(P[:, 0], P[:, 1], P[:, 2], coef2[:2, :2, :2])
        ok = ok and call("v[:] = trilinear t2(points); interpolate(pts, v, method='linear')", coef2[:2, :2, :2], (0, 0, 0), method="linear")
        buf[:] = vals2
        ok = ok and call("v[:] = p2(points); interpolate(pts, v, nu_y=2)", coef2, (0, 2, 0))
        ctx.count("interpolation_histories")
        # linear method reproduces trilinear functions anywhere inside the grid
        tl = coef[:2, :2, :2]
        tv = Pn.polyval3d(P[:, 0], P[:, 1], P[:, 2], tl)
        tp = np.array([[ctx.rng.uniform(nodes[a][0], nodes[a][-1]) for a in range(3)] for _ in range(4)])
        want = Pn.polyval3d(tp[:, 0], tp[:, 1], tp[:, 2], tl)
        try:
            got = np.asarray(g.interpolate(tp, tv, method="linear"), float)
        except Exception as e:
            ctx.fail("interpolation_sweep", f"{key}:linear", type(e).__name__, f"{kind}.interpolate(method='linear') raises {type(e).__name__}: {e}",
                     {"coef": tl.tolist(), "points": tp.tolist()})
            continue
        if got.shape != want.shape or not np.max(np.abs(got - want)) < 1e-10 * (1 + np.abs(want).max()):
            ctx.fail("interpolation_sweep", f"{key}:linear", float(np.max(np.abs(got - want))), f"{kind}: linear interpolation does not reproduce a trilinear function",
                     {"coef": tl.tolist(), "points": tp.tolist(), "got": got.tolist(), "want": want.tolist()})
    ctx.cov["interpolation_worst_scaled_error"] = worst


# ----------------------------------------------------------------------------------------------- entry point
VARIANT: dict = {}
KNOWN_KEYS = {F2_SUM_KEY, F2_2D_KEY, BOX_KEY, BOXROT_KEY, CLOSE_NEG_KEY, CLOSE_OUT_KEY}


def run(ctx: Ctx):
    # coqchk (thorough tier): the Fourier / weight-sum bound files are bulk `interval` computations whose re-evaluation in coqchk's
    # own VM takes > 7 min EACH; they are checked by the kernel (coqc) only, the other seven property files are re-checked by coqchk.
    ctx.coqchk_skip = ("C13_props_f1a", "C13_props_f1b", "C13_props_f2", "C13_props_weights")
    from grid.cubic import UniformGrid

    src = (SRC / "cubic.py").read_text()
    # directed witness for the one behaviour flag that is not read off the source: can "Fourier2" be constructed in 2-D?
    try:
        UniformGrid(np.zeros(2), np.eye(2), np.array([4, 4]), weight="Fourier2")
        VARIANT["fourier2_2d_ok"] = True
    except IndexError:
        VARIANT["fourier2_2d_ok"] = False
    VARIANT.update(box_full=False, closest_full=False, f2d_full=False)
    # ---- gen (fail closed).  A broken tie (translator outside its subset, or generated file / model not compiling) does not
    #      end the check: every implementation-side oracle below still runs, and the first failing input that is not a listed
    #      known finding becomes the replay of the violation (ctx.broken_tie); only if there is none: no-failing-input-found.
    tie_err, tie_what, status = None, None, {}
    try:
        text, units = c13_translate.translate(src)
        text2, units2 = c13_translate.translate_axis(src)
    except Exception as e:  # Unsupported, SyntaxError, ...
        tie_err, tie_what = e, "translator(cubic.py)"
    if tie_err is None:
        text = text.replace("From Coq Require Import ZArith.", "From Coq Require Import ZArith.\nFrom P Require Import C13_num.", 1)
        text += ("\n" + text2 + "\n(* behaviour flag decided by a directed witness run (UniformGrid(zeros(2), eye(2), [4,4], 'Fourier2')) and validated by\n"
                 "   the correspondence on every other 2-D shape *)\n"
                 f"Definition fourier2_2d_ok : bool := {'true' if VARIANT['fourier2_2d_ok'] else 'false'}.\n")
        ctx.gen("C13_gen.v", text, units + units2 + [{"unit": "witness:fourier2_2d_ok", "file": "src/grid/cubic.py", "lines": [0, 0], "sha": str(VARIANT["fourier2_2d_ok"])}])
        ctx.copy_coq("C13")
        status = ctx.coq_build()
        ctx.register_props(status)
        if not status.get("C13_gen.v") or not status.get("C13_model.v"):
            tie_err = RuntimeError("C13_gen.v / C13_model.v do not compile: " + (ctx.logs.get("C13_gen.v", "") + ctx.logs.get("C13_model.v", ""))[-600:])
            tie_what = "generated model (C13_gen.v, C13_model.v)"
    if tie_err is not None:
        # no theorem says which clauses hold at full strength: ask the implementation on the canonical witnesses of the three
        # repairable defects; where it answers correctly the full-strength oracle is applied to the whole input class
        try:
            gw = UniformGrid.from_molecule(np.array([1, 80]), np.array([[0.0, 0, 0], [10, 0, 0]]), rotate=False)
            VARIANT["box_full"] = min(min(lo, hi) for lo, hi, _ in box_margins(gw, [[0.0, 0, 0], [10.0, 0, 0]])) >= Fraction(48, 10) - TOL * 100
        except Exception:
            pass
        try:
            w1 = UniformGrid(np.zeros(3), np.diag([-1.0, 1.0, 1.0]), np.array([3, 3, 3])).closest_point(np.array([-1.0, 0.0, 0.0]))
            w2 = UniformGrid(np.zeros(3), np.eye(3), np.array([3, 4, 5])).closest_point(np.array([0.0, 0.0, 7.0]))
            VARIANT["closest_full"] = (w1 == 9 and w2 == 4)
        except Exception:
            pass
    if tie_err is None:
        # full-strength clauses: proved of the generated code, or refuted (the *_refuted file explains the failure, the stages
        # below re-derive the concrete failing input on the implementation)
        for flag, props, refuted, thm, lemma in [("box_full", "C13_props_boxfull.v", "C13_refuted_box.v", "box_contains_nuclei", "box_refuted_lemma"),
                                                 ("closest_full", "C13_props_closestfull.v", "C13_refuted_closest.v", "closest_is_nearest", "closest_refuted_lemma"),
                                                 ("f2d_full", "C13_props_f2d.v", "C13_refuted_f2d.v", "fourier2_2d_constructs", "fourier2_2d_raises_lemma")]:
            VARIANT[flag] = bool(status.get(props))
            if not VARIANT[flag] and status.get(refuted):
                ctx.mark_refuted(thm, lemma)
    ctx.cov["impl_variant"] = dict(VARIANT)
    ctx.cov["tie_broken"] = None if tie_err is None else f"{tie_what}: {type(tie_err).__name__}: {tie_err}"[:400]

    # at most three reported failures per obligation (one broken mechanism fails on almost every input); the
    # canonical inputs of the known findings are always reported
    orig_fail, counts = ctx.fail, {}

    cands: list = []  # (key, observed, text, replay) of concrete failing inputs that are not listed known findings

    def limited_fail(obligation, key, observed, text, replay=None, found_input=True):
        if found_input and not ctx.is_known(key, observed):
            cands.append((key, observed, text, replay))
            if tie_err is not None and len(cands) == 1:
                return  # becomes the replay of the broken-tie violation (reported once, below)
        if ctx.is_known(key, observed):  # a listed known finding never uses up the quota of new failures of its obligation
            orig_fail(obligation, key, observed, text, replay, found_input)
            return
        counts[obligation] = counts.get(obligation, 0) + 1
        if counts[obligation] <= 3:
            orig_fail(obligation, key, observed, text, replay, found_input)
    ctx.fail = limited_fail

    def guarded(stage, *args):
        try:
            stage(ctx, *args)
        except Exception as e:  # a crash inside a sweep is a failed check of that stage, the other stages still run
            import traceback

            orig_fail("harness", f"stage:{stage.__name__}:{type(e).__name__}", None, f"{stage.__name__} raised {type(e).__name__}: {e}",
                      {"traceback": traceback.format_exc()}, found_input=False)

    cs = Cases()
    tac: list = []
    guarded(stage_index, cs)
    guarded(stage_layout, cs)
    guarded(stage_weights, cs, tac)
    guarded(stage_box, cs)
    guarded(stage_closest, cs)
    if tie_err is not None:
        # no model to compare with: the brute-force oracles of the remaining stages, then the verdict
        guarded(stage_cube)
        guarded(stage_interp)
        ctx.fail = orig_fail
        ctx.broken_tie(tie_what, f"{type(tie_err).__name__}: {tie_err}"[:300], cands)
        ctx.cov["rule"] = "tie broken: implementation-side brute-force oracles only (index round trips, layout, weights, box, closest point, cube, interpolation)"
        return
    try:
        badidx = ctx.coq_bool_cases("C13_cases", HDR_BOOL, cs.exprs, shard=max(8, math.ceil(len(cs.exprs) / 16)))
    except RuntimeError:  # a shard was killed (overloaded machine): evaluate once more, in two big shards
        badidx = ctx.coq_bool_cases("C13_cases_retry", HDR_BOOL, cs.exprs, shard=max(8, math.ceil(len(cs.exprs) / 2)))
    for i in badidx:
        cs.handlers[i]()
    ctx.cov["bool_cases"] = len(cs.exprs)
    # Fourier weights: interval enclosures of the real-number model around every implementation weight
    reported = set()
    tsh = max(4, math.ceil(len(tac) / 16))
    badt = ctx.coq_tactic_cases("C13_fourier", HDR_TAC, [(g, t) for g, t, _ in tac], shard=tsh)
    # a shard whose coqc process died (killed on an overloaded machine) yields no verdict for its remaining goals:
    # those goals (not the ones whose tactic explicitly failed) are evaluated once more
    dead = {k for k in range(math.ceil(len(tac) / tsh)) if f"C13_fourier_{k}.v" in ctx.logs}
    if dead:
        again = [i for i in badt if i // tsh in dead]
        redo = ctx.coq_tactic_cases("C13_fourier_retry", HDR_TAC, [(tac[i][0], tac[i][1]) for i in again], shard=max(4, math.ceil(len(again) / 4)))
        badt = [i for i in badt if i // tsh not in dead] + [again[j] for j in redo]
        ctx.notes.append(f"{len(dead)} interval shard(s) died and were re-evaluated ({len(again)} goals)")
    for i in badt:
        key, rep, idx, scheme, d = tac[i][2]
        if key not in reported:
            reported.add(key)
            ob = (f"fourier1_sum_bound{d}_partial" if scheme == "Fourier1" else "fourier2_refuted")
            ctx.fail(ob, key, idx, f"{rep}: weight {idx} is not within 1e-11 of the {scheme} model", found_input=False)
    ctx.cov["interval_cases"] = len(tac)
    guarded(stage_cube)
    guarded(stage_interp)

    ctx.fail = orig_fail
    # a theorem about the generated definitions that no longer compiles (and is not explained by a *_refuted file) gets the
    # first concrete failing input found on the implementation as its replay, instead of no-failing-input-found
    explicit = {f.obligation for f in ctx.failures}
    for name, ob in ctx.obligations.items():
        if ob["status"] != "discharged" and not ob.get("refuted_by") and name not in explicit and cands:
            key, observed, text, replay = cands[0]
            rp = dict(replay or {})
            rp["broken_tie"] = f"theorem {name} ({ob['file']}) no longer checks"
            rp["coq_log_tail"] = ctx.logs.get(ob["file"], "")[-1500:]
            ctx.fail(name, key, observed, f"{text}  [found while theorem {name} no longer checks]", rp)
    ctx.cov["failures_suppressed_beyond_3_per_obligation"] = {k: v - 3 for k, v in counts.items() if v > 3}
    ctx.cov["rule"] = (
        "index maps: every (i,j,k) and every flat index (plus 3 beyond the end and -1) of a fixed family of 2-D/3-D shapes incl. "
        "non-cubic and 1-sized axes plus seeded random shapes, compared entry by entry with the generated Coq functions (exhaustive per shape); "
        "layout: all points of UniformGrid on integer origins / skewed integer axes and of Tensor1DGrids on integer nodes and distinct prime "
        "weights (exact); weights: 3 constant schemes by exact rationals, Fourier1/2 by interval enclosures weight by weight on small shapes, "
        "the sum bound checked exactly for every constructed grid; from_molecule: seeded molecules on dyadic coordinates (40% inversion-symmetric); "
        "closest_point: seeded dyadic queries incl. ties and nodes, brute-force nearest node; cube and interpolation: sweeps. "
        "distinct = one per shape / grid / molecule / query")
    ctx.cov["exhaustive"] = "per shape (index maps, points, weights)"
    ctx.trusted += [
        "props/c13_translate.py (ast -> Z arithmetic, symbolic unrolling for ndim 2 and 3; per-direction symbolic execution of from_molecule(rotate=False) and closest_point; fail closed), validated by the exhaustive index tables and the rational correspondences",
        "behaviour flag fourier2_2d_ok decided by one directed witness run, validated on all other 2-D shapes",
        "hand models in coq/C13/C13_model.v (points, kron, volume, weight schemes, from_molecule box, closest_point), tied by exact correspondence",
        "NumOps instances: theorems on reals (ROps), execution on rationals (QOps); their agreement is by construction of the generic definitions",
        "oracle (validated by sweep, not modelled): scipy CubicSpline / RegularGridInterpolator reproduce cubics / trilinear functions; numpy eigh frame in from_molecule(rotate=True)",
        "tolerances: 1e-12 relative on rational comparisons of float results, 1e-11 absolute on interval enclosures, printed precision (0.5e-6 abs, 0.5e-5 rel) for cube files",
    ]
    ctx.assumptions += [
        "integer overflow of numpy int64 indices is not modelled (shapes with n0*n1*n2 < 2^63)",
        "interpolation clause read for grids with at least 7 points per direction (the code drops the boundary nodes and a cubic spline needs 4 nodes) and query points between the interior nodes",
        "closest_point: the returned float index is compared by value",
    ]
