"""C01 — every 1-D quadrature rule is exact on its polynomial class, for every size.

The series length of the two Fejer rules is read from the source (FejerFirst_terms / FejerSecond_terms in C01_gen.v).  The
full-strength theorems fejer1_exact / fejer2_exact (C01_props_fejer{1,2}_exact.v) compile iff the constructor sums nsum
terms; with the pinned nsum - 1 terms they fail, C01_refuted_fejer{1,2}.v compiles instead, the obligation is marked
refuted (ctx.mark_refuted) and the concrete witness FejerFirst(3) / FejerSecond(3) at degree 2 is re-derived and reported
under the positive theorem's name with the key of the listed known finding.

gen:    scalar leaves of src/grid/onedgrid.py are re-translated on every run (props/c01_translate.py on top of
        vlib/py2coq_real, fail closed): _g2, _derg2, _g3, _derg3, _gstrip, _dergstrip (masked branches), the
        points/weights formulas of the seven variable-substitution constructors as functions of the real index
        variable, the weight rescalings and reversal flags of the library-based Gauss constructors; the structure of
        the six Trefethen wrappers is checked verbatim.  -> build/C01/C01_gen.v
prove:  coq/C01/*.v: index-function hand models pts_<Rule> n k / wts_<Rule> n k mirroring the loop bounds and series
        truncation indices of the array code, theorems for every n (see C01_props_*.v).
tie:    `interval` enclosures (1e-9 (1+|y|)) of every model node and weight around the implementation's value, all k,
        n = 2..12 (quick) / plus a sample up to 60 (thorough), random dyadic extra parameters; leaves at the float
        arguments the constructors feed them; exact float equality for the compositions (Trefethen wrappers,
        library arrays passed through).
search: the property's own oracle on the implementation, independent of the model: mpmath moments against the exact
        integrals for all degrees up to the nominal one, n <= 24 (quick) / 64 (thorough); number of nodes, ascending,
        inside the domain; weights against step * mpmath.diff of the documented node maps.
"""
from __future__ import annotations

import ast
import importlib
import inspect
import math
import warnings
from fractions import Fraction

import numpy as np

from props import c01_translate as T
from vlib import py2coq_real as P
from vlib.core import SRC, Ctx, r_lit

SUBST = ["TanhSinh", "ExpSinh", "LogExpSinh", "ExpExp", "SingleTanh", "SingleExp", "SingleArcSinhExp"]
ORACLE = ["GaussLaguerre", "GaussLegendre", "GaussChebyshev", "GaussChebyshevType2"]
PLAIN = ["UniformInteger", "GaussChebyshevLobatto", "Trapezoidal", "RectangleRuleSineEndPoints", "Simpson", "MidPoint",
         "ClenshawCurtis", "FejerFirst", "FejerSecond"]
TREF = ["TrefethenCC", "TrefethenGC2", "TrefethenGeneral"]
STRIP = ["TrefethenStripCC", "TrefethenStripGC2", "TrefethenStripGeneral"]
LEAF_FUNCS = [("_g2", "g2"), ("_derg2", "derg2"), ("_g3", "g3"), ("_derg3", "derg3"), ("_gstrip", "gstrip")]
DOMAINS = {  # declared domain of every class (hand model side; compared with the source and the objects)
    "GaussLaguerre": ("0", "np.inf"), "GaussLegendre": ("-1", "1"), "GaussChebyshev": ("-1", "1"),
    "UniformInteger": ("0", "np.inf"), "GaussChebyshevType2": ("-1", "1"), "GaussChebyshevLobatto": ("-1", "1"),
    "Trapezoidal": ("-1", "1"), "RectangleRuleSineEndPoints": ("-1", "1"), "TanhSinh": ("-1", "1"), "Simpson": ("-1", "1"),
    "MidPoint": ("-1", "1"), "ClenshawCurtis": ("-1", "1"), "FejerFirst": ("-1", "1"), "FejerSecond": ("-1", "1"),
    "TrefethenCC": ("-1", "1"), "TrefethenGC2": ("-1", "1"), "TrefethenGeneral": ("-1", "1"),
    "TrefethenStripCC": ("-1", "1"), "TrefethenStripGC2": ("-1", "1"), "TrefethenStripGeneral": ("-1", "1"),
    "ExpSinh": ("0", "np.inf"), "LogExpSinh": ("0", "np.inf"), "ExpExp": ("0", "np.inf"), "SingleTanh": ("-1", "1"),
    "SingleExp": ("0", "np.inf"), "SingleArcSinhExp": ("0", "np.inf"),
}
KNOWN = {  # rule -> (positive obligation, refuting theorem, canonical witness key of the listed known finding)
    "FejerFirst": ("fejer1_exact", "fejer1_exact_refuted", "FejerFirst(3):degree=2", "fejer1"),
    "FejerSecond": ("fejer2_exact", "fejer2_exact_refuted", "FejerSecond(3):degree=2", "fejer2"),
}
MAXREP = 3
TOL_REL = 1e-10  # moments: |sum - exact| <= TOL_REL * sum |w_i g(x_i)|  (measured rounding noise <= 3e-13 for n <= 64)


# ====================================================================================================== gen
def gen(ctx: Ctx):
    src = (SRC / "onedgrid.py").read_text()
    tree = ast.parse(src)
    classes = {c.name: c for c in tree.body if isinstance(c, ast.ClassDef)}
    funcs = {f.name: f for f in tree.body if isinstance(f, ast.FunctionDef)}
    known = set(SUBST + ORACLE + PLAIN + TREF + STRIP)
    extra = sorted(set(classes) - known)
    if extra:
        raise P.Unsupported(f"onedgrid.py defines rule classes without a model: {extra}")
    out = [P.HEADER, "(* generated from src/grid/onedgrid.py on every run; do not edit *)"]
    units, info = [], {}
    for py, coq in LEAF_FUNCS:
        if py not in funcs:
            raise P.Unsupported(f"function {py} not found")
        txt, _ = T.plain_function(src, funcs[py], coq)
        out.append(txt)
        units.append(T.unit(src, funcs[py], py))
    if "_dergstrip" not in funcs:
        raise P.Unsupported("function _dergstrip not found")
    txt, _ = T.masked_function(src, funcs["_dergstrip"], "dergstrip")
    out.append(txt)
    units.append(T.unit(src, funcs["_dergstrip"], "_dergstrip"))
    for c in SUBST + ORACLE + PLAIN + TREF + STRIP:
        if c not in classes:
            raise P.Unsupported(f"class {c} not found")
    for c in SUBST:
        txt, inf = T.subst_ctor(src, classes[c])
        out.append(txt)
        info[c] = inf
        units.append(T.unit(src, T._init_of(classes[c]), f"{c}.__init__", guards=inf["guards"], kind="translated leaf + hand index model"))
    for c in ORACLE:
        txt, inf = T.oracle_ctor(src, classes[c])
        out.append(txt)
        info[c] = inf
        units.append(T.unit(src, T._init_of(classes[c]), f"{c}.__init__", guards=inf["guards"], kind="library routine (oracle) + translated rescaling"))
    for c in PLAIN:
        inf = T.plain_ctor_info(src, classes[c])
        info[c] = inf
        units.append(T.unit(src, T._init_of(classes[c]), f"{c}.__init__", guards=inf["guards"], kind="hand model"))
    for c in ("FejerFirst", "FejerSecond"):   # series length of the weight sums, read from the source
        txt, length = T.series_terms(src, classes[c])
        out.append(txt)
        info[c]["series_length"] = length
    for c in TREF + STRIP:
        inf = T.trefethen_ctor(src, classes[c], c in STRIP)
        info[c] = inf
        units.append(T.unit(src, T._init_of(classes[c]), f"{c}.__init__", kind="composition checked verbatim"))
    for c, inf in info.items():
        if tuple(inf["domain"]) != DOMAINS[c]:
            raise P.Unsupported(f"{c}: declared domain {inf['domain']} differs from the modelled {DOMAINS[c]}")
    # anchored but not modelled: the domain containment check of OneDGrid.__init__ (recorded; the property is checked on the objects)
    bsrc = (SRC / "basegrid.py").read_text()
    for c in ast.parse(bsrc).body:
        if isinstance(c, ast.ClassDef) and c.name == "OneDGrid":
            u = T.unit(bsrc, T._init_of(c), "OneDGrid.__init__", kind="observed on the constructed objects (domain, node range)")
            u["file"] = "src/grid/basegrid.py"
            units.append(u)
    ctx.gen("C01_gen.v", "\n".join(out) + "\n", units)
    return info


# ====================================================================================================== Coq side
MODEL_NAMES = """pts_Trapezoidal wts_Trapezoidal pts_MidPoint wts_MidPoint pts_Simpson wts_Simpson pts_UniformInteger
 wts_UniformInteger rrs_x pts_RectangleRuleSineEndPoints wts_RectangleRuleSineEndPoints pts_GaussChebyshevLobatto
 wts_GaussChebyshevLobatto chebgauss_x chebgauss_w pts_GaussChebyshev wts_GaussChebyshev cc_theta cc_jmed cc_bj cc_wi
 pts_ClenshawCurtis wts_ClenshawCurtis f1_theta f1_nsum f1_di pts_FejerFirst wts_FejerFirst f2_theta f2_nsum f2_wi
 pts_FejerSecond wts_FejerSecond FejerFirst_terms FejerSecond_terms rsum rev maybe_rev halve_ends
 pts_GaussLegendre wts_GaussLegendre pts_GaussChebyshevType2 wts_GaussChebyshevType2 pts_GaussLaguerre wts_GaussLaguerre
 GaussChebyshev_points_reversed GaussChebyshev_weights_reversed GaussChebyshev_weights
 GaussLegendre_points_reversed GaussLegendre_weights_reversed GaussLegendre_weights
 GaussChebyshevType2_points_reversed GaussChebyshevType2_weights_reversed GaussChebyshevType2_weights
 GaussLaguerre_points_reversed GaussLaguerre_weights_reversed GaussLaguerre_weights
 kidx pts_TanhSinh wts_TanhSinh pts_ExpSinh wts_ExpSinh pts_LogExpSinh wts_LogExpSinh pts_ExpExp wts_ExpExp
 pts_SingleTanh wts_SingleTanh pts_SingleExp wts_SingleExp pts_SingleArcSinhExp wts_SingleArcSinhExp
 TanhSinh_points TanhSinh_weights ExpSinh_points ExpSinh_weights LogExpSinh_points LogExpSinh_weights
 ExpExp_points ExpExp_weights SingleTanh_points SingleTanh_weights SingleExp_points SingleExp_weights
 SingleArcSinhExp_points SingleArcSinhExp_weights tanh sinh cosh arcsinh
 tref_pts tref_wts pts_TrefethenCC wts_TrefethenCC g2 derg2 g3 derg3
 lst nth Nat.eqb Nat.sub Nat.add Nat.mul Nat.leb Nat.ltb Nat.odd Nat.even Nat.div Nat.divmod fst snd negb andb orb"""


def header(defs):
    names = " ".join(MODEL_NAMES.split()) + " " + " ".join(n for n, _ in defs)
    return ("From Coq Require Import Reals Arith Bool List Lra.\nFrom Interval Require Import Tactic.\n"
            "From P Require Import C01_gen C01_model.\nImport ListNotations.\nOpen Scope R_scope.\n"
            "Definition lst (l : list R) (k : nat) : R := nth k l 0.\n"
            + "\n".join(f"Definition {n} : nat -> R := lst [{body}]." for n, body in defs) + "\n"
            f"Ltac ev := cbv [{names}]; cbv zeta; rewrite ?INR_IZR_INZ; cbv [Z.of_nat Pos.of_succ_nat Pos.succ].\n"
            "Ltac fin := interval with (i_prec 64).\n"
            "Lemma asin_m1 : asin (-1) = - (PI / 2).\n"
            "Proof. replace (-1) with (Ropp 1) by lra. rewrite asin_opp, asin_1. reflexivity. Qed.\n"
            "Ltac strip_in S := cbv [gstrip dergstrip]; cbv zeta; rewrite ?(asin_atan S) by lra; unfold Rsqr.\n"
            "Ltac strip_p1 := cbv [gstrip dergstrip]; cbv zeta; replace (asin (1 / 1)) with (PI / 2) by (replace (1 / 1) with 1 by lra; symmetry; apply asin_1).\n"
            "Ltac strip_m1 := cbv [gstrip dergstrip]; cbv zeta; replace (asin (-1 / 1)) with (- (PI / 2)) by (replace (-1 / 1) with (-1) by lra; symmetry; apply asin_m1).\n"
            "Ltac mask_true := match goal with |- context [Rle_dec ?a ?b] => destruct (Rle_dec a b) as [HM|HM]; [|exfalso; apply HM; unfold tanh, sinh, cosh; fin] end.\n"
            "Ltac mask_false := match goal with |- context [Rle_dec ?a ?b] => destruct (Rle_dec a b) as [HM|HM]; [exfalso; revert HM; apply Rlt_not_le; fin|] end.\n")


def rl(x) -> str:
    """Exact real literal of a float in the form (IZR a / IZR b) (always a quotient, so tactics can match it)."""
    fr = Fraction(float(x))
    return f"({fr.numerator} / {fr.denominator})"


def tol_lit(y, rel=1e-9) -> str:
    t = Fraction(int((1 + abs(float(y))) * 1024) + 1, 1024) * Fraction(rel).limit_denominator(10 ** 15)
    return f"({t.numerator} / {t.denominator})"


def goal_close(term, y):
    return f"Rabs ({term} - {rl(y)}) <= {tol_lit(y)}"


# ====================================================================================================== oracles
def mp():
    import mpmath

    mpmath.mp.dps = 50
    return mpmath


def int_legendre(d):
    m = mp()
    return m.mpf(0) if d % 2 else m.mpf(2) / (d + 1)


def int_cheb1(d):  # int x^d / sqrt(1-x^2)
    m = mp()
    return m.mpf(0) if d % 2 else m.beta(m.mpf(d + 1) / 2, m.mpf(1) / 2)


def int_cheb2(d):  # int x^d sqrt(1-x^2)
    m = mp()
    return m.mpf(0) if d % 2 else m.beta(m.mpf(d + 1) / 2, m.mpf(3) / 2)


def moment(pts, wts, d, g=None):
    m = mp()
    s, S = m.mpf(0), m.mpf(0)
    for x, w in zip(pts, wts):
        x, w = m.mpf(float(x)), m.mpf(float(w))
        t = w * x ** d * (g(x) if g is not None else 1)
        s += t
        S += abs(t)
    return s, S


def asin_taylor_map(d):
    """Normalised odd Taylor polynomial of arcsin of degree d (Hale & Trefethen): coefficients as Fractions."""
    cs = []
    for j in range((d + 1) // 2):
        cs.append(Fraction(math.factorial(2 * j), 4 ** j * math.factorial(j) ** 2 * (2 * j + 1)))
    tot = sum(cs)
    return [c / tot for c in cs]  # coefficient of x^(2j+1)


def node_maps():
    m = mp()
    half_pi = lambda: m.pi / 2  # noqa: E731
    return {
        "TanhSinh": lambda t: m.tanh(half_pi() * m.sinh(t)),
        "ExpSinh": lambda t: m.exp(half_pi() * m.sinh(t)),
        "LogExpSinh": lambda t: m.log(m.exp(half_pi() * m.sinh(t)) + 1),
        "ExpExp": lambda t: m.exp(t) * m.exp(-m.exp(-t)),
        "SingleTanh": lambda t: m.tanh(t),
        "SingleExp": lambda t: m.exp(t),
        "SingleArcSinhExp": lambda t: m.asinh(m.exp(t)),
    }


def gstrip_mp(rho):
    """Hale-Trefethen strip map, written from the paper's formula in mpmath (independent of the implementation)."""
    m = mp()
    tau = m.pi / m.log(rho)
    d = m.mpf(1) / 2 + 1 / (m.exp(tau * m.pi) + 1)
    c = 1 / (m.log(1 + m.exp(-tau * m.pi)) - m.log(2) + m.pi * tau * d / 2)

    def g(s):
        u = m.asin(s)
        return c * (m.log(1 + m.exp(-tau * (m.pi / 2 + u))) - m.log(1 + m.exp(-tau * (m.pi / 2 - u))) + d * tau * u)

    return g


# ====================================================================================================== run
DEPS = {  # a disagreement about the key rule can be caused by (and is explained by a failing input of) these rules
    "TrefethenCC": ["ClenshawCurtis"], "TrefethenStripCC": ["ClenshawCurtis"], "TrefethenGC2": ["GaussChebyshevType2"],
    "TrefethenStripGC2": ["GaussChebyshevType2"], "_g2": ["Trefethen"], "_derg2": ["Trefethen"], "_g3": ["Trefethen"],
    "_derg3": ["Trefethen"], "_gstrip": ["TrefethenStrip"], "_dergstrip": ["TrefethenStrip"],
}
FILE_RULES = {  # props file stem -> rules its theorems talk about
    "nc": ["Trapezoidal", "MidPoint", "Simpson"], "cheb": ["ClenshawCurtis", "FejerFirst", "FejerSecond", "GaussChebyshev"],
    "cc": ["ClenshawCurtis"], "fejer1": ["FejerFirst"], "fejer1_exact": ["FejerFirst"], "fejer2": ["FejerSecond"],
    "fejer2_exact": ["FejerSecond"], "gauss": ["GaussChebyshev"], "gauss_cheb2": ["GaussChebyshevType2"],
    "gauss_laguerre": ["GaussLaguerre"], "gauss_legendre": ["GaussLegendre"], "subst": SUBST, "tref": ["Trefethen"],
    "trefshape": ["Trefethen", "ClenshawCurtis"],
    "shape": ["Trapezoidal", "Simpson", "MidPoint", "UniformInteger", "RectangleRuleSineEndPoints", "ClenshawCurtis"],
    "shape2": ["GaussChebyshevLobatto", "FejerFirst", "FejerSecond"],
}


def related(tie_rules, cand_rule):
    for t in tie_rules:
        if t and (t in cand_rule or cand_rule in t or any(d in cand_rule for d in DEPS.get(t, []))):
            return True
    return False


class Rep:
    """Collects failures.  Property failures found on the implementation (found=True) are reported first, the smallest
    MAXREP per obligation.  Tie failures (model / leaf / composition disagreements, found=False) and broken theorems go
    through Ctx.broken_tie: the first failing input of the property that is not a listed known finding (inputs of the same
    or a dependent rule first) becomes their replay; only if there is none they are reported no-failing-input-found."""

    def __init__(self, ctx):
        self.ctx = ctx
        self.items = []

    def add(self, size, ob, key, obs, text, rp=None, found=True, rule=None):
        rp = rp or {}
        self.items.append((size, ob, key, obs, text, rp, found, rule or rp.get("rule") or key.split("(")[0]))

    def candidates(self, tie_rules=()):
        props = [t for t in sorted(self.items, key=lambda t: (t[0], t[2])) if t[6] and not self.ctx.is_known(t[2], t[3])]
        rel = [t for t in props if related(tie_rules, t[7])]
        rest = [t for t in props if not related(tie_rules, t[7])]
        return [(t[2], t[3], t[4], t[5]) for t in rel + rest]

    def flush(self):
        per = {}
        items = sorted(self.items, key=lambda t: (t[0], t[2]))
        for size, ob, key, obs, text, rp, found, rule in items:
            if not found:
                continue
            per[ob] = per.get(ob, 0) + 1
            if per[ob] <= MAXREP:
                self.ctx.fail(ob, key, obs, text, rp)
        for size, ob, key, obs, text, rp, found, rule in items:
            if found:
                continue
            per[ob] = per.get(ob, 0) + 1
            if per[ob] <= MAXREP:
                self.ctx.broken_tie(ob, text, self.candidates([rule]))
        # theorems over the generated definitions / hand model that no longer check
        for name, ob in self.ctx.obligations.items():
            if ob["status"] != "discharged" and not ob.get("refuted_by"):
                stem = ob["file"].replace("C01_props_", "").replace(".v", "")
                rules = [stem.replace("subst_", "")] if stem.startswith("subst_") else FILE_RULES.get(stem, [])
                self.ctx.broken_tie(name, f"theorem {name} ({ob['file']}) no longer checks", self.candidates(rules))
        if self.items:
            self.ctx.notes.append(f"{len(self.items)} disagreements; at most {MAXREP} reported per obligation: {per}")


def dyadic(rng, lo, hi, bits=6):
    q = 1 << bits
    return rng.randint(int(math.ceil(lo * q)), int(math.floor(hi * q))) / q


def sizes(ctx, odd_only=False, lo=2):
    ns = list(range(lo, 13))
    if not ctx.quick:
        ns += [13, 16, 17, 25, 41, 60]
    if odd_only:
        ns = sorted({n for n in ns if n % 2 == 1} | ({1} if lo <= 1 else set()))
    return ns


def build(cls, *a):
    with warnings.catch_warnings():
        warnings.simplefilter("ignore")
        return cls(*a)


def run(ctx: Ctx):
    import grid.basegrid as gb
    import grid.onedgrid as og

    importlib.reload(gb)
    importlib.reload(og)
    from scipy.special import roots_chebyu, roots_genlaguerre

    gen_err, info, status = None, {}, {}
    try:
        info = gen(ctx)
    except P.Unsupported as e:  # translator fails closed: the tie is broken; the implementation-side oracles still run
        gen_err = e
    tie_err = None
    if gen_err is None:
        ctx.copy_coq("C01")
        status = ctx.coq_build()
        ctx.register_props(status)
        if not status.get("C01_model.v", False) or not status.get("C01_gen.v", False):
            tie_err = "C01_gen.v / C01_model.v do not compile: " + (ctx.logs.get("C01_gen.v", "") + ctx.logs.get("C01_model.v", ""))[-400:]
    tie_on = gen_err is None and tie_err is None
    # full-strength Fejer theorems: the positive file compiles iff the constructor sums nsum terms (series length read from
    # the source); if it fails and the refuted file compiles, the obligation is decided by the refutation + known finding.
    # Without a Coq verdict (broken tie) the known defect is recognised by its canonical witness value.
    truncated = {}
    for cname, (pos, ref, kkey, stem) in KNOWN.items():
        if tie_on:
            truncated[cname] = (not status.get(f"C01_props_{stem}_exact.v", False)) and status.get(f"C01_refuted_{stem}.v", False)
            if truncated[cname]:
                ctx.mark_refuted(pos, ref)
        else:
            try:
                gw = globals()["build"](getattr(og, cname), 3)
                truncated[cname] = ctx.is_known(kkey, round(float(moment(gw.points, gw.weights, 2)[0]), 9))
            except Exception:  # noqa: BLE001
                truncated[cname] = False
        ctx.cov.setdefault("fejer_series_length", {})[cname] = {"source": info.get(cname, {}).get("series_length"),
                                                               "positive_theorem_compiles": bool(status.get(f"C01_props_{stem}_exact.v", False)),
                                                               "refuted_file_compiles": bool(status.get(f"C01_refuted_{stem}.v", False)),
                                                               "treated_as_known_truncated_series": bool(truncated[cname])}
    rep = Rep(ctx)
    rng = ctx.rng
    import time as _t
    tm = {'build': round(_t.time() - ctx.t0, 1)}
    t_last = [_t.time()]

    def mark(name):
        tm[name] = round(_t.time() - t_last[0], 1)
        t_last[0] = _t.time()
    defs: list[tuple[str, str]] = []   # named literal arrays (library outputs)
    cases: list[tuple[str, str]] = []  # (goal, tactic)
    meta: list[dict] = []
    m = mp()

    def case(goal, tac, **kw):
        cases.append((goal, tac))
        meta.append(kw)

    raw_build = globals()["build"]
    raised = set()

    def build(cls, *a):  # noqa: F811 - a constructor that raises on admissible arguments is a concrete failing input
        try:
            return raw_build(cls, *a)
        except Exception as e:  # noqa: BLE001
            args_txt = ", ".join(x.__name__ if isinstance(x, type) else repr(x) for x in a)
            n0 = a[0] if a and isinstance(a[0], int) else 0
            if (cls.__name__, args_txt) in raised:
                return None
            raised.add((cls.__name__, args_txt))
            rep.add(n0, f"shape_{cls.__name__}_constructs", f"{cls.__name__}({args_txt}):raises", type(e).__name__,
                    f"{cls.__name__}({args_txt}) raises {type(e).__name__}: {str(e)[:120]} on admissible arguments",
                    {"rule": cls.__name__, "args": args_txt, "reproduce": f"grid.onedgrid.{cls.__name__}({args_txt})"})
            return None

    def lit_array(prefix, arr):
        name = f"{prefix}_{len(defs)}"
        defs.append((name, "; ".join(rl(v) for v in arr)))
        return name

    def finite(arr):
        return bool(np.all(np.isfinite(np.asarray(arr, dtype=float))))

    # ------------------------------------------------------------------ shape oracle (implementation only)
    def check_shape(cname, args_txt, g, n):
        key0 = f"{cname}({args_txt})"
        pts, wts = np.asarray(g.points, dtype=float), np.asarray(g.weights, dtype=float)
        lo, hi = DOMAINS[cname]
        lo_v, hi_v = float(lo), (math.inf if hi == "np.inf" else float(hi))
        dom = g.domain
        ctx.case(("shape", key0))
        if len(pts) != n or len(wts) != n:
            rep.add(n, "corr_shape_count", f"{key0}:count", [len(pts), len(wts)], f"{key0} returns {len(pts)} nodes / {len(wts)} weights, expected {n}",
                    {"reproduce": f"len({key0}.points)"})
            return False
        if dom is None or float(dom[0]) != lo_v or float(dom[1]) != hi_v:
            rep.add(n, "corr_shape_domain", f"{key0}:domain", str(dom), f"{key0}.domain is {dom}, the documented domain is ({lo}, {hi})", {"reproduce": f"{key0}.domain"})
        if not finite(pts) or not finite(wts):
            rep.add(n, "corr_shape_finite", f"{key0}:finite", None, f"{key0} has non-finite nodes or weights", {"reproduce": key0})
            return False
        bad = [i for i in range(n - 1) if not pts[i] < pts[i + 1]]
        if bad:
            i = bad[0]
            rep.add(n, "shape_ascending", f"{key0}:ascending", [float(pts[i]), float(pts[i + 1])],
                    f"{key0}: nodes not strictly ascending at index {i}: {pts[i]!r}, {pts[i + 1]!r}", {"reproduce": f"np.diff({key0}.points)", "index": i})
        out = [i for i in range(n) if pts[i] < lo_v - 1e-14 or pts[i] > hi_v + 1e-14]
        if out:
            i = out[0]
            rep.add(n, "shape_in_domain", f"{key0}:domain:{i}", float(pts[i]), f"{key0}: node {i} = {pts[i]!r} outside ({lo}, {hi})", {"reproduce": f"{key0}.points[{i}]"})
        return True

    # ------------------------------------------------------------------ exactness oracle (implementation only)
    def check_moments(cname, args_txt, g, n, deg, exact, weightfn=None, what="x^d"):
        key0 = f"{cname}({args_txt})"
        nbad = 0
        for d in range(deg + 1):
            s, S = moment(g.points, g.weights, d, weightfn)
            e = exact(d)
            ctx.case(("moment", key0, d))
            if abs(s - e) > TOL_REL * max(S, m.mpf(10) ** -300) + m.mpf(10) ** -300:
                nbad += 1
                if truncated.get(cname) and not args_txt.count(","):
                    # the refuted model predicts exactly one failing degree per size (fejer1_defect_every_odd_n / fejer2_defect_every_n)
                    pred = (n % 2 == 1 and n >= 3 and d == n - 1) if cname == "FejerFirst" else (n >= 2 and d == 2 * ((n + 1) // 2 - 1))
                    if pred:
                        pos, ref, kkey, _ = KNOWN[cname]
                        if f"{cname}({n}):degree={d}" == kkey:
                            rep.add(0, pos if pos in ctx.obligations else f"exact_{cname}", kkey, round(float(s), 9),
                                    f"{key0}: sum w_i x_i^{d} = {float(s):.12g}, integral of x^{d} over [-1,1] = {float(e):.12g} "
                                    f"(series of the weights stops one term early; same defect at every "
                                    f"{'odd n >= 3, degree n-1' if cname == 'FejerFirst' else 'n >= 2, degree 2*((n+1)//2-1)'}; Coq: {ref})",
                                    {"rule": cname, "n": n, "degree": d, "expected": float(e), "reproduce": f"g={cname}({n}); (g.weights*g.points**{d}).sum()"})
                        ctx.count(f"known-defect:{cname}")
                        continue
                rep.add(n * 1000 + d, f"exact_{cname}", f"{key0}:degree={d}", round(float(s), 9),
                        f"{key0}: sum w_i {what.replace('d', str(d))} (x_i) = {float(s):.15g}, exact integral {float(e):.15g} (|diff| = {float(abs(s - e)):.3g}, rounding allowance {float(TOL_REL * S):.3g})",
                        {"rule": cname, "args": args_txt, "n": n, "degree": d, "expected": float(e), "kind": "moment",
                         "reproduce": f"g={key0}; sum(g.weights * weight(g.points) * g.points**{d})"})
        return nbad

    # ------------------------------------------------------------------ documented closed forms (implementation only)
    def check_closed_form(cname, g, n):
        if cname == "RectangleRuleSineEndPoints":   # Boyd: x_i = i/(n+1), w_i = 2/(n+1) sum_m sin(m pi x_i)(1-cos(m pi))/(m pi); q = 2x-1
            ref = []
            for i in range(1, n + 1):
                x = m.mpf(i) / (n + 1)
                w = m.mpf(2) / (n + 1) * sum(m.sin(j * m.pi * x) * (1 - m.cos(j * m.pi)) / (j * m.pi) for j in range(1, n + 1))
                ref.append((2 * x - 1, 2 * w))
        elif cname == "GaussChebyshevLobatto":      # x_i = cos((i-1) pi/(n-1)), w_i = pi/(n-1) (halved at the ends), times sqrt(1-x_i^2)
            ref = []
            for i in range(n, 0, -1):
                x = m.cos(m.mpf(i - 1) * m.pi / (n - 1))
                w = m.pi / (n - 1) / (2 if i in (1, n) else 1)
                ref.append((x, w * m.sqrt(1 - x * x)))
        elif cname == "UniformInteger":
            ref = [(m.mpf(i), m.mpf(1)) for i in range(n)]
        else:
            return
        for k, (x, w) in enumerate(ref):
            ctx.case(("closed", cname, n, k))
            if abs(m.mpf(float(g.points[k])) - x) > 1e-12 or abs(m.mpf(float(g.weights[k])) - w) > 1e-12:
                rep.add(n, f"shape_{cname}_closed_form", f"{cname}({n}):closed-form:{k}", [float(g.points[k]), float(g.weights[k])],
                        f"{cname}({n}): node/weight {k} = {g.points[k]!r}, {g.weights[k]!r}; the documented closed form gives {float(x)!r}, {float(w)!r}",
                        {"rule": cname, "n": n, "k": k, "expected": [float(x), float(w)], "reproduce": f"g={cname}({n}); g.points[{k}], g.weights[{k}]"})
                return

    # ================================================================== closed-form rules
    plain_specs = [
        ("Trapezoidal", og.Trapezoidal, False, 1), ("MidPoint", og.MidPoint, False, 1), ("Simpson", og.Simpson, True, 3),
        ("UniformInteger", og.UniformInteger, False, None), ("RectangleRuleSineEndPoints", og.RectangleRuleSineEndPoints, False, None),
        ("GaussChebyshevLobatto", og.GaussChebyshevLobatto, False, None), ("GaussChebyshev", og.GaussChebyshev, False, "cheb1"),
        ("ClenshawCurtis", og.ClenshawCurtis, False, "n-1"), ("FejerFirst", og.FejerFirst, False, "n-1"), ("FejerSecond", og.FejerSecond, False, "n-1"),
    ]
    nmax_m = 24 if ctx.quick else 64
    for cname, cls, odd, deg in plain_specs:
        for n in sizes(ctx, odd_only=odd, lo=3 if odd else 2):
            g = build(cls, n)
            if g is None:
                continue
            if not check_shape(cname, str(n), g, n):
                continue
            check_closed_form(cname, g, n)
            ctx.count(f"tie:{cname}")
            for k in range(n):
                case(goal_close(f"pts_{cname} {n} {k}", g.points[k]), "ev; fin", rule=cname, n=n, k=k, what="points", args=str(n))
                case(goal_close(f"wts_{cname} {n} {k}", g.weights[k]), "ev; fin", rule=cname, n=n, k=k, what="weights", args=str(n))
                ctx.case(("tie", cname, n, k), traces=2)
        if deg is None:
            continue
        for n in range(3 if odd else 2, nmax_m + 1):
            if odd and n % 2 == 0:
                continue
            g = build(cls, n)
            if g is None:
                continue
            if deg == "cheb1":
                check_moments(cname, str(n), g, n, 2 * n - 1, int_cheb1, lambda x: 1 / m.sqrt(1 - x * x), what="x^d/sqrt(1-x^2)")
            else:
                check_moments(cname, str(n), g, n, (n - 1) if deg == "n-1" else deg, int_legendre)

    mark('closed_form')
    # ================================================================== library-based Gauss rules
    def oracle_validate(name, ox, ow, n, exact, key):
        """Hypothesis of gauss_wrappers: the library rule is exact to degree 2n-1 for its weight function."""
        for d in range(2 * n):
            s, S = moment(ox, ow, d)
            ctx.case(("oracle", key, d))
            if abs(s - exact(d)) > TOL_REL * S:
                rep.add(n * 1000 + d, f"oracle_{name}", f"{key}:degree={d}", round(float(s), 9),
                        f"oracle hypothesis violated: {key} is not exact for degree {d} (sum {float(s):.15g}, exact {float(exact(d)):.15g})",
                        {"reproduce": key, "degree": d})
                return

    gl_sizes = sizes(ctx)
    for n in gl_sizes:
        g = build(og.GaussLegendre, n)
        if g is None:
            continue
        ox, ow = np.polynomial.legendre.leggauss(n)
        if check_shape("GaussLegendre", str(n), g, n):
            a, b = lit_array("lx", ox), lit_array("lw", ow)
            for k in range(n):
                case(goal_close(f"pts_GaussLegendre {a} {n} {k}", g.points[k]), "ev; fin", rule="GaussLegendre", n=n, k=k, what="points", args=str(n))
                case(goal_close(f"wts_GaussLegendre {a} {b} {n} {k}", g.weights[k]), "ev; fin", rule="GaussLegendre", n=n, k=k, what="weights", args=str(n))
                ctx.case(("tie", "GaussLegendre", n, k), traces=2)
        g2 = build(og.GaussChebyshevType2, n)
        if g2 is None:
            continue
        ux, uw = roots_chebyu(n)
        if check_shape("GaussChebyshevType2", str(n), g2, n):
            a, b = lit_array("ux", ux), lit_array("uw", uw)
            for k in range(n):
                case(goal_close(f"pts_GaussChebyshevType2 {a} {n} {k}", g2.points[k]), "ev; fin", rule="GaussChebyshevType2", n=n, k=k, what="points", args=str(n))
                case(goal_close(f"wts_GaussChebyshevType2 {a} {b} {n} {k}", g2.weights[k]), "ev; fin", rule="GaussChebyshevType2", n=n, k=k, what="weights", args=str(n))
                ctx.case(("tie", "GaussChebyshevType2", n, k), traces=2)
    alphas = [0.0, 0.5, -0.75] + [dyadic(rng, -0.9, 6.0, 3) for _ in range(1 if ctx.quick else 2)]
    for ai, al in enumerate(alphas):
        for n in [x for x in gl_sizes if x <= 12 or x in (16, 25)]:
            if ctx.quick and ai in (1, 2) and n not in (2, 5, 8):
                continue
            g = build(og.GaussLaguerre, n, al)
            if g is None:
                continue
            lx, lw = roots_genlaguerre(n, al)
            args = f"{n}, {al!r}"
            if check_shape("GaussLaguerre", args, g, n):
                a, b = lit_array("gx", lx), lit_array("gw", lw)
                for k in range(n):
                    case(goal_close(f"pts_GaussLaguerre {a} {rl(al)} {n} {k}", g.points[k]), "ev; fin", rule="GaussLaguerre", n=n, k=k, what="points", args=args)
                    case(goal_close(f"wts_GaussLaguerre {a} {b} {rl(al)} {n} {k}", g.weights[k]), "ev; fin", rule="GaussLaguerre", n=n, k=k, what="weights", args=args)
                    ctx.case(("tie", "GaussLaguerre", n, al, k), traces=2)
    nmax_o = 24 if ctx.quick else 40
    for n in range(2, nmax_o + 1):
        ox, ow = np.polynomial.legendre.leggauss(n)
        oracle_validate("leggauss", ox, ow, n, int_legendre, f"np.polynomial.legendre.leggauss({n})")
        ux, uw = roots_chebyu(n)
        oracle_validate("roots_chebyu", ux, uw, n, int_cheb2, f"scipy.special.roots_chebyu({n})")
        if not (np.all(np.diff(ox) > 0) and np.all(np.abs(ox) < 1) and np.all(np.diff(ux) > 0) and np.all(np.abs(ux) < 1)):
            rep.add(n, "oracle_nodes", f"oracle-nodes:{n}", None, f"library nodes for n={n} are not ascending inside (-1,1)", {})
        gl_, gu_ = build(og.GaussLegendre, n), build(og.GaussChebyshevType2, n)
        if gl_ is not None:
            check_moments("GaussLegendre", str(n), gl_, n, 2 * n - 1, int_legendre)
        if gu_ is not None:
            check_moments("GaussChebyshevType2", str(n), gu_, n, 2 * n - 1, int_cheb2, lambda x: m.sqrt(1 - x * x), what="sqrt(1-x^2) x^d")
    for al in sorted(set(alphas + [-0.5, -0.25, 1.0, 2.25, 7.5])):
        for n in (range(2, nmax_o + 1) if not ctx.quick else [2, 3, 4, 5, 8, 11, 14, 17, 20, 23]):
            lx, lw = roots_genlaguerre(n, al)
            oracle_validate("roots_genlaguerre", lx, lw, n, lambda d, al=al: m.gamma(d + m.mpf(al) + 1), f"scipy.special.roots_genlaguerre({n}, {al!r})")
            if not (np.all(np.diff(lx) > 0) and np.all(lx > 0)):
                rep.add(n, "oracle_nodes", f"oracle-nodes-laguerre:{n}:{al}", None, f"roots_genlaguerre({n},{al}) nodes are not ascending in (0,inf)", {})
            g = build(og.GaussLaguerre, n, al)
            if g is None:
                continue
            check_moments("GaussLaguerre", f"{n}, {al!r}", g, n, 2 * n - 1, lambda d, al=al: m.gamma(d + m.mpf(al) + 1),
                          lambda x, al=al: x ** m.mpf(al) * m.exp(-x), what="x^alpha exp(-x) x^d")

    mark('gauss')
    # ================================================================== variable-substitution rules
    maps = node_maps()
    for cname in SUBST:
        cls = getattr(og, cname)
        sig = [prm for nm, prm in inspect.signature(cls.__init__).parameters.items() if nm not in ("self", "npoints")]
        if len(sig) != 1 or sig[0].default is inspect.Parameter.empty:
            rep.add(0, f"subst_{cname}", f"{cname}:signature", str([q.name for q in sig]), f"{cname}.__init__ no longer takes (npoints, step=default)", {"rule": cname}, found=False)
            continue
        dflt = sig[0].default
        for n in sizes(ctx, odd_only=True, lo=3 if cname == "TanhSinh" else 1):
            mhalf = (n - 1) // 2
            hmax = min(1.0, 2.5 / max(mhalf, 1))
            hs = [dyadic(rng, hmax / 8, hmax, 6)]
            if float(dflt) * mhalf <= 2.5 and n <= 12:
                hs.append(float(dflt))
            for h in hs:
                g = build(cls, n, h)
                if g is None:
                    continue
                args = f"{n}, {h!r}"
                if not check_shape(cname, args, g, n):
                    continue
                ctx.count(f"tie:{cname}")
                for k in range(n):
                    case(goal_close(f"pts_{cname} {rl(h)} {n} {k}", g.points[k]), "ev; fin", rule=cname, n=n, k=k, what="points", args=args)
                    case(goal_close(f"wts_{cname} {rl(h)} {n} {k}", g.weights[k]), "ev; fin", rule=cname, n=n, k=k, what="weights", args=args)
                    ctx.case(("tie", cname, n, h, k), traces=2)
                    # property oracle: documented node map and step * derivative
                    t = m.mpf(k - mhalf) * m.mpf(h)
                    x_ref = maps[cname](t)
                    w_ref = m.mpf(h) * m.diff(maps[cname], t)
                    if abs(m.mpf(float(g.points[k])) - x_ref) > 1e-11 * (1 + abs(x_ref)):
                        rep.add(n, f"subst_{cname}", f"{cname}({args}):node:{k}", float(g.points[k]),
                                f"{cname}({args}): node {k} = {g.points[k]!r}, documented node map gives {float(x_ref)!r}",
                                {"rule": cname, "args": args, "k": k, "expected": float(x_ref), "kind": "subst-node"})
                    if abs(m.mpf(float(g.weights[k])) - w_ref) > 1e-9 * (1 + abs(w_ref)):
                        rep.add(n, f"subst_{cname}", f"{cname}({args}):weight:{k}", float(g.weights[k]),
                                f"{cname}({args}): weight {k} = {g.weights[k]!r}, step * derivative of the node map = {float(w_ref)!r}",
                                {"rule": cname, "args": args, "k": k, "expected": float(w_ref), "kind": "subst-weight"})

    mark('subst')
    # ================================================================== Trefethen maps
    leaf_pts = set()

    def leaf_case(fname, arg_txt, x, y, tac, **kw):
        case(goal_close(f"{fname} {arg_txt}{rl(x)}", y), tac, **kw)

    def strip_tactic(s, which):
        if abs(s) == 1.0:
            pre = "strip_p1" if s > 0 else "strip_m1"
            return f"{pre}; " + ("mask_true; " if which == "d" else "") + "unfold tanh, sinh, cosh; fin"
        near = abs(abs(s) - 1.0) <= 1e-8
        pre = f"strip_in {rl(s)}"
        if which == "d":
            pre += "; " + ("mask_true" if near else "mask_false")
        return pre + "; unfold tanh, sinh, cosh; fin"

    base_rules = [("ClenshawCurtis", og.ClenshawCurtis), ("GaussChebyshevType2", og.GaussChebyshevType2)]
    general_bases = [("GaussLegendre", og.GaussLegendre), ("FejerFirst", og.FejerFirst), ("MidPoint", og.MidPoint)]
    tref_sizes = [n for n in sizes(ctx) if n <= 12] + ([25] if not ctx.quick else [])
    for n in tref_sizes:
        for d in (1, 5, 9):
            combos = [("TrefethenCC", og.TrefethenCC, og.ClenshawCurtis, (n, d)), ("TrefethenGC2", og.TrefethenGC2, og.GaussChebyshevType2, (n, d))]
            bname, bcls = general_bases[(n + d) % len(general_bases)]
            combos.append((f"TrefethenGeneral[{bname}]", og.TrefethenGeneral, bcls, (n, bcls, d)))
            coefs = asin_taylor_map(d)
            for tname, tcls, bcls2, a in combos:
                g = build(tcls, *a)
                b = build(bcls2, n)
                if g is None or b is None:
                    continue
                args = f"{n}, d={d}"
                cname = tname.split("[")[0]
                if not check_shape(cname, f"{args}" + (f", {tname}" if "[" in tname else ""), g, n):
                    continue
                f, df = {1: (lambda x: x, lambda x: 1.0 + 0 * x), 5: (og._g2, og._derg2), 9: (og._g3, og._derg3)}[d]
                # composition tie: exact float equality with the leaf functions applied to the base grid
                ctx.case(("compose", tname, n, d))
                if not (np.array_equal(g.points, f(b.points)) and np.array_equal(g.weights, df(b.points) * b.weights if d != 1 else b.weights)):
                    rep.add(n, "corr_trefethen_compose", f"{tname}({args}):compose", None,
                            f"{tname}({args}) is not leaf(base.points), dleaf(base.points) * base.weights with the modelled leaves", {"reproduce": f"{tname}({args})"}, found=False)
                # property oracle: normalised Taylor polynomial of arcsin of degree d and its derivative
                for k in range(n):
                    xb = Fraction(float(b.points[k]))
                    px = sum(c * xb ** (2 * j + 1) for j, c in enumerate(coefs))
                    dx = sum(c * (2 * j + 1) * xb ** (2 * j) for j, c in enumerate(coefs))
                    wexp = dx * Fraction(float(b.weights[k]))
                    if abs(Fraction(float(g.points[k])) - px) > Fraction(1, 10 ** 12) or abs(Fraction(float(g.weights[k])) - wexp) > Fraction(1, 10 ** 11) * (1 + abs(wexp)):
                        rep.add(n, "subst_trefethen_poly", f"{tname}({args}):{k}", [float(g.points[k]), float(g.weights[k])],
                                f"{tname}({args}): node/weight {k} = {g.points[k]!r}, {g.weights[k]!r}; arcsin-Taylor map of degree {d} gives {float(px)!r}, {float(wexp)!r}",
                                {"rule": tname, "args": args, "k": k, "expected": [float(px), float(wexp)], "kind": "trefethen"})
                # leaf translation validation at the float arguments actually used
                if d != 1 and (not ctx.quick or n <= 7):
                    for k in range(n):
                        x = float(b.points[k])
                        for fname, fn in (("g2", og._g2), ("derg2", og._derg2)) if d == 5 else (("g3", og._g3), ("derg3", og._derg3)):
                            if (fname, x) not in leaf_pts:
                                leaf_pts.add((fname, x))
                                leaf_case(fname, "", x, float(fn(np.array([x]))[0]), "ev; fin", rule="_" + fname, n=n, k=k, what="leaf", args=repr(x))
                                ctx.case(("leaf", fname, x))
            if d != 1 and (not ctx.quick or n <= 8):
                g = build(og.TrefethenCC, n, d)
                if g is None:
                    continue
                for k in range(n):
                    case(goal_close(f"pts_TrefethenCC {d} {n} {k}", g.points[k]), "ev; fin", rule="TrefethenCC", n=n, k=k, what="points", args=f"{n}, {d}")
                    case(goal_close(f"wts_TrefethenCC {d} {n} {k}", g.weights[k]), "ev; fin", rule="TrefethenCC", n=n, k=k, what="weights", args=f"{n}, {d}")
                    ctx.case(("tie", "TrefethenCC", n, d, k), traces=2)
        # strip maps
        rhos = [1.1] + ([dyadic(rng, 1.05, 2.0, 5)] if (not ctx.quick or n in (3, 8)) else [])
        # rho far from the default: near rho = 1.1 several terms of the map are at rounding level (tanh(tau pi/2) == 1.0 in
        # double precision), so a wrong constant in the map or its derivative only shows for rho >~ 2
        if not ctx.quick or n in (2, 5, 6, 11):
            rhos += [3.0, dyadic(rng, 2.0, 12.0, 3)]
        for rho in rhos:
            gm = gstrip_mp(m.mpf(rho))
            combos = [("TrefethenStripCC", og.TrefethenStripCC, og.ClenshawCurtis, (n, rho)), ("TrefethenStripGC2", og.TrefethenStripGC2, og.GaussChebyshevType2, (n, rho))]
            bname, bcls = general_bases[n % len(general_bases)]
            combos.append((f"TrefethenStripGeneral[{bname}]", og.TrefethenStripGeneral, bcls, (n, bcls, rho)))
            for tname, tcls, bcls2, a in combos:
                g = build(tcls, *a)
                b = build(bcls2, n)
                if g is None or b is None:
                    continue
                args = f"{n}, rho={rho!r}"
                cname = tname.split("[")[0]
                if not check_shape(cname, args + (f", {tname}" if "[" in tname else ""), g, n):
                    continue
                ctx.case(("compose", tname, n, rho))
                if not (np.array_equal(g.points, og._gstrip(rho, b.points)) and np.array_equal(g.weights, og._dergstrip(rho, b.points) * b.weights)):
                    rep.add(n, "corr_trefethen_compose", f"{tname}({args}):compose", None,
                            f"{tname}({args}) is not _gstrip(rho, base.points), _dergstrip(rho, base.points) * base.weights", {"reproduce": f"{tname}({args})"}, found=False)
                for k in range(n):
                    s = float(b.points[k])
                    sm = m.mpf(s)
                    x_ref = gm(sm)
                    if abs(s) == 1.0:
                        m.mp.dps = 100
                        eps = m.mpf(10) ** -40
                        d_ref = (gm(sm) - gm(sm - m.sign(sm) * eps)) / (m.sign(sm) * eps)
                        m.mp.dps = 50
                        dtol = 1e-6
                    else:
                        d_ref = m.diff(gm, sm, h=m.mpf(10) ** -20 * max(1e-6, 1 - abs(s)))
                        dtol = 1e-8
                    w_ref = d_ref * m.mpf(float(b.weights[k]))
                    if abs(m.mpf(float(g.points[k])) - x_ref) > 1e-10 or abs(m.mpf(float(g.weights[k])) - w_ref) > dtol * abs(w_ref) + m.mpf(10) ** -17:
                        rep.add(n, "subst_trefethen_strip", f"{tname}({args}):{k}", [float(g.points[k]), float(g.weights[k])],
                                f"{tname}({args}): node/weight {k} = {g.points[k]!r}, {g.weights[k]!r}; strip map and its derivative give {float(x_ref)!r}, {float(w_ref)!r}",
                                {"rule": tname, "args": args, "k": k, "expected": [float(x_ref), float(w_ref)], "kind": "strip"})
                    if ("gstrip", rho, s) not in leaf_pts and (not ctx.quick or n <= 7):
                        leaf_pts.add(("gstrip", rho, s))
                        leaf_case("gstrip", rl(rho) + " ", s, float(og._gstrip(rho, np.array([s]))[0]), strip_tactic(s, "g"), rule="_gstrip", n=n, k=k, what="leaf", args=f"{rho!r}, {s!r}")
                        leaf_case("dergstrip", rl(rho) + " ", s, float(og._dergstrip(rho, np.array([s]))[0]), strip_tactic(s, "d"), rule="_dergstrip", n=n, k=k, what="leaf", args=f"{rho!r}, {s!r}")
                        ctx.case(("leaf", "strip", rho, s), traces=2)
    # random leaf arguments (incl. one inside the end-point mask of _dergstrip)
    for _ in range(6 if ctx.quick else 30):
        x = dyadic(rng, -1.0, 1.0, 20)
        for fname, fn in (("g2", og._g2), ("derg2", og._derg2), ("g3", og._g3), ("derg3", og._derg3)):
            leaf_case(fname, "", x, float(fn(np.array([x]))[0]), "ev; fin", rule="_" + fname, n=0, k=0, what="leaf", args=repr(x))
        rho = dyadic(rng, 1.05, 3.0, 6)
        if abs(x) < 1:
            leaf_case("gstrip", rl(rho) + " ", x, float(og._gstrip(rho, np.array([x]))[0]), strip_tactic(x, "g"), rule="_gstrip", n=0, k=0, what="leaf", args=f"{rho!r}, {x!r}")
            leaf_case("dergstrip", rl(rho) + " ", x, float(og._dergstrip(rho, np.array([x]))[0]), strip_tactic(x, "d"), rule="_dergstrip", n=0, k=0, what="leaf", args=f"{rho!r}, {x!r}")
    for s in (1.0 - 2.0 ** -30, -(1.0 - 2.0 ** -28)):
        leaf_case("dergstrip", rl(1.25) + " ", s, float(og._dergstrip(1.25, np.array([s]))[0]), strip_tactic(s, "d"), rule="_dergstrip", n=0, k=0, what="leaf", args=f"1.25, {s!r}")

    mark('trefethen')
    # ================================================================== argument forms (implementation only, always run)
    # an admissible size / parameter that arrives as a NumPy scalar (element of np.arange, result of array arithmetic)
    # denotes the same rule as the Python number of equal value
    def same_rule(cname, make, forms, n):
        try:
            ref = raw_build(*make(n))
        except Exception:  # noqa: BLE001 - reported by the plain passes
            return
        for label, conv in forms:
            ctx.case(("argform", cname, label, n))
            args_txt = label
            try:
                gg = raw_build(*make(n, conv))
                same = len(gg.points) == n and np.array_equal(gg.points, ref.points) and np.array_equal(gg.weights, ref.weights)
                obs = None if same else [float(x) for x in np.asarray(gg.weights, dtype=float)[:3]]
                why = "differs from the rule built from the Python numbers of equal value"
            except Exception as e:  # noqa: BLE001
                same, obs, why = False, type(e).__name__, f"raises {type(e).__name__}: {str(e)[:100]}"
            if not same:
                rep.add(n, f"shape_{cname}_argument_form", f"{cname}({args_txt}):argform", obs,
                        f"{cname}({args_txt}) {why}; admissible arguments given as NumPy scalars must return the same {n}-point rule",
                        {"rule": cname, "args": args_txt, "reproduce": f"grid.onedgrid.{cname}({args_txt})"})

    int_forms = [("np.int64", np.int64), ("np.int32", np.int32), ("np.intp", np.intp)]
    all_classes = SUBST + ORACLE + PLAIN + TREF + STRIP
    for cname in all_classes:
        cls = getattr(og, cname, None)
        if cls is None:
            continue
        extra = [prm for nm, prm in inspect.signature(cls.__init__).parameters.items() if nm not in ("self", "npoints")]
        for n in (7, 11) if cname in SUBST + ["Simpson"] else (6, 7):
            if cname in ("TrefethenGeneral", "TrefethenStripGeneral"):
                mk = lambda nn, cv=int, cls=cls: (cls, cv(nn), og.MidPoint)  # noqa: E731
                forms = [(f"{lbl}({n}), MidPoint", cv) for lbl, cv in int_forms]
                same_rule(cname, mk, forms, n)
                continue
            mk = lambda nn, cv=int, cls=cls: (cls, cv(nn))  # noqa: E731
            same_rule(cname, mk, [(f"{lbl}({n})", cv) for lbl, cv in int_forms], n)
            # extra parameter (alpha, delta, h, rho as np.float64; d as np.int64), size as np.int64 as well
            if len(extra) == 1 and extra[0].default is not inspect.Parameter.empty:
                dv = extra[0].default
                val = {"alpha": 0.5, "d": 5}.get(extra[0].name, dv)
                pconv = np.int64 if isinstance(val, int) and not isinstance(val, bool) else np.float64
                mk2 = lambda nn, cv=None, cls=cls, val=val, pconv=pconv: (cls, nn, val) if cv is None else (cls, np.int64(nn), pconv(val))  # noqa: E731
                same_rule(cname, mk2, [(f"np.int64({n}), {pconv.__name__}({val!r})", True)], n)
    mark('argforms')
    # ================================================================== large-n pass (implementation only, always run)
    # shape at sizes far beyond the tie, and weight = base weight * phi'(node) / step * phi'(t_k) at the outermost nodes on
    # each side and a few interior ones (an end-point special case that swallows interior nodes only shows up for n >~ 700)
    def probe_idx(n):
        return sorted({0, 1, 2, 3, n - 4, n - 3, n - 2, n - 1, n // 3, n // 2} & set(range(n)))

    big = [700, 1000, 2000, 5000]
    for cname, cls, odd in [(c, k, o) for c, k, o, _ in plain_specs]:
        for n in big:
            n1 = n + 1 if odd else n
            if cname == "RectangleRuleSineEndPoints" and n > 2000:
                continue
            g = build(cls, n1)
            if g is not None:
                check_shape(cname, str(n1), g, n1)
    for cname, cls, nn in (("GaussLegendre", og.GaussLegendre, 700), ("GaussChebyshevType2", og.GaussChebyshevType2, 5000)):
        g = build(cls, nn)
        if g is not None:
            check_shape(cname, str(nn), g, nn)
    for cname in SUBST:
        cls = getattr(og, cname)
        for n in big:
            n1, mhalf = n + 1, n // 2
            h = float(Fraction(5, 2 * mhalf))
            g = build(cls, n1, h)
            args = f"{n1}, {h!r}"
            if g is None or not check_shape(cname, args, g, n1):
                continue
            for k in probe_idx(n1):
                t = m.mpf(k - mhalf) * m.mpf(h)
                x_ref, w_ref = maps[cname](t), m.mpf(h) * m.diff(maps[cname], t)
                ctx.case(("large", cname, n1, k))
                if abs(m.mpf(float(g.points[k])) - x_ref) > 1e-11 * (1 + abs(x_ref)) or abs(m.mpf(float(g.weights[k])) - w_ref) > 1e-7 * abs(w_ref):
                    rep.add(n1, f"subst_{cname}", f"{cname}({args}):large:{k}", [float(g.points[k]), float(g.weights[k])],
                            f"{cname}({args}): node/weight {k} = {g.points[k]!r}, {g.weights[k]!r}; node map and step * derivative give {float(x_ref)!r}, {float(w_ref)!r}",
                            {"rule": cname, "args": args, "k": k, "expected": [float(x_ref), float(w_ref)], "kind": "subst-large"})
    big_bases = [("ClenshawCurtis", og.ClenshawCurtis), ("GaussChebyshevType2", og.GaussChebyshevType2), ("MidPoint", og.MidPoint)]
    base_cache = {}
    for n in big:
        for bname, bcls in big_bases:
            base_cache[(bname, n)] = build(bcls, n)
    for n in big:
        for d in (5, 9):
            coefs = asin_taylor_map(d)
            for (tname, tcls), (bname, bcls) in zip((("TrefethenCC", og.TrefethenCC), ("TrefethenGC2", og.TrefethenGC2), ("TrefethenGeneral", og.TrefethenGeneral)), big_bases):
                if (n, d) not in ((700, 5), (1000, 9), (2000, 5), (5000, 9)):
                    continue
                b = base_cache[(bname, n)]
                g = build(tcls, n, d) if tname != "TrefethenGeneral" else build(tcls, n, bcls, d)
                args = f"{n}, d={d}" + (f", {bname}" if tname == "TrefethenGeneral" else "")
                if g is None or b is None or not check_shape(tname, args, g, n):
                    continue
                for k in probe_idx(n):
                    xb = Fraction(float(b.points[k]))
                    px = sum(c * xb ** (2 * j + 1) for j, c in enumerate(coefs))
                    wexp = sum(c * (2 * j + 1) * xb ** (2 * j) for j, c in enumerate(coefs)) * Fraction(float(b.weights[k]))
                    ctx.case(("large", tname, n, d, k))
                    if abs(Fraction(float(g.points[k])) - px) > Fraction(1, 10 ** 12) or abs(Fraction(float(g.weights[k])) - wexp) > Fraction(1, 10 ** 7) * abs(wexp):
                        rep.add(n, "subst_trefethen_poly", f"{tname}({args}):large:{k}", [float(g.points[k]), float(g.weights[k])],
                                f"{tname}({args}): node/weight {k} = {g.points[k]!r}, {g.weights[k]!r}; arcsin-Taylor map of degree {d} gives {float(px)!r}, {float(wexp)!r}",
                                {"rule": tname, "args": args, "k": k, "expected": [float(px), float(wexp)], "kind": "trefethen-large"})
        for rho in (1.02, 1.1, 1.4) + ((5.0, 10.0) if n == 700 else ()):
            gm = gstrip_mp(m.mpf(rho))
            for (tname, tcls), (bname, bcls) in zip((("TrefethenStripCC", og.TrefethenStripCC), ("TrefethenStripGC2", og.TrefethenStripGC2), ("TrefethenStripGeneral", og.TrefethenStripGeneral)), big_bases):
                b = base_cache[(bname, n)]
                g = build(tcls, n, rho) if tname != "TrefethenStripGeneral" else build(tcls, n, bcls, rho)
                args = f"{n}, rho={rho!r}" + (f", {bname}" if tname == "TrefethenStripGeneral" else "")
                if g is None or b is None or not check_shape(tname, args, g, n):
                    continue
                for k in probe_idx(n):
                    sf = float(b.points[k])
                    sm = m.mpf(sf)
                    if abs(sf) == 1.0:   # true end point: one-sided limit of the derivative
                        m.mp.dps = 100
                        eps = m.mpf(10) ** -40
                        d_ref = (gm(sm) - gm(sm - m.sign(sm) * eps)) / (m.sign(sm) * eps)
                        m.mp.dps = 50
                        tolw = 1e-6
                    else:
                        d_ref = m.diff(gm, sm, h=m.mpf(10) ** -20 * (1 - abs(sm)))
                        tolw = 1e-7
                    x_ref, w_ref = gm(sm), d_ref * m.mpf(float(b.weights[k]))
                    ctx.case(("large", tname, n, rho, k))
                    if abs(m.mpf(float(g.points[k])) - x_ref) > 1e-10 or abs(m.mpf(float(g.weights[k])) - w_ref) > tolw * abs(w_ref):
                        rep.add(n, "subst_trefethen_strip", f"{tname}({args}):large:{k}", [float(g.points[k]), float(g.weights[k])],
                                f"{tname}({args}): node {k} (base node {sf!r}): node/weight = {g.points[k]!r}, {g.weights[k]!r}; base weight * derivative of the strip map = {float(w_ref)!r} "
                                f"(relative error {float(abs(m.mpf(float(g.weights[k])) - w_ref) / abs(w_ref)):.3g})",
                                {"rule": tname, "args": args, "k": k, "expected": [float(x_ref), float(w_ref)], "kind": "strip-large",
                                 "reproduce": f"g={tname}({args.replace('rho=', '')}); g.weights[{k}]"})
    base_cache.clear()
    mark('large_n')
    # exactness far beyond the sizes of the moment pass, in the Chebyshev basis (a monomial x^d of large degree has an
    # exponentially small component on the top nominal degrees, T_m does not): sizes around powers of two and round decimal
    # numbers (-1..+3: odd and even, below/at/above any block size an implementation may switch at) plus random ones
    def cheb_exact(cname, g, n, degs, exact, wfun=None, what="T_m"):
        x, w = np.asarray(g.points, dtype=float), np.asarray(g.weights, dtype=float)
        th = np.arccos(np.clip(x, -1.0, 1.0))
        fac = w * (wfun(x) if wfun is not None else 1.0)
        for md in sorted(set(d for d in degs if d >= 0)):
            vals = fac * np.cos(md * th)
            sm_, S_ = math.fsum(vals), math.fsum(np.abs(vals))
            e = exact(md)
            ctx.case(("cheb", cname, n, md))
            if not abs(sm_ - e) <= 1e-9 * max(S_, 1.0):
                if cname == "FejerSecond" and truncated.get(cname) and md == 2 * ((n + 1) // 2 - 1):
                    ctx.count("known-defect:FejerSecond")   # the listed defect: exactly this degree for every n
                    continue
                rep.add(n * 1000 + md, f"exact_{cname}", f"{cname}({n}):chebyshev-degree={md}", round(float(sm_), 12),
                        f"{cname}({n}): sum w_i {what.replace('m', str(md))}(x_i) = {sm_:.15g}, exact integral {e:.15g} (|diff| = {abs(sm_ - e):.3g}, rounding allowance {1e-9 * max(S_, 1.0):.3g})",
                        {"rule": cname, "n": n, "chebyshev_degree": md, "expected": e, "kind": "chebyshev-moment",
                         "reproduce": f"g={cname}({n}); t=np.arccos(g.points); (g.weights*np.cos({md}*t)).sum()"})

    int_T = lambda md: 0.0 if md % 2 else 2.0 / (1.0 - md * md)                       # noqa: E731  int T_m
    int_T_w1 = lambda md: math.pi if md == 0 else 0.0                                  # noqa: E731  int T_m / sqrt(1-x^2)
    int_T_w2 = lambda md: {0: math.pi / 2, 2: -math.pi / 4}.get(md, 0.0)              # noqa: E731  int T_m sqrt(1-x^2)
    edges = [64, 100, 128, 200, 256, 500, 512, 1000, 1024, 2000, 2048]
    exact_sizes = sorted({N + d for N in edges for d in (-1, 0, 1, 2, 3)} | {rng.randint(65, 2100) for _ in range(8)})
    for n in exact_sizes:
        top = lambda D: [D - i for i in range(6)] + [0, 1, 2, 3, D // 2, D // 2 + 1] + [rng.randint(0, D) for _ in range(3)]  # noqa: E731
        for cname, cls in (("ClenshawCurtis", og.ClenshawCurtis), ("FejerFirst", og.FejerFirst), ("FejerSecond", og.FejerSecond)):
            g = build(cls, n)
            if g is not None and check_shape(cname, str(n), g, n):
                cheb_exact(cname, g, n, top(n - 1), int_T)
        g = build(og.GaussChebyshev, n)
        if g is not None and check_shape("GaussChebyshev", str(n), g, n):
            cheb_exact("GaussChebyshev", g, n, top(2 * n - 1), int_T_w1, lambda x: 1.0 / np.sqrt(1.0 - x * x), what="T_m/sqrt(1-x^2)")
        g = build(og.GaussChebyshevType2, n)
        if g is not None and check_shape("GaussChebyshevType2", str(n), g, n):
            cheb_exact("GaussChebyshevType2", g, n, top(2 * n - 1), int_T_w2, lambda x: np.sqrt(1.0 - x * x), what="sqrt(1-x^2) T_m")
        if n <= 260:
            g = build(og.GaussLegendre, n)
            if g is not None and check_shape("GaussLegendre", str(n), g, n):
                cheb_exact("GaussLegendre", g, n, top(2 * n - 1), int_T)
        for cname, cls, deg in (("Trapezoidal", og.Trapezoidal, 1), ("MidPoint", og.MidPoint, 1), ("Simpson", og.Simpson, 3)):
            n1 = n + 1 if (cname == "Simpson" and n % 2 == 0) else n
            g = build(cls, n1)
            if g is not None and check_shape(cname, str(n1), g, n1):
                cheb_exact(cname, g, n1, range(deg + 1), int_T)
    mark('large_exact')
    # ================================================================== model vs implementation inside Coq
    # two groups (cases that need the literal library arrays carry the big header), interleaved shards, and a second
    # pass over the failures in small shards so that a shard that timed out on a loaded machine is not a disagreement
    hdr_plain, hdr_full = header([]), header(defs)
    if not tie_on:
        cases, meta = [], []
    need = [any(nm in g for nm in ("lx_", "lw_", "ux_", "uw_", "gx_", "gw_")) for g, _ in cases]
    bad = []
    for gname, hdr, idxs in (("C01_cases", hdr_plain, [i for i in range(len(cases)) if not need[i]]),
                             ("C01_cases_lib", hdr_full, [i for i in range(len(cases)) if need[i]])):
        if not idxs:
            continue
        nshard = max(1, min(64, math.ceil(len(idxs) / 220)))
        order = sorted(range(len(idxs)), key=lambda j: (j % nshard, j))  # spread the heavy rules over all shards
        first = ctx.coq_tactic_cases(gname, hdr, [cases[idxs[j]] for j in order], shard=math.ceil(len(idxs) / nshard), timeout=900)
        fail1 = [idxs[order[j]] for j in first]
        if fail1:
            second = ctx.coq_tactic_cases(gname + "_retry", hdr, [cases[i] for i in fail1], shard=25, timeout=900)
            bad += [fail1[j] for j in second]
            ctx.cov.setdefault("retried_cases", 0)
            ctx.cov["retried_cases"] += len(fail1)
    bad.sort()
    ctx.cov["interval_cases"] = len(cases)
    mark('interval')
    ctx.cov['stage_seconds'] = tm
    seen = set()
    for i in bad:
        mt = meta[i]
        tag = (mt["rule"], mt["args"], mt["what"])
        if tag in seen:
            continue
        seen.add(tag)
        if mt["what"] == "leaf":
            rep.add(0, f"corr_leaf{mt['rule']}", f"leaf:{mt['rule']}({mt['args']})", None,
                    f"translated leaf {mt['rule']} is not within 1e-9 of the implementation at ({mt['args']})", {"coq_goal": cases[i][0][:400]}, found=False)
        else:
            rep.add(mt["n"], f"corr_{mt['rule']}", f"model:{mt['rule']}({mt['args']}):{mt['what']}:{mt['k']}", None,
                    f"{mt['rule']}({mt['args']}).{mt['what']}[{mt['k']}] is not within 1e-9 of the model value (hand model no longer describes the code)",
                    {"coq_goal": cases[i][0][:400], "rule": mt["rule"], "args": mt["args"]}, found=False)

    rep.flush()
    if gen_err is not None:
        cls_name = str(gen_err).split(":")[0].strip()
        ctx.broken_tie("translator(onedgrid.py)", gen_err, rep.candidates([cls_name]))
    elif tie_err is not None:
        ctx.broken_tie("model(C01_model.v)", tie_err, rep.candidates([]))
    for cname_s, n_s in (("ClenshawCurtis", 7), ("FejerFirst", 3), ("FejerSecond", 3)):
        try:
            gs = raw_build(getattr(og, cname_s), n_s)
            ctx.sample({"rule": cname_s, "n": n_s, "weights": [float(x) for x in gs.weights], "sum w x^2": float((gs.weights * gs.points ** 2).sum()), "exact": 2 / 3})
        except Exception:  # noqa: BLE001 - reported above
            pass
    ctx.cov["rule"] = (
        "tie: every node and every weight of every rule class at every size n = 2..12 (odd sizes for the odd-only rules; thorough adds "
        "13,16,17,25,41,60) is enclosed by `interval` within 1e-9(1+|y|) of the Coq model value; extra parameters "
        "(alpha, delta, h, rho) are random dyadics plus the defaults, d in {1,5,9}; library arrays (leggauss, roots_chebyu, roots_genlaguerre) "
        "are passed to the model as exact literals; Trefethen wrappers by exact float equality of the composition + leaf enclosures at the "
        "arguments used; distinct = (rule, parameters, n, k, points|weights).  search: mpmath (50 digits) moments of the implementation's "
        "float nodes/weights against the exact integrals for every degree up to the nominal one, n <= 24 (quick) / 64 (thorough); "
        "node count, strict ascent, domain; weights against step * mpmath.diff of the documented node maps")
    ctx.trusted += [
        "translator props/c01_translate.py (on vlib/py2coq_real): scalar leaves, fail closed; validated by interval enclosures at the float arguments used",
        "hand models coq/C01/C01_model.v of the array-level constructors, tied by interval correspondence at the sampled sizes (all k)",
        "oracle hypothesis (validated each run, n <= 24/40, all degrees <= 2n-1, mpmath): np.polynomial.legendre.leggauss(n) is exact for x^d on [-1,1]",
        "oracle hypothesis (validated each run): scipy.special.roots_chebyu(n) is exact for sqrt(1-x^2) x^d on [-1,1]",
        "oracle hypothesis (validated each run): scipy.special.roots_genlaguerre(n, alpha) is exact for x^alpha exp(-x) x^d on [0,inf)",
        "numpy.polynomial.chebyshev.chebgauss modelled in closed form (NumPy's implementation is the closed form); tied by interval correspondence",
        f"tolerances: interval tie 1e-9(1+|y|); moments {TOL_REL} * sum|w_i g(x_i)| (measured rounding noise <= 3e-13 for n <= 64)",
        "floating-point rounding inside the constructors is outside the model (theorems are over R)",
    ]
    ctx.assumptions += ["admissible n: >= 2 (odd where the constructor demands it); extra parameters in the ranges where all values stay finite in double precision",
                        "Trefethen strip map: monotonicity and the end-point limit of _dergstrip are checked numerically only (theorem subst_rules_trefethen_strip_partial)"]


# ====================================================================================================== replay
def replay(rp):
    import json

    import grid.onedgrid as og

    print(json.dumps({k: v for k, v in rp.items() if k != "traceback"}, indent=1, default=str)[:3000])
    if rp.get("rule") in ("FejerFirst", "FejerSecond", "ClenshawCurtis", "Trapezoidal", "MidPoint", "Simpson", "GaussLegendre") and "degree" in rp and "n" in rp:
        g = build(getattr(og, rp["rule"]), rp["n"])
        s, S = moment(g.points, g.weights, rp["degree"])
        e = int_legendre(rp["degree"])
        print("sum w x^d =", float(s), " exact =", float(e))
        return 1 if abs(s - e) > TOL_REL * S else 0
    print("reproduce:", rp.get("reproduce", "(see text)"))
    return 0
