"""C01 — every 1-D quadrature rule is exact on its polynomial class, for every size.  (work in progress header)
"""
from __future__ import annotations

import ast

from props import c01_translate as T
from vlib import py2coq_real as P
from vlib.core import SRC, Ctx

SUBST = ["TanhSinh", "ExpSinh", "LogExpSinh", "ExpExp", "SingleTanh", "SingleExp", "SingleArcSinhExp"]
ORACLE = ["GaussLaguerre", "GaussLegendre", "GaussChebyshev", "GaussChebyshevType2"]
PLAIN = ["UniformInteger", "GaussChebyshevLobatto", "Trapezoidal", "RectangleRuleSineEndPoints", "Simpson", "MidPoint",
         "ClenshawCurtis", "FejerFirst", "FejerSecond"]
TREF = ["TrefethenCC", "TrefethenGC2", "TrefethenGeneral"]
STRIP = ["TrefethenStripCC", "TrefethenStripGC2", "TrefethenStripGeneral"]
LEAF_FUNCS = [("_g2", "g2"), ("_derg2", "derg2"), ("_g3", "g3"), ("_derg3", "derg3"), ("_gstrip", "gstrip")]


def gen(ctx: Ctx):
    src = (SRC / "onedgrid.py").read_text()
    tree = ast.parse(src)
    classes = {c.name: c for c in tree.body if isinstance(c, ast.ClassDef)}
    funcs = {f.name: f for f in tree.body if isinstance(f, ast.FunctionDef)}
    known = set(SUBST + ORACLE + PLAIN + TREF + STRIP)
    extra = sorted(set(classes) - known)
    if extra:
        raise P.Unsupported(f"onedgrid.py defines rule classes without a model: {extra}")
    out = [P.HEADER, "(* generated from src/grid/onedgrid.py on every run; do not edit *)"]
    units, info = [], {}
    for py, coq in LEAF_FUNCS:
        if py not in funcs:
            raise P.Unsupported(f"function {py} not found")
        txt, _ = T.plain_function(src, funcs[py], coq)
        out.append(txt)
        units.append(T.unit(src, funcs[py], py))
    if "_dergstrip" not in funcs:
        raise P.Unsupported("function _dergstrip not found")
    txt, _ = T.masked_function(src, funcs["_dergstrip"], "dergstrip")
    out.append(txt)
    units.append(T.unit(src, funcs["_dergstrip"], "_dergstrip"))
    for c in SUBST + ORACLE + PLAIN + TREF + STRIP:
        if c not in classes:
            raise P.Unsupported(f"class {c} not found")
    for c in SUBST:
        txt, inf = T.subst_ctor(src, classes[c])
        out.append(txt)
        info[c] = inf
        units.append(T.unit(src, T._init_of(classes[c]), f"{c}.__init__", guards=inf["guards"], kind="translated leaf + hand index model"))
    for c in ORACLE:
        txt, inf = T.oracle_ctor(src, classes[c])
        out.append(txt)
        info[c] = inf
        units.append(T.unit(src, T._init_of(classes[c]), f"{c}.__init__", guards=inf["guards"], kind="library routine (oracle) + translated rescaling"))
    for c in PLAIN:
        inf = T.plain_ctor_info(src, classes[c])
        info[c] = inf
        units.append(T.unit(src, T._init_of(classes[c]), f"{c}.__init__", guards=inf["guards"], kind="hand model"))
    for c in TREF + STRIP:
        inf = T.trefethen_ctor(src, classes[c], c in STRIP)
        info[c] = inf
        units.append(T.unit(src, T._init_of(classes[c]), f"{c}.__init__", kind="composition checked verbatim"))
    ctx.gen("C01_gen.v", "\n".join(out) + "\n", units)
    return info


def run(ctx: Ctx):
    info = gen(ctx)
    ctx.copy_coq("C01")
    status = ctx.coq_build()
    ctx.register_props(status)
