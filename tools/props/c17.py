"""C17 — closed-form Coulomb potentials of Gaussian densities.

gen:   coulomb_gaussian_s / coulomb_gaussian_p are symbolically executed (ast, fail closed) over the partition
       r < threshold / r >= threshold that their masked NumPy statements define; for each function and each value of
       `normalized` the translator emits the main-branch formula, the small-r value and the threshold as Coq terms
       (erf is a function parameter, instantiated in the proofs with 2/sqrt(pi) * RInt exp(-t^2)).
       The JSON parameter table is emitted as exact rationals.
prove: coq/C17/*.v — radial Poisson identity (r V)'' = -4 pi r rho for all alpha > 0, r > 0, small-r value = limit,
       unnormalised factor, superposition, parameter table well-formed.
tie:   `integral` + `interval` enclosures of the generated terms against the implementation.
"""
from __future__ import annotations

import ast
import json
import math
from fractions import Fraction

import numpy as np

from vlib import py2coq_real as P
from vlib.core import SRC, Ctx, r_lit, src_sha


class Tr17(P.Tr):
    """expressions of coulomb.py: adds erf(...), module constants, r**2."""

    def __init__(self, env, consts):
        super().__init__(env)
        self.consts = consts

    def expr(self, e):
        if isinstance(e, ast.Name) and e.id in self.consts:
            return self.consts[e.id]
        return super().expr(e)

    def call(self, e):
        if isinstance(e.func, ast.Name) and e.func.id == "erf" and len(e.args) == 1 and not e.keywords:
            return f"(erf_ {self.expr(e.args[0])})"
        return super().call(e)


def mask_kind(test: ast.expr, thr_name: str):
    """r < T  -> 'small' ;  r >= T -> 'main'"""
    if isinstance(test, ast.Compare) and len(test.ops) == 1 and isinstance(test.left, ast.Name) and test.left.id == "r" \
            and isinstance(test.comparators[0], ast.Name) and test.comparators[0].id == thr_name:
        if isinstance(test.ops[0], ast.Lt):
            return "small"
        if isinstance(test.ops[0], ast.GtE):
            return "main"
    raise P.Unsupported(f"mask {ast.unparse(test)}")


def sym_exec(fn: ast.FunctionDef, consts: dict, thr_name: str):
    """Returns {normalized(bool): (small_term, main_term)}, guards."""
    env = P.Env({}, {}, {})
    tr = Tr17(env, consts)
    arrays: dict[str, list] = {}   # name -> [small, main] coq terms or None
    scalars: dict[str, str] = {}
    guards = []
    results = {}

    def val(e, which):
        """translate expression e on the branch `which` (0 small / 1 main); array names are substituted."""
        class Sub(ast.NodeTransformer):
            def visit_Name(self, n):
                return n
        # substitute by temporarily binding names to their branch terms
        saved = dict(tr.consts)
        for k, v in arrays.items():
            if v[which] is None:
                tr.consts[k] = None
            else:
                tr.consts[k] = v[which]
        for k, v in scalars.items():
            tr.consts[k] = v
        try:
            for n in ast.walk(e):
                if isinstance(n, ast.Name) and n.id in arrays and arrays[n.id][which] is None:
                    raise P.Unsupported(f"{n.id} undefined on branch {which}")
            return tr.expr(e)
        finally:
            tr.consts = saved

    body = [b for b in fn.body if not (isinstance(b, ast.Expr) and isinstance(b.value, ast.Constant))]
    i = 0
    while i < len(body):
        s = body[i]
        i += 1
        src = ast.unparse(s)
        if isinstance(s, ast.If) and len(s.body) == 1 and isinstance(s.body[0], ast.Raise) and not s.orelse:
            guards.append(ast.unparse(s.test))
            continue
        if src == "r = np.atleast_1d(np.asarray(r, dtype=float))":
            continue
        if isinstance(s, ast.Assign) and len(s.targets) == 1 and isinstance(s.targets[0], ast.Name):
            name = s.targets[0].id
            if src in (f"{name} = np.empty_like(r)",):
                arrays[name] = [None, None]
                continue
            if src in (f"{name} = np.zeros_like(r)",):
                arrays[name] = ["0", "0"]
                continue
            uses_r = any(isinstance(n, ast.Name) and (n.id == "r" or n.id in arrays) for n in ast.walk(s.value))
            if uses_r:
                arrays[name] = [val(s.value, 0), val(s.value, 1)]
            else:
                scalars[name] = val(s.value, 1)
            continue
        # np.divide(A, B, out=V, where=mask)
        if isinstance(s, ast.Expr) and isinstance(s.value, ast.Call) and ast.unparse(s.value.func) == "np.divide":
            c = s.value
            kw = {k.arg: k.value for k in c.keywords}
            if len(c.args) != 2 or set(kw) != {"out", "where"} or not isinstance(kw["out"], ast.Name):
                raise P.Unsupported(src)
            tgt = kw["out"].id
            which = 1 if mask_kind(kw["where"], thr_name) == "main" else 0
            if tgt not in arrays:
                raise P.Unsupported(f"np.divide into unknown array {tgt}")
            arrays[tgt][which] = f"({val(c.args[0], which)} / {val(c.args[1], which)})"
            continue
        # out[mask] = E
        if isinstance(s, ast.Assign) and len(s.targets) == 1 and isinstance(s.targets[0], ast.Subscript) \
                and isinstance(s.targets[0].value, ast.Name) and s.targets[0].value.id in arrays:
            tgt = s.targets[0].value.id
            which = 1 if mask_kind(s.targets[0].slice, thr_name) == "main" else 0
            arrays[tgt][which] = val(s.value, which)
            continue
        if isinstance(s, ast.If) and ast.unparse(s.test) == "normalized" and len(s.body) == 1 and isinstance(s.body[0], ast.Return) and not s.orelse:
            results[True] = (val(s.body[0].value, 0), val(s.body[0].value, 1))
            continue
        if isinstance(s, ast.Return):
            results[False] = (val(s.value, 0), val(s.value, 1))
            continue
        raise P.Unsupported(f"statement: {src[:80]}")
    if set(results) != {True, False}:
        raise P.Unsupported("both `normalized` branches must return")
    return results, guards


def gen(ctx: Ctx):
    src = (SRC / "coulomb.py").read_text()
    tree = ast.parse(src)
    consts = {}
    fns = {}
    for node in tree.body:
        if isinstance(node, ast.Assign) and len(node.targets) == 1 and isinstance(node.targets[0], ast.Name) \
                and node.targets[0].id == "_R_ZERO_THRESHOLD" and isinstance(node.value, ast.Constant):
            consts["_R_ZERO_THRESHOLD"] = P.lit(node.value.value)
        if isinstance(node, ast.FunctionDef):
            fns[node.name] = node
    if "_R_ZERO_THRESHOLD" not in consts:
        raise P.Unsupported("_R_ZERO_THRESHOLD not found")
    out = [P.HEADER, "(* generated from src/grid/coulomb.py on every run; do not edit *)",
           f"Definition coulomb_threshold : R := {consts['_R_ZERO_THRESHOLD']}."]
    units = []
    for name in ("coulomb_gaussian_s", "coulomb_gaussian_p"):
        if name not in fns:
            raise P.Unsupported(f"{name} not found")
        fn = fns[name]
        args = [a.arg for a in fn.args.args]
        if args != ["r", "alpha", "normalized"]:
            raise P.Unsupported(f"{name} signature {args}")
        c2 = dict(consts)
        c2["r"] = "v_r"
        c2["alpha"] = "v_alpha"
        res, guards = sym_exec(fn, c2, "_R_ZERO_THRESHOLD")
        short = name.replace("coulomb_gaussian_", "cg_")
        for norm, suffix in ((True, ""), (False, "_unnorm")):
            small, main = res[norm]
            out.append(f"Definition {short}_main{suffix} (erf_ : R -> R) (v_alpha v_r : R) : R :=\n  {main}.")
            out.append(f"Definition {short}_small{suffix} (erf_ : R -> R) (v_alpha v_r : R) : R :=\n  {small}.")
        units.append({"unit": name, "file": "src/grid/coulomb.py", "lines": [fn.lineno, fn.end_lineno],
                      "sha": src_sha(ast.get_source_segment(src, fn)), "guards": guards})
        if "alpha <= 0" not in guards or "np.any(r < 0)" not in guards:
            raise P.Unsupported(f"{name}: admissibility guards changed: {guards}")
    # parameter table as exact rationals
    data = json.loads((SRC / "data" / "atomic_gauss_params.json").read_text())

    def q(x):
        fr = Fraction(float(x))
        return f"({fr.numerator}, {fr.denominator})"
    rows = []
    for sym, d in data.items():
        cs, als = d.get("coeffs_s", []), d.get("alphas_s", [])
        rows.append("([" + "; ".join(q(x) for x in cs) + "], [" + "; ".join(q(x) for x in als) + "])")
    out.append("From Coq Require Import ZArith List.\nImport ListNotations.")
    out.append("Definition gauss_params : list (list (Z * Z) * list (Z * Z)) := [\n  " + ";\n  ".join(rows) + "]%Z.")
    ctx.gen("C17_gen.v", "\n".join(out) + "\n", units)
    return data


def run(ctx: Ctx):
    data = gen(ctx)
    ctx.copy_coq("C17")
    status = ctx.coq_build()
    ctx.register_props(status)


# ======================================================================== correspondence + sweep
import mpmath as mp  # noqa: E402

import grid.coulomb as GC  # noqa: E402

mp.mp.dps = 40


def true_potential(kind, alpha, r, normalized=True):
    """Electrostatic potential of the DOCUMENTED density by direct radial Coulomb integrals (independent of the code's formula)."""
    a = mp.mpf(alpha)
    if kind == "s":
        rho = (lambda s: (a / mp.pi) ** mp.mpf(1.5) * mp.e ** (-a * s * s)) if normalized else (lambda s: mp.e ** (-a * s * s))
    else:
        rho = (lambda s: mp.mpf(2) / 3 * a ** mp.mpf(2.5) / mp.pi ** mp.mpf(1.5) * s * s * mp.e ** (-a * s * s)) if normalized \
            else (lambda s: s * s * mp.e ** (-a * s * s))
    r = mp.mpf(r)
    width = 1 / mp.sqrt(a)
    outer = mp.quad(lambda s: 4 * mp.pi * s * rho(s), [r, r + width, r + 4 * width, r + 12 * width, mp.inf])
    if r == 0:
        return outer
    inner = mp.quad(lambda s: 4 * mp.pi * s * s * rho(s), [0, r / 2, r]) / r
    return inner + outer


def impl(kind, r, alpha, normalized=True):
    f = GC.coulomb_gaussian_s if kind == "s" else GC.coulomb_gaussian_p
    return float(np.asarray(f(np.array([r], dtype=float), alpha, normalized=normalized)).ravel()[0])


CORPUS = [("p", 1.0, 0.0, True)]


def sweep(ctx: Ctx):
    first = {}
    pts = list(CORPUS)
    alphas = [1e-3, 0.03, 0.5, 1.0, 7.0, 300.0, 1e4]
    for kind in ("s", "p"):
        for norm in (True, False):
            for al in alphas:
                w = 1 / math.sqrt(al)
                for r in [0.0, 5e-324, 1e-310, 1e-290, 1e-200, 1e-100, 1e-30, 1e-13, 0.999e-12, 1e-12, 1.001e-12, 1e-11, 1e-6 * w, 0.1 * w, w, 3 * w, 10 * w, 50 * w]:
                    pts.append((kind, al, r, norm))
    if not ctx.quick:
        for _ in range(400):
            al = 10 ** ctx.rng.uniform(-3, 4)
            pts.append((ctx.rng.choice("sp"), al, ctx.rng.uniform(0, 12) / math.sqrt(al), ctx.rng.random() < 0.7))
    n = 0
    for kind, al, r, norm in pts:
        got = impl(kind, r, al, norm)
        exp = float(true_potential(kind, al, r, norm))
        n += 1
        if not abs(got - exp) <= 1e-8 * max(abs(exp), 1e-300):
            first.setdefault((kind, "potential"), (al, r, norm, got, exp))
    # tends to Q / r at large r (Q = 1 for normalised densities)
    for kind in ("s", "p"):
        for al in alphas:
            r = 60 / math.sqrt(al)
            got = r * impl(kind, r, al, True)
            if abs(got - 1.0) > 1e-9:
                first.setdefault((kind, "far"), (al, r, True, got, 1.0))
            # continuity across the switch
            lo, hi = impl(kind, 0.999e-12, al, True), impl(kind, 1.0e-12, al, True)
            if abs(lo - hi) > 1e-9 * abs(hi):
                first.setdefault((kind, "switch"), (al, 1e-12, True, lo, hi))
    # the value does not depend on how the radius is passed: float, NumPy scalar, 0-d array, list, 2-D array
    nf = 0
    for kind in ("s", "p"):
        f = GC.coulomb_gaussian_s if kind == "s" else GC.coulomb_gaussian_p
        for norm in (True, False):
            for al in (0.03, 1.0, 300.0):
                for r in (0.0, 1e-13, 1e-12, 0.37, 2.0, 11.0):
                    ref = impl(kind, r, al, norm)
                    for nm, form in (("float", float(r)), ("np.float64", np.float64(r)), ("0-d array", np.array(r)), ("list", [r, r]),
                                     ("2-d array", np.array([[r], [r]])), ("float32", np.float32(r)), ("int", int(r)) if r == int(r) else ("float", r)):
                        nf += 1
                        try:
                            got = np.asarray(f(form, al, normalized=norm), dtype=float).ravel()
                            val = float(got[0])
                            rr = float(np.asarray(form, dtype=float).ravel()[0])
                            want = ref if rr == r else impl(kind, rr, al, norm)
                            ok = bool(np.all(np.abs(got - want) <= 1e-12 * abs(want)))
                        except Exception as e:  # noqa: BLE001
                            ok, val, want = False, float("nan"), ref
                            nm += f" ({type(e).__name__})"
                        if not ok:
                            first.setdefault((kind, f"input-form {nm}"), (al, r, norm, val, want))
    ctx.cov["sweep_points"] = n
    ctx.cov["input_form_points"] = nf
    return first


def check_superposition_and_params(ctx: Ctx, data):
    rng = np.random.default_rng(ctx.seed)
    for it in range(6 if ctx.quick else 60):
        ks, kp, npts = rng.integers(1, 4), rng.integers(0, 3), 5
        P_ = rng.normal(size=(npts, 3)) * 2
        cs, cp = rng.normal(size=(ks, 3)), rng.normal(size=(kp, 3))
        fs, fp = rng.normal(size=ks), rng.normal(size=kp)
        as_, ap = 10 ** rng.uniform(-1, 2, size=ks), 10 ** rng.uniform(-1, 2, size=kp)
        if it % 3 == 0 and ks:
            P_[0] = cs[0]  # a point on a centre
        if it % 3 == 1:
            P_[npts - 1] = cs[0]  # a point on a centre whose index differs from the function's
            if kp:
                P_[2] = cp[kp - 1]
        norm = bool(it % 2)
        kw = dict(centers_p=cp, coeffs_p=fp, alphas_p=ap) if kp else {}
        try:
            got = GC.coulomb_potential(P_, cs, fs, as_, normalized=norm, **kw)
        except Exception as e:  # noqa: BLE001
            ctx.fail("corr_superposition", f"superposition:seed={ctx.seed}:{it}", type(e).__name__,
                     f"coulomb_potential raises {type(e).__name__}: {str(e)[:80]} on admissible input (a point may coincide with a centre)",
                     {"points": P_.tolist(), "centers_s": cs.tolist(), "coeffs_s": fs.tolist(), "alphas_s": as_.tolist(),
                      "centers_p": cp.tolist(), "coeffs_p": fp.tolist(), "alphas_p": ap.tolist(), "normalized": norm})
            continue
        exp = np.zeros(npts)
        for c, a, ce in zip(fs, as_, cs):
            exp += c * GC.coulomb_gaussian_s(np.linalg.norm(P_ - ce, axis=1), a, normalized=norm)
        for c, a, ce in zip(fp, ap, cp):
            exp += c * GC.coulomb_gaussian_p(np.linalg.norm(P_ - ce, axis=1), a, normalized=norm)
        ctx.case(("superposition", it))
        if not np.allclose(got, exp, rtol=1e-12, atol=1e-14):
            ctx.fail("corr_superposition", f"superposition:seed={ctx.seed}:{it}", float(np.max(np.abs(got - exp))),
                     "coulomb_potential differs from the coefficient-weighted sum of the single-centre functions",
                     {"points": P_.tolist(), "centers_s": cs.tolist(), "coeffs_s": fs.tolist(), "alphas_s": as_.tolist(),
                      "centers_p": cp.tolist(), "coeffs_p": fp.tolist(), "alphas_p": ap.tolist(), "normalized": norm})
    # centres far from the coordinate origin with evaluation points very close to a centre (tight exponents): the distances
    # must be those of the differences, not of an expanded |c|^2 - 2 c.p + |p|^2
    for it, shift in enumerate(([40.0, 35.0, 50.0], [0.0, 0.0, 2.1], [-300.0, 10.0, 0.5])):
        cs = np.array([shift, np.add(shift, [1.4, 0.0, 0.0])])
        fs, as_ = np.array([1.0, 0.7]), np.array([4.0e4, 9.0e2])
        P_ = np.array([np.add(cs[0], [1e-3, 0, 0]), np.add(cs[0], [0, 3e-5, 1e-5]), np.add(cs[1], [1e-2, 1e-2, 0]), np.add(cs[0], [0.3, 0.2, 0.1])])
        got = GC.coulomb_potential(P_, cs, fs, as_, normalized=True)
        exp = np.zeros(len(P_))
        for c, a, ce in zip(fs, as_, cs):
            d = np.array([float(mp.sqrt(sum((mp.mpf(float(pp[k])) - mp.mpf(float(ce[k]))) ** 2 for k in range(3)))) for pp in P_])
            exp += c * np.array([float(mp.erf(mp.sqrt(a) * mp.mpf(dd)) / mp.mpf(dd)) for dd in d])
        ctx.case(("superposition-far", it))
        if not np.allclose(got, exp, rtol=1e-11, atol=0):
            i = int(np.argmax(np.abs(got - exp) / np.abs(exp)))
            ctx.fail("corr_superposition", f"superposition-far:{shift}", float(got[i]),
                     f"coulomb_potential with centres near {shift} at a point {P_[i].tolist()} close to a centre: {got[i]!r}, exact sum of the s-type potentials {exp[i]!r}",
                     {"points": P_.tolist(), "centers_s": cs.tolist(), "coeffs_s": fs.tolist(), "alphas_s": as_.tolist(), "expected": exp.tolist()})
    # distinct centres that are close to each other compared with their distance from the origin stay distinct
    for it, (shift, sep) in enumerate((([40.0, 35.0, 50.0], 1e-4), ([0.0, 0.0, 0.0], 3e-9), ([-300.0, 10.0, 0.5], 2e-3), ([1.0, 2.0, 3.0], 1e-6))):
        for with_p in (False, True):
            cs = np.array([shift, np.add(shift, [sep, 0.0, 0.0]), np.add(shift, [0.0, -sep, sep])])
            fs = np.array([1.0, -0.8, 0.5])
            as_ = np.array([0.5, 0.2, 0.1]) / sep ** 2
            P_ = np.array([np.add(shift, [sep, 0.0, 0.0]), np.add(shift, [0.5 * sep, 0.2 * sep, 0.0]), np.add(shift, [0.0, -sep, sep]), np.add(shift, [3 * sep, sep, -sep])])
            kw = dict(centers_p=cs[::-1].copy(), coeffs_p=fs * sep ** 2, alphas_p=as_) if with_p else {}
            got = GC.coulomb_potential(P_, cs, fs, as_, normalized=True, **kw)
            exp = np.zeros(len(P_))
            for c, a, ce in zip(fs, as_, cs):
                exp += c * GC.coulomb_gaussian_s(np.linalg.norm(P_ - ce, axis=1), a, normalized=True)
            if with_p:
                for c, a, ce in zip(kw["coeffs_p"], as_, kw["centers_p"]):
                    exp += c * GC.coulomb_gaussian_p(np.linalg.norm(P_ - ce, axis=1), a, normalized=True)
            ctx.case(("superposition-close", it, with_p))
            if not np.allclose(got, exp, rtol=1e-10, atol=0):
                i = int(np.argmax(np.abs(got - exp) / np.abs(exp)))
                ctx.fail("corr_superposition", f"superposition-close:{shift}:sep={sep}:p={with_p}", float(got[i]),
                         f"coulomb_potential with three distinct centres {sep} apart near {shift}: {got[i]!r} at {P_[i].tolist()}, "
                         f"the coefficient-weighted sum of the single-centre functions is {exp[i]!r}",
                         {"points": P_.tolist(), "centers_s": cs.tolist(), "coeffs_s": fs.tolist(), "alphas_s": as_.tolist(),
                          **{k: v.tolist() for k, v in kw.items()}, "expected": exp.tolist()})
    from grid.utils import num2sym
    GC._ATOMIC_GAUSS_PARAMS_CACHE = None
    # the table returns equal values on every call, whatever the caller did with previously returned arrays
    for sym in list(data)[:6]:
        c0, a0 = GC.load_atomic_gaussian_params(sym)
        c0 /= 3.0
        a0 *= 1.44
        a0[::-1].sort()
        for el in (sym, sym.lower(), [k for k, v in num2sym.items() if v == sym][0]):
            c1, a1 = GC.load_atomic_gaussian_params(el)
            ctx.case(("params-reload", str(el)))
            if not (np.array_equal(c1, np.asarray(data[sym]["coeffs_s"], float)) and np.array_equal(a1, np.asarray(data[sym]["alphas_s"], float))):
                ctx.fail("corr_params", f"load_atomic_gaussian_params({el!r}) after editing earlier results in place", float(a1[0]),
                         f"load_atomic_gaussian_params({el!r}) no longer returns the shipped values after the arrays returned by an earlier call were edited in place",
                         {"reproduce": f"c,a = load_atomic_gaussian_params({sym!r}); c /= 3; a *= 1.44; load_atomic_gaussian_params({el!r})"})
                break
    GC._ATOMIC_GAUSS_PARAMS_CACHE = None
    for sym, d in data.items():
        for el in (sym, sym.lower(), [k for k, v in num2sym.items() if v == sym][0]):
            try:
                c, a = GC.load_atomic_gaussian_params(el)
                ok = (np.array_equal(c, np.asarray(d["coeffs_s"], float)) and np.array_equal(a, np.asarray(d["alphas_s"], float))
                      and len(c) == len(a) > 0 and np.all(a > 0))
                obs = "mismatch"
            except Exception as e:  # noqa: BLE001
                ok, obs = False, type(e).__name__
            ctx.case(("params", str(el)))
            if not ok:
                ctx.fail("corr_params", f"load_atomic_gaussian_params({el!r})", obs,
                         f"load_atomic_gaussian_params({el!r}) does not return the shipped matching positive arrays")
    for bad in ("Xx", 0, 500):
        try:
            GC.load_atomic_gaussian_params(bad)
            ctx.fail("corr_params", f"load_atomic_gaussian_params({bad!r})", "accepted", "unknown element accepted")
        except ValueError:
            pass


def correspondence(ctx: Ctx):
    hdr = ("From Coq Require Import Reals.\nFrom Coquelicot Require Import Coquelicot.\nFrom Interval Require Import Tactic.\n"
           "From P Require Import C17_gen C17_erf.\nOpen Scope R_scope.\n")
    cases, meta = [], []
    npt = 3 if ctx.quick else 14
    for kind in ("s", "p"):
        for norm in (True, False):
            suf = "" if norm else "_unnorm"
            for _ in range(npt):
                al = ctx.rng.randint(1, 4096) / 2 ** ctx.rng.randint(0, 10)
                r = ctx.rng.randint(1, 2048) / 2 ** ctx.rng.randint(4, 12) / max(1.0, 2 ** round(math.log2(math.sqrt(al))))
                y = impl(kind, r, al, norm)
                e0 = mp.erf(mp.sqrt(mp.mpf(al)) * mp.mpf(r))
                E0 = Fraction(int(e0 * 10 ** 15), 10 ** 15)
                d = Fraction(1, 10 ** 12)
                tol = Fraction(1, 10 ** 9) * (1 + abs(Fraction(y)))
                A, Rr = r_lit(al), r_lit(r)
                cases.append((f"Rabs (erf (sqrt {A} * {Rr}) - {r_lit(E0)}) <= {r_lit(d)}", "unfold erf; integral with (i_prec 70)"))
                meta.append((kind, norm, al, r, y, "erf"))
                cases.append((f"forall e : R, {r_lit(E0 - d)} <= e <= {r_lit(E0 + d)} -> Rabs (cg_{kind}_main{suf} (fun _ => e) {A} {Rr} - {r_lit(y)}) <= {r_lit(tol)}",
                              f"intros e He; unfold cg_{kind}_main{suf}; interval with (i_prec 90)"))
                meta.append((kind, norm, al, r, y, "main"))
                ctx.case((kind, norm, al, r))
            for r in (0.0, 2.0 ** -44):
                al = ctx.rng.randint(1, 4096) / 64
                y = impl(kind, r, al, norm)
                tol = Fraction(1, 10 ** 9) * (1 + abs(Fraction(y)))
                cases.append((f"Rabs (cg_{kind}_small{suf} (fun _ => 0) {r_lit(al)} {r_lit(r)} - {r_lit(y)}) <= {r_lit(tol)}",
                              f"unfold cg_{kind}_small{suf}; interval with (i_prec 90)"))
                meta.append((kind, norm, al, r, y, "small"))
                ctx.case((kind, norm, al, r))
    # the switch point itself
    thr = GC._R_ZERO_THRESHOLD
    cases.append((f"coulomb_threshold = {r_lit(Fraction(repr(thr)))}", "unfold coulomb_threshold; lra"))
    meta.append(("thr", True, 0, thr, thr, "threshold"))
    bad = ctx.coq_tactic_cases("C17_corr", "From Coq Require Import Lra.\n" + hdr, cases, shard=max(4, len(cases) // 16 + 1), timeout=900)
    for i in bad:
        kind, norm, al, r, y, what = meta[i]
        ctx.fail(f"corr_{kind}_{what}", f"corr:{kind}:{what}:alpha={al}:r={r}:normalized={norm}", y,
                 f"generated model ({what}) of coulomb_gaussian_{kind} does not enclose the implementation's value {y} at alpha={al}, r={r}, normalized={norm}",
                 {"goal": cases[i][0][:500]}, found_input=False)
    ctx.sample({"function": meta[1][0], "normalized": meta[1][1], "alpha": meta[1][2], "r": meta[1][3], "impl": meta[1][4]})


def run(ctx: Ctx):  # noqa: F811
    gen_err = None
    try:
        data = gen(ctx)
    except P.Unsupported as e:  # translator fails closed: the tie is broken; still search the implementation for a failing input
        gen_err, data = e, json.loads((SRC / "data" / "atomic_gauss_params.json").read_text())
    status = {}
    if gen_err is None:
        ctx.copy_coq("C17")
        status = ctx.coq_build()
        ctx.register_props(status)
    if status.get("C17_refuted_p.v"):
        ctx.mark_refuted("p_poisson", "p_poisson_refuted_lemma")
    fails = sweep(ctx)
    used = set()
    # attach the sweep's concrete failing input to the obligation of the same function
    for name, kind in (("p_poisson", "p"), ("s_poisson", "s"), ("p_limit0", "p"), ("s_limit0", "s")):
        ob = ctx.obligations.get(name)
        if ob and ob["status"] != "discharged" and (kind, "potential") in fails and (kind, "potential") not in used:
            al, r, norm, got, exp = fails[(kind, "potential")]
            used.add((kind, "potential"))
            ctx.fail(name, f"coulomb_gaussian_{kind}(r={r}, alpha={al}, normalized={norm})", round(got, 9),
                     f"coulomb_gaussian_{kind}(r={r}, alpha={al}, normalized={norm}) = {got}; the potential of the documented density is {exp}",
                     {"reproduce": f"grid.coulomb.coulomb_gaussian_{kind}(np.array([{r}]), {al}, normalized={norm})", "expected": exp})
    cands = []
    for (kind, what), (al, r, norm, got, exp) in fails.items():
        if (kind, what) in used:
            continue
        if what in ("far",) and (kind, "potential") in fails:
            continue  # consequence of the same wrong formula
        key = f"coulomb_gaussian_{kind}({'' if what == 'potential' else what + ':'}r={r}, alpha={al}, normalized={norm})"
        text = f"coulomb_gaussian_{kind} {what}: r={r}, alpha={al}, normalized={norm}: got {got}, expected {exp}"
        rp = {"reproduce": f"grid.coulomb.coulomb_gaussian_{kind}(np.array([{r}]), {al}, normalized={norm})", "expected": exp}
        if what.startswith("input-form"):
            rp["reproduce"] = f"grid.coulomb.coulomb_gaussian_{kind}(<r = {r} passed as {what[11:]}>, {al}, normalized={norm}) versus the same radius in a 1-D array"
        if gen_err is not None:
            cands.append((key, round(got, 9), text, rp))
            if ctx.is_known(key, round(got, 9)):
                ctx.fail(f"sweep_{kind}_{what}", key, round(got, 9), text, rp)
        else:
            ctx.fail(f"sweep_{kind}_{what}", key, round(got, 9), text, rp)
    if gen_err is not None:
        ctx.broken_tie("translator(coulomb.py)", gen_err, cands)
    check_superposition_and_params(ctx, data)
    if gen_err is None and status.get("C17_gen.v") and status.get("C17_erf.v"):
        correspondence(ctx)
    ctx.cov["rule"] = ("sweep: implementation vs mpmath Coulomb integrals of the documented densities over alpha in 1e-3..1e4 and r in {0, around the switch, "
                       "..., 60/sqrt(alpha)}; correspondence: `integral`+`interval` enclosures of the generated main/small terms at random dyadic (alpha, r); "
                       "superposition and parameter loading compared on the implementation")
    ctx.trusted += ["symbolic executor for the masked NumPy statements of coulomb_gaussian_s/p (validated by interval enclosures)",
                    "interval/integral tactics (Interval 4.6)", "scipy.special.erf accurate to 1e-12 (validated against mpmath at the sampled points)",
                    "mpmath quadrature as the independent oracle of the sweep"]
    ctx.assumptions += ["erf is DEFINED as 2/sqrt(pi) * RInt exp(-t^2) 0 x (no axiom)",
                        "r*V -> Q as r -> infinity is PROVED (C17_gauss.v proves the Gaussian integral: gI(x)^2 + int_0^1 e^(-x^2(1+t^2))/(1+t^2) dt = pi/4, "
                        "hence 0 <= 1 - erf x <= 4/pi e^(-x^2)); partial: continuity across the 1e-12 switch is a statement about floating-point "
                        "evaluation on both sides of the threshold and is checked on the implementation by the sweep only"]
