"""C18 — multi-domain integration equals the iterated product quadrature.

gen:   only the defaults of MultiDomainGrid.integrate (non_vectorized, integration_chunk_size) are translated
       (ast, fail closed on any other signature) into C18_gen.v; the model itself is hand-written
       (coq/C18/C18_model.v) and tied by exact correspondence.
prove: coq/C18/*.v  (all theorems by induction over any number of domains / grid sizes / chunk sizes).
tie:   integer-valued grids (1-D, 2-D and 3-D points mixed, negative and zero weights), integer-polynomial
       integrands sent to both sides as DATA (the Python callable is built from the same monomial list),
       1..4 (thorough: 5) domains, list mode and repeated-grid mode, vectorised and non-vectorised, chunk sizes
       1,2,3,7,total-1,total,total+1,>total and the default; .size, .num_domains, the full .points and
       .weights sequences, the constructor's rejections.  All comparisons are done inside Coq by vm_compute
       on the model at Z (integers below 2^53 are exact as floats).
forms: (round 3) the weight arrays come in float64 / float32 / int64 / int32 and the point arrays in float64 / int64,
       mixed over the domains; weights are dyadic fractions n/2^s (exact in binary floating point; the model runs on the
       numerators at Z and the observed value is compared after multiplying by 2^(sum of s)); one float64 grid may carry
       31-bit weights 1+n/2^30 so that a detour through single precision is visible; the integrand returns numpy
       scalars / Python floats / Python ints / 0-d arrays / integer arrays.  Every case is admitted only if the sum of
       absolute values of all terms stays below 2^52 in units of the last place, so that no floating-point operation
       of a correct implementation can round.
alias: (round 4) what the integrand hands back: a third integrand per object is a coordinate x_d[c] (mostly of the last domain)
       that returns its own argument / a view of it / a read-only broadcast view; the other integrands also return a reused output
       buffer or a non-writable array.  After the calls the component grids must still hold their data.  Same in the histories.
args:  (round 5) what the integrand accepts: on the non-vectorised routes a point-only integrand (every argument must be one point,
       otherwise TypeError; or unchecked p[c] component indexing), on the vectorised routes an array-only integrand (leading arguments
       single points, last argument an (n,)/(n,d) array taken apart with x[:, c]); any number of domains, also in the histories.
hist:  (round 3) histories on ONE MultiDomainGrid object: integrate (any route), then re-weight a component grid
       (setter, in-place slice assignment, *=), move its points, or replace md.grid_list[j], then observe again;
       compared with run_history of the model (theorem history_routes_agree) and with the oracle on the current grids.
search: every observation is also checked against the property's own oracle (explicit nested loops over
       Python ints, no numpy / itertools); a disagreement is reported with the concrete grids, integrand,
       mode and chunk size.
"""
from __future__ import annotations

import ast
import importlib
import json

import numpy as np

from vlib.core import SRC, VERIF, Ctx, src_sha

CHUNK_FIXED = [1, 2, 3, 7]
MAXREP = 3  # failures reported per kind (smallest inputs first)


# ====================================================================== gen
def gen(ctx: Ctx):
    """Defaults of integrate(...) and source hashes of the anchored units."""
    src = (SRC / "ngrid.py").read_text()
    tree = ast.parse(src)
    cls = [n for n in tree.body if isinstance(n, ast.ClassDef) and n.name == "MultiDomainGrid"]
    if len(cls) != 1:
        raise ValueError("class MultiDomainGrid not found in ngrid.py")
    units = []
    integ = None
    for n in cls[0].body:
        if isinstance(n, ast.FunctionDef) and n.name in ("__init__", "num_domains", "size", "weights", "points", "integrate"):
            seg = ast.get_source_segment(src, n)
            units.append({"unit": f"MultiDomainGrid.{n.name}", "file": "src/grid/ngrid.py",
                          "lines": [n.lineno, n.end_lineno], "sha": src_sha(seg)})
            if n.name == "integrate":
                integ = n
    for n in tree.body:
        if isinstance(n, ast.FunctionDef) and n.name == "_chunked_iterator":
            seg = ast.get_source_segment(src, n)
            units.append({"unit": "_chunked_iterator", "file": "src/grid/ngrid.py",
                          "lines": [n.lineno, n.end_lineno], "sha": src_sha(seg)})
    if integ is None or not any(u["unit"] == "_chunked_iterator" for u in units):
        raise ValueError("integrate / _chunked_iterator not found in ngrid.py")
    a = integ.args
    names = [x.arg for x in a.args]
    if names != ["self", "integrand_function", "non_vectorized", "integration_chunk_size"] or a.vararg or a.kwarg or a.kwonlyargs:
        raise ValueError(f"unsupported signature of MultiDomainGrid.integrate: {names}")
    if len(a.defaults) != 2 or not all(isinstance(d, ast.Constant) for d in a.defaults):
        raise ValueError("unsupported defaults of MultiDomainGrid.integrate")
    d_nonvec, d_chunk = a.defaults[0].value, a.defaults[1].value
    if not isinstance(d_nonvec, bool) or isinstance(d_chunk, bool) or not isinstance(d_chunk, int) or d_chunk < 0:
        raise ValueError(f"unsupported default values of integrate: {d_nonvec!r}, {d_chunk!r}")
    text = ("(* generated from /repo/src/grid/ngrid.py on every run; do not edit *)\n"
            "From Coq Require Import NArith.\n"
            f"Definition default_non_vectorized : bool := {'true' if d_nonvec else 'false'}.\n"
            f"Definition default_chunk : N := {d_chunk}%N.\n")
    ctx.gen("C18_gen.v", text, units)
    return d_nonvec, d_chunk


# ====================================================================== data -> implementation objects
def build_grid(gs):
    from grid.basegrid import Grid, OneDGrid

    w = weights_array(gs, gs["wts"])
    pdt = gs.get("pdt", "float64")
    if gs["dim"] == 1:
        p = np.array([q[0] for q in gs["pts"]], dtype=float).astype(pdt)
        return OneDGrid(p, w) if gs.get("oned") else Grid(p, w)
    return Grid(np.array(gs["pts"], dtype=float).reshape(len(gs["pts"]), gs["dim"]).astype(pdt), w)


def weights_array(gs, nums):
    """numerators / 2^ws as an array of the grid's weight dtype (all values are exactly representable)."""
    ws, wdt = gs.get("ws", 0), gs.get("wdt", "float64")
    if wdt.startswith("int") and ws != 0:
        raise ValueError("integer weight arrays need ws = 0")
    return np.array([n / 2 ** ws for n in nums], dtype=float).astype(wdt)


def points_array(gs, pts):
    pdt = gs.get("pdt", "float64")
    if gs["dim"] == 1:
        return np.array([q[0] for q in pts], dtype=float).astype(pdt)
    return np.array(pts, dtype=float).reshape(len(pts), gs["dim"]).astype(pdt)


def scale_bits(doms):
    return sum(g.get("ws", 0) for g in doms)


def build_md(spec):
    from grid.ngrid import MultiDomainGrid

    grids = [build_grid(g) for g in spec["grids"]]
    if spec.get("share"):  # the same object repeated in the list
        grids = [grids[0]] * spec["share"]
    return MultiDomainGrid(grids, spec["nd"]) if spec["nd"] is not None else MultiDomainGrid(grids)


def domains_of(spec):
    """The list of integration domains the specification stands for (the property's reading)."""
    if spec.get("share"):
        return [spec["grids"][0]] * spec["share"]
    if spec["nd"] is not None and len(spec["grids"]) == 1:
        return [spec["grids"][0]] * spec["nd"]
    return list(spec["grids"])


def make_callable(poly, dims, rform="np", argform=None):
    """Python integrand from the monomial data; works point-wise and vectorised over the last argument.
    argform: what the integrand accepts.  None: anything (broadcasting code).  "point": a point-only integrand, every argument must be
    ONE point (a scalar for a 1-D grid, d numbers for a d-D grid), anything else raises TypeError as math.* / float() would;
    "point-index": point-only code that takes components with p[c] and checks nothing (handed an array of points it computes with rows);
    "vec": vectorised code, the leading arguments must be single points and the last one an array of points (taken apart with x[:, c]).
    rform: how the value is handed back (numpy scalar/array as computed, Python float, Python int / integer array, 0-d array;
    "alias": a coordinate integrand x_d[c] hands back its argument itself / a view of it / a read-only broadcast view, nothing is computed;
    "buffer": the same preallocated output array is filled and returned by every call; "readonly": a non-writable array)."""
    bufs = {}
    coordinate = len(poly) == 1 and poly[0][0] == 1 and len(poly[0][1]) == 1 and poly[0][1][0][2] == 1

    def comp(a, d, c):
        if dims[d] == 1:
            return a
        if argform == "point-index":
            return a[c]
        if argform == "vec" and np.ndim(a) == 2:
            return a[:, c]
        return a[..., c]

    def check_args(args):
        for d, a in enumerate(args):
            shp = np.shape(a)
            one = () if dims[d] == 1 else (dims[d],)
            if argform == "vec" and d == len(args) - 1:
                if len(shp) != len(one) + 1 or shp[1:] != one:
                    raise TypeError(f"vectorised integrand: last argument must be an array of points, got shape {shp}")
            elif shp != one:
                raise TypeError(f"integrand accepts one point per argument (argument {d}: shape {shp}, expected {one})")

    def f(*args):
        if argform in ("point", "vec"):
            check_args(args)
        if rform == "alias" and coordinate:
            d, c, _ = poly[0][1][0]
            v = comp(args[d], d, c)
            shape = np.shape(comp(args[-1], len(args) - 1, 0))
            return np.broadcast_to(v, shape) if shape != np.shape(v) else v
        tot = 0.0 * comp(args[-1], len(args) - 1, 0)  # carries the shape of the vectorised argument
        for coef, facs in poly:
            term = float(coef)
            for d, c, e in facs:
                term = term * comp(args[d], d, c) ** e
            tot = tot + term
        if np.ndim(tot) == 0:
            if rform == "py":
                return float(tot)
            if rform == "int":
                return int(tot)
            if rform == "0d":
                return np.asarray(tot)
            return tot
        if rform == "buffer":
            buf = bufs.setdefault(tot.shape, np.empty(tot.shape))
            np.copyto(buf, tot)
            return buf
        if rform == "readonly":
            tot = np.array(tot)
            tot.flags.writeable = False
            return tot
        return tot.astype(np.int64) if rform == "int" else tot

    return f


RFORMS = ["np", "np", "py", "int", "0d", "buffer", "readonly"]


def rand_coordinate(rng, dims):
    """The integrand x_d[c] (first moment along one coordinate), mostly of the last domain."""
    d = len(dims) - 1 if rng.random() < 0.7 else rng.randrange(len(dims))
    return [(1, [(d, rng.randrange(dims[d]), 1)])]


def grids_intact(md, doms_spec, shared_positions=None):
    """Do the component grids still hold the data they were built from?  Returns None or a description."""
    objs = md.grid_list
    specs_ = doms_spec if len(objs) == len(doms_spec) else doms_spec[:1]
    for j, (g, gs) in enumerate(zip(objs, specs_)):
        if not np.array_equal(np.asarray(g.points, dtype=float), np.asarray(points_array(gs, gs["pts"]), dtype=float)):
            return f"points of grid_list[{j}] are now {np.asarray(g.points).tolist()}"
        if not np.array_equal(np.asarray(g.weights, dtype=float), np.asarray(weights_array(gs, gs["wts"]), dtype=float)):
            return f"weights of grid_list[{j}] are now {np.asarray(g.weights).tolist()}"
    return None


# ====================================================================== the property's own oracle (Python ints)
def poly_int(poly, xs):
    tot = 0
    for coef, facs in poly:
        t = coef
        for d, c, e in facs:
            t *= xs[d][c] ** e
        tot += t
    return tot


def oracle_integral(doms, poly):
    def rec(j, xs, w):
        if j == len(doms):
            return w * poly_int(poly, xs)
        s = 0
        g = doms[j]
        for p, wt in zip(g["pts"], g["wts"]):
            s += rec(j + 1, xs + [p], w * wt)
        return s

    return rec(0, [], 1)


def abs_bound(doms, poly):
    """Sum over the product set of |product of weight numerators| * (1 + sum of |monomials|): every partial sum that
    any evaluation order can form is bounded by this (in units of 2^-scale_bits)."""
    apoly = [(abs(c), fs) for c, fs in poly]

    def rec(j, xs, w):
        if j == len(doms):
            return w * (1 + poly_int(apoly, xs))
        return sum(rec(j + 1, xs + [[abs(x) for x in p]], w * abs(wt)) for p, wt in zip(doms[j]["pts"], doms[j]["wts"]))

    return rec(0, [], 1)


def oracle_enum(doms):
    """(points, weights) of the product set, last domain fastest, by explicit loops."""
    pts, wts = [[]], [1]
    for g in doms:
        npts, nwts = [], []
        for t, w in zip(pts, wts):
            for p, wt in zip(g["pts"], g["wts"]):
                npts.append(t + [list(p)])
                nwts.append(w * wt)
        pts, wts = npts, nwts
    return pts, wts


def oracle_size(doms):
    s = 1
    for g in doms:
        s *= len(g["wts"])
    return s


# ====================================================================== random data
def rand_grid(rng, n=None, dim=None, forms=True):
    dim = dim or rng.choice([1, 1, 3, 3, 2])
    n = n or rng.randint(1, 4)
    pts = [[rng.randint(-3, 3) for _ in range(dim)] for _ in range(n)]
    wts = [rng.choice([-2, -1, 1, 1, 2, 3, 3, 0]) for _ in range(n)]
    if all(w == 0 for w in wts):
        wts[0] = 2
    g = {"dim": dim, "pts": pts, "wts": wts, "oned": dim == 1 and rng.random() < 0.5}
    if forms:
        set_form(rng, g)
    return g


def set_form(rng, g, ws=None, wdt=None, pdt=None, hp=False):
    """Choose the storage form of a grid: scale of the dyadic weights, dtype of the weight and point arrays."""
    if ws is None:
        ws = 0 if rng.random() < 0.45 else rng.choice([1, 2, 3])
    if wdt is None:
        wdt = rng.choice(["float64", "float64", "int64", "int32", "float32"] if ws == 0 else ["float64", "float64", "float64", "float32"])
    n = len(g["wts"])
    if hp:  # 31-bit weights 1 + odd/2^30: exact in double precision, not in single precision
        ws, wdt = 30, "float64"
        g["wts"] = [2 ** 30 + rng.choice([-5, -3, -1, 1, 3, 7]) for _ in range(n)]
    elif ws > 0:  # odd numerators: genuinely fractional weights
        g["wts"] = [rng.choice([-3, -1, 1, 1, 3, 5, 7]) for _ in range(n)]
    g["ws"], g["wdt"], g["pdt"] = ws, wdt, pdt or rng.choice(["float64", "float64", "int64"])
    return g


def rand_poly(rng, dims):
    """Asymmetric polynomial: the first monomial involves every domain with neighbouring exponents distinct."""
    k = len(dims)
    off = rng.randint(0, 2)
    first = [(d, rng.randrange(dims[d]), 1 + (d + off) % 3) for d in range(k)]
    poly = [(rng.choice([-3, -2, -1, 1, 2, 3]), first)]
    for _ in range(rng.randint(1, 3)):
        ds = sorted(rng.sample(range(k), rng.randint(0, k)))
        poly.append((rng.choice([-4, -3, -2, -1, 1, 2, 3, 4]), [(d, rng.randrange(dims[d]), rng.randint(1, 2)) for d in ds]))
    return poly


def rand_separable(rng, dims):
    """prod_j (a_j + b_j * x_j[c_j]^e_j), expanded to monomials; returns (poly, factors)."""
    facs = [(rng.choice([-2, -1, 0, 1, 2]), rng.choice([-2, -1, 1, 2, 3]), rng.randrange(dims[d]), rng.randint(1, 3)) for d in range(len(dims))]
    poly = [(1, [])]
    for d, (a, b, c, e) in enumerate(facs):
        new = []
        for coef, fs in poly:
            if a != 0:
                new.append((coef * a, fs))
            new.append((coef * b, fs + [(d, c, e)]))
        poly = new
    return poly, facs


def make_specs(ctx: Ctx):
    rng = ctx.rng
    specs = []

    def add(grids, nd=None, share=None, tag="", big=False):
        specs.append({"grids": grids, "nd": nd, "share": share, "tag": tag, "big": big})

    # structured: every number of domains, both modes, the twin "list of k copies" of each repeated-grid object
    kmax = 4 if ctx.quick else 5
    for k in range(1, kmax + 1):
        for rep in range(2 if ctx.quick else 4):
            gl = [rand_grid(rng, n=rng.randint(2, 4) if k <= 3 else rng.randint(2, 3)) for _ in range(k)]
            add(gl, tag=f"list{k}")
        g = rand_grid(rng, n=rng.randint(2, 4) if k <= 3 else rng.randint(2, 3))
        add([g], nd=k, tag=f"repeat{k}")
        add([g], share=k, tag=f"copies{k}")
    # argument forms: integer / single-precision weights in one position, fractional double-precision weights elsewhere
    for k in range(2, kmax + 1):
        for pos in sorted({0, k - 1, rng.randrange(k)}):
            for wdt in ("int64", "float32", "int32"):
                gl = [set_form(rng, rand_grid(rng, n=rng.randint(2, 3), forms=False), ws=rng.choice([1, 2, 3]), wdt="float64") for _ in range(k)]
                set_form(rng, gl[pos], ws=0 if wdt != "float32" else rng.choice([0, 1]), wdt=wdt)
                add(gl, tag=f"form-{wdt}@{pos}of{k}")
        add([set_form(rng, rand_grid(rng, n=rng.randint(2, 3), forms=False), ws=0, wdt="int64", pdt="int64") for _ in range(k)], tag=f"form-allint{k}")
        g = set_form(rng, rand_grid(rng, n=rng.randint(2, 3), forms=False), ws=0, wdt=rng.choice(["int64", "float32"]))
        add([g], nd=k, tag=f"form-repeat{k}")
    for pos, wdt in ((0, "float32"), (1, "float32"), (0, "int64"), (1, "int32")):  # single precision / integer next to 31-bit weights
        gl = [rand_grid(rng, n=rng.randint(2, 3), forms=False) for _ in range(2)]
        set_form(rng, gl[pos], ws=0 if wdt != "float32" else 1, wdt=wdt)
        set_form(rng, gl[1 - pos], hp=True)
        add(gl, tag=f"form-{wdt}@{pos}+hp")
    add([rand_grid(rng, n=1, dim=3)], tag="onepoint")
    add([rand_grid(rng, n=1, dim=1), rand_grid(rng, n=3, dim=3), rand_grid(rng, n=1, dim=2)], tag="sizes1")
    add([rand_grid(rng, n=5, dim=1), rand_grid(rng, n=1, dim=3)], tag="lastsize1")
    # random
    for _ in range(60 if ctx.quick else 500):
        k = rng.choice([1, 2, 2, 3, 3, 3, 4, 4] + ([5] if kmax >= 5 else []))
        if rng.random() < 0.3:
            add([rand_grid(rng)], nd=k, tag="rnd-repeat")
        else:
            nmax = 5 if k <= 2 else (4 if k == 3 else 3)
            add([rand_grid(rng, n=rng.randint(1, nmax)) for _ in range(k)], tag="rnd-list")
    # more points than the default chunk size (the default route must cross a chunk boundary)
    add([rand_grid(rng, n=20, dim=1), rand_grid(rng, n=19, dim=3), rand_grid(rng, n=17, dim=1)], tag="big-list", big=True)
    add([rand_grid(rng, n=9, dim=3)], nd=4, tag="big-repeat", big=True)
    if not ctx.quick:
        add([rand_grid(rng, n=7, dim=1), rand_grid(rng, n=11, dim=3), rand_grid(rng, n=13, dim=2), rand_grid(rng, n=7, dim=3)], tag="big-list", big=True)
        add([rand_grid(rng, n=23, dim=1)], nd=3, tag="big-repeat", big=True)
    return specs


# ====================================================================== Coq literals
def zi(n):
    n = int(n)
    return f"({n})" if n < 0 else str(n)


def zl(xs):
    return "[" + "; ".join(zi(x) for x in xs) + "]"


def coq_grid(g):
    return "(Grid [" + "; ".join(zl(p) for p in g["pts"]) + "] " + zl(g["wts"]) + ")"


def coq_poly(poly):
    ms = []
    for coef, facs in poly:
        ms.append(f"({zi(coef)}, [" + "; ".join(f"({d}, {c}, {e})" for d, c, e in facs) + "]%nat)")
    return "[" + "; ".join(ms) + "]"


def coq_points(pts):
    return "[" + "; ".join("[" + "; ".join(zl(p) for p in tup) + "]" for tup in pts) + "]"


def coq_md_args(spec):
    if spec.get("share"):
        gl = "[" + "; ".join([coq_grid(spec["grids"][0])] * spec["share"]) + "]"
    else:
        gl = "[" + "; ".join(coq_grid(g) for g in spec["grids"]) + "]"
    nd = "None" if spec["nd"] is None else f"(Some {zi(spec['nd'])})"
    return gl, nd


HEADER = """From Coq Require Import List Arith NArith ZArith Bool.
From P Require Import C18_model C18_gen.
Import ListNotations.
Open Scope Z_scope.
Fixpoint leqb {A} (e : A -> A -> bool) (a b : list A) : bool :=
  match a, b with [] , [] => true | x :: r, y :: s => e x y && leqb e r s | _, _ => false end.
Definition pts_eqb := leqb (leqb (leqb Z.eqb)).
Definition getm (x : option (@mdgrid Z)) : @mdgrid Z := match x with Some m => m | None => MD [] None end.
Definition isnone (x : option (@mdgrid Z)) : bool := match x with None => true | Some _ => false end.
Definition okm (m : @mdgrid Z) : bool := forallb wf_gridb (grid_list m).
Definition nv (m : @mdgrid Z) p (c : N) : Z := integrate_nonvec ZOps m (poly_eval ZOps p) (N.to_nat c).
Definition vc (m : @mdgrid Z) p : Z := integrate_vec ZOps m (poly_vec ZOps p).
Definition dflt (m : @mdgrid Z) p : Z := if default_non_vectorized then nv m p default_chunk else vc m p.
Definition biggrid (n : N) : @grid Z := Grid (repeat [0] (N.to_nat n)) (repeat 0 (N.to_nat n)).
"""


# ====================================================================== observation helpers
def as_int(v, g=0):
    """Exact integer value of (observation * 2^g), or None."""
    from fractions import Fraction

    try:
        x = float(v)
    except Exception:
        return None
    if x != x or x in (float("inf"), float("-inf")):
        return None
    fr = Fraction(x) * 2 ** g
    if fr.denominator != 1 or abs(fr.numerator) >= 2 ** 62:
        return None
    return int(fr.numerator)


def observe(fn):
    try:
        return ("ok", fn())
    except Exception as e:  # noqa: BLE001 - any exception is an observation
        return ("exc", f"{type(e).__name__}: {str(e)[:120]}")


def flat_points(md):
    out = []
    for tup in md.points:
        row = []
        for p in tup:
            a = np.atleast_1d(np.asarray(p, dtype=float))
            row.append([as_int(x) for x in a])
        out.append(row)
    return out


def grid_key(g):
    d = {"dim": g["dim"], "pts": g["pts"], "wts": g["wts"]}
    if g.get("ws", 0) or g.get("wdt", "float64") != "float64" or g.get("pdt", "float64") != "float64":
        d["weights=wts/2^"] = g.get("ws", 0)
        d["wdtype"], d["pdtype"] = g.get("wdt", "float64"), g.get("pdt", "float64")
    return d


def spec_key(spec):
    d = {"grids": [grid_key(g) for g in spec["grids"]], "num_domains": spec["nd"]}
    if spec.get("share"):
        d["same_grid_listed"] = spec["share"]
    return json.dumps(d, separators=(",", ":"))


def spec_points_total(spec):
    return oracle_size(domains_of(spec))


# ====================================================================== histories on one object
def hist_state(spec):
    """Per-position grid data plus which positions hold the same Grid object."""
    import copy

    if spec.get("share"):
        pos = [copy.deepcopy(spec["grids"][0]) for _ in range(spec["share"])]
        grp = [0] * spec["share"]
    else:
        pos = copy.deepcopy(spec["grids"])
        grp = list(range(len(pos)))
    return {"pos": pos, "grp": grp, "nd": spec["nd"], "next": len(pos)}


def hist_domains(state):
    return [state["pos"][0]] * state["nd"] if state["nd"] is not None else list(state["pos"])


def hist_apply_impl(md, state, op):
    """Perform a state-changing operation on the implementation (before hist_apply_state)."""
    import copy

    j = op["j"]
    g = md.grid_list[j]
    gs = state["pos"][j]
    if op["op"] == "setw":
        if op["form"] == "setter":
            g.weights = weights_array(gs, op["wts"])
        elif op["form"] == "inplace":
            g.weights[:] = weights_array(gs, op["wts"])
        else:  # "imul": the new numerators are twice the old ones
            g.weights *= 2
    elif op["op"] == "setp":
        if op["form"] == "setter":
            g.points = points_array(gs, op["pts"])
        else:
            g.points[...] = points_array(gs, op["pts"])
    elif op["op"] == "replace":
        md.grid_list[j] = build_grid(copy.deepcopy(op["grid"]))
    else:
        raise ValueError(op["op"])


def hist_apply_state(state, op):
    """Update the data; returns the model operations (Coq terms)."""
    import copy

    j = op["j"]
    same = [q for q in range(len(state["pos"])) if state["grp"][q] == state["grp"][j]]
    if op["op"] == "setw":
        for q in same:
            state["pos"][q]["wts"] = list(op["wts"])
        return [f"SetWeights {q}%nat {zl(op['wts'])}" for q in same]
    if op["op"] == "setp":
        for q in same:
            state["pos"][q]["pts"] = [list(x) for x in op["pts"]]
        return [f"SetPoints {q}%nat [" + "; ".join(zl(x) for x in op["pts"]) + "]" for q in same]
    state["pos"][j] = copy.deepcopy(op["grid"])
    state["grp"][j] = state["next"]
    state["next"] += 1
    return [f"ReplaceGrid {j}%nat {coq_grid(op['grid'])}"]


def hist_observe(md, op, dims):
    """Integrate on the object as it is now."""
    f = make_callable([(c, [tuple(x) for x in fs]) for c, fs in op["poly"]], dims, op.get("rform", "np"), op.get("argform"))
    route, c = op["route"], op.get("chunk")
    if route == "default":
        return md.integrate(f)
    if route == "vec":
        return md.integrate(f, non_vectorized=False)
    if c is None:
        return md.integrate(f, non_vectorized=True)
    return md.integrate(f, non_vectorized=True, integration_chunk_size=c)


def hist_replay(spec, ops):
    """Fresh object, apply the operations in order; returns (observed*2^G or None, expected*2^G, G, raw) of the LAST operation,
    which must be an integrate.  Raises if an operation does not fit the current shapes."""
    md = build_md(spec)
    state = hist_state(spec)
    out = None
    for op in ops:
        doms = hist_domains(state)
        if op["op"] == "int":
            dims = [g["dim"] for g in doms]
            G = scale_bits(doms)
            poly = [(c, [tuple(x) for x in fs]) for c, fs in op["poly"]]
            st, v = observe(lambda: hist_observe(md, op, dims))
            out = (as_int(v, G) if st == "ok" else None, oracle_integral(doms, poly), G, v)
            continue
        if op["op"] == "obs":
            continue
        gs = state["pos"][op["j"]]
        if op["op"] == "setw":
            if op["form"] == "imul":
                op = dict(op, wts=[2 * w for w in gs["wts"]])
            if len(op["wts"]) != len(gs["wts"]):
                raise ValueError("shape")
        if op["op"] == "setp" and (len(op["pts"]) != len(gs["pts"]) or len(op["pts"][0]) != gs["dim"]):
            raise ValueError("shape")
        if op["op"] == "replace" and op["grid"]["dim"] != gs["dim"]:
            raise ValueError("shape")
        hist_apply_impl(md, state, op)
        hist_apply_state(state, op)
    return out


def hist_fails(spec, ops):
    try:
        r = hist_replay(spec, ops)
    except Exception:  # noqa: BLE001 - the shortened history is not executable
        return False
    return r is not None and r[0] != r[1]


def hist_shrink(spec, ops):
    """Greedy removal of operations (the last one, the failing observation, is kept)."""
    ops = list(ops)
    changed = True
    while changed:
        changed = False
        for q in range(len(ops) - 2, -1, -1):
            trial = ops[:q] + ops[q + 1:]
            if hist_fails(spec, trial):
                ops, changed = trial, True
    return ops


def rand_mutation(rng, state):
    j = rng.randrange(len(state["pos"]))
    gs = state["pos"][j]
    n = len(gs["wts"])
    r = rng.random()
    if r < 0.55:
        form = rng.choice(["setter", "setter", "inplace", "imul"])
        if form == "imul":
            wts = [2 * w for w in gs["wts"]]
        elif gs.get("ws", 0) >= 30:
            wts = [2 ** 30 + rng.choice([-7, -5, -1, 3, 5, 9]) for _ in range(n)]
        elif gs.get("ws", 0) > 0:
            wts = [rng.choice([-5, -3, -1, 1, 3, 5, 7, 9]) for _ in range(n)]
        else:
            wts = [rng.choice([-3, -2, -1, 1, 2, 4, 5]) for _ in range(n)]
        if wts == gs["wts"] and form != "imul":  # (*= 2 on all-zero weights changes nothing, on either side)
            wts[0] += 2
        return {"op": "setw", "j": j, "wts": wts, "form": form}
    if r < 0.8:
        pts = [[rng.randint(-3, 3) for _ in range(gs["dim"])] for _ in range(n)]
        return {"op": "setp", "j": j, "pts": pts, "form": rng.choice(["setter", "inplace"])}
    if state["nd"] is not None and rng.random() < 0.5:  # keep some repeated-grid histories free of replacement
        return rand_mutation(rng, state)
    return {"op": "replace", "j": j, "grid": rand_grid(rng, n=rng.randint(1, 4), dim=gs["dim"])}


# ====================================================================== run
def run(ctx: Ctx):
    import grid.basegrid as gb
    import grid.ngrid as gn

    importlib.reload(gb)
    importlib.reload(gn)

    d_nonvec, d_chunk = gen(ctx)
    # translation validation of the extracted defaults against the imported function object
    import inspect

    sig = inspect.signature(gn.MultiDomainGrid.integrate)
    if (sig.parameters["non_vectorized"].default, sig.parameters["integration_chunk_size"].default) != (d_nonvec, d_chunk):
        ctx.fail("gen_defaults", "gen:integrate-defaults", None, "extracted defaults of integrate differ from the imported function's", found_input=False)
    ctx.copy_coq("C18")
    status = ctx.coq_build()
    ctx.register_props(status)
    if not status.get("C18_model.v", False) or not status.get("C18_gen.v", False):
        raise RuntimeError("C18 model does not compile: " + ctx.logs.get("C18_model.v", "")[-400:])

    specs = make_specs(ctx)
    defs, cases, meta = [], [], []
    pending = []  # (sortkey, obligation, key, observed, text, replay, found)

    tags = set()  # (kind, key) of observations already refuted by the oracle

    def report(size, obligation, key, observed, text, replay, found=True, tag=None):
        pending.append((size, obligation, key, observed, text, replay, found))
        if tag is not None:
            tags.add(tag)

    def case(expr, m):
        cases.append(expr)
        meta.append(m)

    # ---------------------------------------------------------------- constructor rejections
    g1, g2 = rand_grid(ctx.rng, n=2, dim=1), rand_grid(ctx.rng, n=2, dim=3)
    ctor = [([], None), ([], 2), ([g1, g2], 2), ([g1, g2], 1), ([g1], 0), ([g1], -1), ([g1], 1), ([g1], 2), ([g1, g2], None), ([g2], None)]
    for gl, nd in ctor:
        spec = {"grids": gl, "nd": nd}
        st, val = observe(lambda: build_md(spec))
        rejected = st == "exc" and val.startswith("ValueError")
        if st == "exc" and not rejected:
            report(0, "corr_init", f"init:{spec_key(spec)}", val, f"MultiDomainGrid({len(gl)} grids, num_domains={nd}) raised {val}",
                   {"spec": spec, "reproduce": "MultiDomainGrid(grid_list, num_domains)"})
            continue
        gls, nds = coq_md_args(spec)
        e = f"md_init {gls} {nds}"
        case(f"isnone ({e})" if rejected else f"negb (isnone ({e}))", {"kind": "init", "spec": spec, "rejected": rejected})
        ctx.case(("init", len(gl), nd))
    ctx.count("constructor_cases", len(ctor))

    # ---------------------------------------------------------------- objects
    for i, spec in enumerate(specs):
        doms = domains_of(spec)
        dims = [g["dim"] for g in doms]
        total = oracle_size(doms)
        G = scale_bits(doms)  # observed values are compared after multiplication by 2^G
        for g in doms:
            ctx.count(f"wdtype={g.get('wdt', 'float64')}" + ("/fractional" if g.get("ws", 0) else ""))
        name = f"m{i}"
        gls, nds = coq_md_args(spec)
        defs.append(f"Definition {name} : @mdgrid Z := getm (md_init {gls} {nds}).")
        key0 = spec_key(spec)
        mode = "repeat" if spec["nd"] is not None else ("copies" if spec.get("share") else "list")
        ctx.count(f"domains={len(doms)}:{mode}")
        st, md = observe(lambda: build_md(spec))
        if st == "exc":
            report(total, "corr_init", f"init:{key0}", md, f"constructing the multi-domain grid raised {md}", {"spec": spec})
            continue
        case(f"negb (isnone (md_init {gls} {nds})) && okm {name}", {"kind": "init", "spec": spec, "rejected": False})

        # ---- num_domains, size
        st, v = observe(lambda: md.num_domains)
        if st == "ok" and isinstance(v, (int, np.integer)):
            case(f"Nat.eqb (num_domains {name}) {int(v)}%nat" if int(v) >= 0 else "false", {"kind": "num_domains", "spec": spec, "obs": int(v)})
        else:
            report(total, "corr_num_domains", f"num_domains:{key0}", str(v), f"num_domains gave {v}", {"spec": spec}, tag=("num_domains", key0))
        if st == "ok" and v != len(doms):
            report(total, "corr_num_domains", f"num_domains:{key0}", int(v), f"num_domains = {v}, the object stands for {len(doms)} domains", {"spec": spec, "expected": len(doms)}, tag=("num_domains", key0))
        st, v = observe(lambda: md.size)
        if st == "ok" and isinstance(v, (int, np.integer)):
            case(f"N.eqb (md_size {name}) {int(v)}%N" if int(v) >= 0 else "false", {"kind": "size", "spec": spec, "obs": int(v)})
            if int(v) != total:
                report(total, "corr_size_spec", f"size:{key0}", int(v), f".size = {int(v)}, the product set has {total} elements", {"spec": spec, "expected": total}, tag=("size", key0))
        else:
            report(total, "corr_size_spec", f"size:{key0}", str(v), f".size gave {v}", {"spec": spec, "expected": total}, tag=("size", key0))
        ctx.case(("size", key0))

        # ---- enumeration order of points and weights
        if not spec["big"]:
            opts, owts = oracle_enum(doms)
            st, pts = observe(lambda: flat_points(md))
            if st == "ok" and all(x is not None for t in pts for p in t for x in p):
                case(f"pts_eqb (md_points {name}) {coq_points(pts)}", {"kind": "points", "spec": spec})
                if pts != opts:
                    j = next((j for j in range(min(len(pts), len(opts))) if pts[j] != opts[j]), min(len(pts), len(opts)))
                    report(total, "corr_order_spec", f"points:{key0}", j,
                           f".points differs from the product enumeration (last domain fastest) at position {j} (lengths {len(pts)} vs {len(opts)})",
                           {"spec": spec, "position": j, "observed_points": pts[j:j + 1], "expected_points": opts[j:j + 1]}, tag=("points", key0))
            else:
                report(total, "corr_order_spec", f"points:{key0}", str(pts)[:200], ".points could not be enumerated as integer tuples", {"spec": spec}, tag=("points", key0))
            st, wts = observe(lambda: [as_int(w, G) for w in md.weights])
            if st == "ok" and all(w is not None for w in wts):
                case(f"leqb Z.eqb (md_weights ZOps {name}) {zl(wts)}", {"kind": "weights", "spec": spec})
                if wts != owts:
                    j = next((j for j in range(min(len(wts), len(owts))) if wts[j] != owts[j]), min(len(wts), len(owts)))
                    report(total, "corr_order_spec", f"weights:{key0}", j,
                           f".weights differs from the products of the node weights in product order at position {j} (lengths {len(wts)} vs {len(owts)})",
                           {"spec": spec, "position": j, "observed_weights": wts[j:j + 3], "expected_weights": owts[j:j + 3], "in_units_of_2^-": G}, tag=("weights", key0))
            else:
                report(total, "corr_order_spec", f"weights:{key0}", str(wts)[:200], f".weights could not be enumerated as multiples of 2^-{G}", {"spec": spec}, tag=("weights", key0))
            ctx.case(("order", key0), traces=2)

        # ---- integrals: generic asymmetric polynomial + separable polynomial
        poly_a = rand_poly(ctx.rng, dims)
        poly_s, facs = rand_separable(ctx.rng, dims)
        chunk_list = sorted({c for c in CHUNK_FIXED + [total - 1, total, total + 1, total + 5 + ctx.rng.randint(0, 9)] if c >= 1})
        if spec["big"]:
            chunk_list = [7, 1000, total - 1]
        poly_c = rand_coordinate(ctx.rng, dims)
        md_main = md
        for pi, poly in enumerate((poly_a, poly_s, poly_c)):
            pname = f"p{i}_{pi}"
            md = md_main
            if pi == 2:  # coordinate integrand handing back its own argument: on a fresh object, vectorised route first
                st, md = observe(lambda: build_md(spec))
                if st == "exc":
                    break
            defs.append(f"Definition {pname} : list (@monomial Z) := {coq_poly(poly)}.")
            if abs_bound(doms, poly) >= 2 ** 52:  # a correct implementation might round: not an exact case
                ctx.count("skipped_not_exact")
                continue
            rform = "alias" if pi == 2 else ctx.rng.choice(RFORMS)
            ctx.count(f"integrand_returns={rform}")
            af_vec = ctx.rng.choice([None, "vec"])
            af_pt = ctx.rng.choice([None, "point", "point", "point-index"])
            ctx.count(f"nonvec_integrand_accepts={af_pt or 'anything'}")
            f = make_callable(poly, dims, rform, af_pt if d_nonvec else af_vec)  # used with the default route
            f_vec = make_callable(poly, dims, rform, af_vec)
            f_pt = make_callable(poly, dims, rform, af_pt)
            exp = oracle_integral(doms, poly)  # in units of 2^-G
            routes = [("default", None, lambda: md.integrate(f)),
                      ("vec", None, lambda: md.integrate(f_vec, non_vectorized=False)),
                      ("nonvec-default-chunk", None, lambda: md.integrate(f_pt, non_vectorized=True))]
            for c in chunk_list:
                routes.append(("nonvec", c, (lambda c=c: md.integrate(f_pt, non_vectorized=True, integration_chunk_size=c))))
            if spec["big"] and pi >= 1:
                routes = routes[:3]
            if pi == 2:
                routes = [routes[1], routes[0]] + routes[2:6]
            for route, c, fn in routes:
                st, v = observe(fn)
                iv = as_int(v, G) if st == "ok" else None
                af = af_pt if (route.startswith("nonvec") or (route == "default" and d_nonvec)) else af_vec
                rp = {"spec": spec, "poly": poly, "route": route, "chunk": c, "rform": rform, "argform": af, "expected": exp, "in_units_of_2^-": G,
                      "reproduce": "see tools/props/c18.py: build_md(spec).integrate(make_callable(poly, dims), ...)"}
                k = f"integrate:{route}:{c}:{key0}:{json.dumps(poly, separators=(',', ':'))}"
                ctx.case(("int", i, pi, route, c))
                ctx.count(f"route={route}")
                if iv is None:
                    report(total, "corr_" + ("vec_eq_nested" if route in ("vec", "default") else "nonvec_chunk_independent"), k,
                           str(v)[:160], f"integrate ({route}, chunk={c}) gave {str(v)[:160]}; the iterated quadrature is {exp}/2^{G}", rp, tag=("integrate", k))
                    continue
                coq = {"default": f"dflt {name} {pname}", "vec": f"vc {name} {pname}",
                       "nonvec-default-chunk": f"nv {name} {pname} default_chunk"}.get(route, f"nv {name} {pname} {c}%N")
                case(f"Z.eqb ({coq}) {zi(iv)}", {"kind": "integrate", "spec": spec, "poly": poly, "route": route, "chunk": c, "obs": iv, "exp": exp})
                if iv != exp:
                    report(total, "corr_" + ("vec_eq_nested" if route in ("vec", "default") else "nonvec_chunk_independent"), k, float(iv),
                           f"integrate ({route}, chunk={c}) = {iv}/2^{G}, the nested sum over the product set is {exp}/2^{G}", rp, tag=("integrate", k))
            # the calls must leave the component grids as they were (otherwise every later integral is off)
            damage = grids_intact(md, doms)
            if damage:
                report(total, "corr_history_routes_agree", f"intact:{key0}:{json.dumps(poly, separators=(',', ':'))}:{rform}", damage[:200],
                       f"after integrate(...) with an integrand returning {rform!r} values, the component grids no longer hold their data: {damage[:200]}",
                       {"spec": spec, "poly": poly, "rform": rform, "routes_called": [r[0] for r in routes]})
            # separable: product of the single-grid integrals computed by the implementation's own Grid.integrate
            if pi == 1:
                prod_impl, prod_int = 1, 1
                for d, (a, b, cc, e) in enumerate(facs):
                    gobj = build_grid(doms[d])
                    vals = np.array([float(a + b * p[cc] ** e) for p in doms[d]["pts"]])
                    prod_impl *= as_int(gobj.integrate(vals), doms[d].get("ws", 0)) or 0
                    prod_int *= sum(w * (a + b * p[cc] ** e) for p, w in zip(doms[d]["pts"], doms[d]["wts"]))
                ctx.case(("sep", i))
                st, v = observe(lambda: md.integrate(f))
                if prod_int != exp:
                    raise RuntimeError("oracle inconsistency: separable product differs from the nested sum")
                if st != "ok" or as_int(v, G) != prod_impl or prod_impl != prod_int:
                    report(total, "corr_separable_product", f"separable:{key0}:{json.dumps(facs)}", str(v)[:80],
                           f"separable integrand: multi-domain integral {str(v)[:80]}, product of the single-grid integrals {prod_impl}/2^{G} (exact {prod_int}/2^{G})",
                           {"spec": spec, "factors(a,b,comp,exp)": facs, "poly": poly, "expected": prod_int})
        md = md_main
        if i < 3:
            ctx.sample({"spec": json.loads(key0), "poly": poly_a, "chunks": chunk_list, "nested_sum": oracle_integral(doms, poly_a)})

    # ---------------------------------------------------------------- histories on one object
    shrinks = [0]
    cand = [i for i, sp in enumerate(specs) if not sp["big"] and spec_points_total(sp) <= 150]
    multi = [i for i in cand if len(domains_of(specs[i])) >= 2]
    ctx.rng.shuffle(multi)
    chosen = sorted(multi[: (30 if ctx.quick else 250)] + [i for i in cand if len(domains_of(specs[i])) == 1][:3])
    for i in chosen:
        spec = specs[i]
        key0 = spec_key(spec)
        st, md = observe(lambda: build_md(spec))
        if st == "exc":
            continue  # reported above
        state = hist_state(spec)
        dims = [g["dim"] for g in hist_domains(state)]
        polys = [rand_poly(ctx.rng, dims), rand_poly(ctx.rng, dims), rand_coordinate(ctx.rng, dims)]
        for pi, poly in enumerate(polys):
            defs.append(f"Definition hp{i}_{pi} : list (@monomial Z) := {coq_poly(poly)}.")
        coq_ops, done = [], []
        nsteps = ctx.rng.randint(5, 9)
        plan = ["int"] + [ctx.rng.choice(["mut", "mut", "int", "int", "obs"]) for _ in range(nsteps)] + ["mut", "int", "int"]
        first_route = ctx.rng.choice(["default", "vec", "vec", "nonvec"])
        ctx.count("histories")
        for t, kind in enumerate(plan):
            doms = hist_domains(state)
            total, G = oracle_size(doms), scale_bits(doms)
            if kind == "mut":
                op = rand_mutation(ctx.rng, state)
                st, val = observe(lambda: hist_apply_impl(md, state, op))
                done.append(op)
                ctx.count(f"history_op={op['op']}" + (":" + op["form"] if "form" in op else ""))
                if st == "exc":
                    report(total, "corr_history_routes_agree", f"history:{key0}:{json.dumps(done, separators=(',', ':'))}", val,
                           f"state change {op['op']} on a component grid raised {val}", {"spec": spec, "history": list(done)})
                    break
                coq_ops += hist_apply_state(state, op)
                continue
            hname = f"h{i}_{t}"
            defs.append(f"Definition {hname} : @mdgrid Z := run_history m{i} [" + "; ".join(coq_ops) + "].")
            if kind == "obs":
                if total > 150:
                    continue
                opts, owts = oracle_enum(doms)
                st, v = observe(lambda: (int(md.size), flat_points(md), [as_int(w, G) for w in md.weights]))
                hk = f"history:{key0}:{json.dumps(done + [{'op': 'obs'}], separators=(',', ':'))}"
                ctx.case(("hist-obs", i, t), traces=3)
                if st == "ok" and all(w is not None for w in v[2]) and all(x is not None for tt in v[1] for p in tt for x in p):
                    case(f"N.eqb (md_size {hname}) {v[0]}%N && pts_eqb (md_points {hname}) {coq_points(v[1])} && leqb Z.eqb (md_weights ZOps {hname}) {zl(v[2])}",
                         {"kind": "history", "key": hk, "spec": spec, "obs": None})
                if st != "ok" or v[0] != total or v[1] != opts or v[2] != owts:
                    what = "size" if st == "ok" and v[0] != total else "points" if st == "ok" and v[1] != opts else "weights"
                    report(total, "corr_history_routes_agree", hk, str(v)[:120] if st != "ok" else what,
                           f"after the history, .size/.points/.weights do not describe the product set of the current component grids ({what} differs)",
                           {"spec": spec, "history": done + [{"op": "obs"}], "expected_size": total, "expected_weights": owts[:8], "in_units_of_2^-": G},
                           tag=("history", hk))
                continue
            # integrate on the object as it is now
            pi = ctx.rng.choice([0, 0, 1, 1, 2])
            if abs_bound(doms, polys[pi]) >= 2 ** 52:
                ctx.count("skipped_not_exact")
                continue
            route = first_route if t == 0 else ctx.rng.choice(["default", "vec", "vec", "nonvec", "nonvec"])
            op = {"op": "int", "poly": polys[pi], "route": route, "rform": "alias" if pi == 2 else ctx.rng.choice(RFORMS)}
            pointwise = route == "nonvec" or (route == "default" and d_nonvec)
            op["argform"] = ctx.rng.choice([None, "point", "point", "point-index"]) if pointwise else ctx.rng.choice([None, "vec"])
            if route == "nonvec":
                op["chunk"] = ctx.rng.choice([1, 2, 3, 7, max(total - 1, 1), total + 1, None])
            st, v = observe(lambda: hist_observe(md, op, dims))
            exp = oracle_integral(doms, polys[pi])
            iv = as_int(v, G) if st == "ok" else None
            hk = f"history:{key0}:{json.dumps(done + [op], separators=(',', ':'))}"
            ctx.case(("hist-int", i, t))
            ctx.count(f"history_route={route}")
            rp = {"spec": spec, "history": done + [op], "expected": exp, "in_units_of_2^-": G,
                  "reproduce": "./check C18 --replay <this file>  (one MultiDomainGrid object; the operations are applied in order)"}
            if iv is None:
                report(total, "corr_history_routes_agree", hk, str(v)[:160],
                       f"after {len(done)} state changes, integrate ({route}) gave {str(v)[:160]}; the iterated quadrature over the current grids is {exp}/2^{G}", rp, tag=("history", hk))
            else:
                c = op.get("chunk")
                coq = {"default": f"dflt {hname} hp{i}_{pi}", "vec": f"vc {hname} hp{i}_{pi}"}.get(
                    route, f"nv {hname} hp{i}_{pi} " + ("default_chunk" if c is None else f"{c}%N"))
                case(f"Z.eqb ({coq}) {zi(iv)}", {"kind": "history", "key": hk, "spec": spec, "obs": iv})
                if iv != exp:
                    tags.add(("history", hk))
                    hist = done + [op]
                    if shrinks[0] < 6 and hist_fails(spec, hist):
                        shrinks[0] += 1
                        hist = hist_shrink(spec, hist)
                        r = hist_replay(spec, hist)
                        iv, exp, G = r[0] if r[0] is not None else str(r[3])[:80], r[1], r[2]
                        rp = dict(rp, history=hist, expected=exp, **{"in_units_of_2^-": G})
                    report(total + 10 * len(hist), "corr_history_routes_agree", f"history:{key0}:{json.dumps(hist, separators=(',', ':'))}",
                           float(iv) if isinstance(iv, int) else iv,
                           f"one MultiDomainGrid object, operations " + " -> ".join(o["op"] + (":" + o["form"] if "form" in o else ":" + o["route"] if "route" in o else "") for o in hist)
                           + f": the last integrate = {iv}/2^{G}, the nested sum over the current component grids is {exp}/2^{G}", rp)
            done.append(op)
        if i == chosen[0]:
            ctx.sample({"history_on": json.loads(key0), "operations": [{k: v for k, v in o.items() if k != "poly"} for o in done]})

    # ---------------------------------------------------------------- size of large product sets (no enumeration)
    for sizes, nd in (([65536, 65536, 65536, 65536], None), ([65536], 4), ([100000, 70000, 3], None)):
        from grid.basegrid import OneDGrid
        from grid.ngrid import MultiDomainGrid

        gl = [OneDGrid(np.zeros(n), np.zeros(n)) for n in sizes]
        st, v = observe(lambda: MultiDomainGrid(gl, nd).size if nd else MultiDomainGrid(gl).size)
        exp = 1
        for n in (sizes * nd if nd else sizes):
            exp *= n
        key = f"size:{'repeat' if nd else 'list'}:{sizes}" + (f"x{nd}" if nd else "")
        ctx.case(("bigsize", key))
        gls = "[" + "; ".join(f"biggrid {n}%N" for n in sizes) + "]"
        nds = f"(Some {nd})" if nd else "None"
        if st == "ok" and isinstance(v, (int, np.integer)):
            case(f"N.eqb (md_size (getm (md_init {gls} {nds}))) {int(v)}%N" if int(v) >= 0 else "false",
                 {"kind": "bigsize", "key": key, "obs": int(v), "exp": exp, "sizes": sizes, "nd": nd})
            if int(v) != exp:
                report(0, "corr_size_spec", key, int(v), f".size of grids with {sizes} points" + (f" repeated {nd} times" if nd else "") +
                       f" is reported as {int(v)}; the product set has {exp} elements" +
                       (" (np.prod wraps around in int64)" if (int(v) - exp) % 2 ** 64 == 0 else ""),
                       {"sizes": sizes, "num_domains": nd, "expected": exp,
                        "reproduce": f"MultiDomainGrid([OneDGrid(np.zeros(n), np.zeros(n)) for n in {sizes}]" + (f", {nd}" if nd else "") + ").size"},
                       tag=("bigsize", key))
        else:
            report(0, "corr_size_spec", key, str(v), f".size gave {v}", {"sizes": sizes, "num_domains": nd, "expected": exp})

    # ---------------------------------------------------------------- model vs implementation, inside Coq
    hdr = HEADER + "\n".join(defs) + "\n"
    bad = ctx.coq_bool_cases("C18_cases", hdr, cases, shard=250)
    for i in bad:
        m = meta[i]
        kind = m["kind"]
        if kind == "init":
            report(0, "corr_init", f"init:{spec_key(m['spec'])}", "rejected" if m["rejected"] else "accepted",
                   f"constructor {'rejects' if m['rejected'] else 'accepts (or builds an ill-formed grid from)'} an argument combination that the model "
                   f"{'accepts' if m['rejected'] else 'rejects'}", {"spec": m["spec"]}, found=True)
        elif kind == "history":
            if ("history", m["key"]) not in tags:
                report(spec_points_total(m["spec"]), "corr_model_history", "model:" + m["key"], m.get("obs"),
                       "model (run_history) and implementation disagree on an observation after a history although it matches the oracle",
                       {"spec": m["spec"]}, found=False)
        elif kind == "bigsize":
            if ("bigsize", m["key"]) not in tags:
                report(0, "corr_model_size", "model:" + m["key"], m["obs"],
                       f"model and implementation disagree on .size for {m['key']} although the implementation matches the product", {}, found=False)
        elif kind == "integrate":
            k = f"integrate:{m['route']}:{m['chunk']}:{spec_key(m['spec'])}:{json.dumps(m['poly'], separators=(',', ':'))}"
            if ("integrate", k) not in tags:  # the implementation matches the oracle but not the model
                report(spec_points_total(m["spec"]), "corr_model_integrate", "model:" + k, float(m["obs"]),
                       f"model and implementation disagree on integrate ({m['route']}, chunk={m['chunk']}) = {m['obs']} although it equals the nested sum",
                       {"spec": m["spec"], "poly": m["poly"]}, found=False)
        else:
            k0 = spec_key(m["spec"])
            if (kind, k0) not in tags:
                report(spec_points_total(m["spec"]), "corr_model_" + kind, f"model:{kind}:{k0}", m.get("obs"),
                       f"model and implementation disagree on .{kind} although the implementation matches the oracle", {"spec": m["spec"]}, found=False)

    # ---------------------------------------------------------------- report (smallest inputs first, capped per kind)
    known_keys = set()
    try:
        for line in (VERIF / "known_findings.jsonl").read_text().splitlines():
            line = line.strip()
            if line and not line.startswith("#"):
                rec = json.loads(line)
                if rec.get("property") == ctx.pid and rec.get("status") == "known":
                    known_keys.add(rec.get("key"))
    except OSError:
        pass

    def fail_class(ob, key, rp):
        """Configuration class of a failure: a first failure is kept for every class, so that one class (or a listed
        known finding) cannot use up the slots of another."""
        sp = rp.get("spec") or {}
        grids = sp.get("grids") or []
        mode = "repeat" if sp.get("nd") is not None else "copies" if sp.get("share") else "list"
        short = {"int64": "int", "int32": "int", "float32": "f32"}
        forms = ",".join(sorted({short[g["wdt"]] for g in grids if g.get("wdt") in short})) + ("/frac" if any(g.get("ws", 0) for g in grids) else "")
        hist = rp.get("history")
        what = ""
        if hist:  # last state change (if any) and the failing observation
            muts = [o for o in hist if o["op"] in ("setw", "setp", "replace")]
            ints = [o for o in hist[:-1] if o["op"] == "int" and o.get("rform") in ("alias", "buffer", "readonly")]
            last = hist[-1]
            what = (muts[-1]["op"] if muts else "") + "|" + (ints[-1]["rform"] if ints else "") + "|" + last["op"]
        rf = rp.get("rform") if rp.get("rform") in ("alias", "buffer", "readonly") else "plain"
        special = "int/f32" if forms.split("/")[0] else ""  # a non-double weight array is involved
        return (ob, key.split(":")[0], "repeat" if mode == "repeat" else "list", rp.get("route"), rf, special, what)

    per, percls = {}, {}
    for size, ob, key, obs, text, rp, found in sorted(pending, key=lambda t: (t[0], len(t[2]))):
        if key in known_keys:
            ctx.fail(ob, key, obs, text, rp, found_input=found)
            continue
        cls = fail_class(ob, key, rp)
        percls[cls] = percls.get(cls, 0) + 1
        if percls[cls] > 1:  # beyond the first failure of a class: a few more per kind
            if per.get(ob, 0) >= MAXREP:
                continue
            per[ob] = per.get(ob, 0) + 1
        ctx.fail(ob, key, obs, text, rp, found_input=found)
    if pending:
        ctx.notes.append(f"{len(pending)} disagreements in total; reported: the first failure of every configuration class ({len(percls)} classes) plus at most {MAXREP} more per kind "
                         f"(listed known findings are reported separately and do not count): " + json.dumps(per))

    ctx.cov["rule"] = ("random integer grids (points in [-3,3]^d, d in {1,2,3} mixed; weights in {-2..3} incl. 0 and negatives), 1..4(5) domains, "
                       "list mode / repeated-grid mode / same object listed k times; two integrands per object sent as monomial data to both sides "
                       "(one asymmetric in the domains, one separable); routes: default, vectorised, non-vectorised with chunk sizes "
                       "1,2,3,7,total-1,total,total+1,>total and the default (two objects have more points than the default chunk); "
                       "every observed value (.size, .num_domains, full .points/.weights sequences, integrals) is compared with the Coq model by vm_compute "
                       "and with a nested-loop oracle over Python ints; distinct = (object, integrand, route, chunk) tuples. "
                       "Argument forms: weight arrays float64/float32/int64/int32 and point arrays float64/int64 mixed over the domains, dyadic fractional weights "
                       "(model on the numerators, comparison after scaling by the power of two), one 31-bit-weight grid next to single-precision/integer grids, "
                       "integrand returning numpy scalar / Python float / Python int / 0-d array / integer array; a case is used only if the sum of absolute values "
                       "of all terms is below 2^52 units in the last place (no rounding possible in a correct implementation). "
                       "What the integrand returns: additionally its own last argument or a view of it (coordinate integrands), a read-only broadcast view, "
                       "one reused output buffer, a non-writable array; the component grids are compared with their data after the calls. "
                       "What the integrand accepts: point-only callables (shape-checked, or plain p[c] indexing) on the non-vectorised routes, array-only callables on the "
                       "vectorised routes. Histories: on one object, integrate / re-weight a component grid (setter, slice assignment, *=) / move its points / replace grid_list[j] / "
                       "read size, points, weights, compared with run_history of the model and with the oracle on the current grids; failing histories are shrunk")
    ctx.cov["objects"] = len(specs)
    ctx.cov["coq_cases"] = len(cases)
    ctx.cov["integrate_defaults"] = {"non_vectorized": d_nonvec, "integration_chunk_size": d_chunk}
    ctx.trusted += [
        "hand model coq/C18/C18_model.v of ngrid.MultiDomainGrid / basegrid.Grid.integrate, tied by exact integer correspondence on every run",
        "itertools.product = CPython documentation's reference implementation (product_py, proved equal to the recursive model; order tied through .points/.weights)",
        "numpy float arithmetic is exact on integers below 2^53 (all test values are); np.sum / np.einsum / np.prod order is irrelevant in a commutative semiring",
        "hypothesis `vectorises fv f`: the user's callable applied to the array of all points of the last grid returns the point-wise values (true of the polynomial callables built here)",
        "hypothesis `wf_grid`: len(points) == len(weights), enforced by Grid.__init__",
        "ast extraction of the two defaults of integrate (fail closed on any other signature)",
        "dyadic weights n/2^s and their products/sums are exact in binary floating point while the guarded bound (< 2^52 ulp) holds; float32 inputs are restricted to values whose products stay exact in single precision",
        "history model: the object keeps references to its component grids and no other state (run_history); positions holding the same Grid object are updated together",
    ]
    ctx.assumptions += ["integrands are pure functions; the vectorised callable agrees with the point-wise one",
                        "exact arithmetic (the theorems are over a commutative semiring; floating-point rounding is outside the property)"]


# ====================================================================== replay
def replay(rp):
    print(json.dumps({k: v for k, v in rp.items() if k not in ("traceback",)}, indent=1, default=str)[:4000])
    if "sizes" in rp:
        from grid.basegrid import OneDGrid
        from grid.ngrid import MultiDomainGrid

        gl = [OneDGrid(np.zeros(n), np.zeros(n)) for n in rp["sizes"]]
        v = MultiDomainGrid(gl, rp["num_domains"]).size if rp.get("num_domains") else MultiDomainGrid(gl).size
        print("observed size:", int(v), "expected:", rp["expected"])
        return 1 if int(v) != rp["expected"] else 0
    if "spec" in rp and "history" in rp:
        ops = rp["history"]
        if ops and ops[-1]["op"] == "int":
            r = hist_replay(rp["spec"], ops)
            print(f"observed: {r[3]}  (= {r[0]}/2^{r[2]});  nested sum over the current component grids: {r[1]}/2^{r[2]}")
            return 1 if r[0] != r[1] else 0
        md = build_md(rp["spec"])
        state = hist_state(rp["spec"])
        for op in ops[:-1]:
            if op["op"] in ("setw", "setp", "replace"):
                hist_apply_impl(md, state, op)
                hist_apply_state(state, op)
            elif op["op"] == "int":
                hist_observe(md, op, [g["dim"] for g in hist_domains(state)])
        doms = hist_domains(state)
        G = scale_bits(doms)
        opts, owts = oracle_enum(doms)
        obs = (int(md.size), flat_points(md), [as_int(w, G) for w in md.weights])
        print("observed size/weights:", obs[0], obs[2][:8], " expected:", oracle_size(doms), owts[:8], f"(units of 2^-{G})")
        return 1 if obs != (oracle_size(doms), opts, owts) else 0
    if "spec" in rp and "poly" in rp and "route" in rp:
        spec = rp["spec"]
        poly = [(c, [tuple(x) for x in fs]) for c, fs in rp["poly"]]
        doms = domains_of(spec)
        G = scale_bits(doms)
        f = make_callable(poly, [g["dim"] for g in doms], rp.get("rform", "np"), rp.get("argform"))
        md = build_md(spec)
        route, c = rp["route"], rp.get("chunk")
        st, v = observe(lambda: md.integrate(f) if route == "default" else md.integrate(f, non_vectorized=False) if route == "vec"
                        else md.integrate(f, non_vectorized=True) if c is None else md.integrate(f, non_vectorized=True, integration_chunk_size=c))
        exp = oracle_integral(doms, poly)
        print("observed:", v, f"nested sum over the product set: {exp}/2^{G}")
        return 1 if st != "ok" or as_int(v, G) != exp else 0
    print("reproduce:", rp.get("reproduce", "(see text)"))
    return 0
