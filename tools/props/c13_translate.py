"""Tiny fail-closed translator of the two index maps of `_HyperRectangleGrid` into Coq Z arithmetic.

The method body is interpreted symbolically for a *concrete* dimension (2 or 3): `self.ndim` is the
concrete integer, `self.shape[c]` is the Coq variable `n<c>`, the argument is a tuple of Coq variables
(`i0,i1,i2`) or one variable (`index`).  Loops over `range(...)` with concrete bounds are unrolled, small
integer arrays (`np.empty(ndim, dtype=int)`) are Python lists of symbolic cells, `np.dot` of two such
arrays is the sum of products, `//` is `Z.div` (both are floor division), `if <symbolic>: raise` becomes a
guard (`None` result).  Anything else raises `Unsupported` (the entry point turns that into a violation).
"""
from __future__ import annotations

import ast


class Unsupported(Exception):
    pass


class Sym:
    """A Coq term of type Z (string) - or of type bool when `isbool`."""

    def __init__(self, s, isbool=False):
        self.s = s
        self.isbool = isbool

    def __repr__(self):
        return f"Sym({self.s})"


def coq(v):
    if isinstance(v, Sym):
        return v.s
    if isinstance(v, bool):
        return "true" if v else "false"
    if isinstance(v, int):
        return f"({v})" if v < 0 else str(v)
    raise Unsupported(f"cannot print {v!r} as a Coq integer")


class _Return(Exception):
    def __init__(self, value):
        self.value = value


class Interp:
    def __init__(self, ndim, argname, argval):
        self.ndim = ndim
        self.env = {argname: argval}
        self.guards: list[str] = []  # Coq bool terms; result is None when one of them is true

    # ------------------------------------------------------------- expressions
    def ev(self, e):
        if isinstance(e, ast.Constant):
            if isinstance(e.value, bool) or not isinstance(e.value, int):
                raise Unsupported(f"constant {e.value!r}")
            return e.value
        if isinstance(e, ast.Name):
            if e.id not in self.env:
                raise Unsupported(f"unknown name {e.id}")
            return self.env[e.id]
        if isinstance(e, ast.Tuple):
            return tuple(self.ev(x) for x in e.elts)
        if isinstance(e, ast.Attribute):
            if isinstance(e.value, ast.Name) and e.value.id == "self":
                if e.attr == "ndim":
                    return self.ndim
                if e.attr == "shape":
                    return tuple(Sym(f"n{c}") for c in range(self.ndim))
            raise Unsupported(f"attribute {ast.dump(e)}")
        if isinstance(e, ast.UnaryOp):
            v = self.ev(e.operand)
            if isinstance(e.op, ast.USub):
                return -v if isinstance(v, int) else Sym(f"(- {coq(v)})")
            if isinstance(e.op, ast.Not):
                if isinstance(v, bool):
                    return not v
                if isinstance(v, Sym) and v.isbool:
                    return Sym(f"(negb {v.s})", True)
            raise Unsupported(f"unary {ast.dump(e.op)}")
        if isinstance(e, ast.BinOp):
            a, b = self.ev(e.left), self.ev(e.right)
            if isinstance(a, (tuple, list)) or isinstance(b, (tuple, list)):
                raise Unsupported("arithmetic on arrays")
            if isinstance(a, Sym) and a.isbool or isinstance(b, Sym) and b.isbool:
                raise Unsupported("arithmetic on booleans")
            ops = {ast.Add: ("+", lambda x, y: x + y), ast.Sub: ("-", lambda x, y: x - y),
                   ast.Mult: ("*", lambda x, y: x * y), ast.FloorDiv: ("/", None)}
            for k, (sym, fn) in ops.items():
                if isinstance(e.op, k):
                    if isinstance(a, int) and isinstance(b, int) and fn is not None:
                        return fn(a, b)
                    return Sym(f"({coq(a)} {sym} {coq(b)})")
            raise Unsupported(f"operator {type(e.op).__name__}")
        if isinstance(e, ast.Compare):
            if len(e.ops) != 1:
                raise Unsupported("chained comparison")
            a, b = self.ev(e.left), self.ev(e.comparators[0])
            table = {ast.Eq: ("=?", lambda x, y: x == y), ast.GtE: (">=?", lambda x, y: x >= y),
                     ast.Gt: (">?", lambda x, y: x > y), ast.LtE: ("<=?", lambda x, y: x <= y),
                     ast.Lt: ("<?", lambda x, y: x < y)}
            for k, (sym, fn) in table.items():
                if isinstance(e.ops[0], k):
                    if isinstance(a, int) and isinstance(b, int):
                        return fn(a, b)
                    return Sym(f"({coq(a)} {sym} {coq(b)})", True)
            raise Unsupported(f"comparison {type(e.ops[0]).__name__}")
        if isinstance(e, ast.Subscript):
            base = self.ev(e.value)
            idx = self.ev(e.slice)
            if not isinstance(base, (tuple, list)) or not isinstance(idx, int):
                raise Unsupported("subscript needs an array and a concrete index")
            if not -len(base) <= idx < len(base):
                raise Unsupported("array index out of range")
            v = base[idx]
            if v is None:
                raise Unsupported("read of an uninitialised np.empty cell")
            return v
        if isinstance(e, ast.Call):
            return self.call(e)
        raise Unsupported(f"expression {type(e).__name__}")

    def call(self, e):
        f = e.func
        # np.<fn>
        if isinstance(f, ast.Attribute) and isinstance(f.value, ast.Name) and f.value.id == "np":
            if f.attr == "asarray" and len(e.args) == 1 and not e.keywords:
                v = self.ev(e.args[0])
                if not isinstance(v, (tuple, list)):
                    raise Unsupported("np.asarray of a non-sequence")
                return tuple(v)
            if f.attr == "empty" and len(e.args) == 1 and len(e.keywords) == 1:
                kw = e.keywords[0]
                if kw.arg != "dtype" or not (isinstance(kw.value, ast.Name) and kw.value.id == "int"):
                    raise Unsupported("np.empty dtype must be int")
                n = self.ev(e.args[0])
                if not isinstance(n, int) or n < 0:
                    raise Unsupported("np.empty with a symbolic size")
                return [None] * n
            if f.attr == "dot" and len(e.args) == 2 and not e.keywords:
                a, b = self.ev(e.args[0]), self.ev(e.args[1])
                if not (isinstance(a, (tuple, list)) and isinstance(b, (tuple, list)) and len(a) == len(b) and a):
                    raise Unsupported("np.dot needs two 1-D arrays of the same length")
                if any(x is None for x in list(a) + list(b)):
                    raise Unsupported("np.dot over an uninitialised cell")
                terms = [f"({coq(x)} * {coq(y)})" for x, y in zip(a, b)]
                s = terms[0]
                for t in terms[1:]:
                    s = f"({s} + {t})"
                return Sym(s)
            raise Unsupported(f"np.{f.attr}")
        if isinstance(f, ast.Name) and f.id == "range" and not e.keywords and 1 <= len(e.args) <= 3:
            args = [self.ev(a) for a in e.args]
            if not all(isinstance(a, int) and not isinstance(a, bool) for a in args):
                raise Unsupported("range with symbolic bounds")
            return ("range", range(*args))
        raise Unsupported(f"call {ast.dump(f)}")

    # ------------------------------------------------------------- statements
    def assign(self, tgt, val):
        if isinstance(tgt, ast.Name):
            if tgt.id == "self":
                raise Unsupported("assignment to self")
            self.env[tgt.id] = val
        elif isinstance(tgt, ast.Tuple):
            if not isinstance(val, tuple) or len(val) != len(tgt.elts):
                raise Unsupported("tuple unpacking mismatch")
            for t, v in zip(tgt.elts, val):
                self.assign(t, v)
        elif isinstance(tgt, ast.Subscript):
            base = self.ev(tgt.value)
            idx = self.ev(tgt.slice)
            if not isinstance(base, list) or not isinstance(idx, int) or not -len(base) <= idx < len(base):
                raise Unsupported("subscript store needs a local array and a concrete in-range index")
            if isinstance(val, (tuple, list)) or (isinstance(val, Sym) and val.isbool):
                raise Unsupported("storing a non-integer into an int array")
            base[idx] = val
        else:
            raise Unsupported(f"assignment target {type(tgt).__name__}")

    def block(self, stmts):
        for s in stmts:
            self.stmt(s)

    def stmt(self, s):
        if isinstance(s, ast.Expr) and isinstance(s.value, ast.Constant) and isinstance(s.value.value, str):
            return  # docstring
        if isinstance(s, ast.Assign):
            if len(s.targets) != 1:
                raise Unsupported("chained assignment")
            self.assign(s.targets[0], self.ev(s.value))
            return
        if isinstance(s, ast.For):
            if s.orelse or not isinstance(s.target, ast.Name):
                raise Unsupported("for/else or non-name loop variable")
            it = self.ev(s.iter)
            if not (isinstance(it, tuple) and len(it) == 2 and it[0] == "range"):
                raise Unsupported("for over something that is not range(...)")
            if len(it[1]) > 16:
                raise Unsupported("loop too long to unroll")
            for v in it[1]:
                self.env[s.target.id] = v
                self.block(s.body)
            return
        if isinstance(s, ast.If):
            t = self.ev(s.test)
            if isinstance(t, bool):
                self.block(s.body if t else s.orelse)
                return
            if isinstance(t, Sym) and t.isbool and not s.orelse and len(s.body) == 1 and isinstance(s.body[0], ast.Raise):
                self.guards.append(t.s)
                return
            raise Unsupported("if with a symbolic test that is not a raise-guard")
        if isinstance(s, ast.Return):
            if s.value is None:
                raise Unsupported("bare return")
            raise _Return(self.ev(s.value))
        raise Unsupported(f"statement {type(s).__name__}")

    def run(self, fn: ast.FunctionDef):
        try:
            self.block(fn.body)
        except _Return as r:
            return r.value
        raise Unsupported("function falls off the end")


def find_method(tree, cls, name):
    for node in tree.body:
        if isinstance(node, ast.ClassDef) and node.name == cls:
            for sub in node.body:
                if isinstance(sub, ast.FunctionDef) and sub.name == name:
                    return sub
    raise Unsupported(f"{cls}.{name} not found")


def check_signature(fn, argname):
    a = fn.args
    if [x.arg for x in a.args] != ["self", argname] or a.vararg or a.kwarg or a.kwonlyargs or a.defaults or fn.decorator_list:
        raise Unsupported(f"unexpected signature of {fn.name}")


def translate(src: str):
    """Returns (coq_text, units) for coordinates_to_index{2,3} and index_to_coordinates{2,3}."""
    from vlib.core import src_sha

    tree = ast.parse(src)
    c2i = find_method(tree, "_HyperRectangleGrid", "coordinates_to_index")
    i2c = find_method(tree, "_HyperRectangleGrid", "index_to_coordinates")
    check_signature(c2i, "indices")
    check_signature(i2c, "index")
    out = ["(* generated from src/grid/cubic.py (_HyperRectangleGrid index maps) on every run; do not edit *)",
           "From Coq Require Import ZArith.", "Open Scope Z_scope.", ""]
    for d in (2, 3):
        ns = " ".join(f"n{c}" for c in range(d))
        iv = " ".join(f"i{c}" for c in range(d))
        # coordinates_to_index
        it = Interp(d, "indices", tuple(Sym(f"i{c}") for c in range(d)))
        r = it.run(c2i)
        if not isinstance(r, Sym) or r.isbool:
            raise Unsupported("coordinates_to_index must return one integer")
        body = r.s
        for g in reversed(it.guards):
            raise Unsupported("coordinates_to_index with a guard is not supported by the proofs")
        out.append(f"Definition coordinates_to_index{d} ({ns} : Z) ({iv} : Z) : Z :=\n  {body}.")
        # index_to_coordinates
        it = Interp(d, "index", Sym("index"))
        r = it.run(i2c)
        if not (isinstance(r, tuple) and len(r) == d and all(isinstance(x, (Sym, int)) and not (isinstance(x, Sym) and x.isbool) for x in r)):
            raise Unsupported(f"index_to_coordinates must return a {d}-tuple of integers")
        tup = "(" + ", ".join(coq(x) for x in r) + ")"
        body = f"Some {tup}"
        for g in reversed(it.guards):
            body = f"if {g} then None else {body}"
        ty = " * ".join(["Z"] * d)
        out.append(f"Definition index_to_coordinates{d} ({ns} : Z) (index : Z) : option ({ty}) :=\n  {body}.")
        out.append("")
    units = []
    for fn in (c2i, i2c):
        seg = ast.get_source_segment(src, fn)
        units.append({"unit": f"_HyperRectangleGrid.{fn.name}", "file": "src/grid/cubic.py",
                      "lines": [fn.lineno, fn.end_lineno], "sha": src_sha(seg)})
    return "\n".join(out) + "\n", units
