"""Tiny fail-closed translator of the two index maps of `_HyperRectangleGrid` into Coq Z arithmetic.

The method body is interpreted symbolically for a *concrete* dimension (2 or 3): `self.ndim` is the
concrete integer, `self.shape[c]` is the Coq variable `n<c>`, the argument is a tuple of Coq variables
(`i0,i1,i2`) or one variable (`index`).  Loops over `range(...)` with concrete bounds are unrolled, small
integer arrays (`np.empty(ndim, dtype=int)`) are Python lists of symbolic cells, `np.dot` of two such
arrays is the sum of products, `//` is `Z.div` (both are floor division), `if <symbolic>: raise` becomes a
guard (`None` result).  Anything else raises `Unsupported` (the entry point turns that into a violation).
"""
from __future__ import annotations

import ast


class Unsupported(Exception):
    pass


class Sym:
    """A Coq term of type Z (string) - or of type bool when `isbool`."""

    def __init__(self, s, isbool=False):
        self.s = s
        self.isbool = isbool

    def __repr__(self):
        return f"Sym({self.s})"


def coq(v):
    if isinstance(v, Sym):
        return v.s
    if isinstance(v, bool):
        return "true" if v else "false"
    if isinstance(v, int):
        return f"({v})" if v < 0 else str(v)
    raise Unsupported(f"cannot print {v!r} as a Coq integer")


class _Return(Exception):
    def __init__(self, value):
        self.value = value


class Interp:
    def __init__(self, ndim, argname, argval):
        self.ndim = ndim
        self.env = {argname: argval}
        self.guards: list[str] = []  # Coq bool terms; result is None when one of them is true

    # ------------------------------------------------------------- expressions
    def ev(self, e):
        if isinstance(e, ast.Constant):
            if isinstance(e.value, bool) or not isinstance(e.value, int):
                raise Unsupported(f"constant {e.value!r}")
            return e.value
        if isinstance(e, ast.Name):
            if e.id not in self.env:
                raise Unsupported(f"unknown name {e.id}")
            return self.env[e.id]
        if isinstance(e, ast.Tuple):
            return tuple(self.ev(x) for x in e.elts)
        if isinstance(e, ast.Attribute):
            if isinstance(e.value, ast.Name) and e.value.id == "self":
                if e.attr == "ndim":
                    return self.ndim
                if e.attr == "shape":
                    return tuple(Sym(f"n{c}") for c in range(self.ndim))
            raise Unsupported(f"attribute {ast.dump(e)}")
        if isinstance(e, ast.UnaryOp):
            v = self.ev(e.operand)
            if isinstance(e.op, ast.USub):
                return -v if isinstance(v, int) else Sym(f"(- {coq(v)})")
            if isinstance(e.op, ast.Not):
                if isinstance(v, bool):
                    return not v
                if isinstance(v, Sym) and v.isbool:
                    return Sym(f"(negb {v.s})", True)
            raise Unsupported(f"unary {ast.dump(e.op)}")
        if isinstance(e, ast.BinOp):
            a, b = self.ev(e.left), self.ev(e.right)
            if isinstance(a, (tuple, list)) or isinstance(b, (tuple, list)):
                raise Unsupported("arithmetic on arrays")
            if isinstance(a, Sym) and a.isbool or isinstance(b, Sym) and b.isbool:
                raise Unsupported("arithmetic on booleans")
            ops = {ast.Add: ("+", lambda x, y: x + y), ast.Sub: ("-", lambda x, y: x - y),
                   ast.Mult: ("*", lambda x, y: x * y), ast.FloorDiv: ("/", None)}
            for k, (sym, fn) in ops.items():
                if isinstance(e.op, k):
                    if isinstance(a, int) and isinstance(b, int) and fn is not None:
                        return fn(a, b)
                    return Sym(f"({coq(a)} {sym} {coq(b)})")
            raise Unsupported(f"operator {type(e.op).__name__}")
        if isinstance(e, ast.Compare):
            if len(e.ops) != 1:
                raise Unsupported("chained comparison")
            a, b = self.ev(e.left), self.ev(e.comparators[0])
            table = {ast.Eq: ("=?", lambda x, y: x == y), ast.GtE: (">=?", lambda x, y: x >= y),
                     ast.Gt: (">?", lambda x, y: x > y), ast.LtE: ("<=?", lambda x, y: x <= y),
                     ast.Lt: ("<?", lambda x, y: x < y)}
            for k, (sym, fn) in table.items():
                if isinstance(e.ops[0], k):
                    if isinstance(a, int) and isinstance(b, int):
                        return fn(a, b)
                    return Sym(f"({coq(a)} {sym} {coq(b)})", True)
            raise Unsupported(f"comparison {type(e.ops[0]).__name__}")
        if isinstance(e, ast.Subscript):
            base = self.ev(e.value)
            idx = self.ev(e.slice)
            if not isinstance(base, (tuple, list)) or not isinstance(idx, int):
                raise Unsupported("subscript needs an array and a concrete index")
            if not -len(base) <= idx < len(base):
                raise Unsupported("array index out of range")
            v = base[idx]
            if v is None:
                raise Unsupported("read of an uninitialised np.empty cell")
            return v
        if isinstance(e, ast.Call):
            return self.call(e)
        raise Unsupported(f"expression {type(e).__name__}")

    def call(self, e):
        f = e.func
        # np.<fn>
        if isinstance(f, ast.Attribute) and isinstance(f.value, ast.Name) and f.value.id == "np":
            if f.attr == "asarray" and len(e.args) == 1 and not e.keywords:
                v = self.ev(e.args[0])
                if not isinstance(v, (tuple, list)):
                    raise Unsupported("np.asarray of a non-sequence")
                return tuple(v)
            if f.attr == "empty" and len(e.args) == 1 and len(e.keywords) == 1:
                kw = e.keywords[0]
                if kw.arg != "dtype" or not (isinstance(kw.value, ast.Name) and kw.value.id == "int"):
                    raise Unsupported("np.empty dtype must be int")
                n = self.ev(e.args[0])
                if not isinstance(n, int) or n < 0:
                    raise Unsupported("np.empty with a symbolic size")
                return [None] * n
            if f.attr == "dot" and len(e.args) == 2 and not e.keywords:
                a, b = self.ev(e.args[0]), self.ev(e.args[1])
                if not (isinstance(a, (tuple, list)) and isinstance(b, (tuple, list)) and len(a) == len(b) and a):
                    raise Unsupported("np.dot needs two 1-D arrays of the same length")
                if any(x is None for x in list(a) + list(b)):
                    raise Unsupported("np.dot over an uninitialised cell")
                terms = [f"({coq(x)} * {coq(y)})" for x, y in zip(a, b)]
                s = terms[0]
                for t in terms[1:]:
                    s = f"({s} + {t})"
                return Sym(s)
            raise Unsupported(f"np.{f.attr}")
        if isinstance(f, ast.Name) and f.id == "range" and not e.keywords and 1 <= len(e.args) <= 3:
            args = [self.ev(a) for a in e.args]
            if not all(isinstance(a, int) and not isinstance(a, bool) for a in args):
                raise Unsupported("range with symbolic bounds")
            return ("range", range(*args))
        raise Unsupported(f"call {ast.dump(f)}")

    # ------------------------------------------------------------- statements
    def assign(self, tgt, val):
        if isinstance(tgt, ast.Name):
            if tgt.id == "self":
                raise Unsupported("assignment to self")
            self.env[tgt.id] = val
        elif isinstance(tgt, ast.Tuple):
            if not isinstance(val, tuple) or len(val) != len(tgt.elts):
                raise Unsupported("tuple unpacking mismatch")
            for t, v in zip(tgt.elts, val):
                self.assign(t, v)
        elif isinstance(tgt, ast.Subscript):
            base = self.ev(tgt.value)
            idx = self.ev(tgt.slice)
            if not isinstance(base, list) or not isinstance(idx, int) or not -len(base) <= idx < len(base):
                raise Unsupported("subscript store needs a local array and a concrete in-range index")
            if isinstance(val, (tuple, list)) or (isinstance(val, Sym) and val.isbool):
                raise Unsupported("storing a non-integer into an int array")
            base[idx] = val
        else:
            raise Unsupported(f"assignment target {type(tgt).__name__}")

    def block(self, stmts):
        for s in stmts:
            self.stmt(s)

    def stmt(self, s):
        if isinstance(s, ast.Expr) and isinstance(s.value, ast.Constant) and isinstance(s.value.value, str):
            return  # docstring
        if isinstance(s, ast.Assign):
            if len(s.targets) != 1:
                raise Unsupported("chained assignment")
            self.assign(s.targets[0], self.ev(s.value))
            return
        if isinstance(s, ast.For):
            if s.orelse or not isinstance(s.target, ast.Name):
                raise Unsupported("for/else or non-name loop variable")
            it = self.ev(s.iter)
            if not (isinstance(it, tuple) and len(it) == 2 and it[0] == "range"):
                raise Unsupported("for over something that is not range(...)")
            if len(it[1]) > 16:
                raise Unsupported("loop too long to unroll")
            for v in it[1]:
                self.env[s.target.id] = v
                self.block(s.body)
            return
        if isinstance(s, ast.If):
            t = self.ev(s.test)
            if isinstance(t, bool):
                self.block(s.body if t else s.orelse)
                return
            if isinstance(t, Sym) and t.isbool and not s.orelse and len(s.body) == 1 and isinstance(s.body[0], ast.Raise):
                self.guards.append(t.s)
                return
            raise Unsupported("if with a symbolic test that is not a raise-guard")
        if isinstance(s, ast.Return):
            if s.value is None:
                raise Unsupported("bare return")
            raise _Return(self.ev(s.value))
        raise Unsupported(f"statement {type(s).__name__}")

    def run(self, fn: ast.FunctionDef):
        try:
            self.block(fn.body)
        except _Return as r:
            return r.value
        raise Unsupported("function falls off the end")


def find_method(tree, cls, name):
    for node in tree.body:
        if isinstance(node, ast.ClassDef) and node.name == cls:
            for sub in node.body:
                if isinstance(sub, ast.FunctionDef) and sub.name == name:
                    return sub
    raise Unsupported(f"{cls}.{name} not found")


def check_signature(fn, argname):
    a = fn.args
    if [x.arg for x in a.args] != ["self", argname] or a.vararg or a.kwarg or a.kwonlyargs or a.defaults or fn.decorator_list:
        raise Unsupported(f"unexpected signature of {fn.name}")


def translate(src: str):
    """Returns (coq_text, units) for coordinates_to_index{2,3} and index_to_coordinates{2,3}."""
    from vlib.core import src_sha

    tree = ast.parse(src)
    c2i = find_method(tree, "_HyperRectangleGrid", "coordinates_to_index")
    i2c = find_method(tree, "_HyperRectangleGrid", "index_to_coordinates")
    check_signature(c2i, "indices")
    check_signature(i2c, "index")
    out = ["(* generated from src/grid/cubic.py (_HyperRectangleGrid index maps) on every run; do not edit *)",
           "From Coq Require Import ZArith.", "Open Scope Z_scope.", ""]
    for d in (2, 3):
        ns = " ".join(f"n{c}" for c in range(d))
        iv = " ".join(f"i{c}" for c in range(d))
        # coordinates_to_index
        it = Interp(d, "indices", tuple(Sym(f"i{c}") for c in range(d)))
        r = it.run(c2i)
        if not isinstance(r, Sym) or r.isbool:
            raise Unsupported("coordinates_to_index must return one integer")
        body = r.s
        for g in reversed(it.guards):
            raise Unsupported("coordinates_to_index with a guard is not supported by the proofs")
        out.append(f"Definition coordinates_to_index{d} ({ns} : Z) ({iv} : Z) : Z :=\n  {body}.")
        # index_to_coordinates
        it = Interp(d, "index", Sym("index"))
        r = it.run(i2c)
        if not (isinstance(r, tuple) and len(r) == d and all(isinstance(x, (Sym, int)) and not (isinstance(x, Sym) and x.isbool) for x in r)):
            raise Unsupported(f"index_to_coordinates must return a {d}-tuple of integers")
        tup = "(" + ", ".join(coq(x) for x in r) + ")"
        body = f"Some {tup}"
        for g in reversed(it.guards):
            body = f"if {g} then None else {body}"
        ty = " * ".join(["Z"] * d)
        out.append(f"Definition index_to_coordinates{d} ({ns} : Z) (index : Z) : option ({ty}) :=\n  {body}.")
        out.append("")
    units = []
    for fn in (c2i, i2c):
        seg = ast.get_source_segment(src, fn)
        units.append({"unit": f"_HyperRectangleGrid.{fn.name}", "file": "src/grid/cubic.py",
                      "lines": [fn.lineno, fn.end_lineno], "sha": src_sha(seg)})
    return "\n".join(out) + "\n", units


# =====================================================================================================
# Per-axis symbolic translation of UniformGrid.from_molecule (rotate=False) and UniformGrid.closest_point
# (which="closest") into definitions over the NumOps record (C13_num.v).
#
# With rotate=False the axes are diag(spacing) and every statement of from_molecule acts on the three Cartesian
# directions independently; closest_point first rejects non-diagonal axes, after which it also acts per direction.
# The interpreter therefore carries ONE representative direction: a value is a Coq term for that direction's
# component.  Per-direction inputs are Coq variables:
#   from_molecule: com (= dot(atcorenums, x)/sum(atcorenums)), mx (= amax x), mn (= amin x), spacing, ext
#   closest_point: p (point[i]), orig (origin[i]), d (axes[i,i]), n (shape[i])
# Anything outside the few recognised NumPy idioms raises Unsupported.
# =====================================================================================================
from fractions import Fraction  # noqa: E402


class Num:  # component of type T
    def __init__(self, s, ceil_of=None):
        self.s, self.ceil_of = s, ceil_of


class Int:  # component of type Z
    def __init__(self, s):
        self.s = s


class Special:
    def __init__(self, name, arg=None):
        self.name, self.arg = name, arg

    def __repr__(self):
        return f"Special({self.name})"


def _const_T(c):
    fr = Fraction(c)
    n, d = fr.numerator, fr.denominator
    zn = f"({n})%Z" if n < 0 else f"{n}%Z"
    if d == 1:
        return f"(nofZ o {zn})"
    return f"(ndiv o (nofZ o {zn}) (nofZ o {d}%Z))"


def _as_T(v):
    if isinstance(v, Num):
        return v.s
    if isinstance(v, Int):
        return f"(nofZ o {v.s})"
    if isinstance(v, (int, float)) and not isinstance(v, bool):
        return _const_T(v)
    raise Unsupported(f"not a number: {v!r}")


class AxisInterp:
    def __init__(self, env, self_attrs):
        self.env = dict(env)
        self.self_attrs = self_attrs
        self.guards: list[str] = []

    # ------------------------------------------------------------------ arithmetic
    def arith(self, op, a, b):
        num = (int, float)
        if isinstance(a, num) and isinstance(b, num) and not isinstance(a, bool) and not isinstance(b, bool):
            if isinstance(op, ast.Add):
                return a + b
            if isinstance(op, ast.Sub):
                return a - b
            if isinstance(op, ast.Mult):
                return a * b
            if isinstance(op, ast.Div):
                return Fraction(a) / Fraction(b)
            raise Unsupported("constant operator")
        if isinstance(a, Special) and isinstance(b, Special) and isinstance(op, ast.Div) and (a.name, b.name) == ("zdotx", "totz"):
            return Num("com")  # centre of nuclear charge, this direction
        if isinstance(a, Special) and isinstance(b, Special) and isinstance(op, ast.Sub) and (a.name, b.name) == ("axes", "diagmat"):
            return Special("offdiag")
        if isinstance(a, Special) or isinstance(b, Special):
            raise Unsupported(f"arithmetic on {a!r} / {b!r}")
        both_int = all(isinstance(x, Int) or (isinstance(x, int) and not isinstance(x, bool)) for x in (a, b))
        if both_int and isinstance(op, (ast.Add, ast.Sub, ast.Mult)):
            sym = {ast.Add: "+", ast.Sub: "-", ast.Mult: "*"}[type(op)]
            f = lambda v: v.s if isinstance(v, Int) else (f"({v})" if v < 0 else str(v))  # noqa: E731
            return Int(f"({f(a)} {sym} {f(b)})%Z")
        fn = {ast.Add: "nadd", ast.Sub: "nsub", ast.Mult: "nmul", ast.Div: "ndiv"}.get(type(op))
        if fn is None:
            raise Unsupported(f"operator {type(op).__name__}")
        return Num(f"({fn} o {_as_T(a)} {_as_T(b)})")

    # ------------------------------------------------------------------ expressions
    def ev(self, e):
        if isinstance(e, ast.Constant):
            if isinstance(e.value, (int, float, str)) or e.value is None:
                return e.value
            raise Unsupported(f"constant {e.value!r}")
        if isinstance(e, ast.Name):
            if e.id not in self.env:
                raise Unsupported(f"unknown name {e.id}")
            return self.env[e.id]
        if isinstance(e, ast.Attribute):
            if isinstance(e.value, ast.Name) and e.value.id == "self" and e.attr in self.self_attrs:
                return self.self_attrs[e.attr]
            raise Unsupported(f"attribute {ast.dump(e)[:80]}")
        if isinstance(e, ast.List):
            return [self.ev(x) for x in e.elts]
        if isinstance(e, ast.BinOp):
            return self.arith(e.op, self.ev(e.left), self.ev(e.right))
        if isinstance(e, ast.UnaryOp) and isinstance(e.op, ast.Not):
            v = self.ev(e.operand)
            if isinstance(v, bool):
                return not v
            if isinstance(v, Special) and v.name == "is_diagonal":
                return Special("not_diagonal")
            raise Unsupported("not of a non-boolean")
        if isinstance(e, ast.IfExp):
            t = self.ev(e.test)
            if not isinstance(t, bool):
                raise Unsupported("conditional expression with a symbolic test")
            return self.ev(e.body if t else e.orelse)
        if isinstance(e, ast.Compare) and len(e.ops) == 1 and isinstance(e.ops[0], ast.Eq):
            a, b = self.ev(e.left), self.ev(e.comparators[0])
            if isinstance(a, Special) and a.name == "n_offdiag" and b == 0:
                return Special("is_diagonal")
            if isinstance(a, (str, bool, int)) and isinstance(b, (str, bool, int)):
                return a == b
            raise Unsupported("comparison")
        if isinstance(e, ast.Subscript):
            base, idx = self.ev(e.value), self.ev(e.slice)
            if isinstance(idx, Special) and idx.name == "axis_index" and isinstance(base, (Num, Int)):
                return base  # component of a per-direction vector
            raise Unsupported("subscript")
        if isinstance(e, ast.ListComp):
            if len(e.generators) != 1 or e.generators[0].ifs or e.generators[0].is_async or not isinstance(e.generators[0].target, ast.Name):
                raise Unsupported("list comprehension shape")
            it = self.ev(e.generators[0].iter)
            var = e.generators[0].target.id
            if isinstance(it, Special) and it.name == "axes":
                self.env[var] = Special("axis_row")
            elif isinstance(it, Special) and it.name == "range_ndim":
                self.env[var] = Special("axis_index")
            else:
                raise Unsupported("list comprehension over something else than self.axes / range(self.ndim)")
            v = self.ev(e.elt)
            del self.env[var]
            if not isinstance(v, (Num, Int)):
                raise Unsupported("list comprehension element")
            return Special("percomp", v)
        if isinstance(e, ast.Call):
            return self.call(e)
        raise Unsupported(f"expression {type(e).__name__}")

    def call(self, e):
        f = e.func
        args = [self.ev(a) for a in e.args]
        kw = {k.arg: self.ev(k.value) for k in e.keywords}
        dotted = []
        g = f
        while isinstance(g, ast.Attribute):
            dotted.append(g.attr)
            g = g.value
        if isinstance(g, ast.Name):
            dotted.append(g.id)
        name = ".".join(reversed(dotted))
        if name == "np.sum" and len(args) == 1 and not kw and isinstance(args[0], Special) and args[0].name == "atcorenums":
            return Special("totz")
        if name == "np.dot" and len(args) == 2 and not kw:
            a, b = args
            if isinstance(a, Special) and isinstance(b, Special) and (a.name, b.name) == ("atcorenums", "atcoords"):
                return Special("zdotx")
            if isinstance(a, (Num, Int)) and isinstance(b, Special) and b.name == "diag":
                return self.arith(ast.Mult(), a, b.arg)  # row vector times diag(s): componentwise
            raise Unsupported("np.dot arguments")
        if name == "np.diag" and len(args) == 1 and not kw:
            a = args[0]
            if isinstance(a, list) and len(a) == 3 and all(isinstance(x, Num) and x.s == a[0].s for x in a):
                return Special("diag", a[0])
            if isinstance(a, Num) and a.s == "d":
                return Special("diagmat")
            raise Unsupported("np.diag argument")
        if name == "np.diagonal" and len(args) == 1 and not kw and isinstance(args[0], Special) and args[0].name == "axes":
            return Num("d")
        if name == "np.count_nonzero" and len(args) == 1 and not kw and isinstance(args[0], Special) and args[0].name == "offdiag":
            return Special("n_offdiag")
        if name in ("np.amax", "np.amin") and len(args) == 1 and kw == {"axis": 0} and isinstance(args[0], Special) and args[0].name == "atcoords":
            return Num("mx" if name == "np.amax" else "mn")
        if name == "np.ceil" and len(args) == 1 and not kw and isinstance(args[0], Num):
            return Num(f"(nofZ o (nceil o {args[0].s}))", ceil_of=args[0].s)
        if name == "np.array" and len(args) == 2 and not kw and args[1] is int:
            if isinstance(args[0], Num) and args[0].ceil_of is not None:
                return Int(f"(nceil o {args[0].ceil_of})")
            raise Unsupported("integer cast of a non-integral value (truncation is not modelled)")
        if name in ("np.array", "np.asarray") and len(args) == 1 and not kw:
            a = args[0]
            if isinstance(a, Special) and a.name == "percomp":
                return a.arg
            if isinstance(a, (Num, Int)):
                return a
            raise Unsupported(f"{name} argument")
        if name == "np.linalg.norm" and len(args) == 1 and not kw and isinstance(args[0], Special) and args[0].name == "axis_row":
            if "diagonal" not in self.guards:
                raise Unsupported("norm of an axis row without the diagonal-axes guard")
            return Num("(nabs o d)")  # the row has a single non-zero entry d
        if name == "np.rint" and len(args) == 1 and not kw and isinstance(args[0], Num):
            return Int(f"(nrint o {args[0].s})")
        if name == "np.clip" and len(args) == 3 and not kw and isinstance(args[0], Int):
            lo, hi = args[1], args[2]
            f2 = lambda v: v.s if isinstance(v, Int) else (f"({v})%Z" if isinstance(v, int) and not isinstance(v, bool) else None)  # noqa: E731
            if f2(lo) is None or f2(hi) is None:
                raise Unsupported("np.clip bounds")
            return Int(f"(Z.min (Z.max {args[0].s} {f2(lo)}) {f2(hi)})")  # minimum(maximum(a, lo), hi)
        if name == "range" and len(args) == 1 and isinstance(args[0], Special) and args[0].name == "ndim":
            return Special("range_ndim")
        if name == "int" and len(args) == 1 and not kw and isinstance(args[0], (Int, Special)):
            return args[0]
        if isinstance(f, ast.Attribute) and f.attr == "astype" and len(args) == 1 and args[0] is int and not kw:
            v = self.ev(f.value)
            if isinstance(v, Int):
                return v
            raise Unsupported("astype(int) of a non-integral value")
        if name == "self.coordinates_to_index" and len(args) == 1 and not kw and isinstance(args[0], Int):
            return Special("flat_index", args[0])
        if name == "cls" and len(args) == 4 and not kw:
            return Special("grid", tuple(args[:3]))
        raise Unsupported(f"call {name}")

    # ------------------------------------------------------------------ statements
    def block(self, stmts):
        for s in stmts:
            if isinstance(s, ast.Expr) and isinstance(s.value, ast.Constant) and isinstance(s.value.value, str):
                continue
            if isinstance(s, ast.Assign) and len(s.targets) == 1 and isinstance(s.targets[0], ast.Name):
                if s.targets[0].id in ("self", "cls"):
                    raise Unsupported("assignment to self/cls")
                self.env[s.targets[0].id] = self.ev(s.value)
            elif isinstance(s, ast.If):
                t = self.ev(s.test)
                if isinstance(t, bool):
                    self.block(s.body if t else s.orelse)
                elif isinstance(t, Special) and t.name == "not_diagonal" and not s.orelse and len(s.body) == 1 and isinstance(s.body[0], ast.Raise):
                    self.guards.append("diagonal")
                else:
                    raise Unsupported("if with an unsupported test")
            elif isinstance(s, ast.Return) and s.value is not None:
                raise _Return(self.ev(s.value))
            elif isinstance(s, ast.Raise):
                raise Unsupported("reachable raise")
            else:
                raise Unsupported(f"statement {type(s).__name__}")

    def run(self, fn):
        try:
            self.block(fn.body)
        except _Return as r:
            return r.value
        raise Unsupported("function falls off the end")


def translate_axis(src: str):
    """Returns (coq_text, units): origin_axis_gen / shape_axis_gen (from_molecule, rotate=False) and closest_coord_gen."""
    from vlib.core import src_sha

    tree = ast.parse(src)
    fm = find_method(tree, "UniformGrid", "from_molecule")
    cp = find_method(tree, "UniformGrid", "closest_point")
    names = [a.arg for a in fm.args.args]
    if names != ["cls", "atcorenums", "atcoords", "spacing", "extension", "rotate", "weight"] or fm.args.vararg or fm.args.kwarg or fm.args.kwonlyargs:
        raise Unsupported("unexpected signature of from_molecule")
    it = AxisInterp({"atcorenums": Special("atcorenums"), "atcoords": Special("atcoords"), "spacing": Num("spacing"),
                     "extension": Num("ext"), "rotate": False, "weight": "Trapezoid", "int": int}, {})
    r = it.run(fm)
    if not (isinstance(r, Special) and r.name == "grid"):
        raise Unsupported("from_molecule must return cls(origin, axes, shape, weight)")
    origin, axes, shape = r.arg
    if not (isinstance(origin, Num) and isinstance(shape, Int) and isinstance(axes, Special) and axes.name == "diag"
            and isinstance(axes.arg, Num) and axes.arg.s == "spacing"):
        raise Unsupported("from_molecule(rotate=False): origin/axes/shape of an unexpected kind")
    out = ["(* from_molecule(rotate=False), one Cartesian direction: com = centre of nuclear charge, mx/mn = max/min nuclear coordinate *)",
           f"Definition shape_axis_gen {{T}} (o : NumOps T) (com mx mn spacing ext : T) : Z :=\n  {shape.s}.",
           f"Definition origin_axis_gen {{T}} (o : NumOps T) (com mx mn spacing ext : T) : T :=\n  {origin.s}.", ""]
    names = [a.arg for a in cp.args.args]
    if names != ["self", "point", "which"] or cp.args.vararg or cp.args.kwarg or cp.args.kwonlyargs:
        raise Unsupported("unexpected signature of closest_point")
    it = AxisInterp({"point": Num("p"), "which": "closest", "int": int},
                    {"axes": Special("axes"), "origin": Num("orig"), "shape": Int("n"), "ndim": Special("ndim")})
    r = it.run(cp)
    if not (isinstance(r, Special) and r.name == "flat_index" and isinstance(r.arg, Int)):
        raise Unsupported("closest_point must return the flat index of integer coordinates")
    if "diagonal" not in it.guards:
        raise Unsupported("closest_point without the diagonal-axes guard")
    out += ["(* closest_point(which=\"closest\"), one direction of a diagonal axes matrix: p = point[i], orig = origin[i], d = axes[i,i], n = shape[i];",
            "   the result is the integer coordinate handed to coordinates_to_index *)",
            f"Definition closest_coord_gen {{T}} (o : NumOps T) (p orig d : T) (n : Z) : Z :=\n  {r.arg.s}.", ""]
    units = []
    for fn in (fm, cp):
        seg = ast.get_source_segment(src, fn)
        units.append({"unit": f"UniformGrid.{fn.name}", "file": "src/grid/cubic.py", "lines": [fn.lineno, fn.end_lineno], "sha": src_sha(seg)})
    return "\n".join(out) + "\n", units
