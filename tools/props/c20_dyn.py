"""C20 - dynamic harness: "public operations never mutate what the caller passed in".

Property C20: after any public operation of grid.{ode,poisson,basegrid,atomgrid,molgrid,rtransform,
cubic,periodicgrid,becke,robust_poisson} returns (or raises), every array, list and option dictionary
passed in by the caller and every array returned by a user callback is bit-for-bit unchanged, so
inputs may be read-only or shared; a callback may return its argument or a cached array without
affecting the result.

This module only *observes*.  It offers

    MODES, Case, make_cases(rng, quick), run_case(case, mode)

Every case is defined by python *source text* (``setup`` / ``bind`` / ``call`` / ``follow``): the same
text is executed by the harness and handed out as the self-contained ``repro`` snippet, so the
reproduction can never drift from what was really run.  ``case.build(seed)`` re-executes the text and
therefore creates fresh argument objects on every invocation.

Execution model of one run (``_execute``):

    exec(setup)            data, grids, callbacks are created (np.random.RandomState(<case seed>))
    alias substitution     ("same" mode)  ns[target] = eval(expr)  /  a deep copy of it (reference run)
    callback substitution  ("cb_arg"/"cb_cached")  and wrapping of every callback by a recorder
    exec(bind)             containers / objects that embed the callbacks (coefficient lists, ...)
    dict/list arguments    are replaced by TracingDict / TracingList (record the mutating grid frame)
    snapshot               bytes of every ndarray / structure of every list, dict reachable from the args
    [readonly]             flags.writeable = False on every reachable ndarray (and its bases)
    result = eval(call);   follow-up expressions (evaluate returned interpolants, ...)
    compare snapshots, callback records, cache arrays; fingerprint of the result

The grid package is whatever ``import grid`` resolves to (PYTHONPATH); sites are reported as
``<basename>:<function>:<line>`` so they are identical for /repo and a worktree copy.

Run as a script:  PYTHONPATH=/verif/tools:/repo/src python tools/props/c20_dyn.py [--thorough] [--seed N]
"""

from __future__ import annotations

import copy
import os
import random
import sys
import textwrap
import time
import traceback
import types
import warnings

import numpy as np

warnings.simplefilter("ignore")

import grid  # noqa: E402  (whatever PYTHONPATH resolves to)

_GRID_DIR = os.path.dirname(os.path.abspath(grid.__file__))
_THIS_FILE = os.path.abspath(__file__)

MODES = ["plain", "readonly", "same", "cb_arg", "cb_cached"]

KINDS = (
    "arg_mutated",
    "callback_result_mutated",
    "callback_arg_mutated",
    "readonly_error",
    "readonly_other_error",
    "alias_result_differs",
)

_RTOL = 1e-10
_ATOL = 1e-12
_FP_LIMIT = 200
_NP_SEED = 20200917
_MAX_DEPTH = 7
_SNIPPET_MODULE = "c20_snippet"


# --------------------------------------------------------------------------------------------------
# sites
# --------------------------------------------------------------------------------------------------
def _in_grid(filename):
    """True for source files of the grid package under test (tests excluded)."""
    try:
        fn = os.path.abspath(filename)
    except Exception:
        return False
    if not fn.startswith(_GRID_DIR + os.sep):
        return False
    rel = fn[len(_GRID_DIR) :]
    return (os.sep + "tests" + os.sep) not in rel


def _fmt_frame(filename, name, lineno):
    return f"{os.path.basename(filename)}:{name}:{lineno}"


def _site_from_stack():
    """Innermost grid frame of the current stack (used by the tracing containers)."""
    for fr in reversed(traceback.extract_stack()):
        if os.path.abspath(fr.filename) == _THIS_FILE:
            continue
        if _in_grid(fr.filename):
            return _fmt_frame(fr.filename, fr.name, fr.lineno)
    return None


def _site_from_exc(exc):
    """(site, via): site = innermost traceback frame iff it lies in the grid package,
    via = innermost grid frame on the traceback (may be an outer frame)."""
    frames = traceback.extract_tb(exc.__traceback__)
    site = None
    via = None
    if frames:
        last = frames[-1]
        if _in_grid(last.filename):
            site = _fmt_frame(last.filename, last.name, last.lineno)
        for fr in reversed(frames):
            if _in_grid(fr.filename):
                via = _fmt_frame(fr.filename, fr.name, fr.lineno)
                break
    return site, via


_RO_MARKERS = ("read-only", "readonly", "not writeable", "not writable")


def _is_readonly_error(exc):
    if not isinstance(exc, (ValueError, TypeError, RuntimeError)):
        return False
    msg = str(exc).lower()
    return any(m in msg for m in _RO_MARKERS)


def _exc_text(exc):
    if exc is None:
        return None
    msg = str(exc).replace("\n", " ")
    if len(msg) > 200:
        msg = msg[:200] + "..."
    return f"{type(exc).__name__}: {msg}"


# --------------------------------------------------------------------------------------------------
# tracing containers (dict / list have no read-only flag)
# --------------------------------------------------------------------------------------------------
def _same_items(a, b):
    if len(a) != len(b):
        return False
    for x, y in zip(a, b):
        if x is not y:
            try:
                if type(x) is not type(y) or isinstance(x, np.ndarray) or not (x == y):
                    return False
            except Exception:
                return False
    return True


class TracingDict(dict):
    """dict that records which grid frame changed it; behaves like a plain dict otherwise."""

    def _c20_do(self, op, fn, *a, **k):
        before_k = list(dict.keys(self))
        before_v = list(dict.values(self))
        try:
            return fn(self, *a, **k)
        finally:
            after_k = list(dict.keys(self))
            after_v = list(dict.values(self))
            if not (_same_items(before_k, after_k) and _same_items(before_v, after_v)):
                self.__dict__.setdefault("_c20_log", []).append(
                    (op, _site_from_stack(), sorted(map(repr, before_k)), sorted(map(repr, after_k)))
                )

    def __setitem__(self, k, v):
        return self._c20_do("__setitem__", dict.__setitem__, k, v)

    def __delitem__(self, k):
        return self._c20_do("__delitem__", dict.__delitem__, k)

    def setdefault(self, *a):
        return self._c20_do("setdefault", dict.setdefault, *a)

    def update(self, *a, **k):
        return self._c20_do("update", dict.update, *a, **k)

    def pop(self, *a):
        return self._c20_do("pop", dict.pop, *a)

    def popitem(self):
        return self._c20_do("popitem", dict.popitem)

    def clear(self):
        return self._c20_do("clear", dict.clear)

    def __ior__(self, other):
        self._c20_do("__ior__", dict.update, other)
        return self

    def __reduce__(self):  # copies / pickles degrade to a plain dict
        return (dict, (dict(self),))


class TracingList(list):
    """list that records which grid frame changed it; behaves like a plain list otherwise."""

    def _c20_do(self, op, fn, *a, **k):
        before = list(self)
        try:
            return fn(self, *a, **k)
        finally:
            after = list(self)
            if not _same_items(before, after):
                self.__dict__.setdefault("_c20_log", []).append(
                    (op, _site_from_stack(), _short(before), _short(after))
                )

    def __setitem__(self, i, v):
        return self._c20_do("__setitem__", list.__setitem__, i, v)

    def __delitem__(self, i):
        return self._c20_do("__delitem__", list.__delitem__, i)

    def append(self, v):
        return self._c20_do("append", list.append, v)

    def extend(self, it):
        return self._c20_do("extend", list.extend, it)

    def insert(self, i, v):
        return self._c20_do("insert", list.insert, i, v)

    def pop(self, *a):
        return self._c20_do("pop", list.pop, *a)

    def remove(self, v):
        return self._c20_do("remove", list.remove, v)

    def clear(self):
        return self._c20_do("clear", list.clear)

    def sort(self, **k):
        return self._c20_do("sort", list.sort, **k)

    def reverse(self):
        return self._c20_do("reverse", list.reverse)

    def __iadd__(self, other):
        self._c20_do("__iadd__", list.extend, other)
        return self

    def __imul__(self, n):
        self._c20_do("__imul__", list.__imul__, n)
        return self

    def __reduce__(self):
        return (list, (list(self),))


def _to_tracing(obj, depth=0):
    """Replace plain dict / list (recursively, not inside objects or arrays) by tracing ones."""
    if depth > 4:
        return obj
    if type(obj) is dict:
        return TracingDict((k, _to_tracing(v, depth + 1)) for k, v in obj.items())
    if type(obj) is list:
        return TracingList(_to_tracing(v, depth + 1) for v in obj)
    if type(obj) is tuple:
        new = tuple(_to_tracing(v, depth + 1) for v in obj)
        if any(n is not o for n, o in zip(new, obj)):
            return new
        return obj
    return obj


# --------------------------------------------------------------------------------------------------
# generic walker, snapshots
# --------------------------------------------------------------------------------------------------
_SCALARS = (str, bytes, int, float, complex, bool, type(None), np.generic)
_SKIP_TYPE_NAMES = {"cKDTree", "KDTree", "cKDTreeNode"}


def _descend_object(o):
    """Objects whose attributes are protected data: instances of grid classes and of classes
    defined in the case snippets."""
    if isinstance(
        o,
        (
            types.FunctionType,
            types.BuiltinFunctionType,
            types.MethodType,
            types.ModuleType,
            type,
        ),
    ):
        return False
    cls = type(o)
    if cls.__name__ in _SKIP_TYPE_NAMES:
        return False
    mod = getattr(cls, "__module__", "") or ""
    if not (mod == "grid" or mod.startswith("grid.") or mod == _SNIPPET_MODULE):
        return False
    return hasattr(o, "__dict__")


def _walk(o, path, depth, memo, arrays, containers, attrs):
    """Collect every ndarray / list / dict reachable from ``o`` (id-memoised, depth-limited)."""
    if depth > _MAX_DEPTH or isinstance(o, _SCALARS):
        return
    if id(o) in memo:
        return
    if isinstance(o, np.ndarray):
        memo[id(o)] = o
        arrays.append((path, o))
        if o.dtype == object:
            for i, e in enumerate(o.ravel().tolist()):
                _walk(e, f"{path}[{i}]", depth + 1, memo, arrays, containers, attrs)
        return
    if isinstance(o, dict):
        memo[id(o)] = o
        containers.append((path, o))
        for k, v in list(dict.items(o)):
            _walk(v, f"{path}[{k!r}]", depth + 1, memo, arrays, containers, attrs)
        return
    if isinstance(o, (list, tuple)):
        memo[id(o)] = o
        if isinstance(o, list):
            containers.append((path, o))
        for i, v in enumerate(list(o)):
            _walk(v, f"{path}[{i}]", depth + 1, memo, arrays, containers, attrs)
        return
    if _descend_object(o):
        memo[id(o)] = o
        for k, v in list(vars(o).items()):
            if k.startswith("_c20_"):
                continue
            if isinstance(v, (np.ndarray, list, dict)):
                attrs.append((f"{path}.{k}", o, k, v))
            _walk(v, f"{path}.{k}", depth + 1, memo, arrays, containers, attrs)


def _nd_snap(a):
    if a.dtype == object:
        return (a.shape, a.dtype.str, repr(a.tolist()).encode())
    return (a.shape, a.dtype.str, a.tobytes())


def _shallow(e):
    if isinstance(e, _SCALARS):
        return ("v", type(e).__name__, repr(e))
    return ("id", id(e))


def _container_snap(c):
    if isinstance(c, dict):
        return ("dict", tuple(sorted((repr(k), _shallow(v)) for k, v in dict.items(c))))
    return ("list", tuple(_shallow(v) for v in list(c)))


def _short(o, n=4):
    """Short human repr of an array / list / dict (never raises)."""
    try:
        if isinstance(o, np.ndarray):
            flat = o.ravel()[:n].tolist()
            return f"ndarray{o.shape}{o.dtype.str} {flat}{'...' if o.size > n else ''}"
        if isinstance(o, dict):
            return "dict keys=" + repr(sorted(map(repr, dict.keys(o))))
        if isinstance(o, (list, tuple)):
            items = [(_short(v, 2) if isinstance(v, (np.ndarray, list, dict, tuple)) else repr(v)) for v in list(o)[:n]]
            return f"{type(o).__name__}(len={len(o)}) [" + ", ".join(items) + ("...]" if len(o) > n else "]")
        r = repr(o)
        return r if len(r) < 80 else r[:77] + "..."
    except Exception as e:  # pragma: no cover
        return f"<unrepresentable {type(o).__name__}: {e}>"


def _short_from_snap(snap, n=4):
    shape, dt, raw = snap
    try:
        arr = np.frombuffer(raw, dtype=np.dtype(dt))
        return f"ndarray{shape}{dt} {arr[:n].tolist()}{'...' if arr.size > n else ''}"
    except Exception:
        return f"ndarray{shape}{dt}"


def _diff_short(snap, arr, n=4):
    """(before, after) restricted to the first differing entries."""
    try:
        shape, dt, raw = snap
        if arr.dtype == object or arr.shape != shape or arr.dtype.str != dt:
            return _short_from_snap(snap), _short(arr)
        old = np.frombuffer(raw, dtype=np.dtype(dt))
        new = np.ascontiguousarray(arr).ravel()
        ob = old.view(np.uint8).reshape(old.size, -1) if old.size else old
        nb = new.view(np.uint8).reshape(new.size, -1) if new.size else new
        idx = np.nonzero((ob != nb).any(axis=1))[0][:n]
        return (
            f"ndarray{shape}{dt} flat{idx.tolist()}={old[idx].tolist()}",
            f"ndarray{shape}{dt} flat{idx.tolist()}={new[idx].tolist()}",
        )
    except Exception:
        return _short_from_snap(snap), _short(arr)


class _Snapshot:
    """Deep snapshot of everything protected that is reachable from the named roots."""

    def __init__(self, roots):
        self.arrays = []
        self.containers = []
        self.attrs = []
        memo = {}
        for name, obj in roots.items():
            _walk(obj, name, 0, memo, self.arrays, self.containers, self.attrs)
        self._memo = memo  # keeps every object alive so ids stay unique
        self.arr_snaps = [_nd_snap(a) for _, a in self.arrays]
        self.con_snaps = [_container_snap(c) for _, c in self.containers]
        self.con_repr = [_short(c) for _, c in self.containers]
        self.attr_snaps = [
            (_nd_snap(v) if isinstance(v, np.ndarray) else _container_snap(v)) for _, _, _, v in self.attrs
        ]

    def all_arrays(self):
        return [a for _, a in self.arrays]

    def compare(self):
        """List of dicts(what, category, before, after, detail) for everything that changed."""
        out = []
        for (path, a), snap in zip(self.arrays, self.arr_snaps):
            now = _nd_snap(a)
            if now != snap:
                b, af = _diff_short(snap, a)
                out.append(dict(what=path, category="array", before=b, after=af, detail="array contents changed"))
        for (path, c), snap, rep in zip(self.containers, self.con_snaps, self.con_repr):
            now = _container_snap(c)
            if now != snap:
                out.append(
                    dict(
                        what=path,
                        category=("dict" if isinstance(c, dict) else "list"),
                        before=rep,
                        after=_short(c),
                        detail=f"{'dict' if isinstance(c, dict) else 'list'} contents changed",
                    )
                )
        for (path, owner, key, old), snap in zip(self.attrs, self.attr_snaps):
            cur = vars(owner).get(key, None)
            if cur is old:
                continue
            same = False
            try:
                if isinstance(cur, np.ndarray) and isinstance(old, np.ndarray):
                    same = _nd_snap(cur) == snap
                elif isinstance(cur, (list, dict)) and type(cur) is type(old):
                    same = cur == old
            except Exception:
                same = False
            if not same:
                out.append(
                    dict(
                        what=path,
                        category="attr",
                        before=_short(old),
                        after=_short(cur),
                        detail="attribute of a passed-in object rebound to different data",
                    )
                )
        return out


def _module_level_array_ids():
    """ids of ndarrays held by module-level names / caches of the grid package (never made
    read-only by the harness: that would change library state for later cases)."""
    ids = set()

    def add(v, depth=0):
        if isinstance(v, np.ndarray):
            a = v
            while isinstance(a, np.ndarray):
                ids.add(id(a))
                a = a.base
        elif depth < 3 and isinstance(v, (list, tuple)):
            for e in v:
                add(e, depth + 1)
        elif depth < 3 and isinstance(v, dict):
            for e in v.values():
                add(e, depth + 1)

    for name, mod in list(sys.modules.items()):
        if mod is None or not (name == "grid" or name.startswith("grid.")):
            continue
        for v in list(vars(mod).values()):
            add(v)
    return ids


def _set_readonly(arr, guard_ids=()):
    chain = []
    a = arr
    while isinstance(a, np.ndarray):
        chain.append(a)
        a = a.base
    if any(id(c) in guard_ids for c in chain):
        return False
    for c in chain:
        try:
            c.flags.writeable = False
        except Exception:
            pass
    return True


def _copy_value(v):
    if isinstance(v, np.ndarray):
        return np.array(v, copy=True)
    return copy.deepcopy(v)


# --------------------------------------------------------------------------------------------------
# callback recorder and callback variants
# --------------------------------------------------------------------------------------------------
class _Recorder:
    def __init__(self, readonly_results=False, guard_ids=(), max_calls=None):
        self.records = []  # (name, [(label, array, snap)], (array, snap) | None)
        self.readonly_results = readonly_results
        self.guard_ids = guard_ids
        self.calls = {}
        self.total = 0
        self.max_calls = max_calls  # deterministic budget: corrupted data may keep a solver busy for ever

    def wrap(self, name, fn):
        rec = self

        def c20_callback_wrapper(*a, **k):
            rec.total += 1
            if rec.max_calls is not None and rec.total > rec.max_calls:
                raise CaseTimeout(f"callback budget of {rec.max_calls} invocations exhausted")
            args_rec = []
            for i, x in enumerate(a):
                if isinstance(x, np.ndarray):
                    args_rec.append((f"arg{i}", x, _nd_snap(x)))
            for key, x in k.items():
                if isinstance(x, np.ndarray):
                    args_rec.append((f"arg:{key}", x, _nd_snap(x)))
            r = fn(*a, **k)
            res_rec = None
            if isinstance(r, np.ndarray):
                if rec.readonly_results:
                    _set_readonly(r, rec.guard_ids)
                res_rec = (r, _nd_snap(r))
            rec.calls[name] = rec.calls.get(name, 0) + 1
            rec.records.append((name, args_rec, res_rec))
            return r

        c20_callback_wrapper.__name__ = getattr(fn, "__name__", name)
        c20_callback_wrapper._c20_inner = fn
        return c20_callback_wrapper

    def compare(self):
        """-> list of dict(kind, what, before, after, count)."""
        found = {}
        for name, args_rec, res_rec in self.records:
            arg_ids = set()
            for label, x, snap in args_rec:
                arg_ids.add(id(x))
                if _nd_snap(x) != snap:
                    key = ("callback_arg_mutated", f"{name}->{label}")
                    if key not in found:
                        b, a = _diff_short(snap, x)
                        found[key] = dict(kind=key[0], what=key[1], before=b, after=a, count=0)
                    found[key]["count"] += 1
            if res_rec is not None:
                r, snap = res_rec
                if id(r) in arg_ids:
                    continue  # the callback returned its argument: reported as callback_arg_mutated
                if _nd_snap(r) != snap:
                    key = ("callback_result_mutated", f"{name}->result")
                    if key not in found:
                        b, a = _diff_short(snap, r)
                        found[key] = dict(kind=key[0], what=key[1], before=b, after=a, count=0)
                    found[key]["count"] += 1
        return list(found.values())


def _make_cached_callback(orig, const, copy_out):
    """Callback returning ONE constant cached array per argument-shape signature."""
    cache = {}

    def c20_cached_callback(*a, **k):
        key = tuple(np.shape(x) for x in a if isinstance(x, np.ndarray))
        if key not in cache:
            shp = np.shape(orig(*a, **k))
            cache[key] = np.full(shp, const, dtype=float)
        return cache[key].copy() if copy_out else cache[key]

    c20_cached_callback._c20_cache = cache
    c20_cached_callback._c20_const = const
    return c20_cached_callback


# --------------------------------------------------------------------------------------------------
# fingerprints
# --------------------------------------------------------------------------------------------------
def _fp_into(obj, out, depth=0):
    if obj is None or depth > 6 or isinstance(obj, (str, bytes)):
        return
    if isinstance(obj, (bool, np.bool_)):
        out.append(float(obj))
        return
    if isinstance(obj, (int, float, np.integer, np.floating)):
        out.append(float(obj))
        return
    if isinstance(obj, (complex, np.complexfloating)):
        out.extend([float(obj.real), float(obj.imag)])
        return
    if isinstance(obj, np.ndarray):
        if obj.dtype == object:
            for e in obj.ravel().tolist():
                _fp_into(e, out, depth + 1)
            return
        out.append(float(obj.size))
        flat = obj.ravel()
        if flat.size > _FP_LIMIT:
            flat = flat[np.linspace(0, flat.size - 1, _FP_LIMIT).astype(int)]
        if np.iscomplexobj(flat):
            out.extend(float(v) for v in flat.real)
            out.extend(float(v) for v in flat.imag)
        else:
            try:
                out.extend(float(v) for v in flat.astype(float))
            except Exception:
                pass
        return
    if isinstance(obj, (list, tuple)):
        for e in obj:
            _fp_into(e, out, depth + 1)
        return
    if isinstance(obj, dict):
        for k in sorted(obj, key=repr):
            _fp_into(obj[k], out, depth + 1)
        return
    if callable(obj) and not hasattr(obj, "points"):
        return  # interpolants etc. are fingerprinted through the follow-up expressions
    if hasattr(obj, "points") and hasattr(obj, "weights"):
        try:
            _fp_into(np.asarray(obj.points), out, depth + 1)
            _fp_into(np.asarray(obj.weights), out, depth + 1)
            for extra in ("indices", "center", "domain", "degrees", "aim_weights"):
                v = getattr(obj, extra, None)
                if isinstance(v, (np.ndarray, list, tuple, int, float)):
                    _fp_into(v, out, depth + 1)
        except Exception:
            pass
        return
    if _descend_object(obj):
        for k in sorted(vars(obj)):
            v = vars(obj)[k]
            if isinstance(v, (int, float, np.ndarray, tuple, list)) and not isinstance(v, bool):
                _fp_into(v, out, depth + 1)


def _fingerprint(values):
    out = []
    for v in values:
        _fp_into(v, out)
    if len(out) > _FP_LIMIT:
        idx = np.linspace(0, len(out) - 1, _FP_LIMIT).astype(int)
        out = [float(len(out))] + [out[i] for i in idx]
    return out


def _fp_equal(a, b):
    if a is None or b is None:
        return a is b
    if len(a) != len(b):
        return False
    if not a:
        return True
    with np.errstate(all="ignore"):
        return bool(np.allclose(np.array(a, float), np.array(b, float), rtol=_RTOL, atol=_ATOL, equal_nan=True))


def _fp_diff_text(a, b):
    if a is None or b is None:
        return "one of the runs produced no result"
    if len(a) != len(b):
        return f"fingerprint lengths differ: {len(a)} vs {len(b)}"
    x, y = np.array(a, float), np.array(b, float)
    with np.errstate(all="ignore"):
        bad = ~np.isclose(x, y, rtol=_RTOL, atol=_ATOL, equal_nan=True)
    idx = np.nonzero(bad)[0]
    i = int(idx[0]) if idx.size else 0
    return f"{idx.size} of {len(a)} numbers differ; first at #{i}: {x[i]!r} vs {y[i]!r}"


# --------------------------------------------------------------------------------------------------
# Case
# --------------------------------------------------------------------------------------------------
_HEADER = textwrap.dedent(
    """\
    import io, os, warnings
    warnings.simplefilter("ignore")
    import numpy as np
    from grid.basegrid import Grid, LocalGrid, OneDGrid
    from grid.onedgrid import GaussLegendre, GaussChebyshev, GaussLaguerre, UniformInteger, Trapezoidal
    from grid.rtransform import (BaseTransform, BeckeRTransform, LinearFiniteRTransform,
        InverseRTransform, IdentityRTransform, LinearInfiniteRTransform, ExpRTransform,
        PowerRTransform, HyperbolicRTransform, MultiExpRTransform, KnowlesRTransform,
        HandyRTransform, HandyModRTransform)
    from grid.atomgrid import AtomGrid
    from grid.molgrid import MolGrid
    from grid.becke import BeckeWeights
    from grid.cubic import Tensor1DGrids, UniformGrid, _HyperRectangleGrid
    from grid.periodicgrid import PeriodicGrid
    from grid.ode import solve_ode_bvp, solve_ode_ivp
    from grid.poisson import solve_poisson_bvp, solve_poisson_ivp, interpolate_laplacian
    from grid.robust_poisson import solve_poisson_robust
    """
)


def _scratch_dir():
    d = os.environ.get("C20_DYN_SCRATCH")
    if not d:
        d = os.path.join(os.path.dirname(os.path.dirname(os.path.dirname(_THIS_FILE))), "build", "_c20dyn_scratch")
    return d


class Case:
    """One public call (plus follow-up calls on what it returned)."""

    def __init__(
        self,
        cid,
        func,
        setup,
        call,
        args,
        *,
        seed=0,
        also=(),
        follow=(),
        callbacks=(),
        bind="",
        alias_pairs=(),
        cbarg=None,
        cbcache=None,
        needs_scratch=False,
    ):
        self.cid = cid
        self.func = func
        self.seed = int(seed)
        self.follow = [tuple(f) for f in follow]  # (entry point name, expression using `result`)
        self.also = [str(a) for a in also] + [f[0] for f in self.follow if f[0] not in also]
        self.arg_names = list(args)
        self.callback_names = list(callbacks)
        self.alias_pairs = [tuple(p) for p in alias_pairs]  # (target name, source expression)
        self._cbarg_src = dict(cbarg or {})  # name -> (variant source, reference source)
        self._cbcache_src = dict(cbcache or {})  # name -> constant
        self.needs_scratch = needs_scratch
        self.setup_src = textwrap.dedent(setup).strip("\n") + "\n"
        self.bind_src = (textwrap.dedent(bind).strip("\n") + "\n") if bind.strip() else ""
        self.call_src = call.strip()
        self._plain = None
        self._code = None

    # -- public views -----------------------------------------------------------------------------
    @property
    def cb_arg_variants(self):
        return {k: v[0] for k, v in self._cbarg_src.items()}

    @property
    def cb_arg_reference(self):
        return {k: v[1] for k, v in self._cbarg_src.items()}

    @property
    def cb_cached_constants(self):
        return dict(self._cbcache_src)

    def _source(self, seed=None):
        seed = self.seed if seed is None else int(seed)
        return self.setup_src.replace("@SEED@", str(seed)), self.bind_src.replace("@SEED@", str(seed))

    @property
    def repro(self):
        setup, bind = self._source()
        lines = [_HEADER, setup]
        if bind:
            lines.append(bind)
        lines.append("np.random.seed(%d)\n" % _NP_SEED)
        lines.append("result = " + self.call_src + "\n")
        for i, (_, expr) in enumerate(self.follow):
            lines.append(f"follow_{i} = {expr}\n")
        text = "".join(lines)
        if self.needs_scratch:
            text = text.replace("@SCRATCH@", ".")
        return text

    def _compiled(self, seed=None):
        key = self.seed if seed is None else int(seed)
        if self._code is None or self._code[0] != key:
            setup, bind = self._source(key)
            if self.needs_scratch:
                sd = _scratch_dir()
                setup = setup.replace("@SCRATCH@", sd)
                bind = bind.replace("@SCRATCH@", sd)
            tag = f"<c20:{self.cid}>"
            self._code = (
                key,
                compile(_HEADER + setup, tag + "setup", "exec"),
                compile(bind, tag + "bind", "exec") if bind else None,
                compile(self.call_src, tag + "call", "eval"),
                [compile(expr, tag + f"follow{i}", "eval") for i, (_, expr) in enumerate(self.follow)],
            )
        return self._code

    def build(self, rng_seed=None):
        """-> (call, args, callbacks); fresh objects on every invocation.

        ``call(args, callbacks)`` performs the public call and the follow-up calls and returns
        the list [result, follow_0, follow_1, ...]."""
        _, c_setup, c_bind, c_call, c_follow = self._compiled(rng_seed)
        ns = {"__name__": _SNIPPET_MODULE}
        exec(c_setup, ns)
        callbacks = {n: ns[n] for n in self.callback_names}
        if c_bind is not None:
            exec(c_bind, ns)
        args = {n: ns[n] for n in self.arg_names}

        def call(args=args, callbacks=callbacks):
            ns.update(callbacks)
            ns.update(args)
            np.random.seed(_NP_SEED)
            res = eval(c_call, ns)
            ns["result"] = res
            vals = [res]
            for c in c_follow:
                vals.append(eval(c, ns))
            return vals

        return call, args, callbacks

    def __repr__(self):
        return f"Case({self.cid!r}, func={self.func!r})"


# --------------------------------------------------------------------------------------------------
# one execution
# --------------------------------------------------------------------------------------------------
_CASE_TIME_LIMIT = float(os.environ.get("C20_DYN_TIME_LIMIT", "60"))


class CaseTimeout(Exception):
    """The public call exceeded the per-run time limit (recorded like any other exception)."""


class _time_limit:
    """SIGALRM based guard; only active in the main thread of a POSIX process."""

    def __init__(self, seconds):
        self.seconds = seconds
        self.active = False

    def __enter__(self):
        try:
            import signal
            import threading

            if self.seconds > 0 and hasattr(signal, "setitimer") and threading.current_thread() is threading.main_thread():

                def handler(signum, frame):
                    raise CaseTimeout("run exceeded the wall-clock limit")

                self._signal = signal
                self._old = signal.signal(signal.SIGALRM, handler)
                signal.setitimer(signal.ITIMER_REAL, self.seconds)
                self.active = True
        except Exception:
            self.active = False
        return self

    def __exit__(self, *exc):
        if self.active:
            self._signal.setitimer(self._signal.ITIMER_REAL, 0)
            self._signal.signal(self._signal.SIGALRM, self._old)
        return False


class _Outcome:
    __slots__ = (
        "fp",
        "exc",
        "exc_text",
        "exc_type",
        "site",
        "via",
        "mutations",
        "cb_mutations",
        "trace",
        "cache_mutations",
        "elapsed",
        "skipped",
        "cb_calls",
    )


def _execute(
    case,
    *,
    readonly=False,
    alias=None,  # (target, expr, "same" | "copy")
    cb_override=None,  # name -> ("src", source) | ("cached", const, copy_out)
    cb_readonly_results=False,
    time_limit=None,
    max_cb_calls=None,
):
    out = _Outcome()
    out.fp = None
    out.exc = None
    out.exc_text = None
    out.exc_type = None
    out.site = None
    out.via = None
    out.mutations = []
    out.cb_mutations = []
    out.cache_mutations = []
    out.trace = []
    out.skipped = None
    out.cb_calls = {}
    t0 = time.time()
    scratch_made = False
    try:
        if case.needs_scratch:
            sd = _scratch_dir()
            if not os.path.isdir(sd):
                os.makedirs(sd, exist_ok=True)
                scratch_made = True
        _, c_setup, c_bind, c_call, c_follow = case._compiled()
        ns = {"__name__": _SNIPPET_MODULE}
        exec(c_setup, ns)

        # alias substitution
        if alias is not None:
            target, expr, how = alias
            src = eval(expr, ns)
            old = ns.get(target, None)
            if isinstance(old, np.ndarray) or isinstance(src, np.ndarray):
                if not (
                    isinstance(old, np.ndarray)
                    and isinstance(src, np.ndarray)
                    and old.shape == src.shape
                    and old.dtype == src.dtype
                ):
                    out.skipped = f"alias pair ({target}, {expr}): shape/dtype mismatch"
                    out.elapsed = time.time() - t0
                    return out
            ns[target] = src if how == "same" else _copy_value(src)

        # callbacks
        guard = _module_level_array_ids() if (readonly or cb_readonly_results) else ()
        recorder = _Recorder(readonly_results=cb_readonly_results, guard_ids=guard, max_calls=max_cb_calls)
        cached_fns = {}
        for name in case.callback_names:
            fn = ns[name]
            if cb_override and name in cb_override:
                spec = cb_override[name]
                if spec[0] == "src":
                    fn = eval(spec[1], ns)
                elif spec[0] == "cached":
                    fn = _make_cached_callback(fn, spec[1], spec[2])
                    cached_fns[name] = fn
            ns[name] = recorder.wrap(name, fn)

        if c_bind is not None:
            exec(c_bind, ns)

        # arguments: tracing containers, snapshot, read-only flags
        roots = {}
        for name in case.arg_names:
            ns[name] = _to_tracing(ns[name])
            roots[name] = ns[name]
        snap = _Snapshot(roots)
        if readonly:
            for a in snap.all_arrays():
                _set_readonly(a, guard)

        # the public call and the follow-up calls
        values = []
        np.random.seed(_NP_SEED)
        try:
            with _time_limit(min(_CASE_TIME_LIMIT, time_limit) if time_limit else _CASE_TIME_LIMIT):
                res = eval(c_call, ns)
                ns["result"] = res
                values.append(res)
                for c in c_follow:
                    values.append(eval(c, ns))
        except Exception as e:  # noqa: BLE001 - the library may raise anything
            out.exc = e
            out.exc_text = _exc_text(e)
            out.exc_type = type(e).__name__
            if not isinstance(e, CaseTimeout):
                out.site, out.via = _site_from_exc(e)

        # comparisons (the harness only reads)
        out.mutations = snap.compare()
        for path, c in snap.containers:
            for entry in getattr(c, "__dict__", {}).get("_c20_log", []):
                out.trace.append((path,) + tuple(entry))
        out.cb_mutations = recorder.compare()
        out.cb_calls = dict(recorder.calls)
        for name, fn in cached_fns.items():
            for key, arr in fn._c20_cache.items():
                want = np.full(arr.shape, fn._c20_const, dtype=float)
                if _nd_snap(arr) != _nd_snap(want):
                    b, a = _diff_short(_nd_snap(want), arr)
                    out.cache_mutations.append(
                        dict(kind="callback_result_mutated", what=f"{name}->result", before=b, after=a, count=1)
                    )
        if out.exc is None:
            try:
                out.fp = _fingerprint(values)
            except Exception as e:  # pragma: no cover
                out.fp = None
                out.exc_text = "fingerprint failed: " + _exc_text(e)
    except Exception as e:  # noqa: BLE001 - harness / snippet failure: never crash
        out.exc = e
        out.exc_type = type(e).__name__
        out.exc_text = "HARNESS/SETUP " + _exc_text(e)
    finally:
        if case.needs_scratch:
            sd = _scratch_dir()
            try:
                for fn in os.listdir(sd):
                    if fn.startswith("c20_"):
                        os.remove(os.path.join(sd, fn))
                os.rmdir(sd)
            except Exception:
                pass
    out.elapsed = time.time() - t0
    return out


# --------------------------------------------------------------------------------------------------
# observations
# --------------------------------------------------------------------------------------------------
def _obs(case, mode, kind, what, site, detail, before=None, after=None, **extra):
    d = dict(
        kind=kind,
        cid=case.cid,
        func=case.func,
        mode=mode,
        what=what,
        site=site,
        detail=detail,
        before=before,
        after=after,
    )
    d.update(extra)
    return d


def _dedupe(obs):
    seen = {}
    for o in obs:
        key = (o["kind"], o["what"], o["site"], o["mode"])
        if key in seen:
            first = seen[key]
            first["count"] = first.get("count", 1) + o.get("count", 1)
            if o.get("variant") and o.get("variant") not in first.setdefault("variants", [first.get("variant")]):
                first["variants"].append(o.get("variant"))
        else:
            seen[key] = o
    return list(seen.values())


def _readonly_site(case, **kw):
    """Site of the first write attempt, found by re-running with read-only data."""
    kw.setdefault("time_limit", 15.0)
    kw.setdefault("max_cb_calls", 200000)
    o = _execute(case, **kw)
    if o.exc is not None and _is_readonly_error(o.exc):
        return o.site, o.via, o.exc_text
    return None, None, o.exc_text


def _mutation_observations(case, mode, out, *, variant=None, site_kw=None, cb_site_kw=None):
    """Observations for snapshot / tracing / callback-record differences of one execution."""
    obs = []
    extra = {"variant": variant} if variant else {}
    traced = {}
    for path, op, site, before, after in out.trace:
        traced.setdefault(path, []).append((op, site, before, after))
    array_site = None
    array_site_done = False
    for m in out.mutations:
        site = None
        detail = m["detail"]
        if m["category"] in ("dict", "list") and m["what"] in traced:
            ops = traced[m["what"]]
            site = ops[0][1]
            detail += "; ops: " + ", ".join(f"{op}@{s}" for op, s, _, _ in ops[:6])
        elif m["category"] == "array":
            if not array_site_done:
                array_site_done = True
                kw = dict(site_kw or {})
                kw["readonly"] = True
                s, via, txt = _readonly_site(case, **kw)
                array_site = s
                if s is None and via is not None:
                    detail += f"; read-only re-run failed below {via}"
            site = array_site
        obs.append(_obs(case, mode, "arg_mutated", m["what"], site, detail, m["before"], m["after"], **extra))
    # tracing logs for containers whose final content equals the initial one (mutated and restored)
    changed = {m["what"] for m in out.mutations}
    for path, ops in traced.items():
        if path not in changed:
            op, site, before, after = ops[0]
            obs.append(
                _obs(
                    case,
                    mode,
                    "arg_mutated",
                    path,
                    site,
                    "container mutated during the call (content restored at return); ops: "
                    + ", ".join(f"{o}@{s}" for o, s, _, _ in ops[:6]),
                    repr(before),
                    repr(after),
                    **extra,
                )
            )
    cbm = list(out.cb_mutations) + list(out.cache_mutations)
    if cbm:
        kw = dict(cb_site_kw or site_kw or {})
        kw["cb_readonly_results"] = True
        s, via, txt = _readonly_site(case, **kw)
        for m in cbm:
            detail = f"{m['count']} callback invocation(s) affected"
            if s is None and via is not None:
                detail += f"; read-only re-run failed below {via}"
            obs.append(_obs(case, mode, m["kind"], m["what"], s, detail, m["before"], m["after"], count=m["count"], **extra))
    return obs


def _result(case, mode, obs, fp, exc_text, skipped=False, elapsed=0.0, **extra):
    obs = _dedupe(obs)
    d = dict(
        ok=(not obs),
        skipped=skipped,
        observations=obs,
        result_fp=fp,
        exception=exc_text,
        cid=case.cid,
        func=case.func,
        mode=mode,
        elapsed=elapsed,
    )
    d.update(extra)
    return d


def _variant_limit(reference_elapsed):
    """Wall-clock backstop of a variant run (the deterministic bound is ``_call_budget``)."""
    return max(10.0, 100.0 * float(reference_elapsed))


def _call_budget(reference):
    """Callback-invocation budget of a variant run: an aliasing defect may keep an ODE solver
    busy for ever; counting invocations (not seconds) keeps the outcome deterministic."""
    return max(2000, 20 * sum(reference.cb_calls.values()))


def _plain_outcome(case):
    if case._plain is None:
        case._plain = _execute(case)
    return case._plain


def run_case(case, mode):
    """Run one case in one aliasing mode; never raises."""
    t0 = time.time()
    try:
        if mode == "plain":
            return _run_plain(case, t0)
        if mode == "readonly":
            return _run_readonly(case, t0)
        if mode == "same":
            return _run_same(case, t0)
        if mode == "cb_arg":
            return _run_cb(case, t0, "cb_arg")
        if mode == "cb_cached":
            return _run_cb(case, t0, "cb_cached")
        raise ValueError(f"unknown mode {mode!r}")
    except Exception as e:  # noqa: BLE001  pragma: no cover
        return _result(
            case, mode, [], None, "HARNESS " + _exc_text(e) + " | " + traceback.format_exc(limit=3), elapsed=time.time() - t0
        )


def _run_plain(case, t0):
    case._plain = None
    out = _plain_outcome(case)
    obs = _mutation_observations(case, "plain", out)
    return _result(case, "plain", obs, out.fp, out.exc_text, elapsed=time.time() - t0, cb_calls=out.cb_calls)


def _run_readonly(case, t0):
    plain = _plain_outcome(case)
    out = _execute(
        case, readonly=True, cb_readonly_results=True, time_limit=_variant_limit(plain.elapsed), max_cb_calls=_call_budget(plain)
    )
    obs = []
    if out.exc is not None:
        if _is_readonly_error(out.exc):
            detail = out.exc_text
            if out.site is None and out.via is not None:
                detail += f" (raised below {out.via})"
            obs.append(_obs(case, "readonly", "readonly_error", "<read-only input>", out.site, detail, via=out.via))
        elif plain.exc_type != out.exc_type:
            obs.append(
                _obs(
                    case,
                    "readonly",
                    "readonly_other_error",
                    "<read-only input>",
                    out.site or out.via,
                    f"read-only run raised {out.exc_text}; plain run: {plain.exc_text}",
                )
            )
    elif plain.exc is None and not _fp_equal(plain.fp, out.fp):
        obs.append(
            _obs(
                case,
                "readonly",
                "alias_result_differs",
                "<read-only input>",
                None,
                "result with read-only inputs differs from the plain result: " + _fp_diff_text(plain.fp, out.fp),
            )
        )
    # lists / dicts have no read-only flag: report what the snapshots / tracing containers saw
    for o in _mutation_observations(case, "readonly", out, site_kw={}, cb_site_kw={}):
        if o["kind"] == "arg_mutated":
            obs.append(o)
    return _result(case, "readonly", obs, out.fp, out.exc_text, elapsed=time.time() - t0)


def _run_same(case, t0):
    if not case.alias_pairs:
        return _result(case, "same", [], None, None, skipped=True, elapsed=time.time() - t0)
    obs = []
    fp0 = None
    exc0 = None
    ran = 0
    skipped_pairs = []
    for target, expr in case.alias_pairs:
        variant = f"{target}<-{expr}"
        r = _execute(case, alias=(target, expr, "copy"))
        if r.skipped:
            skipped_pairs.append(r.skipped)
            continue
        a = _execute(case, alias=(target, expr, "same"), time_limit=_variant_limit(r.elapsed), max_cb_calls=_call_budget(r))
        ran += 1
        if fp0 is None:
            fp0, exc0 = a.fp, a.exc_text
        if a.exc_type != r.exc_type:
            obs.append(
                _obs(
                    case,
                    "same",
                    "alias_result_differs",
                    variant,
                    None,
                    f"aliased call: {a.exc_text}; un-aliased call with equal values: {r.exc_text}",
                    variant=variant,
                    raised_at=a.site or a.via,
                )
            )
        elif a.exc is None and not _fp_equal(a.fp, r.fp):
            obs.append(
                _obs(
                    case,
                    "same",
                    "alias_result_differs",
                    variant,
                    None,
                    "same object passed for both parameters changes the result: " + _fp_diff_text(a.fp, r.fp),
                    variant=variant,
                )
            )
        obs.extend(
            _mutation_observations(case, "same", a, variant=variant, site_kw=dict(alias=(target, expr, "same")))
        )
    if ran == 0:
        return _result(case, "same", [], None, None, skipped=True, elapsed=time.time() - t0, skipped_pairs=skipped_pairs)
    return _result(case, "same", obs, fp0, exc0, elapsed=time.time() - t0, skipped_pairs=skipped_pairs, pairs_run=ran)


def _run_cb(case, t0, mode):
    if not case.callback_names:
        return _result(case, mode, [], None, None, skipped=True, elapsed=time.time() - t0)
    if mode == "cb_arg":
        names = [n for n in case.callback_names if n in case._cbarg_src]
    else:
        names = [n for n in case.callback_names if n in case._cbcache_src]
    if not names:
        return _result(case, mode, [], None, None, skipped=True, elapsed=time.time() - t0)
    obs = []
    fp0 = None
    exc0 = None
    for name in names:
        if mode == "cb_arg":
            var = {name: ("src", case._cbarg_src[name][0])}
            ref = {name: ("src", case._cbarg_src[name][1])}
            label = f"{name}={case._cbarg_src[name][0]}"
        else:
            const = case._cbcache_src[name]
            var = {name: ("cached", const, False)}
            ref = {name: ("cached", const, True)}
            label = f"{name}=cached constant {const!r}"
        r = _execute(case, cb_override=ref)
        v = _execute(case, cb_override=var, time_limit=_variant_limit(r.elapsed), max_cb_calls=_call_budget(r))
        if fp0 is None:
            fp0, exc0 = v.fp, v.exc_text
        if v.exc_type != r.exc_type:
            obs.append(
                _obs(
                    case,
                    mode,
                    "alias_result_differs",
                    f"{name}->result",
                    None,
                    f"{label}: {v.exc_text}; reference callback (fresh copy): {r.exc_text}",
                    variant=name,
                    raised_at=v.site or v.via,
                )
            )
        elif v.exc is None and not _fp_equal(v.fp, r.fp):
            obs.append(
                _obs(
                    case,
                    mode,
                    "alias_result_differs",
                    f"{name}->result",
                    None,
                    f"{label} changes the result: " + _fp_diff_text(v.fp, r.fp),
                    variant=name,
                )
            )
        obs.extend(_mutation_observations(case, mode, v, variant=name, site_kw=dict(cb_override=var)))
    return _result(case, mode, obs, fp0, exc0, elapsed=time.time() - t0)


# --------------------------------------------------------------------------------------------------
# case templates
# --------------------------------------------------------------------------------------------------
# A template is source text with @NAME@ placeholders.  ``P`` holds the defaults (variant #1, the only
# one in the quick suite), ``V`` the choices drawn at random for the extra variants of the thorough
# suite.  @SEED@ is replaced by the case's own seed.
_TEMPLATES = []
_RS = "rs = np.random.RandomState(@SEED@)\n"


def _T(func, tag, setup, call, args, P=None, V=None, **kw):
    _TEMPLATES.append(dict(func=func, tag=tag, setup=setup, call=call, args=list(args), P=dict(P or {}), V=dict(V or {}), kw=kw))


# value classes applied to every float array that a template hands directly to the public call (also to the
# evaluation points of returned interpolants): non-canonical order, zeros, denormals, infinities, NaN, duplicates,
# sign flips.  Many of these make the call raise; snapshots are compared either way.
_MORPH_KINDS = ("reverse", "zero", "inf", "shuffle", "tiny", "nan", "dup", "neg")
_MORPH_REGULAR = ("reverse", "zero", "inf")
_MORPH_SRC = (
    "def _morph(a, kind):\n"
    "    a = np.array(a, dtype=float)\n"
    "    f = a.reshape(-1)\n"
    "    if kind == 'reverse':\n        return a[::-1].copy()\n"
    "    if kind == 'shuffle':\n        return a[np.random.RandomState(7).permutation(a.shape[0])].copy()\n"
    "    if kind == 'zero':\n        f[0] = 0.0\n"
    "    if kind == 'tiny':\n        f[0] = 1e-300\n"
    "    if kind == 'inf':\n        f[-1] = np.inf\n"
    "    if kind == 'nan':\n        f[f.size // 2] = np.nan\n"
    "    if kind == 'dup':\n        f[1] = f[0]\n"
    "    if kind == 'neg':\n        a = -a\n"
    "    return a\n"
    "for _n in @ARGS@:\n"
    "    _o = globals().get(_n)\n"
    "    if isinstance(_o, np.ndarray) and _o.dtype.kind == 'f' and _o.ndim >= 1 and _o.size > 1:\n"
    "        globals()[_n] = _morph(_o, '@KIND@')\n"
)
_MORPH_CACHE = []


def _morph_templates():
    """for every base template with a float-array argument created directly in its set-up text: one derived
    template per value class"""
    if _MORPH_CACHE:
        return _MORPH_CACHE
    import re

    for tpl in list(_TEMPLATES):
        if "var_" in tpl["tag"] or tpl["kw"].get("needs_scratch") or tpl["kw"].get("tier") == "targeted":
            continue
        names = [n for n in tpl["args"] if re.search(r"(?:^|[\n;,(\s])" + re.escape(n) + r"\s*=\s*[^;\n]*(?:np\.|rs\.)", tpl["setup"])]
        if not names:
            continue
        heavy = tpl["func"].split(".")[0] in ("ode", "poisson", "robust_poisson")
        for kind in _MORPH_KINDS:
            src = _MORPH_SRC.replace("@ARGS@", repr(names)).replace("@KIND@", kind)
            kw = dict(tpl["kw"])
            kw["tier"] = "regular" if (kind in _MORPH_REGULAR and not heavy) else "targeted"
            _MORPH_CACHE.append(dict(func=tpl["func"], tag=(tpl["tag"] + "~" if tpl["tag"] else "~") + kind, setup=tpl["setup"].rstrip("\n") + "\n" + src,
                                     call=tpl["call"], args=list(tpl["args"]), P=dict(tpl["P"]), V=dict(tpl["V"]), kw=kw))
    return _MORPH_CACHE


def _subst(text, params):
    for k, v in params.items():
        text = text.replace(f"@{k}@", str(v))
    return text


def _instantiate(tpl, params, cid, seed):
    kw = dict(tpl["kw"])
    kw.pop("tier", None)
    s = lambda t: _subst(t, params)  # noqa: E731
    follow = [(n, s(e)) for n, e in kw.pop("follow", ())]
    alias = [(t, s(e)) for t, e in kw.pop("alias", ())]
    cbarg = {k: (s(v[0]), s(v[1])) for k, v in (kw.pop("cbarg", None) or {}).items()}
    bind = s(kw.pop("bind", ""))
    return Case(
        cid,
        tpl["func"],
        s(textwrap.dedent(tpl["setup"])),
        s(tpl["call"]),
        tpl["args"],
        seed=seed,
        follow=follow,
        alias_pairs=alias,
        cbarg=cbarg,
        bind=bind,
        **kw,
    )


def make_cases(rng, quick=True, only_funcs=None, targeted=False):
    """Deterministic list of cases given (rng state, quick).

    Templates marked ``tier="targeted"`` (systematic variations of one entry point) are only instantiated
    when ``targeted`` is true; ``only_funcs`` restricts to templates whose entry point (or a follow-up entry
    point) is in the given set."""
    cases = []
    counts = {}
    for tpl in list(_TEMPLATES) + _morph_templates():
        tier = tpl["kw"].get("tier", "regular")
        if tier == "targeted" and not targeted:
            continue
        if only_funcs is not None:
            names = {tpl["func"]} | {n for n, _ in tpl["kw"].get("follow", ())} | set(tpl["kw"].get("also", ()))
            if not (names & set(only_funcs)):
                continue
        base = tpl["func"] + (f"[{tpl['tag']}]" if tpl["tag"] else "")
        nvar = 1 if (quick or tpl["kw"].get("needs_scratch") or tier == "targeted") else 3
        for k in range(nvar):
            params = dict(tpl["P"])
            seed = rng.randrange(1, 2**31 - 1)
            if k > 0:
                for name, choices in sorted(tpl["V"].items()):
                    params[name] = choices[rng.randrange(len(choices))]
            counts[base] = counts.get(base, 0) + 1
            cases.append(_instantiate(tpl, params, f"{base}#{counts[base]}", seed))
    return cases


# ---- basegrid ------------------------------------------------------------------------------------
_G1 = _RS + "pts = np.sort(rs.uniform(-1, 1, @N@)); wts = rs.uniform(0.1, 1, @N@)\n"
_G3 = _RS + "pts = rs.uniform(-1, 1, (@N@, 3)); wts = rs.uniform(0.1, 1, @N@)\n"
_VN = dict(N=[6, 9, 14, 25])

_T("basegrid.Grid.__init__", "1d", _G1, "Grid(pts, wts)", ["pts", "wts"], dict(N=9), _VN, alias=[("wts", "pts")])
_T("basegrid.Grid.__init__", "3d", _G3, "Grid(pts, wts)", ["pts", "wts"], dict(N=9), _VN)
_T("basegrid.Grid.points", "get", _G3 + "g = Grid(pts, wts)\n", "g.points", ["g"], dict(N=8), _VN)
_T("basegrid.Grid.weights", "get", _G3 + "g = Grid(pts, wts)\n", "g.weights", ["g"], dict(N=8), _VN)
_T("basegrid.Grid.size", "", _G3 + "g = Grid(pts, wts)\n", "g.size", ["g"], dict(N=8), _VN)
_T(
    "basegrid.Grid.points",
    "set",
    _G3 + "g = Grid(pts, wts)\nnewp = rs.uniform(-1, 1, (@N@, 3))\ndef set_points(g, v):\n    g.points = v\n    return g.points\n",
    "set_points(g, newp)",
    ["newp", "pts", "wts"],
    dict(N=8),
    _VN,
)
_T(
    "basegrid.Grid.weights",
    "set",
    _G3 + "g = Grid(pts, wts)\nneww = rs.uniform(0, 1, @N@)\ndef set_weights(g, v):\n    g.weights = v\n    return g.weights\n",
    "set_weights(g, neww)",
    ["neww", "pts", "wts"],
    dict(N=8),
    _VN,
)
_T("basegrid.Grid.__getitem__", "int", _G3 + "g = Grid(pts, wts)\n", "g[2]", ["g"], dict(N=8), _VN)
_T("basegrid.Grid.__getitem__", "slice", _G3 + "g = Grid(pts, wts)\n", "g[1:5]", ["g"], dict(N=8), _VN)
_T("basegrid.Grid.__getitem__", "intarray", _G3 + "g = Grid(pts, wts)\nidx = np.array([3, 0, 4])\n", "g[idx]", ["g", "idx"], dict(N=8), _VN)
_T("basegrid.Grid.__getitem__", "mask", _G1 + "g = Grid(pts, wts)\nmask = pts > 0\n", "g[mask]", ["g", "mask"], dict(N=8), _VN)
_T("basegrid.Grid.__getitem__", "list", _G3 + "g = Grid(pts, wts)\nidx = [3, 0, 4]\n", "g[idx]", ["g", "idx"], dict(N=8), _VN)
_T("basegrid.Grid.integrate", "one", _G3 + "g = Grid(pts, wts)\nfv = rs.normal(size=@N@)\n", "g.integrate(fv)", ["g", "fv"], dict(N=10), _VN, alias=[("fv", "g.weights")])
_T(
    "basegrid.Grid.integrate",
    "two",
    _G3 + "g = Grid(pts, wts)\nfv = rs.normal(size=@N@); fv2 = rs.normal(size=@N@)\n",
    "g.integrate(fv, fv2)",
    ["g", "fv", "fv2"],
    dict(N=10),
    _VN,
    alias=[("fv2", "fv"), ("fv2", "g.weights")],
)
_T(
    "basegrid.Grid.integrate",
    "three",
    _G1 + "g = Grid(pts, wts)\nfv = rs.normal(size=@N@); fv2 = rs.normal(size=@N@); fv3 = rs.normal(size=@N@)\n",
    "g.integrate(fv, fv2, fv3)",
    ["g", "fv", "fv2", "fv3"],
    dict(N=10),
    _VN,
    alias=[("fv3", "fv"), ("fv", "g.points")],
)
_T(
    "basegrid.Grid.integrate",
    "onedgrid",
    _RS + "g = GaussLegendre(@N@)\nfv = rs.normal(size=@N@)\n",
    "g.integrate(fv)",
    ["g", "fv"],
    dict(N=10),
    _VN,
    alias=[("fv", "g.points")],
)
_T(
    "basegrid.Grid.get_localgrid",
    "3d",
    _G3 + "g = Grid(pts, wts)\ncenter = pts[1] + 0.01\n",
    "g.get_localgrid(center, 0.9)",
    ["g", "center"],
    dict(N=12),
    _VN,
    alias=[("center", "pts[1]")],
)
_T("basegrid.Grid.get_localgrid", "inf", _G3 + "g = Grid(pts, wts)\ncenter = rs.uniform(-1, 1, 3)\n", "g.get_localgrid(center, np.inf)", ["g", "center"], dict(N=12), _VN)
_T("basegrid.Grid.get_localgrid", "1d", _G1 + "g = Grid(pts, wts)\nc = float(pts[2])\n", "g.get_localgrid(c, 0.5)", ["g"], dict(N=12), _VN)
_T(
    "basegrid.Grid.get_localgrid",
    "listcenter",
    _G3 + "g = Grid(pts, wts)\ncenter = [float(v) for v in pts[0]]\n",
    "g.get_localgrid(center, 1.1)",
    ["g", "center"],
    dict(N=12),
    _VN,
)
_T(
    "basegrid.Grid.get_localgrid",
    "twice",
    _G3 + "g = Grid(pts, wts)\ncenter = pts[1] + 0.01\n_ = g.get_localgrid(center, 0.5)\n",
    "g.get_localgrid(center, 0.9)",
    ["g", "center"],
    dict(N=12),
    _VN,
)
for _tm in ("cartesian", "radial", "pure", "pure-radial"):
    _T(
        "basegrid.Grid.moments",
        _tm,
        _G3 + "g = Grid(pts, wts)\ncenters = rs.uniform(-1, 1, (@N@, 3)); fv = rs.normal(size=@N@)\n",
        f"g.moments(2, centers, fv, type_mom={_tm!r})",
        ["g", "centers", "fv"],
        dict(N=6),
        dict(N=[4, 6, 9]),
        alias=[("centers", "pts"), ("fv", "wts")],
    )
_T(
    "basegrid.Grid.moments",
    "return_orders",
    _G3 + "g = Grid(pts, wts)\ncenters = rs.uniform(-1, 1, (2, 3)); fv = rs.normal(size=@N@)\n",
    "g.moments(np.int64(1), centers, fv, type_mom='pure', return_orders=True)",
    ["g", "centers", "fv"],
    dict(N=6),
    dict(N=[4, 6, 9]),
)
_T("basegrid.Grid.save", "", _G3 + "g = Grid(pts, wts)\nbuf = io.BytesIO()\n", "g.save(buf)", ["g"], dict(N=6), _VN)
_T(
    "basegrid.LocalGrid.__init__",
    "3d",
    _G3 + "center = rs.uniform(-1, 1, 3); idx = np.arange(@N@)\n",
    "LocalGrid(pts, wts, center, idx)",
    ["pts", "wts", "center", "idx"],
    dict(N=7),
    _VN,
    alias=[("center", "pts[0]")],
)
_T(
    "basegrid.LocalGrid.__init__",
    "1d",
    _G1 + "idx = np.arange(@N@)\n",
    "LocalGrid(pts, wts, 0.25, idx)",
    ["pts", "wts", "idx"],
    dict(N=7),
    _VN,
    alias=[("wts", "pts")],
)
_T("basegrid.LocalGrid.center", "", _G3 + "center = rs.uniform(-1, 1, 3)\nlg = LocalGrid(pts, wts, center, np.arange(@N@))\n", "lg.center", ["lg"], dict(N=7), _VN)
_T("basegrid.LocalGrid.indices", "", _G3 + "center = rs.uniform(-1, 1, 3)\nlg = LocalGrid(pts, wts, center, np.arange(@N@))\n", "lg.indices", ["lg"], dict(N=7), _VN)
_T("basegrid.LocalGrid.save", "", _G3 + "center = rs.uniform(-1, 1, 3)\nlg = LocalGrid(pts, wts, center, np.arange(@N@))\nbuf = io.BytesIO()\n", "lg.save(buf)", ["lg"], dict(N=7), _VN)
_T("basegrid.OneDGrid.__init__", "tuple", _G1 + "dom = (-1.0, 1.0)\n", "OneDGrid(pts, wts, dom)", ["pts", "wts", "dom"], dict(N=9), _VN, alias=[("wts", "pts")])
_T("basegrid.OneDGrid.__init__", "listdomain", _G1 + "dom = [-1.0, 1.0]\n", "OneDGrid(pts, wts, dom)", ["pts", "wts", "dom"], dict(N=9), _VN)
_T("basegrid.OneDGrid.__init__", "nodomain", _G1, "OneDGrid(pts, wts)", ["pts", "wts"], dict(N=9), _VN)
_T("basegrid.OneDGrid.__getitem__", "int", _G1 + "g = OneDGrid(pts, wts, (-1, 1))\n", "g[3]", ["g"], dict(N=9), _VN)
_T("basegrid.OneDGrid.__getitem__", "slice", _G1 + "g = OneDGrid(pts, wts, (-1, 1))\n", "g[1:4]", ["g"], dict(N=9), _VN)
_T("basegrid.OneDGrid.__getitem__", "array", _G1 + "g = OneDGrid(pts, wts, [-1, 1])\nidx = np.array([0, 2, 3])\n", "g[idx]", ["g", "idx"], dict(N=9), _VN)
_T("basegrid.OneDGrid.domain", "", _G1 + "g = OneDGrid(pts, wts, [-1, 1])\n", "g.domain", ["g"], dict(N=9), _VN)


# ---- rtransform ----------------------------------------------------------------------------------
def _defining_class(cls, meth):
    for k in cls.__mro__:
        if meth in k.__dict__:
            return k.__name__
    return cls.__name__


def _rtransform_templates():
    import grid.rtransform as rt

    fin = "x = np.sort(rs.uniform(-0.95, 0.95, @N@))\n"
    inf = "x = np.sort(rs.uniform(0.05, 8.0, @N@))\n"
    specs = [
        ("BeckeRTransform", "BeckeRTransform(0.1, 1.2)", fin, "GaussLegendre(@N@)"),
        ("LinearFiniteRTransform", "LinearFiniteRTransform(0.2, 3.0)", fin, "GaussLegendre(@N@)"),
        (
            "InverseRTransform",
            "InverseRTransform(BeckeRTransform(0.1, 1.2))",
            "x = np.sort(rs.uniform(0.15, 8.0, @N@))\n",
            "BeckeRTransform(0.1, 1.2).transform_1d_grid(GaussLegendre(@N@))",
        ),
        ("IdentityRTransform", "IdentityRTransform()", inf, "GaussLaguerre(@N@)"),
        ("LinearInfiniteRTransform", "LinearInfiniteRTransform(0.1, 5.0)", inf, "UniformInteger(@N@)"),
        ("ExpRTransform", "ExpRTransform(0.1, 5.0)", inf, "UniformInteger(@N@)"),
        ("PowerRTransform", "PowerRTransform(0.1, 5.0)", inf, "UniformInteger(@N@)"),
        ("HyperbolicRTransform", "HyperbolicRTransform(0.5, 0.01)", inf, "UniformInteger(@N@)"),
        ("MultiExpRTransform", "MultiExpRTransform(0.1, 1.2)", fin, "GaussChebyshev(@N@)"),
        ("KnowlesRTransform", "KnowlesRTransform(0.1, 1.2, 2)", fin, "GaussChebyshev(@N@)"),
        ("HandyRTransform", "HandyRTransform(0.1, 1.2, 2)", fin, "GaussLegendre(@N@)"),
        ("HandyModRTransform", "HandyModRTransform(0.1, 8.0, @M@)", fin, "GaussLegendre(@N@)"),
    ]
    P = dict(N=7, M=2)
    V = dict(N=[4, 7, 11, 20], M=[1, 2, 3])
    for cname, ctor, xsrc, gsrc in specs:
        cls = getattr(rt, cname)
        base = _RS + f"tf = {ctor}\n" + xsrc
        for m in ("transform", "deriv", "deriv2", "deriv3"):
            _T(f"rtransform.{_defining_class(cls, m)}.{m}", cname if _defining_class(cls, m) != cname else "", base, f"tf.{m}(x)", ["tf", "x"], P, V)
        for m in ("inverse", "deriv_inverse", "deriv2_inverse", "deriv3_inverse"):
            _T(
                f"rtransform.{_defining_class(cls, m)}.{m}",
                cname if _defining_class(cls, m) != cname else "",
                base + "r = tf.transform(x.copy())\n",
                f"tf.{m}(r)",
                ["tf", "r"],
                P,
                V,
            )
        _T("rtransform.BaseTransform.transform_1d_grid", cname, _RS + f"tf = {ctor}\nog = {gsrc}\n", "tf.transform_1d_grid(og)", ["tf", "og"], P, V)
    for cname in ("LinearInfiniteRTransform", "ExpRTransform", "PowerRTransform"):
        _T(
            f"rtransform.{cname}.set_maximum_parameter_b",
            "",
            _RS + f"tf = {cname}(0.1, 5.0)\n" + inf + "def setb(tf, x):\n    tf.set_maximum_parameter_b(x)\n    return tf.b\n",
            "setb(tf, x)",
            ["x"],
            P,
            V,
        )
    _T("rtransform.BeckeRTransform.find_parameter", "", _RS + fin, "BeckeRTransform.find_parameter(x, 0.1, 1.3)", ["x"], P, V)
    _T("rtransform.InverseRTransform.__init__", "", "tf0 = BeckeRTransform(0.1, 1.2)\n", "InverseRTransform(tf0)", ["tf0"], P, V)
    # a user-defined transform whose methods are user callbacks
    user = (
        _RS
        + "def u_transform(x):\n    return 2.0 * x\n"
        + "def u_deriv(x):\n    return np.full(np.shape(x), 2.0)\n"
        + "def u_inverse(r):\n    return 0.5 * r\n"
        + "def u_zero(x):\n    return np.zeros(np.shape(x))\n"
        + "class UserTransform(BaseTransform):\n"
        + "    def __init__(self):\n        self._domain = (0, np.inf); self._codomain = (0, np.inf)\n"
        + "    def transform(self, x):\n        return u_transform(x)\n"
        + "    def inverse(self, r):\n        return u_inverse(r)\n"
        + "    def deriv(self, x):\n        return u_deriv(x)\n"
        + "    def deriv2(self, x):\n        return u_zero(x)\n"
        + "    def deriv3(self, x):\n        return u_zero(x)\n"
        + "tf = UserTransform()\nog = GaussLaguerre(@N@)\n"
    )
    _T(
        "rtransform.BaseTransform.transform_1d_grid",
        "user_callbacks",
        user,
        "tf.transform_1d_grid(og)",
        ["tf", "og"],
        P,
        V,
        callbacks=["u_transform", "u_deriv"],
        cbarg={"u_transform": ("lambda x: x", "lambda x: x + 0.0"), "u_deriv": ("lambda x: x", "lambda x: x + 0.0")},
        cbcache={"u_transform": 1.5, "u_deriv": 2.0},
    )
    _T(
        "rtransform.BaseTransform.deriv2_inverse",
        "user_callbacks",
        user + "r = np.sort(rs.uniform(0.5, 4, @N@))\n",
        "tf.deriv2_inverse(r)",
        ["tf", "r"],
        P,
        V,
        callbacks=["u_inverse", "u_deriv", "u_zero"],
        cbarg={"u_inverse": ("lambda r: r", "lambda r: r + 0.0"), "u_deriv": ("lambda x: x", "lambda x: x + 0.0"), "u_zero": ("lambda x: x", "lambda x: x + 0.0")},
        cbcache={"u_inverse": 1.5, "u_deriv": 2.0, "u_zero": 0.25},
    )
    return user


_USER_TF = _rtransform_templates()


# ---- atomgrid ------------------------------------------------------------------------------------
_RG = "og = GaussLegendre(@N@)\nrg = BeckeRTransform(1e-4, 1.5).transform_1d_grid(og)\n"
_RG0 = "rg = OneDGrid(np.linspace(0.0, 3.0, @N@), np.full(@N@, 3.0 / @N@), (0, np.inf))\n"
_AG = _RS + _RG + "ag = AtomGrid(rg, degrees=[@DEG@], center=np.array([0.1, -0.2, 0.3]))\nfv = np.exp(-np.linalg.norm(ag.points - ag.center, axis=1)) * (1 + 0.3 * ag.points[:, 0])\n"
_AG0 = _RS + _RG0 + "ag = AtomGrid(rg, degrees=[@DEG@])\nfv = np.exp(-np.linalg.norm(ag.points, axis=1) ** 2) * (1 + 0.3 * ag.points[:, 2])\n"
_TP3 = "tp = rs.uniform(-1.5, 1.5, (5, 3))\n"
_PA = dict(N=8, DEG=3)
_VA = dict(N=[6, 10, 14, 20], DEG=[3, 5, 7])

_T("atomgrid.AtomGrid.__init__", "degrees_list", _RS + _RG + "degs = [@DEG@]\n", "AtomGrid(rg, degs)", ["rg", "degs"], _PA, _VA)
_T(
    "atomgrid.AtomGrid.__init__",
    "degrees_array_center_rotate",
    _RS + _RG + "degs = np.array([3, 5] * @N@)[:@N@]\ncenter = rs.uniform(-1, 1, 3)\n",
    "AtomGrid(rg, degs, center=center, rotate=5)",
    ["rg", "degs", "center"],
    _PA,
    _VA,
)
_T("atomgrid.AtomGrid.__init__", "sizes_list", _RS + _RG + "sizes = [6, 14] * @N@\nsizes = sizes[:@N@]\n", "AtomGrid(rg, None, sizes=sizes)", ["rg", "sizes"], _PA, _VA)
_T("atomgrid.AtomGrid.__init__", "sizes_array", _RS + _RG + "sizes = np.array([14])\ncenter = [0.0, 0.5, 1.0]\n", "AtomGrid(rg, sizes=sizes, center=center)", ["rg", "sizes", "center"], _PA, _VA)
_T("atomgrid.AtomGrid.__init__", "spherical", _RS + _RG + "degs = [@DEG@]\n", "AtomGrid(rg, degs, method='spherical')", ["rg", "degs"], _PA, _VA)
_T("atomgrid.AtomGrid.__init__", "origin", _RS + _RG0 + "degs = [@DEG@]\n", "AtomGrid(rg, degs, rotate=3)", ["rg", "degs"], _PA, _VA)
_T("atomgrid.AtomGrid.from_preset", "coarse", _RS + _RG + "center = rs.uniform(-1, 1, 3)\n", "AtomGrid.from_preset(1, 'coarse', rgrid=rg, center=center)", ["rg", "center"], _PA, _VA)
_T("atomgrid.AtomGrid.from_preset", "default_rgrid", _RS + "center = rs.uniform(-1, 1, 3)\n", "AtomGrid.from_preset(1, 'coarse', center=center, rotate=2)", ["center"], _PA, _VA)
_T(
    "atomgrid.AtomGrid.from_preset",
    "sg_0",
    _RS + "from grid.atomgrid import _get_rgrid_size\nrg = BeckeRTransform(1e-4, 1.5).transform_1d_grid(GaussLegendre(int(_get_rgrid_size('sg_0', atnums=8)[0])))\ncenter = [0.0, 0.0, 0.5]\n",
    "AtomGrid.from_preset(8, 'sg_0', rgrid=rg, center=center)",
    ["rg", "center"],
    _PA,
    _VA,
)
_T(
    "atomgrid.AtomGrid.from_pruned",
    "lists",
    _RS + _RG + "r_sectors = [0.5, 1.0, 1.5]\nd_sectors = [3, 5, 7, 3]\ncenter = rs.uniform(-1, 1, 3)\n",
    "AtomGrid.from_pruned(rg, 0.8, r_sectors, d_sectors, center=center)",
    ["rg", "r_sectors", "d_sectors", "center"],
    _PA,
    _VA,
)
_T(
    "atomgrid.AtomGrid.from_pruned",
    "arrays",
    _RS + _RG + "r_sectors = np.array([0.5, 1.0, 1.5])\nd_sectors = np.array([3, 5, 7, 3])\n",
    "AtomGrid.from_pruned(rg, 0.8, r_sectors, d_sectors, rotate=7)",
    ["rg", "r_sectors", "d_sectors"],
    _PA,
    _VA,
)
_T(
    "atomgrid.AtomGrid.from_pruned",
    "s_sectors",
    _RS + _RG + "r_sectors = [0.5, 1.0]\ns_sectors = [6, 14, 6]\n",
    "AtomGrid.from_pruned(rg, 0.8, r_sectors, s_sectors=s_sectors)",
    ["rg", "r_sectors", "s_sectors"],
    _PA,
    _VA,
)
for _prop in ("points", "rgrid", "degrees", "indices", "center"):
    _T(f"atomgrid.AtomGrid.{_prop}", "", _AG, f"ag.{_prop}", ["ag"], _PA, _VA)
_T("atomgrid.AtomGrid.basis", "", _AG + "_ = ag.interpolate(fv)\n", "ag.basis", ["ag"], _PA, _VA)
_T("atomgrid.AtomGrid.get_shell_grid", "r_sq", _AG, "ag.get_shell_grid(2)", ["ag"], _PA, _VA)
_T("atomgrid.AtomGrid.get_shell_grid", "no_r_sq_rotate", _RS + _RG + "ag = AtomGrid(rg, degrees=[@DEG@], rotate=11)\n", "ag.get_shell_grid(1, r_sq=False)", ["ag"], _PA, _VA)
_T("atomgrid.AtomGrid.convert_cartesian_to_spherical", "own", _AG, "ag.convert_cartesian_to_spherical()", ["ag"], _PA, _VA)
_T("atomgrid.AtomGrid.convert_cartesian_to_spherical", "own_origin", _AG0, "ag.convert_cartesian_to_spherical()", ["ag"], _PA, _VA)
_T("atomgrid.AtomGrid.convert_cartesian_to_spherical", "points", _AG + _TP3, "ag.convert_cartesian_to_spherical(tp)", ["ag", "tp"], _PA, _VA)
_T(
    "atomgrid.AtomGrid.convert_cartesian_to_spherical",
    "points_center",
    _AG + _TP3 + "c = rs.uniform(-1, 1, 3)\n",
    "ag.convert_cartesian_to_spherical(tp, c)",
    ["ag", "tp", "c"],
    _PA,
    _VA,
    alias=[("c", "ag.center"), ("c", "tp[0]")],
)
_T("atomgrid.AtomGrid.convert_cartesian_to_spherical", "single_point", _AG + "p = rs.uniform(-1, 1, 3)\n", "ag.convert_cartesian_to_spherical(p)", ["ag", "p"], _PA, _VA, alias=[("p", "ag.center")])
_T("atomgrid.AtomGrid.integrate_angular_coordinates", "1d", _AG, "ag.integrate_angular_coordinates(fv)", ["ag", "fv"], _PA, _VA, alias=[("fv", "ag.weights")])
_T("atomgrid.AtomGrid.integrate_angular_coordinates", "2d", _AG + "fvs = np.array([fv, fv ** 2, np.cos(fv)])\n", "ag.integrate_angular_coordinates(fvs)", ["ag", "fvs"], _PA, _VA)
_T("atomgrid.AtomGrid.integrate_angular_coordinates", "origin", _AG0, "ag.integrate_angular_coordinates(fv)", ["ag", "fv"], _PA, _VA, alias=[("fv", "ag.weights")])
_T(
    "atomgrid.AtomGrid.spherical_average",
    "",
    _AG + "tr = np.sort(rs.uniform(0.1, 2.0, 6))\n",
    "ag.spherical_average(fv)",
    ["ag", "fv", "tr"],
    _PA,
    _VA,
    follow=[("atomgrid.AtomGrid.spherical_average.CubicSpline", "result(tr)"), ("atomgrid.AtomGrid.spherical_average.CubicSpline", "result(tr, 1)")],
    alias=[("fv", "ag.weights")],
)
_T(
    "atomgrid.AtomGrid.spherical_average",
    "origin",
    _AG0 + "tr = np.sort(rs.uniform(0.1, 2.0, 6))\n",
    "ag.spherical_average(fv)",
    ["ag", "fv", "tr"],
    _PA,
    _VA,
    follow=[("atomgrid.AtomGrid.spherical_average.CubicSpline", "result(tr)")],
)
_T(
    "atomgrid.AtomGrid.radial_component_splines",
    "",
    _AG + "tr = np.sort(rs.uniform(0.1, 2.0, 6))\n",
    "ag.radial_component_splines(fv)",
    ["ag", "fv", "tr"],
    _PA,
    _VA,
    follow=[("atomgrid.AtomGrid.radial_component_splines.CubicSpline", "[s(tr) for s in result]")],
    alias=[("fv", "ag.weights")],
)
_T(
    "atomgrid.AtomGrid.radial_component_splines",
    "pruned",
    _RS + _RG + "ag = AtomGrid.from_pruned(rg, 1.0, [0.5, 1.5], [3, 7, 5])\nfv = np.exp(-np.linalg.norm(ag.points, axis=1))\ntr = np.sort(rs.uniform(0.1, 2.0, 6))\n",
    "ag.radial_component_splines(fv)",
    ["ag", "fv", "tr"],
    _PA,
    _VA,
    follow=[("atomgrid.AtomGrid.radial_component_splines.CubicSpline", "[s(tr) for s in result]")],
)
_IL = "atomgrid.AtomGrid.interpolate.interpolate_low"
_T(
    "atomgrid.AtomGrid.interpolate",
    "",
    _AG + _TP3,
    "ag.interpolate(fv)",
    ["ag", "fv", "tp"],
    _PA,
    _VA,
    follow=[
        (_IL, "result(tp)"),
        (_IL, "result(tp, deriv=1)"),
        (_IL, "result(tp, deriv=1, deriv_spherical=True)"),
        (_IL, "result(tp, deriv=2, only_radial_deriv=True)"),
        (_IL, "result(ag.points)"),
    ],
    alias=[("fv", "ag.weights"), ("tp", "ag._points")],
)
_T(
    "atomgrid.AtomGrid.interpolate",
    "origin_twice",
    _AG0 + _TP3 + "_ = ag.interpolate(fv)\n",
    "ag.interpolate(fv)",
    ["ag", "fv", "tp"],
    _PA,
    _VA,
    follow=[(_IL, "result(tp)"), (_IL, "result(tp, 1)")],
)
_T("basegrid.Grid.integrate", "atomgrid", _AG + "fv2 = fv ** 2\n", "ag.integrate(fv, fv2)", ["ag", "fv", "fv2"], _PA, _VA, alias=[("fv2", "fv"), ("fv", "ag.weights")])
_T(
    "basegrid.Grid.moments",
    "atomgrid",
    _AG + "centers = np.array([[0.1, -0.2, 0.3], [0.0, 0.0, 0.0]])\n",
    "ag.moments(1, centers, fv, type_mom='pure')",
    ["ag", "centers", "fv"],
    _PA,
    _VA,
    alias=[("fv", "ag.weights")],
)
_T("basegrid.Grid.get_localgrid", "atomgrid_inf", _AG + "c = rs.uniform(-1, 1, 3)\n", "ag.get_localgrid(c, np.inf)", ["ag", "c"], _PA, _VA, alias=[("c", "ag.center")])
_T("basegrid.Grid.get_localgrid", "atomgrid_finite", _AG + "c = rs.uniform(-1, 1, 3)\n", "ag.get_localgrid(c, 1.5)", ["ag", "c"], _PA, _VA)
_T("basegrid.Grid.__getitem__", "atomgrid", _AG, "ag[1:4]", ["ag"], _PA, _VA)
_T("atomgrid.AtomGrid.save", "", _AG + "buf = io.BytesIO()\n", "ag.save(buf)", ["ag"], _PA, _VA)


# ---- molgrid -------------------------------------------------------------------------------------
_MOL = (
    _RS
    + _RG
    + "atnums = np.array([1, 8])\natcoords = np.array([[0.0, 0.0, -0.7], [0.0, 0.1, 0.7]])\n"
    + "ag1 = AtomGrid(rg, degrees=[@DEG@], center=atcoords[0])\nag2 = AtomGrid(rg, degrees=[@DEG@], center=atcoords[1])\n"
)
_AIM = "def aim(points, atcoords, atnums, indices):\n    return 0.5 + 0.1 * np.tanh(points[:, 2])\n"
_CB_AIM = dict(
    callbacks=["aim"],
    cbarg={"aim": ("lambda p, c, n, i: p[:, 0]", "lambda p, c, n, i: p[:, 0].copy()")},
    cbcache={"aim": 0.5},
)
_MG = _MOL + "mg = MolGrid(atnums, [ag1, ag2], BeckeWeights(), store=@STORE@)\nfv = np.exp(-np.linalg.norm(mg.points, axis=1)) * (1 + 0.2 * mg.points[:, 1])\n"
_PM = dict(N=7, DEG=3, STORE=True)
_VM = dict(N=[5, 8, 12], DEG=[3, 5, 7])

_T("molgrid.MolGrid.__init__", "becke", _MOL + "atgrids = [ag1, ag2]\nbecke = BeckeWeights(order=3)\n", "MolGrid(atnums, atgrids, becke)", ["atnums", "atgrids", "becke"], _PM, _VM)
_T("molgrid.MolGrid.__init__", "callable", _MOL + _AIM + "atgrids = [ag1, ag2]\n", "MolGrid(atnums, atgrids, aim, store=True)", ["atnums", "atgrids"], _PM, _VM, **_CB_AIM)
_T(
    "molgrid.MolGrid.__init__",
    "array",
    _MOL + "atgrids = [ag1, ag2]\naimw = rs.uniform(0.2, 0.8, ag1.size + ag2.size)\n",
    "MolGrid(atnums, atgrids, aimw, store=True)",
    ["atnums", "atgrids", "aimw"],
    _PM,
    _VM,
)
_T(
    "molgrid.MolGrid.__init__",
    "single_atom",
    _RS + _RG + "ag = AtomGrid(rg, degrees=[@DEG@])\natnums = np.array([1])\natgrids = [ag]\naimw = np.ones(ag.size)\n",
    "MolGrid(atnums, atgrids, aimw)",
    ["atnums", "atgrids", "aimw"],
    _PM,
    _VM,
    alias=[("aimw", "ag.weights")],
)
_T("molgrid.MolGrid.from_preset", "str", _MOL, "MolGrid.from_preset(atnums, atcoords, 'coarse', rgrid=rg)", ["atnums", "atcoords", "rg"], _PM, _VM)
_T(
    "molgrid.MolGrid.from_preset",
    "lists",
    _MOL + "preset = ['coarse', 'medium']\nrgrids = [rg, rg]\n",
    "MolGrid.from_preset(atnums, atcoords, preset, rgrid=rgrids, store=True)",
    ["atnums", "atcoords", "preset", "rgrids"],
    _PM,
    _VM,
)
_T(
    "molgrid.MolGrid.from_preset",
    "dicts_callable",
    _MOL + _AIM + "preset = {1: 'coarse', 8: 'coarse'}\nrgrids = {1: rg, 8: rg}\n",
    "MolGrid.from_preset(atnums, atcoords, preset, rgrid=rgrids, aim_weights=aim, rotate=0)",
    ["atnums", "atcoords", "preset", "rgrids"],
    _PM,
    _VM,
    **_CB_AIM,
)
_T("molgrid.MolGrid.from_size", "", _MOL, "MolGrid.from_size(atnums, atcoords, 6, rgrid=rg, store=True)", ["atnums", "atcoords", "rg"], _PM, _VM)
_T("molgrid.MolGrid.from_size", "callable", _MOL + _AIM, "MolGrid.from_size(atnums, atcoords, 14, rgrid=rg, aim_weights=aim, rotate=0)", ["atnums", "atcoords", "rg"], _PM, _VM, **_CB_AIM)
_T(
    "molgrid.MolGrid.from_size",
    "array_weights",
    _MOL + "n_tot = 2 * 6 * @N@\naimw = rs.uniform(0.2, 0.8, n_tot)\n",
    "MolGrid.from_size(atnums, atcoords, 6, rgrid=rg, aim_weights=aimw)",
    ["atnums", "atcoords", "rg", "aimw"],
    _PM,
    _VM,
)
_T(
    "molgrid.MolGrid.from_pruned",
    "d_sectors",
    _MOL + "r_sectors = [[0.5, 1.0], [0.5, 1.0]]\nd_sectors = [[3, 5, 3], [3, 7, 3]]\n",
    "MolGrid.from_pruned(atnums, atcoords, 1.0, r_sectors, d_sectors, rgrid=rg)",
    ["atnums", "atcoords", "r_sectors", "d_sectors", "rg"],
    _PM,
    _VM,
)
_T(
    "molgrid.MolGrid.from_pruned",
    "s_sectors_radius_list_callable",
    _MOL + _AIM + "radius = [0.6, 1.1]\nr_sectors = [[0.5, 1.0], [0.7]]\ns_sectors = [[6, 14, 6], [6, 14]]\nrgrids = [rg, rg]\n",
    "MolGrid.from_pruned(atnums, atcoords, radius, r_sectors, s_sectors=s_sectors, rgrid=rgrids, aim_weights=aim, store=True)",
    ["atnums", "atcoords", "radius", "r_sectors", "s_sectors", "rgrids"],
    _PM,
    _VM,
    **_CB_AIM,
)
for _prop in ("atgrids", "indices", "aim_weights", "atcoords", "atweights"):
    _T(f"molgrid.MolGrid.{_prop}", "", _MG, f"mg.{_prop}", ["mg"], _PM, _VM)
_ML = "molgrid.MolGrid.interpolate.interpolate_low"
_T(
    "molgrid.MolGrid.interpolate",
    "",
    _MG + _TP3,
    "mg.interpolate(fv)",
    ["mg", "fv", "tp"],
    _PM,
    _VM,
    follow=[(_ML, "result(tp)"), (_ML, "result(tp, deriv=1)"), (_ML, "result(tp, 2, False, True)")],
    alias=[("fv", "mg.weights"), ("fv", "mg.aim_weights")],
)
_T("molgrid.MolGrid.get_atomic_grid", "stored", _MG, "mg.get_atomic_grid(1)", ["mg"], _PM, _VM)
_T("molgrid.MolGrid.get_atomic_grid", "not_stored", _MG, "mg.get_atomic_grid(1)", ["mg"], dict(_PM, STORE=False), _VM)
_T("molgrid.MolGrid.__getitem__", "stored", _MG, "mg[0]", ["mg"], _PM, _VM)
_T("molgrid.MolGrid.__getitem__", "not_stored", _MG, "mg[0]", ["mg"], dict(_PM, STORE=False), _VM)
_T("basegrid.Grid.integrate", "molgrid", _MG + "fv2 = fv ** 2\n", "mg.integrate(fv, fv2)", ["mg", "fv", "fv2"], _PM, _VM, alias=[("fv2", "fv"), ("fv", "mg.weights"), ("fv", "mg.atweights")])
_T(
    "basegrid.Grid.moments",
    "molgrid",
    _MG + "centers = rs.uniform(-1, 1, (2, 3))\n",
    "mg.moments(1, centers, fv, type_mom='cartesian')",
    ["mg", "centers", "fv"],
    _PM,
    _VM,
    alias=[("centers", "mg.atcoords"), ("fv", "mg.aim_weights")],
)
_T("basegrid.Grid.get_localgrid", "molgrid", _MG + "c = np.array([0.0, 0.0, 0.6])\n", "mg.get_localgrid(c, 1.0)", ["mg", "c"], _PM, _VM, alias=[("c", "mg.atcoords[1]")])
_T("molgrid.MolGrid.save", "", _MG + "buf = io.BytesIO()\n", "mg.save(buf)", ["mg"], _PM, _VM)


# ---- becke ---------------------------------------------------------------------------------------
_BK = (
    _RS
    + "atnums = np.array([1, 8, 6])\natcoords = np.array([[0.0, 0.0, -0.9], [0.0, 0.2, 0.8], [1.1, 0.0, 0.0]])\n"
    + "points = rs.uniform(-1.5, 1.5, (3 * @K@, 3))\nbw = BeckeWeights(order=3)\n"
)
_PB = dict(K=4)
_VB = dict(K=[1, 3, 6, 10])
_T("becke.BeckeWeights.__init__", "radii", "radii = {6: 0.75, 8: 1.2}\n", "BeckeWeights(radii, order=2)", ["radii"], _PB, _VB)
_T("becke.BeckeWeights.__init__", "radii_used", _BK + "radii = {1: 0.5, 8: 1.2}\ndef mk(radii, points, atcoords, atnums):\n    return BeckeWeights(radii, order=2).generate_weights(points, atcoords, atnums, select=0)\n", "mk(radii, points, atcoords, atnums)", ["radii", "points", "atcoords", "atnums"], _PB, _VB)
_T("becke.BeckeWeights.generate_weights", "select_int", _BK, "bw.generate_weights(points, atcoords, atnums, select=1)", ["bw", "points", "atcoords", "atnums"], dict(K=1), _VB, alias=[("points", "atcoords")])
_T("becke.BeckeWeights.generate_weights", "select_list", _BK + "select = [2]\n", "bw.generate_weights(points, atcoords, atnums, select=select)", ["bw", "points", "atcoords", "atnums", "select"], _PB, _VB)
_T(
    "becke.BeckeWeights.generate_weights",
    "sectors_lists",
    _BK + "select = [0, 1, 2]\npt_ind = [0, @K@, 2 * @K@, 3 * @K@]\n",
    "bw.generate_weights(points, atcoords, atnums, select=select, pt_ind=pt_ind)",
    ["bw", "points", "atcoords", "atnums", "select", "pt_ind"],
    _PB,
    _VB,
)
_T(
    "becke.BeckeWeights.generate_weights",
    "sectors_arrays",
    _BK + "pt_ind = np.array([0, @K@, 2 * @K@, 3 * @K@])\n",
    "bw.generate_weights(points, atcoords, atnums, pt_ind=pt_ind)",
    ["bw", "points", "atcoords", "atnums", "pt_ind"],
    dict(K=1),
    _VB,
    alias=[("points", "atcoords")],
)
_T("becke.BeckeWeights.compute_weights", "select_int", _BK, "bw.compute_weights(points, atcoords, atnums, select=0)", ["bw", "points", "atcoords", "atnums"], dict(K=1), _VB, alias=[("points", "atcoords")])
_T(
    "becke.BeckeWeights.compute_weights",
    "sectors",
    _BK + "select = [0, 1, 2]\npt_ind = np.array([0, @K@, 2 * @K@, 3 * @K@])\n",
    "bw.compute_weights(points, atcoords, atnums, select=select, pt_ind=pt_ind)",
    ["bw", "points", "atcoords", "atnums", "select", "pt_ind"],
    _PB,
    _VB,
)
_T("becke.BeckeWeights.compute_atom_weight", "", _BK, "bw.compute_atom_weight(points, atcoords, atnums, 2)", ["bw", "points", "atcoords", "atnums"], dict(K=1), _VB, alias=[("points", "atcoords")])
_T(
    "becke.BeckeWeights.__call__",
    "",
    _BK + "indices = np.array([0, @K@, 2 * @K@, 3 * @K@])\n",
    "bw(points, atcoords, atnums, indices)",
    ["bw", "points", "atcoords", "atnums", "indices"],
    dict(K=1),
    _VB,
    alias=[("points", "atcoords")],
)
_T(
    "becke.BeckeWeights.__call__",
    "radii_float_atnums",
    _BK + "bw = BeckeWeights({1: 0.6, 6: 1.4}, order=2)\nindices = np.array([0, @K@, 2 * @K@, 3 * @K@])\n",
    "bw(points, atcoords, atnums, indices)",
    ["bw", "points", "atcoords", "atnums", "indices"],
    _PB,
    _VB,
)


# ---- cubic ---------------------------------------------------------------------------------------
_TG = _RS + "ox = GaussLegendre(@NX@); oy = GaussChebyshev(@NY@); oz = Trapezoidal(@NZ@)\n"
_PC = dict(NX=6, NY=6, NZ=7)
_VC = dict(NX=[5, 6, 8], NY=[5, 6, 7], NZ=[5, 7, 9])
_TGG = _TG + "tg = Tensor1DGrids(ox, oy, oz)\nvals = np.exp(-np.sum(tg.points ** 2, axis=1)) + 0.5\ntp = rs.uniform(-0.4, 0.4, (3, 3))\n"
_T("cubic.Tensor1DGrids.__init__", "3d", _TG, "Tensor1DGrids(ox, oy, oz)", ["ox", "oy", "oz"], _PC, _VC, alias=[("oy", "ox"), ("oz", "ox")])
_T("cubic.Tensor1DGrids.__init__", "2d", _TG, "Tensor1DGrids(ox, oy)", ["ox", "oy"], _PC, _VC, alias=[("oy", "ox")])
_T("cubic.Tensor1DGrids.origin", "", _TGG, "tg.origin", ["tg"], _PC, _VC)
_T("cubic.Tensor1DGrids.save", "", _TGG + "buf = io.BytesIO()\n", "tg.save(buf)", ["tg"], _PC, _VC)
_T(
    "cubic._HyperRectangleGrid.__init__",
    "tuple_shape",
    _RS + "shape = (3, 2, 4)\npts = rs.uniform(-1, 1, (24, 3)); wts = rs.uniform(0, 1, 24)\n",
    "_HyperRectangleGrid(pts, wts, shape)",
    ["pts", "wts", "shape"],
    _PC,
    _VC,
)
_T(
    "cubic._HyperRectangleGrid.__init__",
    "array_shape",
    _RS + "shape = np.array([3, 4])\npts = rs.uniform(-1, 1, (12, 2)); wts = rs.uniform(0, 1, 12)\n",
    "_HyperRectangleGrid(pts, wts, shape)",
    ["pts", "wts", "shape"],
    _PC,
    _VC,
)
_T(
    "cubic._HyperRectangleGrid.__init__",
    "list_shape",
    _RS + "shape = [3, 4]\npts = rs.uniform(-1, 1, (12, 2)); wts = rs.uniform(0, 1, 12)\n",
    "_HyperRectangleGrid(pts, wts, shape)",
    ["pts", "wts", "shape"],
    _PC,
    _VC,
)
_T("cubic._HyperRectangleGrid.shape", "", _TGG, "tg.shape", ["tg"], _PC, _VC)
_T("cubic._HyperRectangleGrid.get_points_along_axes", "3d", _TGG, "tg.get_points_along_axes()", ["tg"], _PC, _VC)
_T("cubic._HyperRectangleGrid.get_points_along_axes", "2d", _TG + "tg = Tensor1DGrids(ox, oy)\n", "tg.get_points_along_axes()", ["tg"], _PC, _VC)
_T("cubic._HyperRectangleGrid.coordinates_to_index", "tuple", _TGG + "ijk = (1, 2, 3)\n", "tg.coordinates_to_index(ijk)", ["tg", "ijk"], _PC, _VC)
_T("cubic._HyperRectangleGrid.coordinates_to_index", "list", _TGG + "ijk = [1, 2, 3]\n", "tg.coordinates_to_index(ijk)", ["tg", "ijk"], _PC, _VC)
_T("cubic._HyperRectangleGrid.coordinates_to_index", "array", _TGG + "ijk = np.array([1, 2, 3])\n", "tg.coordinates_to_index(ijk)", ["tg", "ijk"], _PC, _VC)
_T("cubic._HyperRectangleGrid.index_to_coordinates", "", _TGG, "tg.index_to_coordinates(17)", ["tg"], _PC, _VC)
for _m in ("linear", "nearest", "cubic"):
    _T("cubic._HyperRectangleGrid.interpolate", _m, _TGG, f"tg.interpolate(tp, vals, method={_m!r})", ["tg", "tp", "vals"], _PC, _VC, alias=[("vals", "tg.weights")])
_T("cubic._HyperRectangleGrid.interpolate", "cubic_deriv", _TGG, "tg.interpolate(tp, vals, nu_x=1, nu_z=2)", ["tg", "tp", "vals"], _PC, _VC)
_T("cubic._HyperRectangleGrid.interpolate", "cubic_log", _TGG, "tg.interpolate(tp, vals, use_log=True)", ["tg", "tp", "vals"], _PC, _VC)
_T("cubic._HyperRectangleGrid.interpolate", "cubic_log_deriv", _TGG, "tg.interpolate(tp[:1], vals, use_log=True, nu_y=1)", ["tg", "tp", "vals"], _PC, _VC)
_T("cubic._HyperRectangleGrid.interpolate", "linear_log", _TGG, "tg.interpolate(tp, vals, use_log=True, method='linear')", ["tg", "tp", "vals"], _PC, _VC)
_T("cubic._HyperRectangleGrid.interpolate", "grid_points", _TGG, "tg.interpolate(tg.points[40:43], vals, method='linear')", ["tg", "vals"], _PC, _VC)

_UG3 = _RS + "origin = np.array([-1.0, -1.2, -0.9])\naxes = np.diag([0.4, 0.5, 0.3])\nshape = np.array([@NX@, @NY@, @NZ@])\n"
_UG3S = _RS + "origin = np.array([-1.0, -1.2, -0.9])\naxes = np.array([[0.4, 0.1, 0.0], [0.0, 0.5, 0.1], [0.05, 0.0, 0.3]])\nshape = np.array([@NX@, @NY@, @NZ@])\n"
_UG2 = _RS + "origin = np.array([-1.0, -1.2])\naxes = np.array([[0.4, 0.1], [0.0, 0.5]])\nshape = np.array([@NX@, @NY@])\n"
for _w in ("Trapezoid", "Rectangle", "Fourier1", "Fourier2", "Alternative"):
    _T("cubic.UniformGrid.__init__", f"3d_{_w}", _UG3S, f"UniformGrid(origin, axes, shape, weight={_w!r})", ["origin", "axes", "shape"], _PC, _VC)
    _T("cubic.UniformGrid.__init__", f"2d_{_w}", _UG2, f"UniformGrid(origin, axes, shape, weight={_w!r})", ["origin", "axes", "shape"], _PC, _VC)
_T("cubic.UniformGrid.__init__", "same_origin_axis", _UG3S, "UniformGrid(origin, axes, shape)", ["origin", "axes", "shape"], _PC, _VC, alias=[("origin", "axes[0]")])
_MOLC = _RS + "atcorenums = np.array([1.0, 8.0, 1.0])\natcoords = np.array([[0.0, 0.7, -0.5], [0.0, 0.0, 0.1], [0.1, -0.7, -0.5]])\n"
_T("cubic.UniformGrid.from_molecule", "rotate", _MOLC, "UniformGrid.from_molecule(atcorenums, atcoords, spacing=0.7, extension=1.0, rotate=True)", ["atcorenums", "atcoords"], _PC, _VC)
_T("cubic.UniformGrid.from_molecule", "no_rotate", _MOLC, "UniformGrid.from_molecule(atcorenums, atcoords, spacing=0.7, extension=1.0, rotate=False, weight='Rectangle')", ["atcorenums", "atcoords"], _PC, _VC)
_T(
    "cubic.UniformGrid.from_molecule",
    "int_atnums_square",
    _RS + "atcorenums = np.array([1, 8, 1])\natcoords = rs.uniform(-1, 1, (3, 3))\n",
    "UniformGrid.from_molecule(atcorenums, atcoords, spacing=0.8, extension=1.0)",
    ["atcorenums", "atcoords"],
    _PC,
    _VC,
)
_UGG = _UG3 + "ug = UniformGrid(origin, axes, shape)\nvals = np.exp(-np.sum(ug.points ** 2, axis=1)) + 0.5\ntp = rs.uniform(-0.3, 0.3, (3, 3))\n"
_T("cubic.UniformGrid.axes", "", _UGG, "ug.axes", ["ug"], _PC, _VC)
_T("cubic.UniformGrid.origin", "", _UGG, "ug.origin", ["ug"], _PC, _VC)
_T("cubic.UniformGrid.closest_point", "closest", _UGG + "p = rs.uniform(-0.5, 0.5, 3)\n", "ug.closest_point(p, 'closest')", ["ug", "p"], _PC, _VC, alias=[("p", "ug.origin")])
_T("cubic.UniformGrid.closest_point", "origin", _UGG + "p = rs.uniform(-0.5, 0.5, 3)\n", "ug.closest_point(p, 'origin')", ["ug", "p"], _PC, _VC, alias=[("p", "ug.points[7]")])
_T("cubic.UniformGrid.closest_point", "list", _UGG + "p = [0.1, 0.2, -0.1]\n", "ug.closest_point(p)", ["ug", "p"], _PC, _VC)
_T("cubic._HyperRectangleGrid.interpolate", "uniform_cubic", _UGG, "ug.interpolate(tp, vals)", ["ug", "tp", "vals"], _PC, _VC, alias=[("vals", "ug.weights")])
_T("cubic._HyperRectangleGrid.interpolate", "uniform_nearest", _UGG, "ug.interpolate(tp, vals, method='nearest')", ["ug", "tp", "vals"], _PC, _VC)
_T("basegrid.Grid.integrate", "uniformgrid", _UGG, "ug.integrate(vals)", ["ug", "vals"], _PC, _VC, alias=[("vals", "ug.weights")])
_T("basegrid.Grid.get_localgrid", "uniformgrid", _UGG + "c = np.array([0.0, 0.1, -0.1])\n", "ug.get_localgrid(c, 0.6)", ["ug", "c"], _PC, _VC, alias=[("c", "ug.origin")])
_T("basegrid.Grid.moments", "uniformgrid", _UGG + "centers = rs.uniform(-0.5, 0.5, (2, 3))\n", "ug.moments(1, centers, vals, type_mom='radial')", ["ug", "centers", "vals"], _PC, _VC, alias=[("centers", "ug.points[:2]")])
_T("basegrid.Grid.__getitem__", "uniformgrid", _UGG, "ug[3:9]", ["ug"], _PC, _VC)
_T("cubic.UniformGrid.save", "", _UGG + "buf = io.BytesIO()\n", "ug.save(buf)", ["ug"], _PC, _VC)
_T(
    "cubic.UniformGrid.generate_cube",
    "",
    _UGG + "atnums = np.array([1, 8])\natcoords = rs.uniform(-1, 1, (2, 3))\npseudo = np.array([1.0, 6.0])\nfname = os.path.join(r'@SCRATCH@', 'c20_test.cube')\n",
    "ug.generate_cube(fname, vals, atcoords, atnums, pseudo)",
    ["ug", "vals", "atcoords", "atnums", "pseudo"],
    _PC,
    _VC,
    follow=[("cubic.UniformGrid.from_cube", "UniformGrid.from_cube(fname, return_data=True)")],
    needs_scratch=True,
)


# ---- periodicgrid --------------------------------------------------------------------------------
_PN = dict(N=12)
_VP = dict(N=[3, 8, 12, 20])
_P1 = _RS + "pts = rs.uniform(-1.0, 3.0, @N@); wts = rs.uniform(0.1, 1, @N@)\nrv = np.array([2.0])\n"
_P2 = _RS + "pts = rs.uniform(-1.0, 3.0, (@N@, 2)); wts = rs.uniform(0.1, 1, @N@)\nrv = np.array([[2.0, 0.3], [0.1, 1.5]])\n"
_P3 = _RS + "pts = rs.uniform(-1.0, 3.0, (@N@, 3)); wts = rs.uniform(0.1, 1, @N@)\nrv = np.array([[2.0, 0.3, 0.0], [0.1, 1.5, 0.2], [0.0, 0.2, 1.8]])\n"
for _d, _src in (("1d", _P1), ("2d", _P2), ("3d", _P3)):
    for _wrap in (False, True):
        _T(
            "periodicgrid.PeriodicGrid.__init__",
            f"{_d}_wrap{_wrap}",
            _src,
            f"PeriodicGrid(pts, wts, rv, wrap={_wrap})",
            ["pts", "wts", "rv"],
            _PN,
            _VP,
            alias=([("wts", "pts")] if _d == "1d" else []),
        )
_T("periodicgrid.PeriodicGrid.__init__", "3d_square", _P3, "PeriodicGrid(pts, wts, rv, wrap=True)", ["pts", "wts", "rv"], dict(N=3), dict(N=[3]), alias=[("pts", "rv")])
_T("periodicgrid.PeriodicGrid.__init__", "3d_slab", _P3 + "rv = rv[:2].copy()\n", "PeriodicGrid(pts, wts, rv, wrap=True)", ["pts", "wts", "rv"], _PN, _VP)
_T("periodicgrid.PeriodicGrid.__init__", "no_realvecs", _P3, "PeriodicGrid(pts, wts)", ["pts", "wts"], _PN, _VP)
_T("periodicgrid.PeriodicGrid.__init__", "realvecs_view", _P3 + "big = np.zeros((3, 6)); big[:, ::2] = rv\nrv = big[:, ::2]\n", "PeriodicGrid(pts, wts, rv, wrap=True)", ["pts", "wts", "rv"], _PN, _VP)
for _d, _src, _c in (("1d", _P1, "c = 0.4\n"), ("2d", _P2, "c = np.array([0.4, 0.1])\n"), ("3d", _P3, "c = np.array([0.4, 0.1, -0.3])\n")):
    for _wrap in (False, True):
        _T(
            "periodicgrid.PeriodicGrid.get_localgrid",
            f"{_d}_wrap{_wrap}",
            _src + f"pg = PeriodicGrid(pts, wts, rv, wrap={_wrap})\n" + _c,
            "pg.get_localgrid(c, 1.3)",
            ["pg"] + (["c"] if _d != "1d" else []),
            _PN,
            _VP,
            alias=([("c", "pg.points[0]"), ("c", "rv[0]")] if _d != "1d" else []),
        )
_T("periodicgrid.PeriodicGrid.get_localgrid", "1d_0darray", _P1 + "pg = PeriodicGrid(pts, wts, rv, wrap=True)\nc = np.array(0.4)\n", "pg.get_localgrid(c, 1.3)", ["pg", "c"], _PN, _VP)
_T("periodicgrid.PeriodicGrid.get_localgrid", "3d_listcenter", _P3 + "pg = PeriodicGrid(pts, wts, rv, wrap=True)\nc = [0.4, 0.1, -0.3]\n", "pg.get_localgrid(c, 2.5)", ["pg", "c"], _PN, _VP)
_T("periodicgrid.PeriodicGrid.get_localgrid", "3d_twice", _P3 + "pg = PeriodicGrid(pts, wts, rv, wrap=True)\nc = np.array([0.4, 0.1, -0.3])\n_ = pg.get_localgrid(c, 0.9)\n", "pg.get_localgrid(c, 2.5)", ["pg", "c"], _PN, _VP)
_T("periodicgrid.PeriodicGrid.__getitem__", "int", _P3 + "pg = PeriodicGrid(pts, wts, rv, wrap=True)\n", "pg[1]", ["pg"], _PN, _VP)
_T("periodicgrid.PeriodicGrid.__getitem__", "slice", _P3 + "pg = PeriodicGrid(pts, wts, rv, wrap=True)\n", "pg[0:2]", ["pg"], _PN, _VP)
_T("periodicgrid.PeriodicGrid.__getitem__", "array", _P2 + "pg = PeriodicGrid(pts, wts, rv)\nidx = np.array([2, 0])\n", "pg[idx]", ["pg", "idx"], _PN, _VP)
for _prop in ("realvecs", "recivecs", "frac_intvls", "spacings"):
    _T(f"periodicgrid.PeriodicGrid.{_prop}", "", _P3 + "pg = PeriodicGrid(pts, wts, rv, wrap=True)\n", f"pg.{_prop}", ["pg"], _PN, _VP)
_T("basegrid.Grid.integrate", "periodicgrid", _P3 + "pg = PeriodicGrid(pts, wts, rv, wrap=True)\nfv = rs.normal(size=@N@)\n", "pg.integrate(fv)", ["pg", "fv"], _PN, _VP, alias=[("fv", "pg.weights")])


# ---- ode -----------------------------------------------------------------------------------------
_PO = dict(N=12)
_VO = dict(N=[8, 12, 20, 30])
_OX = _RS + "x = np.linspace(0.0, 1.0, @N@)\ntp = np.array([0.1, 0.35, 0.5, 0.9])\n"
_OXR = _RS + "x = np.linspace(0.0, 4.0, @N@)\ntp = np.array([0.3, 1.0, 2.2, 3.0])\n"
_FX = "def fx(x):\n    return np.sin(x) - x\n"
_A012 = "def a0(x):\n    return -(1.0 + x ** 2)\ndef a1(x):\n    return 0.5 * x\ndef a2(x):\n    return 1.0 + 0.0 * x\n"
_CB_FX = dict(callbacks=["fx"], cbarg={"fx": ("lambda x: x", "lambda x: x + 0.0")}, cbcache={"fx": 1.5})
_CB_ALL = dict(
    callbacks=["fx", "a0", "a1", "a2"],
    cbarg={"fx": ("lambda x: x", "lambda x: x + 0.0"), "a0": ("lambda x: x", "lambda x: x + 0.0"), "a1": ("lambda x: x", "lambda x: x + 0.0")},
    cbcache={"fx": 1.5, "a0": -1.0, "a1": 0.3, "a2": 1.25},
)
_SOL = "ode.solve_ode_bvp.PPoly"
_SOLT = "ode._transform_solution_to_original_domain.interpolate_wrt_original_var"
_T(
    "ode.solve_ode_bvp",
    "coeff_numbers",
    _OX + _FX + "coeffs = [-1.0, 0.0, 1.0]\nbd = [[0, 0, 0.0], [1, 0, 1.0]]\n",
    "solve_ode_bvp(x, fx, coeffs, bd)",
    ["x", "coeffs", "bd", "tp"],
    _PO,
    _VO,
    follow=[(_SOL, "result(tp)")],
    **_CB_FX,
)
_T(
    "ode.solve_ode_bvp",
    "coeff_callables",
    _OX + _FX + _A012 + "bd = [(0, 0, 0.0), (1, 0, 1.0)]\nguess = np.zeros((2, @N@))\n",
    "solve_ode_bvp(x, fx, coeffs, bd, initial_guess_y=guess)",
    ["x", "coeffs", "bd", "guess", "tp"],
    _PO,
    _VO,
    bind="coeffs = [a0, a1, a2]\n",
    follow=[(_SOL, "result(tp)")],
    **_CB_ALL,
)
_T(
    "ode.solve_ode_bvp",
    "coeff_ndarray",
    _OX + _FX + "coeffs = np.array([-1.0, 0.2, 1.0])\nbd = [(0, 0, 0.0), (1, 1, 1.0)]\nguess = np.zeros((2, @N@))\n",
    "solve_ode_bvp(x, fx, coeffs, bd, tol=1e-5, max_nodes=2000, initial_guess_y=guess)",
    ["x", "coeffs", "bd", "guess", "tp"],
    _PO,
    _VO,
    follow=[(_SOL, "result(tp)")],
    **_CB_FX,
)
_T(
    "ode.solve_ode_bvp",
    "order1",
    _OX + _FX + "coeffs = [1.0, 1.0]\nbd = [(0, 0, 0.5)]\nguess = np.zeros((1, @N@))\n",
    "solve_ode_bvp(x, fx, coeffs, bd, initial_guess_y=guess)",
    ["x", "coeffs", "bd", "guess", "tp"],
    _PO,
    _VO,
    follow=[(_SOL, "result(tp)")],
    **_CB_FX,
)
_T(
    "ode.solve_ode_bvp",
    "order3",
    _OX + _FX + "coeffs = [1.0, -1.0, 0.5, 1.0]\nbd = [(0, 0, 0.0), (1, 0, 1.0), (0, 1, 0.5)]\nguess = np.zeros((3, @N@))\n",
    "solve_ode_bvp(x, fx, coeffs, bd, initial_guess_y=guess)",
    ["x", "coeffs", "bd", "guess", "tp"],
    _PO,
    _VO,
    follow=[(_SOL, "result(tp)")],
    **_CB_FX,
)
_T(
    "ode.solve_ode_bvp",
    "order4",
    _OX + _FX + "coeffs = [1.0, 0.0, -1.0, 0.0, 1.0]\nbd = [(0, 0, 0.0), (1, 0, 1.0), (0, 1, 0.5), (1, 1, 0.0)]\nguess = np.zeros((4, @N@))\n",
    "solve_ode_bvp(x, fx, coeffs, bd, initial_guess_y=guess)",
    ["x", "coeffs", "bd", "guess", "tp"],
    _PO,
    _VO,
    follow=[(_SOL, "result(tp)")],
    **_CB_FX,
)
_T(
    "ode.solve_ode_bvp",
    "transform_becke",
    _OXR + _FX + "tf = InverseRTransform(BeckeRTransform(0.0, 1.0))\ncoeffs = [-1.0, 0.0, 1.0]\nbd = [[0, 0, 0.0], [1, 0, 4.0]]\nguess = np.zeros((2, @N@))\n",
    "solve_ode_bvp(x, fx, coeffs, bd, transform=tf, initial_guess_y=guess)",
    ["x", "coeffs", "bd", "tf", "guess", "tp"],
    _PO,
    _VO,
    follow=[(_SOLT, "result(tp)")],
    **_CB_FX,
)
_T(
    "ode.solve_ode_bvp",
    "transform_callables_derivs",
    _OXR + _FX + _A012 + "tf = InverseRTransform(BeckeRTransform(0.0, 1.0))\nbd = [[0, 0, 0.0], [1, 0, 4.0]]\nguess = np.zeros((2, @N@))\n",
    "solve_ode_bvp(x, fx, coeffs, bd, transform=tf, initial_guess_y=guess, no_derivatives=False)",
    ["x", "coeffs", "bd", "tf", "guess", "tp"],
    _PO,
    _VO,
    bind="coeffs = [a0, a1, a2]\n",
    follow=[(_SOLT, "result(tp)")],
    **_CB_ALL,
)
_T(
    "ode.solve_ode_bvp",
    "transform_order3",
    _OXR + _FX + "tf = InverseRTransform(BeckeRTransform(0.0, 1.0))\ncoeffs = np.array([1.0, -1.0, 0.5, 1.0])\nbd = [(0, 0, 0.0), (1, 0, 1.0), (0, 1, 0.5)]\nguess = np.zeros((3, @N@))\n",
    "solve_ode_bvp(x, fx, coeffs, bd, transform=tf, initial_guess_y=guess)",
    ["x", "coeffs", "bd", "tf", "guess", "tp"],
    _PO,
    _VO,
    follow=[(_SOLT, "result(tp)")],
    **_CB_FX,
)
_T(
    "ode.solve_ode_bvp",
    "transform_identity",
    _OXR + _FX + "tf = IdentityRTransform()\ncoeffs = [-1.0, 0.0, 1.0]\nbd = [[0, 0, 0.0], [1, 0, 4.0]]\nguess = np.zeros((2, @N@))\n",
    "solve_ode_bvp(x, fx, coeffs, bd, transform=tf, initial_guess_y=guess)",
    ["x", "coeffs", "bd", "tf", "guess", "tp"],
    _PO,
    _VO,
    follow=[(_SOLT, "result(tp)")],
    **_CB_FX,
)
_T(
    "ode.solve_ode_bvp",
    "transform_user_callbacks",
    _USER_TF + _FX + "x = np.linspace(0.0, 4.0, @N@)\ntp = np.array([0.3, 1.0, 2.2, 3.0])\ncoeffs = [-1.0, 0.0, 1.0]\nbd = [[0, 0, 0.0], [1, 0, 4.0]]\nguess = np.zeros((2, @N@))\n",
    "solve_ode_bvp(x, fx, coeffs, bd, transform=tf, initial_guess_y=guess)",
    ["x", "coeffs", "bd", "tf", "guess", "tp"],
    _PO,
    _VO,
    follow=[(_SOLT, "result(tp)")],
    callbacks=["fx", "u_transform", "u_inverse", "u_deriv", "u_zero"],
    cbarg={"fx": ("lambda x: x", "lambda x: x + 0.0"), "u_inverse": ("lambda r: r", "lambda r: r + 0.0"), "u_transform": ("lambda x: x", "lambda x: x + 0.0")},
    cbcache={"fx": 1.5, "u_deriv": 2.0, "u_zero": 0.0},
)
_T(
    "ode.solve_ode_bvp",
    "random_guess",
    _OX + _FX + "coeffs = [-1.0, 0.0, 1.0]\nbd = [[0, 0, 0.0], [1, 0, 1.0]]\n",
    "solve_ode_bvp(x, fx, coeffs, bd, tol=1e-3)",
    ["x", "coeffs", "bd", "tp"],
    _PO,
    _VO,
    follow=[(_SOL, "result(tp)")],
    **_CB_FX,
)
_T(
    "ode.solve_ode_bvp",
    "wrong_bd_count",
    _OX + _FX + "coeffs = [-1.0, 0.0, 1.0]\nbd = [[0, 0, 0.0]]\n",
    "solve_ode_bvp(x, fx, coeffs, bd)",
    ["x", "coeffs", "bd"],
    _PO,
    _VO,
    **_CB_FX,
)
_SOLI = "ode.solve_ode_ivp.OdeSolution"
_T(
    "ode.solve_ode_ivp",
    "coeff_numbers",
    _RS + _FX + "tp = np.array([0.1, 0.5, 1.2, 1.9])\nspan = (0.0, 2.0)\ncoeffs = [1.0, 0.2, 1.0]\ny0 = [0.0, 1.0]\n",
    "solve_ode_ivp(span, fx, coeffs, y0)",
    ["span", "coeffs", "y0", "tp"],
    _PO,
    _VO,
    follow=[(_SOLI, "result(tp)")],
    **_CB_FX,
)
_T(
    "ode.solve_ode_ivp",
    "coeff_callables_rk45",
    _RS + _FX + _A012 + "tp = np.array([0.1, 0.5, 1.2, 1.9])\nspan = [0.0, 2.0]\ny0 = np.array([0.0, 1.0])\n",
    "solve_ode_ivp(span, fx, coeffs, y0, method='RK45', rtol=1e-6, atol=1e-8)",
    ["span", "coeffs", "y0", "tp"],
    _PO,
    _VO,
    bind="coeffs = [a0, a1, a2]\n",
    follow=[(_SOLI, "result(tp)")],
    **_CB_ALL,
)
_T(
    "ode.solve_ode_ivp",
    "coeff_ndarray_order3",
    _RS + _FX + "tp = np.array([0.1, 0.5, 1.2, 1.9])\nspan = np.array([0.0, 2.0])\ncoeffs = np.array([1.0, 0.2, 1.0, 1.0])\ny0 = np.array([0.0, 1.0, 0.5])\n",
    "solve_ode_ivp(span, fx, coeffs, y0)",
    ["span", "coeffs", "y0", "tp"],
    _PO,
    _VO,
    follow=[(_SOLI, "result(tp)")],
    **_CB_FX,
)
_T(
    "ode.solve_ode_ivp",
    "radau",
    _RS + _FX + "tp = np.array([0.1, 0.5, 1.2, 1.9])\nspan = (0.0, 2.0)\ncoeffs = [1.0, 0.2, 1.0]\ny0 = [0.0, 1.0]\n",
    "solve_ode_ivp(span, fx, coeffs, y0, method='Radau')",
    ["span", "coeffs", "y0", "tp"],
    _PO,
    _VO,
    follow=[(_SOLI, "result(tp)")],
    **_CB_FX,
)
_T(
    "ode.solve_ode_ivp",
    "transform",
    _RS + _FX + "tp = np.array([0.6, 1.0, 2.2, 2.9])\nspan = (0.5, 3.0)\ncoeffs = [1.0, 0.2, 1.0]\ny0 = [0.0, 1.0]\ntf = InverseRTransform(BeckeRTransform(0.0, 1.0))\n",
    "solve_ode_ivp(span, fx, coeffs, y0, tf)",
    ["span", "coeffs", "y0", "tf", "tp"],
    _PO,
    _VO,
    follow=[(_SOLT, "result(tp)")],
    **_CB_FX,
)
_T(
    "ode.solve_ode_ivp",
    "transform_callables_no_derivs_order3",
    _RS + _FX + _A012 + "tp = np.array([0.6, 1.0, 2.2, 2.9])\nspan = [0.5, 3.0]\ny0 = np.array([0.0, 1.0, 0.5])\ntf = InverseRTransform(BeckeRTransform(0.0, 1.0))\n",
    "solve_ode_ivp(span, fx, coeffs, y0, transform=tf, no_derivatives=True)",
    ["span", "coeffs", "y0", "tf", "tp"],
    _PO,
    _VO,
    bind="coeffs = [a0, a1, 0.5, a2]\n",
    follow=[(_SOLT, "result(tp)")],
    **_CB_ALL,
)


# ---- poisson -------------------------------------------------------------------------------------
# Sizes / options are chosen so that every solve converges in well under a second: with an angular
# dependent density the default BVP (origin included, tol 1e-6) needs minutes on such tiny grids.
_PP = dict(N=10, DEG=3)
_VPP = dict(N=[8, 12, 16], DEG=[3, 5])
_PGRID = "btf = BeckeRTransform(1e-4, 1.5)\nrg = btf.transform_1d_grid(GaussLegendre(@N@))\ntf = InverseRTransform(btf)\n"
_PAG = (
    _RS
    + _PGRID
    + "ag = AtomGrid(rg, degrees=[@DEG@])\nfv = np.exp(-np.linalg.norm(ag.points, axis=1) ** 2) * (1 + 0.2 * ag.points[:, 2])\n"
    + "tp = rs.uniform(-1.2, 1.2, (4, 3))\n"
)
_PAGS = (
    _RS
    + _PGRID
    + "ag = AtomGrid(rg, degrees=[@DEG@])\nfv = np.exp(-np.linalg.norm(ag.points, axis=1) ** 2)\n"
    + "tp = rs.uniform(-1.2, 1.2, (4, 3))\n"
)
_PMG = (
    _RS
    + _PGRID
    + "atnums = np.array([1, 1])\natcoords = np.array([[0.0, 0.0, -0.7], [0.0, 0.0, 0.7]])\n"
    + "mg = MolGrid.from_size(atnums, atcoords, 6, rgrid=rg, store=True, rotate=0)\n"
    + "fv = np.exp(-np.linalg.norm(mg.points - atcoords[0], axis=1) ** 2) + np.exp(-np.linalg.norm(mg.points - atcoords[1], axis=1) ** 2)\n"
    + "tp = rs.uniform(-1.2, 1.2, (4, 3))\n"
)
_PBV = "poisson._interpolate_molgrid_helper.sum_of_interpolation_functions"
_FAST = "include_origin=False, remove_large_pts=10.0"
_T("poisson.solve_poisson_bvp", "atomgrid", _PAG, f"solve_poisson_bvp(ag, fv, tf, {_FAST})", ["ag", "fv", "tf", "tp"], _PP, _VPP, follow=[(_PBV, "result(tp)")], alias=[("fv", "ag.weights")])
_T(
    "poisson.solve_poisson_bvp",
    "atomgrid_ode_params",
    _PAG + "ode_params = {'tol': 1e-4}\n",
    f"solve_poisson_bvp(ag, fv, tf, {_FAST}, ode_params=ode_params)",
    ["ag", "fv", "tf", "ode_params", "tp"],
    _PP,
    _VPP,
    follow=[(_PBV, "result(tp)")],
)
_T(
    "poisson.solve_poisson_bvp",
    "atomgrid_full_ode_params",
    _PAG + "ode_params = {'tol': 1e-4, 'max_nodes': 20000, 'no_derivatives': True}\n",
    "solve_poisson_bvp(ag, fv, tf, boundary=0.5, include_origin=False, remove_large_pts=10.0, ode_params=ode_params)",
    ["ag", "fv", "tf", "ode_params", "tp"],
    _PP,
    _VPP,
    follow=[(_PBV, "result(tp)")],
)
_T("poisson.solve_poisson_bvp", "atomgrid_defaults", _PAGS, "solve_poisson_bvp(ag, fv, tf)", ["ag", "fv", "tf", "tp"], _PP, _VPP, follow=[(_PBV, "result(tp)")], alias=[("fv", "ag.weights")])
_T(
    "poisson.solve_poisson_bvp",
    "atomgrid_origin_ode_params",
    _PAGS + "ode_params = {'max_nodes': 4000}\n",
    "solve_poisson_bvp(ag, fv, tf, None, True, 10.0, ode_params)",
    ["ag", "fv", "tf", "ode_params", "tp"],
    _PP,
    _VPP,
    follow=[(_PBV, "result(tp)")],
)
_T("poisson.solve_poisson_bvp", "molgrid", _PMG, f"solve_poisson_bvp(mg, fv, tf, {_FAST})", ["mg", "fv", "tf", "tp"], _PP, _VPP, follow=[(_PBV, "result(tp)")], alias=[("fv", "mg.weights")])
_T(
    "poisson.solve_poisson_bvp",
    "molgrid_ode_params",
    _PMG + "ode_params = {'max_nodes': 30000}\n",
    f"solve_poisson_bvp(mg, fv, tf, {_FAST}, ode_params=ode_params)",
    ["mg", "fv", "tf", "ode_params", "tp"],
    _PP,
    _VPP,
    follow=[(_PBV, "result(tp)")],
)
_T("poisson.solve_poisson_bvp", "molgrid_not_stored", _PMG + "mg = MolGrid.from_size(atnums, atcoords, 6, rgrid=rg, store=False, rotate=0)\n", f"solve_poisson_bvp(mg, fv, tf, {_FAST})", ["mg", "fv", "tf"], _PP, _VPP)
_RK = "'method': 'RK45', 'rtol': 1e-5, 'atol': 1e-5"
_T("poisson.solve_poisson_ivp", "atomgrid", _PAG + "interval = (50.0, 1e-2)\n", "solve_poisson_ivp(ag, fv, tf, r_interval=interval)", ["ag", "fv", "tf", "interval", "tp"], _PP, _VPP, follow=[(_PBV, "result(tp)")], alias=[("fv", "ag.weights")])
_T(
    "poisson.solve_poisson_ivp",
    "atomgrid_ode_params",
    _PAG + "interval = [50.0, 1e-2]\node_params = {'method': 'RK45'}\n",
    "solve_poisson_ivp(ag, fv, tf, r_interval=interval, ode_params=ode_params)",
    ["ag", "fv", "tf", "interval", "ode_params", "tp"],
    _PP,
    _VPP,
    follow=[(_PBV, "result(tp)")],
)
_T(
    "poisson.solve_poisson_ivp",
    "molgrid_ode_params",
    _PMG + "ode_params = {" + _RK + "}\n",
    "solve_poisson_ivp(mg, fv, tf, r_interval=(50.0, 1e-2), ode_params=ode_params)",
    ["mg", "fv", "tf", "ode_params", "tp"],
    _PP,
    _VPP,
    follow=[(_PBV, "result(tp)")],
    alias=[("fv", "mg.weights")],
)
_T("poisson.solve_poisson_ivp", "bad_interval", _PAG + "interval = (1e-2, 50.0)\node_params = {'method': 'RK45'}\n", "solve_poisson_ivp(ag, fv, tf, interval, ode_params)", ["ag", "fv", "tf", "interval", "ode_params"], _PP, _VPP)
_LAP = "poisson.interpolate_laplacian.sum_of_interpolation_funcs"
_T("poisson.interpolate_laplacian", "atomgrid", _PAG, "interpolate_laplacian(ag, fv)", ["ag", "fv", "tp"], _PP, _VPP, follow=[(_LAP, "result(tp)"), (_LAP, "result(tp, 0.5)")], alias=[("fv", "ag.weights")])
_T(
    "poisson.interpolate_laplacian",
    "molgrid_near_nucleus",
    _PMG + "tp[0] = atcoords[0]\n",
    "interpolate_laplacian(mg, fv)",
    ["mg", "fv", "tp"],
    _PP,
    _VPP,
    follow=[(_LAP, "result(tp)"), (_LAP, "result(mg.atcoords, 1e-3)")],
    alias=[("fv", "mg.weights"), ("tp", "mg.points[:4]")],
)


# ---- robust_poisson ------------------------------------------------------------------------------
_ROB = "robust_poisson.solve_poisson_robust.total_potential"
_PRA = _PAG + "atnums = np.array([1])\natcoords = np.array([[0.0, 0.0, 0.0]])\n"
_T("robust_poisson.solve_poisson_robust", "atomgrid", _PRA, f"solve_poisson_robust(ag, fv, tf, atnums, atcoords, {_FAST})", ["ag", "fv", "tf", "atnums", "atcoords", "tp"], _PP, _VPP, follow=[(_ROB, "result(tp)")], alias=[("fv", "ag.weights"), ("atcoords", "tp[:1]")])
_T(
    "robust_poisson.solve_poisson_robust",
    "molgrid",
    _PMG,
    f"solve_poisson_robust(mg, fv, tf, atnums, atcoords, {_FAST})",
    ["mg", "fv", "tf", "atnums", "atcoords", "tp"],
    _PP,
    _VPP,
    follow=[(_ROB, "result(tp)")],
    alias=[("atcoords", "mg.atcoords"), ("fv", "mg.weights")],
)
_T(
    "robust_poisson.solve_poisson_robust",
    "molgrid_split2",
    _PMG,
    f"solve_poisson_robust(mg, fv, tf, atnums, atcoords, split2=True, {_FAST})",
    ["mg", "fv", "tf", "atnums", "atcoords", "tp"],
    _PP,
    _VPP,
    follow=[(_ROB, "result(tp)")],
    alias=[("atcoords", "mg.atcoords")],
)
_T(
    "robust_poisson.solve_poisson_robust",
    "split2_alphas_ode_params",
    _PMG + "alphas = np.geomspace(0.1, 50.0, 6)\node_params = {'tol': 1e-4}\n",
    f"solve_poisson_robust(mg, fv, tf, atnums, atcoords, split2=True, alphas_basis=alphas, {_FAST}, ode_params=ode_params)",
    ["mg", "fv", "tf", "atnums", "atcoords", "alphas", "ode_params", "tp"],
    _PP,
    _VPP,
    follow=[(_ROB, "result(tp)")],
)
_T(
    "robust_poisson.solve_poisson_robust",
    "split2_alphas_list",
    _PRA + "alphas = [0.2, 1.0, 5.0, 25.0]\natcoords_l = [[0.0, 0.0, 0.0]]\natnums_l = [1]\n",
    f"solve_poisson_robust(ag, fv, tf, atnums_l, atcoords_l, True, alphas, {_FAST})",
    ["ag", "fv", "tf", "atnums_l", "atcoords_l", "alphas", "tp"],
    _PP,
    _VPP,
    follow=[(_ROB, "result(tp)")],
)
_T(
    "robust_poisson.solve_poisson_robust",
    "int_density_ode_params",
    _PRA + "dens = np.arange(ag.size) % 3\node_params = {'max_nodes': 3000, 'tol': 1e-3}\n",
    f"solve_poisson_robust(ag, dens, tf, atnums, atcoords, {_FAST}, ode_params=ode_params)",
    ["ag", "dens", "tf", "atnums", "atcoords", "ode_params", "tp"],
    _PP,
    _VPP,
    follow=[(_ROB, "result(tp)")],
)
_T("robust_poisson.solve_poisson_robust", "bad_alphas", _PRA + "alphas = np.array([1.0, -2.0])\n", "solve_poisson_robust(ag, fv, tf, atnums, atcoords, True, alphas)", ["ag", "fv", "tf", "atnums", "atcoords", "alphas"], _PP, _VPP)


# --------------------------------------------------------------------------------------------------
# self-check of the static names and command line entry point
# --------------------------------------------------------------------------------------------------
def check_func_names(cases):
    """Every ``func`` must resolve to an attribute DEFINED by the named class / module."""
    import importlib

    bad = []
    for c in cases:
        parts = c.func.split(".")
        try:
            mod = importlib.import_module("grid." + parts[0])
            if len(parts) == 2:
                ok = parts[1] in vars(mod)
            else:
                cls = getattr(mod, parts[1])
                ok = parts[2] in vars(cls)
        except Exception:
            ok = False
        if not ok:
            bad.append((c.cid, c.func))
    return bad


def format_observation(o):
    txt = f"OBS mode={o['mode']:<9} kind={o['kind']:<24} cid={o['cid']} what={o['what']} site={o['site']}"
    if o.get("variant"):
        txt += f" variant={o['variant']}"
    txt += f" | {o['detail']}"
    if o.get("before") is not None:
        txt += f" | before={o['before']} after={o['after']}"
    return txt


def main(argv=None):
    import argparse
    import collections

    ap = argparse.ArgumentParser(description=__doc__.splitlines()[0])
    ap.add_argument("--thorough", action="store_true")
    ap.add_argument("--seed", type=int, default=0)
    ap.add_argument("--only", default=None, help="substring filter on the case id")
    ap.add_argument("--list", action="store_true", help="only list the cases")
    ap.add_argument("--repro", default=None, help="print the repro snippet of the case with this id")
    ap.add_argument("--width", type=int, default=400, help="truncate observation lines")
    args = ap.parse_args(argv)

    cases = make_cases(random.Random(args.seed), quick=not args.thorough)
    bad = check_func_names(cases)
    for cid, func in bad:
        print(f"BAD-FUNC-NAME {cid}: {func}")
    if args.only:
        cases = [c for c in cases if args.only in c.cid]
    if args.repro:
        for c in cases:
            if c.cid == args.repro:
                print(c.repro)
        return 0
    print(f"grid package: {_GRID_DIR}")
    print(f"{len(cases)} cases, {len(set(c.func for c in cases))} distinct entry points, tier={'thorough' if args.thorough else 'quick'}, seed={args.seed}")
    if args.list:
        for c in cases:
            print(f"{c.cid}\t{c.func}\talso={c.also}\talias={c.alias_pairs}\tcallbacks={c.callback_names}")
        return 0

    t_all = time.time()
    counts = collections.Counter()
    kinds = collections.Counter()
    sites = collections.Counter()
    timing = []
    all_obs = []
    for c in cases:
        t0 = time.time()
        status = []
        for mode in MODES:
            r = run_case(c, mode)
            state = "skipped" if r["skipped"] else ("ok" if r["ok"] else "obs")
            counts[(mode, state)] += 1
            status.append(f"{mode}={state}")
            if r["exception"] and r["exception"].startswith("HARNESS"):
                print(f"HARNESS-ERROR {c.cid} mode={mode}: {r['exception']}")
            for o in r["observations"]:
                all_obs.append(o)
                kinds[o["kind"]] += 1
                sites[(o["kind"], o["site"])] += 1
                print(format_observation(o)[: args.width])
        dt = time.time() - t0
        plain_exc = c._plain.exc_text if c._plain is not None else None
        timing.append((dt, c.cid))
        print(f"CASE {c.cid:<70} {dt:6.2f}s  {' '.join(status)}" + (f"  plain-raises: {plain_exc[:90]}" if plain_exc else ""))
    total = time.time() - t_all
    print()
    print("per-mode counts:")
    for mode in MODES:
        print(f"  {mode:<10} ok={counts[(mode, 'ok')]:<4} obs={counts[(mode, 'obs')]:<4} skipped={counts[(mode, 'skipped')]}")
    print("observations by kind:", dict(kinds))
    print("observations by (kind, site):")
    for (k, s), n in sorted(sites.items(), key=lambda kv: (kv[0][0], str(kv[0][1]))):
        print(f"  {k:<26} {s}  x{n}")
    print("slowest cases:", ", ".join(f"{cid} {dt:.1f}s" for dt, cid in sorted(timing, reverse=True)[:5]))
    print(f"TOTAL {len(cases)} cases x {len(MODES)} modes in {total:.1f}s; {len(all_obs)} observations")
    return 0


# ==================================================================================================
# systematic variations (added after seeded-change gaps): a small covering subset runs in the regular
# suite, the full families (tier="targeted") are used by the targeted search of props/c20.py when the
# static side reports a new rejected function / write site.
# ==================================================================================================
_NC = (
    "def nc(a):\n"
    "    a = np.asarray(a)\n"
    "    b = np.zeros(a.shape[:-1] + (2 * a.shape[-1],), dtype=a.dtype)\n"
    "    b[..., ::2] = a\n"
    "    return b[..., ::2]\n"
)


def _ode_family():
    fx = "def fx(x):\n    return np.cos(x) + 0.5 * x\n"
    # lower-order coefficient patterns, per order K: list of K numbers, then the leading coefficient
    pats = {
        "generic": lambda K: [[-1.0], [-1.0, 0.3], [0.5, -1.0, 0.3]][K - 1],
        "zero_lower": lambda K: [0.0] * K,
        "some_zero": lambda K: [[0.0], [0.0, 0.4], [0.0, -1.0, 0.0]][K - 1],
    }
    leads = {"lead1": 1.0, "lead2": 2.0, "leadneg": -0.5}
    bds = {1: "[(0, 0, 0.5)]", 2: "[(0, 0, 0.0), (1, 0, 1.0)]", 3: "[(0, 0, 0.0), (1, 0, 1.0), (0, 1, 0.5)]"}
    y0s = {1: "[0.5]", 2: "[0.0, 1.0]", 3: "[0.0, 1.0, 0.5]"}
    regular = {("zero_lower", "lead2"), ("some_zero", "lead2"), ("zero_lower", "lead1"), ("generic", "leadneg")}
    for K in (1, 2, 3):
        for pn, pf in pats.items():
            for ln, lead in leads.items():
                vals = pf(K) + [lead]
                for form in ("numbers", "ndarray", "callables", "mixed"):
                    if form == "numbers":
                        cdef, bind, cbs = f"coeffs = {vals!r}\n", "", {}
                    elif form == "ndarray":
                        cdef, bind, cbs = f"coeffs = np.array({vals!r})\n", "", {}
                    else:
                        names = []
                        cdef = ""
                        for i, v in enumerate(vals):
                            if form == "mixed" and i % 2 == 1:
                                names.append(repr(v))
                                continue
                            cdef += f"def c{i}(x):\n    return {v!r} + 0.0 * x\n"
                            names.append(f"c{i}")
                        bind = "coeffs = [" + ", ".join(names) + "]\n"
                        cbs = {n: v for n, v in zip(names, vals) if n.startswith("c")}
                    callbacks = ["fx"] + sorted(cbs)
                    cbarg = {"fx": ("lambda x: x", "lambda x: x + 0.0")}
                    cbcache = {"fx": 1.5}
                    for n, v in cbs.items():
                        cbcache[n] = v
                    reg = (pn, ln) in regular and (K == 2 or form == "numbers")
                    for solver in ("bvp", "ivp"):
                        for tfn, tfsrc in (("notf", None), ("identity", "IdentityRTransform()"), ("invbecke", "InverseRTransform(BeckeRTransform(0.0, 1.0))")):
                            if tfsrc is not None and not (form in ("numbers", "callables") and K <= 3):
                                continue
                            tier = "regular" if (reg and tfn == "notf") or (pn == "zero_lower" and ln == "lead2" and form == "numbers" and K == 2 and tfn == "identity") else "targeted"
                            tag = f"var_K{K}_{pn}_{ln}_{form}_{tfn}"
                            tfdef = f"tf = {tfsrc}\n" if tfsrc else ""
                            tfarg = ", transform=tf" if tfsrc else ""
                            args = ["coeffs", "tp"] + (["tf"] if tfsrc else [])
                            if solver == "bvp":
                                lo, hi = ("0.5", "3.0") if tfn == "invbecke" else ("0.0", "1.0")
                                setup = (_RS + fx + f"x = np.linspace({lo}, {hi}, @N@)\ntp = np.linspace({lo}, {hi}, 5)[1:-1]\n" + cdef
                                         + f"bd = {bds[K]}\nguess = np.zeros(({K}, @N@))\n" + tfdef)
                                _T("ode.solve_ode_bvp", tag, setup, f"solve_ode_bvp(x, fx, coeffs, bd{tfarg}, tol=1e-3, max_nodes=3000, initial_guess_y=guess)",
                                   ["x", "bd", "guess"] + args, dict(N=10), dict(N=[8, 10, 14]), bind=bind,
                                   follow=[(_SOLT if tfsrc else _SOL, "result(tp)")], callbacks=callbacks, cbarg=cbarg, cbcache=cbcache, tier=tier)
                            else:
                                lo, hi = ("0.5", "2.0") if tfn == "invbecke" else ("0.0", "1.5")
                                setup = (_RS + fx + f"span = ({lo}, {hi})\ntp = np.linspace({lo}, {hi}, 5)[1:-1]\n" + cdef + f"y0 = {y0s[K]}\n" + tfdef)
                                methods = ["DOP853"] if tier == "regular" or tfsrc else ["DOP853", "RK45", "Radau", "BDF", "LSODA"]
                                for meth in methods:
                                    _T("ode.solve_ode_ivp", tag + ("" if meth == "DOP853" else "_" + meth), setup,
                                       f"solve_ode_ivp(span, fx, coeffs, y0{tfarg}, method='{meth}', rtol=1e-5, atol=1e-7)",
                                       ["span", "y0"] + args, dict(N=10), dict(N=[8, 10, 14]), bind=bind,
                                       follow=[(_SOLT if tfsrc else _SOLI, "result(tp)")], callbacks=callbacks, cbarg=cbarg, cbcache=cbcache, tier=tier)


_ode_family()


def _poisson_family():
    # user option dicts with every subset of the defaulted keys, AtomGrid and MolGrid
    bvp_keys = {"tol": "1e-3", "max_nodes": "3000", "no_derivatives": "True"}
    ivp_keys = {"method": "'RK45'", "rtol": "1e-5", "atol": "1e-7"}
    import itertools as _it

    for r in range(0, 4):
        for sub in _it.combinations(sorted(bvp_keys), r):
            d = "{" + ", ".join(f"'{k}': {bvp_keys[k]}" for k in sub) + "}"
            tier = "regular" if r in (0, 2) and sub in ((), ("max_nodes", "tol")) else "targeted"
            _T("poisson.solve_poisson_bvp", "var_opts_" + ("_".join(sub) or "empty"), _PAGS + f"ode_params = {d}\n",
               "solve_poisson_bvp(ag, fv, tf, include_origin=False, remove_large_pts=10.0, ode_params=ode_params)",
               ["ag", "fv", "tf", "ode_params", "tp"], _PP, _VPP, follow=[(_PBV, "result(tp)")], tier=tier)
        for sub in _it.combinations(sorted(ivp_keys), r):
            d = "{" + ", ".join(f"'{k}': {ivp_keys[k]}" for k in sub) + "}"
            tier = "regular" if sub == () else "targeted"
            _T("poisson.solve_poisson_ivp", "var_opts_" + ("_".join(sub) or "empty"), _PAGS + f"interval = [50.0, 1e-2]\node_params = {d}\n",
               "solve_poisson_ivp(ag, fv, tf, r_interval=interval, ode_params=ode_params)",
               ["ag", "fv", "tf", "interval", "ode_params", "tp"], _PP, _VPP, follow=[(_PBV, "result(tp)")], tier=tier)


_poisson_family()


def _constructor_family():
    kinds = {
        "list": "{v}",
        "tuple": "tuple({v})",
        "int64": "np.array({v}, dtype=np.int64)",
        "int32": "np.array({v}, dtype=np.int32)",
        "float": "np.array({v}, dtype=float)",
        "nc_int64": "nc(np.array({v}, dtype=np.int64))",
        "intp_F": "np.asfortranarray(np.array({v}, dtype=np.intp))",
    }
    # degrees: tabulated, untabulated (even degrees, 33 / 37 / 39 are missing for Lebedev), length one
    degsets = {"tab": "([3, 5, 7, 9, 11, 13] * 4)[:@N@]", "untab": "([4, 33, 37, 39, 6, 12, 2, 8] * 3)[:@N@]", "len1": "[5]", "len1_untab": "[6]"}
    sizesets = {"tab": "([6, 14, 26, 38] * 6)[:@N@]", "untab": "([7, 15, 27, 39, 20, 5] * 4)[:@N@]", "len1": "[14]", "len1_untab": "[15]"}
    methods = ("lebedev", "spherical", "maxdet", "ahrens_beylkin")
    for kn, ksrc in kinds.items():
        for dn, dsrc in degsets.items():
            for meth in methods:
                reg = (dn == "untab" and meth == "lebedev") or (kn == "int64" and dn in ("untab", "len1_untab")) or (kn == "int32" and dn == "tab" and meth == "spherical")
                _T("atomgrid.AtomGrid.__init__", f"var_degrees_{kn}_{dn}_{meth}", _RS + _NC + _RG + "degs = " + ksrc.format(v=dsrc) + "\n",
                   f"AtomGrid(rg, degs, method='{meth}')", ["rg", "degs"], dict(N=6), dict(N=[4, 6, 8]), tier="regular" if reg else "targeted")
        for sn, ssrc in sizesets.items():
            for meth in methods:
                reg = (sn == "untab" and meth == "lebedev" and kn in ("list", "int64", "int32", "nc_int64")) or (kn == "int64" and sn == "len1_untab")
                _T("atomgrid.AtomGrid.__init__", f"var_sizes_{kn}_{sn}_{meth}", _RS + _NC + _RG + "sizes = " + ksrc.format(v=ssrc) + "\n",
                   f"AtomGrid(rg, None, sizes=sizes, method='{meth}')", ["rg", "sizes"], dict(N=6), dict(N=[4, 6, 8]), tier="regular" if reg else "targeted")
    # from_pruned: sector lists / arrays
    for kn, ksrc in kinds.items():
        for which in ("d", "s"):
            sec = "[3, 7, 4, 33]" if which == "d" else "[6, 15, 27, 38]"
            arg = "d_sectors=sec" if which == "d" else "s_sectors=sec"
            _T("atomgrid.AtomGrid.from_pruned", f"var_{which}sectors_{kn}", _RS + _NC + _RG + "rsec = " + ksrc.format(v="[0.3, 0.8, 1.5]").replace("np.int64", "float").replace("np.int32", "np.float32").replace("np.intp", "float")
               + "\nsec = " + ksrc.format(v=sec) + "\ncenter = rs.uniform(-1, 1, 3)\n",
               f"AtomGrid.from_pruned(rg, 1.2, rsec, {arg}, center=center)", ["rg", "rsec", "sec", "center"], dict(N=8), dict(N=[6, 8, 12]),
               tier="regular" if kn in ("int64", "nc_int64", "list") else "targeted")
    # MolGrid constructors: atnums dtype / container, atcoords layout
    coords = {"c": "np.array([[0.0, 0.0, -0.7], [0.0, 0.0, 0.7]])", "F": "np.asfortranarray(np.array([[0.0, 0.0, -0.7], [0.0, 0.0, 0.7]]))",
              "nc": "nc(np.array([[0.0, 0.0, -0.7], [0.0, 0.0, 0.7]]))", "one": "np.array([[0.1, 0.2, 0.3]])"}
    for kn, ksrc in kinds.items():
        if kn == "tuple":
            continue
        for cn, csrc in coords.items():
            nums = "[1]" if cn == "one" else "[1, 8]"
            base = _RS + _NC + _RG + "atnums = " + ksrc.format(v=nums) + "\natcoords = " + csrc + "\n"
            reg = (kn in ("int64", "int32") and cn in ("F", "nc")) or (kn == "list" and cn == "one")
            tier = "regular" if reg else "targeted"
            _T("molgrid.MolGrid.from_size", f"var_{kn}_{cn}", base, "MolGrid.from_size(np.asarray(atnums), atcoords, 6, rgrid=rg, rotate=0)", ["atnums", "atcoords", "rg"], dict(N=6), dict(N=[4, 6, 8]), tier=tier)
            _T("molgrid.MolGrid.from_preset", f"var_{kn}_{cn}", base, "MolGrid.from_preset(np.asarray(atnums), atcoords, 'coarse', rgrid=rg, rotate=0, store=True)", ["atnums", "atcoords", "rg"], dict(N=6), dict(N=[4, 6, 8]), tier=tier)
            _T("molgrid.MolGrid.from_pruned", f"var_{kn}_{cn}", base + "rsec = [[0.5, 1.0]] * len(atcoords)\ndsec = [[3, 5, 7]] * len(atcoords)\n",
               "MolGrid.from_pruned(np.asarray(atnums), atcoords, 1.0, rsec, dsec, rgrid=rg, rotate=0)", ["atnums", "atcoords", "rsec", "dsec", "rg"], dict(N=6), dict(N=[4, 6, 8]), tier=tier)
            _T("becke.BeckeWeights.__call__", f"var_{kn}_{cn}", base + "pts = rs.uniform(-2, 2, (@N@ * 3, 3))\nidx = np.array([0, @N@, @N@ * 3])[: len(atcoords) + 1]\nidx[-1] = @N@ * 3\n",
               "BeckeWeights(order=2)(pts, atcoords, atnums, idx)", ["pts", "atcoords", "atnums", "idx"], dict(N=6), dict(N=[4, 6, 8]), tier=tier)
    # grids from non-contiguous / Fortran-ordered / read-only-friendly arrays
    for ln, lsrc in (("nc", "nc(pts)"), ("F", "np.asfortranarray(pts)"), ("one", "pts[:1]")):
        wsrc = "wts[:1]" if ln == "one" else ("nc(wts)" if ln == "nc" else "wts")
        g3 = _RS + _NC + "pts = rs.uniform(-1, 1, (@N@, 3)); wts = rs.uniform(0.1, 1, @N@)\n" + f"p = {lsrc}\nw = {wsrc}\n"
        _T("basegrid.Grid.__init__", f"var_{ln}", g3, "Grid(p, w)", ["p", "w"], dict(N=7), dict(N=[5, 7, 11]), follow=[("basegrid.Grid.integrate", "result.integrate(np.ones(result.size))")])
        _T("basegrid.Grid.get_localgrid", f"var_{ln}", g3 + "g = Grid(p, w)\nc = nc(np.array([0.1, 0.0, -0.1]))\n", "g.get_localgrid(c, 1.5)", ["g", "c"], dict(N=7), dict(N=[5, 7, 11]))
        _T("basegrid.Grid.moments", f"var_{ln}", g3 + "g = Grid(p, w)\ncent = nc(np.array([[0.1, 0.0, -0.1], [0.0, 0.2, 0.0]]))\nfv = nc(rs.normal(size=len(w)))\n",
           "g.moments(2, cent, fv, 'cartesian')", ["g", "cent", "fv"], dict(N=7), dict(N=[5, 7, 11]))
        _T("periodicgrid.PeriodicGrid.__init__", f"var_{ln}", g3 + "rv = nc(np.diag([2.0, 2.5, 3.0]))\n", "PeriodicGrid(p, w, rv, wrap=True)", ["p", "w", "rv"], dict(N=7), dict(N=[5, 7, 11]),
           follow=[("periodicgrid.PeriodicGrid.get_localgrid", "result.get_localgrid(np.array([0.2, 0.1, 0.0]), 1.1)")])
    for kn, ksrc in kinds.items():
        if kn in ("float", "tuple", "list"):
            continue
        _T("cubic.UniformGrid.__init__", f"var_shape_{kn}", _RS + _NC + "origin = nc(np.array([0.0, 0.1, -0.2]))\naxes = np.asfortranarray(np.diag([0.5, 0.4, 0.3]) + 0.01)\nshape = " + ksrc.format(v="[3, 4, 2]") + "\n",
           "UniformGrid(origin, axes, shape)", ["origin", "axes", "shape"], None, None)
    _T("cubic.Tensor1DGrids.__init__", "var_len2", _RS + "a = OneDGrid(np.array([0.0, 1.0]), np.array([0.5, 0.5]))\nb = GaussLegendre(3)\n", "Tensor1DGrids(a, b)", ["a", "b"], None, None)
    _T("basegrid.OneDGrid.__init__", "var_nc_len1", _RS + _NC + "p = nc(np.array([0.3]))\nw = nc(np.array([1.0]))\n", "OneDGrid(p, w, (0, 1))", ["p", "w"], None, None)
    _T("rtransform.BaseTransform.transform_1d_grid", "var_nc", _RS + _NC + "og = OneDGrid(nc(np.linspace(-0.9, 0.9, @N@)), nc(np.full(@N@, 2.0 / @N@)), (-1, 1))\ntf = BeckeRTransform(0.1, 1.2)\n",
       "tf.transform_1d_grid(og)", ["tf", "og"], dict(N=7), dict(N=[5, 7, 11]))


_constructor_family()


def _container_family():
    """dict- and list-valued options in every degree of completeness: complete, one entry missing, empty, with a
    surplus entry; lists too short / too long; None.  Many of these calls raise (KeyError / IndexError /
    ValueError): the property speaks about 'returns (or raises)', the snapshots are compared either way."""
    dicts = {"full": "{1: @X@, 8: @X@}", "missing": "{1: @X@}", "missing_first": "{8: @X@}", "empty": "{}", "surplus": "{1: @X@, 8: @X@, 6: @X@}"}
    lists = {"full": "[@X@, @X@]", "short": "[@X@]", "long": "[@X@, @X@, @X@]", "empty": "[]"}
    forms = {f"dict_{k}": v for k, v in dicts.items()}
    forms.update({f"list_{k}": v for k, v in lists.items()})
    forms["none"] = "None"
    reg_forms = {"dict_missing", "dict_empty", "dict_missing_first", "list_short", "none"}
    for fn, fsrc in forms.items():
        tier = "regular" if fn in reg_forms else "targeted"
        rgsrc = fsrc.replace("@X@", "rg")
        # radial grids per atom / per element
        _T("molgrid.MolGrid.from_preset", f"var_rgrid_{fn}", _MOL + f"rgrids = {rgsrc}\n",
           "MolGrid.from_preset(atnums, atcoords, 'coarse', rgrid=rgrids, rotate=0)", ["atnums", "atcoords", "rgrids"], _PM, _VM, tier=tier)
        _T("molgrid.MolGrid.from_pruned", f"var_rgrid_{fn}", _MOL + f"rgrids = {rgsrc}\nr_sectors = [[0.5, 1.0], [0.5, 1.0]]\nd_sectors = [[3, 5, 3], [3, 7, 3]]\n",
           "MolGrid.from_pruned(atnums, atcoords, 1.0, r_sectors, d_sectors, rgrid=rgrids, rotate=0)", ["atnums", "atcoords", "r_sectors", "d_sectors", "rgrids"], _PM, _VM, tier=tier)
        if fn != "none":
            prsrc = fsrc.replace("@X@", "'coarse'")
            _T("molgrid.MolGrid.from_preset", f"var_preset_{fn}", _MOL + f"preset = {prsrc}\n",
               "MolGrid.from_preset(atnums, atcoords, preset, rgrid=rg, rotate=0)", ["atnums", "atcoords", "preset", "rg"], _PM, _VM, tier=tier)
            _T("molgrid.MolGrid.from_preset", f"var_preset_{fn}_default_rgrid", _RS + "atnums = np.array([1, 8])\natcoords = np.array([[0.0, 0.0, -0.7], [0.0, 0.1, 0.7]])\n" + f"preset = {prsrc}\n",
               "MolGrid.from_preset(atnums, atcoords, preset, rotate=0)", ["atnums", "atcoords", "preset"], None, None, tier="targeted")
    for fn, fsrc in forms.items():
        if not fn.startswith("list") and fn != "none":
            continue
        tier = "regular" if fn in ("list_short", "list_long") else "targeted"
        if fn != "none":
            _T("molgrid.MolGrid.from_pruned", f"var_sectors_{fn}", _MOL + "r_sectors = " + fsrc.replace("@X@", "[0.5, 1.0]") + "\nd_sectors = " + fsrc.replace("@X@", "[3, 5, 3]") + "\n",
               "MolGrid.from_pruned(atnums, atcoords, 1.0, r_sectors, d_sectors, rgrid=rg, rotate=0)", ["atnums", "atcoords", "r_sectors", "d_sectors", "rg"], _PM, _VM, tier=tier)
            _T("molgrid.MolGrid.from_pruned", f"var_radius_{fn}", _MOL + "radius = " + fsrc.replace("@X@", "0.9") + "\nr_sectors = [[0.5, 1.0], [0.5, 1.0]]\ns_sectors = [[6, 14, 6], [6, 14, 6]]\n",
               "MolGrid.from_pruned(atnums, atcoords, radius, r_sectors, s_sectors=s_sectors, rgrid=rg, rotate=0)", ["atnums", "atcoords", "radius", "r_sectors", "s_sectors", "rg"], _PM, _VM, tier=tier)
            _T("molgrid.MolGrid.__init__", f"var_atgrids_{fn}", _MOL + "atgrids = " + fsrc.replace("@X@", "ag1") + "\n",
               "MolGrid(atnums, atgrids, BeckeWeights(order=2), store=True)", ["atnums", "atgrids"], _PM, _VM, tier=tier)
    # default radial grids (rgrid=None) for the other constructors, one and several atoms, repeated elements
    for nm, nums in (("h2o", "[8, 1, 1]"), ("one", "[6]")):
        base = _RS + f"atnums = np.array({nums})\natcoords = rs.uniform(-1.0, 1.0, (len(atnums), 3))\n"
        _T("molgrid.MolGrid.from_size", f"var_default_rgrid_{nm}", base, "MolGrid.from_size(atnums, atcoords, 6, rotate=0)", ["atnums", "atcoords"], None, None, tier="regular" if nm == "one" else "targeted")
        _T("molgrid.MolGrid.from_preset", f"var_default_rgrid_{nm}", base, "MolGrid.from_preset(atnums, atcoords, 'coarse', rotate=0)", ["atnums", "atcoords"], None, None, tier="regular" if nm == "one" else "targeted")
        _T("molgrid.MolGrid.from_preset", f"var_rgrid_dict_empty_{nm}", base + "rgrids = {}\n", "MolGrid.from_preset(atnums, atcoords, 'coarse', rgrid=rgrids, rotate=0)", ["atnums", "atcoords", "rgrids"], None, None, tier="targeted")
    # Becke radii dictionaries
    for fn, fsrc in dicts.items():
        _T("becke.BeckeWeights.__init__", f"var_radii_{fn}", _RS + "radii = " + fsrc.replace("@X@", "0.8") + "\npts = rs.uniform(-1, 1, (9, 3))\natcoords = np.array([[0.0, 0.0, -0.7], [0.0, 0.1, 0.7]])\natnums = np.array([1, 8])\n",
           "BeckeWeights(radii, order=2).generate_weights(pts, atcoords, atnums, select=0)", ["radii", "pts", "atcoords", "atnums"], None, None,
           also=["becke.BeckeWeights.generate_weights"], tier="regular" if fn in ("missing", "empty") else "targeted")
    # option dicts forwarded through **kwargs
    for fn, d in (("empty", "{}"), ("tol", "{'tol': 1e-3}"), ("full", "{'tol': 1e-3, 'max_nodes': 3000, 'no_derivatives': True}")):
        _T("robust_poisson.solve_poisson_robust", f"var_opts_{fn}", _PAGS + "atnums = np.array([1])\natcoords = np.array([[0.0, 0.0, 0.0]])\node_params = " + d + "\n",
           "solve_poisson_robust(ag, fv, tf, atnums, atcoords, include_origin=False, remove_large_pts=10.0, ode_params=ode_params)",
           ["ag", "fv", "tf", "atnums", "atcoords", "ode_params", "tp"], _PP, _VPP, follow=[("robust_poisson.solve_poisson_robust.total_potential", "result(tp)")], tier="regular" if fn == "tol" else "targeted")


_container_family()


def _edge_family():
    """inputs on the edges of what the library accepts: points on / marginally beyond the domain ends (inside and
    outside the acceptance tolerance), evaluation points at centres / grid points / far away, zero and infinite
    radii, points on atoms, arguments outside the box"""
    doms = {"m11": ("-1.0", "1.0"), "01": ("0.0", "1.0"), "0inf": ("0.0", "np.inf"), "0_5": ("0.0", "5.0")}
    shifts = {"on": ("0.0", "0.0"), "lo_in_tol": ("-3e-8", "0.0"), "hi_in_tol": ("0.0", "3e-8"), "both_in_tol": ("-5e-8", "5e-8"),
              "lo_out_tol": ("-3e-7", "0.0"), "hi_out_tol": ("0.0", "3e-7")}
    for dn, (lo, hi) in doms.items():
        top = "4.0" if hi == "np.inf" else hi
        for sn, (dl, dh) in shifts.items():
            if hi == "np.inf" and dh != "0.0":
                continue
            pts = _RS + f"pts = np.linspace({lo}, {top}, @N@)\npts[0] += {dl}\npts[-1] += {dh}\nwts = rs.uniform(0.1, 1.0, @N@)\ndom = ({lo}, {hi})\n"
            reg = sn in ("lo_in_tol", "hi_in_tol", "on") and dn in ("m11", "0inf", "0_5")
            tier = "regular" if reg else "targeted"
            _T("basegrid.OneDGrid.__init__", f"var_edge_{dn}_{sn}", pts, "OneDGrid(pts, wts, dom)", ["pts", "wts", "dom"], dict(N=7), dict(N=[2, 5, 7, 12]), alias=[("wts", "pts")], tier=tier)
            _T("basegrid.OneDGrid.__init__", f"var_edge_shared_{dn}_{sn}", pts + "first = OneDGrid(pts, wts)\n", "OneDGrid(first.points, first.weights, dom)", ["first", "dom"], dict(N=7), dict(N=[2, 5, 7, 12]), tier=tier)
            _T("basegrid.OneDGrid.__getitem__", f"var_edge_{dn}_{sn}", pts + "og = OneDGrid(pts, wts)\nog._domain = dom\n", "og[0:3]", ["og"], dict(N=7), dict(N=[5, 7, 12]), tier="targeted")
            if dn in ("0inf", "0_5"):
                for tfn, tfsrc in (("identity", "IdentityRTransform()"), ("linear", "LinearInfiniteRTransform(0.1, 5.0)"), ("invbecke", "InverseRTransform(BeckeRTransform(0.0, 1.5))")):
                    _T("rtransform.BaseTransform.transform_1d_grid", f"var_edge_{tfn}_{dn}_{sn}", pts + f"og = OneDGrid(pts, wts)\nog._domain = (0.0, np.inf)\ntf = {tfsrc}\n", "tf.transform_1d_grid(og)", ["tf", "og"],
                       dict(N=7), dict(N=[5, 7, 12]), tier="regular" if (reg and tfn == "identity") else "targeted")
            if dn == "m11":
                for tfn, tfsrc in (("becke", "BeckeRTransform(0.1, 1.2)"), ("linfin", "LinearFiniteRTransform(0.2, 3.0)"), ("knowles", "KnowlesRTransform(0.1, 1.2, 2)"), ("handy", "HandyRTransform(0.1, 1.2, 2)")):
                    _T("rtransform.BaseTransform.transform_1d_grid", f"var_edge_{tfn}_{sn}", pts + f"og = OneDGrid(pts, wts)\nog._domain = (-1.0, 1.0)\ntf = {tfsrc}\n", "tf.transform_1d_grid(og)", ["tf", "og"],
                       dict(N=7), dict(N=[5, 7, 12]), tier="regular" if (sn in ("on", "lo_in_tol") and tfn in ("becke", "linfin")) else "targeted")
                    for m in ("transform", "deriv", "deriv2", "deriv3"):
                        _T(f"rtransform.{tfsrc.split('(')[0]}.{m}", f"var_edge_{sn}", pts + f"tf = {tfsrc}\n", f"tf.{m}(pts)", ["tf", "pts"], dict(N=7), dict(N=[5, 7, 12]),
                           tier="regular" if (sn == "on" and m in ("transform", "deriv")) else "targeted")
    # radial grids for atomic grids: first point at / marginally below zero
    for sn, first in (("zero", "0.0"), ("neg_in_tol", "-2e-8"), ("tiny", "1e-12")):
        rg = _RS + f"p = np.linspace(0.0, 3.0, @N@)\np[0] = {first}\nw = np.full(@N@, 3.0 / @N@)\nrg = OneDGrid(p, w)\n"
        _T("atomgrid.AtomGrid.__init__", f"var_edge_r0_{sn}", rg, "AtomGrid(rg, degrees=[5], rotate=1)", ["rg"], dict(N=6), dict(N=[4, 6, 9]),
           follow=[("atomgrid.AtomGrid.convert_cartesian_to_spherical", "result.convert_cartesian_to_spherical()"),
                   ("atomgrid.AtomGrid.integrate_angular_coordinates", "result.integrate_angular_coordinates(np.ones(result.size))")])
    # evaluation points: on the centre, on grid points, far away, duplicated
    spec = "tp = np.vstack([ag.center, ag.points[:2], ag.center + 1e-9, [[1e3, 0.0, 0.0]], ag.center])\n"
    for dv in (0, 1):
        _T("atomgrid.AtomGrid.interpolate", f"var_edge_points_deriv{dv}", _AG + spec, "ag.interpolate(fv)", ["ag", "fv", "tp"], _PA, _VA,
           follow=[("atomgrid.AtomGrid.interpolate.interpolate_low", f"result(tp, deriv={dv})")])
    _T("atomgrid.AtomGrid.interpolate", "var_edge_points_origin_grid", _AG0 + "tp = np.vstack([ag.center, ag.points[:3], [[1e3, 0.0, 0.0]]])\n", "ag.interpolate(fv)", ["ag", "fv", "tp"], _PA, _VA,
       follow=[("atomgrid.AtomGrid.interpolate.interpolate_low", "result(tp, deriv=1, only_radial_deriv=True)")])
    _T("atomgrid.AtomGrid.convert_cartesian_to_spherical", "var_edge_center", _AG + spec, "ag.convert_cartesian_to_spherical(tp)", ["ag", "tp"], _PA, _VA)
    _T("atomgrid.AtomGrid.convert_cartesian_to_spherical", "var_edge_center_arg", _AG + spec + "c = tp[1].copy()\n", "ag.convert_cartesian_to_spherical(tp, c)", ["ag", "tp", "c"], _PA, _VA, alias=[("c", "tp[1]")])
    _T("poisson.interpolate_laplacian", "var_edge_points", _PAG + "tp = np.vstack([ag.center, ag.points[:2], ag.center + 1e-9, [[50.0, 0.0, 0.0]]])\n", "interpolate_laplacian(ag, fv)", ["ag", "fv", "tp"], _PP, _VPP,
       follow=[("poisson.interpolate_laplacian.sum_of_interpolation_funcs", "result(tp)")])
    _T("poisson.solve_poisson_bvp", "var_edge_points", _PAGS + "tp = np.vstack([ag.center, ag.points[:2], [[50.0, 0.0, 0.0]]])\n",
       "solve_poisson_bvp(ag, fv, tf, include_origin=False, remove_large_pts=10.0)", ["ag", "fv", "tf", "tp"], _PP, _VPP, follow=[(_PBV, "result(tp)")])
    _T("molgrid.MolGrid.interpolate", "var_edge_points", _MG + "tp = np.vstack([atcoords, mg.points[:2], [[1e3, 0.0, 0.0]]])\n", "mg.interpolate(fv)", ["mg", "fv", "tp"], _PM, _VM,
       follow=[("molgrid.MolGrid.interpolate.interpolate_low", "result(tp)")])
    # local grids / moments: centre on a point, zero and infinite radius
    g3 = _RS + "pts = rs.uniform(-1, 1, (@N@, 3)); wts = rs.uniform(0.1, 1, @N@)\ng = Grid(pts, wts)\n"
    for rn, r in (("r0", "0.0"), ("rinf", "np.inf"), ("rtiny", "1e-300"), ("r1", "1.0")):
        _T("basegrid.Grid.get_localgrid", f"var_edge_onpoint_{rn}", g3 + "c = g.points[1]\n", f"g.get_localgrid(c, {r})", ["g", "c"], dict(N=8), _VN, tier="regular" if rn in ("r0", "rinf") else "targeted")
    for tm in ("cartesian", "radial", "pure", "pure-radial"):
        _T("basegrid.Grid.moments", f"var_edge_onpoint_{tm}", g3 + "cent = g.points[:2]\nfv = rs.normal(size=@N@)\n", f"g.moments(2, cent, fv, '{tm}')", ["g", "cent", "fv"], dict(N=8), _VN)
    p3 = _RS + "pts = rs.uniform(-0.5, 3.5, (@N@, 3)); wts = rs.uniform(0.1, 1, @N@)\nrv = np.diag([2.0, 2.5, 3.0])\n"
    for wr in (True, False):
        _T("periodicgrid.PeriodicGrid.get_localgrid", f"var_edge_outside_cell_wrap{wr}", p3 + f"pg = PeriodicGrid(pts, wts, rv, wrap={wr})\nc = pg.points[0]\n", "pg.get_localgrid(c, 1.0)", ["pg", "c"], dict(N=8), _VN)
        _T("periodicgrid.PeriodicGrid.__init__", f"var_edge_on_faces_wrap{wr}", _RS + "pts = np.array([[0.0, 0.0, 0.0], [2.0, 2.5, 3.0], [-1e-9, 1.0, 3.0 + 1e-9], [1.0, 1.0, 1.0]])\nwts = np.ones(4)\nrv = np.diag([2.0, 2.5, 3.0])\n",
           f"PeriodicGrid(pts, wts, rv, wrap={wr})", ["pts", "wts", "rv"], None, None)
    # Becke weights with grid points on the nuclei (0/0 branches)
    bk = _RS + "atcoords = np.array([[0.0, 0.0, -0.7], [0.0, 0.1, 0.7]])\natnums = np.array([1, 8])\npts = np.vstack([atcoords, rs.uniform(-1, 1, (@N@, 3)), atcoords[:1]])\n"
    _T("becke.BeckeWeights.generate_weights", "var_edge_on_nuclei", bk, "BeckeWeights(order=3).generate_weights(pts, atcoords, atnums, select=1)", ["pts", "atcoords", "atnums"], dict(N=6), _VN)
    _T("becke.BeckeWeights.compute_weights", "var_edge_on_nuclei", bk, "BeckeWeights(order=3).compute_weights(pts, atcoords, atnums, select=0)", ["pts", "atcoords", "atnums"], dict(N=6), _VN)
    _T("becke.BeckeWeights.__call__", "var_edge_on_nuclei", bk + "idx = np.array([0, 4, len(pts)])\n", "BeckeWeights(order=2)(pts, atcoords, atnums, idx)", ["pts", "atcoords", "atnums", "idx"], dict(N=6), _VN)
    # nodes that are not ascending (natural Chebyshev order, column of a node table)
    _T("rtransform.BeckeRTransform.find_parameter", "var_edge_cheb_desc", _RS + "x = np.cos((np.arange(@N@) + 0.5) * np.pi / @N@)\n", "BeckeRTransform.find_parameter(x, 0.1, 1.3)", ["x"], dict(N=7), dict(N=[4, 7, 10]))
    _T("rtransform.BeckeRTransform.find_parameter", "var_edge_table_column", _RS + "table = rs.uniform(-0.9, 0.9, (@N@, 3))\nx = table[:, 1]\n", "BeckeRTransform.find_parameter(x, 0.1, 1.3)", ["x", "table"], dict(N=7), dict(N=[4, 7, 10]))
    # closest point outside the box / exactly between nodes
    ug = _RS + "ug = UniformGrid(np.zeros(3), np.diag([0.5, 0.5, 0.5]), np.array([3, 4, 5]))\n"
    for pn, psrc in (("outside", "np.array([-3.0, 9.0, 0.2])"), ("midway", "np.array([0.25, 0.75, 1.25])"), ("node", "ug.points[7]")):
        for wh in ("closest", "origin"):
            _T("cubic.UniformGrid.closest_point", f"var_edge_{pn}_{wh}", ug + f"pt = {psrc}\n", f"ug.closest_point(pt, '{wh}')", ["ug", "pt"], None, None, tier="regular" if wh == "closest" else "targeted")


_edge_family()


if __name__ == "__main__":
    sys.exit(main())
