"""C05 — an atomic grid is exactly the product of its radial grid and per-shell spheres.

gen:   C05_gen.v, rebuilt from /repo on every run (fail closed):
         * the eight degree/size tables of angular.py (ast, closed-namespace evaluation; as in C12);
         * the constants of the branch test of AtomGrid.from_preset (`preset in [...]`, `preset == "sg_1" and atnum > 19`)
           and of _get_rgrid_size (ast; any other shape of the code raises);
         * every prune_grid_<preset>.npz file x element (float sector radii / integer shell counts, sizes, r_points);
         * _DEFAULT_POWER_RTRANSFORM_PARAMS (ast literal).
prove: coq/C05/*.v — hand model (C05_model.v), theorems for every number of shells / degree sequence / sphere size,
       presets_build by vm_compute over the regenerated tables.
tie:   exact correspondence (ctx.coq_bool_cases, model at BigQ): radial grids with r_i, w_i in {0, 2^k}, constant /
       per-shell / size requests, from_pruned with sectors, 4 methods, integer or dyadic centres, rotate = 0 and
       non-zero seeds (matrices fetched by the same SciPy call, exact rationals of the floats; a few-ulp bound
       computed inside Coq where float products are involved): .points, ._points, .weights, .indices, .degrees,
       get_shell_grid(i, r_sq) for every shell, constructor rejections.  Every preset x element is constructed on
       the implementation with a radial grid of the prescribed size; degrees and indices are compared with the
       model inside Coq, points and weights with the product formula shell by shell.
       Presets are also built with the three non-default angular methods (radial grid with r = 0, a node inside every
       sector and on some sector bounds, off-origin centre); the method handed to the size->degree conversion in the
       sector-radius route is extracted from the source (the caller's `method` or a literal; anything else fails closed)
       and the model / preset_okb / preset_ok_builds use it the way the code does.
search: every observation is judged by the property's own product formula (numpy float oracle / exact Fractions), the
       preset grids by "every shell has at least the tabulated number of points in the requested method's table";
       unbuildable presets are reported with the concrete call.
histories: before anything else a stand-alone AngularGrid of every small degree (and, lazily, of every preset degree) is built,
       its points/weights are copied as the reference and then edited in place by "a user"; atomic grids built afterwards
       must still carry the unit grid.  On every constructed grid .points is read, the returned array is edited in place by the caller and everything is
       read again (the second read is what goes to Coq and to the oracles); returned shell grids are edited in place and
       requested again; the float64 array passed as centre is updated in place and the grid must stay centre + r_i*(p.M_i)
       for the centre it then reports.
broken tie: when the extraction fails closed, the model does not build or a proof about the generated definitions
       breaks, all implementation-side oracles still run and the first failing input that is not a listed known
       finding becomes the replay (Ctx.broken_tie).
"""
from __future__ import annotations

import ast
import json
import sys
import warnings
from fractions import Fraction

import numpy as np

from vlib.core import SRC, Ctx, q_bigq, src_sha, z

METHODS = [
    ("lebedev", "LEBEDEV", "Lebedev"),
    ("spherical", "SPHERICAL", "Spherical"),
    ("maxdet", "MAX_DET", "Maxdet"),
    ("ahrens_beylkin", "AHRENS_BEYLKIN", "AhrensBeylkin"),
]
CTOR = {m: c for m, _, c in METHODS}
LISTED_BAD = [("sg_3", 14)]    # (preset, element) pairs that cannot be built at the current commit (known finding)
MAXREP = 3

# the concrete calls under which the two genuine defects of the pinned code are listed
SG1_KEY = "AtomGrid.from_preset(atnum=19, preset='sg_1', rgrid=OneDGrid(1.5*np.arange(1,51), np.ones(50), (0,np.inf)))"
SG3_KEY = "AtomGrid.from_preset(atnum=14, preset='sg_3', rgrid=OneDGrid(0.25*np.arange(1,100), np.ones(99), (0,np.inf)))"


# ====================================================================== gen: angular tables (as in C12)
def extract_tables():
    src = (SRC / "angular.py").read_text()
    tree = ast.parse(src)
    wanted = [f"{p}_NPOINTS" for _, p, _ in METHODS] + [f"{p}_DEGREES" for _, p, _ in METHODS]
    ns: dict = {}
    units = []
    for node in tree.body:
        if isinstance(node, ast.Assign) and len(node.targets) == 1 and isinstance(node.targets[0], ast.Name):
            name = node.targets[0].id
            if name not in wanted:
                continue
            for sub in ast.walk(node.value):
                if isinstance(sub, ast.Call):
                    f = sub.func
                    ok = (isinstance(f, ast.Name) and f.id in {"dict", "range"}) or (
                        isinstance(f, ast.Attribute) and f.attr == "items" and isinstance(f.value, ast.Name))
                    if not ok:
                        raise ValueError(f"unsupported call in table {name}")
                elif isinstance(sub, ast.Attribute) and sub.attr != "items":
                    raise ValueError(f"unsupported attribute in table {name}")
                elif isinstance(sub, (ast.Lambda, ast.Await, ast.Yield, ast.NamedExpr, ast.Subscript)):
                    raise ValueError(f"unsupported construct in table {name}")
            env = {"__builtins__": {}, "dict": dict, "range": range}
            env.update(ns)
            ns[name] = eval(compile(ast.Expression(node.value), "angular.py", "eval"), env)  # noqa: S307
            units.append({"unit": name, "file": "src/grid/angular.py", "lines": [node.lineno, node.end_lineno],
                          "sha": src_sha(ast.get_source_segment(src, node))})
    missing = [w for w in wanted if w not in ns]
    if missing:
        raise ValueError(f"tables not found in angular.py: {missing}")
    for k, v in ns.items():
        if not isinstance(v, dict) or not all(isinstance(a, int) and isinstance(b, int) for a, b in v.items()):
            raise ValueError(f"table {k} is not an int->int dict")
    return ns, units


# ====================================================================== gen: branch constants of from_preset
def _str_list(node, what):
    if not isinstance(node, ast.List) or not all(isinstance(e, ast.Constant) and isinstance(e.value, str) for e in node.elts):
        raise ValueError(f"{what}: expected a list of string literals")
    return [e.value for e in node.elts]


def _is_name(node, name):
    return isinstance(node, ast.Name) and node.id == name


def extract_cfg():
    """Constants of `if preset in [...] / elif preset == "x" and atnum > k / else` and of _get_rgrid_size."""
    src = (SRC / "atomgrid.py").read_text()
    tree = ast.parse(src)
    units = []
    cls = [n for n in tree.body if isinstance(n, ast.ClassDef) and n.name == "AtomGrid"]
    if len(cls) != 1:
        raise ValueError("class AtomGrid not found")
    fns = {n.name: n for n in cls[0].body if isinstance(n, ast.FunctionDef)}
    for name in ("__init__", "from_preset", "from_pruned", "points", "get_shell_grid", "_input_type_check",
                 "_generate_degree_from_radius", "_find_degrees_for_radial_points", "_generate_atomic_grid"):
        if name not in fns:
            raise ValueError(f"AtomGrid.{name} not found")
        n = fns[name]
        units.append({"unit": f"AtomGrid.{name}", "file": "src/grid/atomgrid.py", "lines": [n.lineno, n.end_lineno],
                      "sha": src_sha(ast.get_source_segment(src, n))})
    fp = fns["from_preset"]
    if [a.arg for a in fp.args.args] != ["cls", "atnum", "preset", "rgrid", "center", "rotate", "method"]:
        raise ValueError("unsupported signature of AtomGrid.from_preset")
    ifs = [s for s in fp.body if isinstance(s, ast.If) and isinstance(s.test, ast.Compare) and _is_name(s.test.left, "preset")]
    if len(ifs) != 1:
        raise ValueError("from_preset: expected exactly one top-level `if preset in [...]`")
    top = ifs[0]
    if fp.body[-1] is not top:
        raise ValueError("from_preset: the branch statement is not the last statement")
    t = top.test
    if len(t.ops) != 1 or not isinstance(t.ops[0], ast.In):
        raise ValueError("from_preset: first test is not `preset in [...]`")
    count_presets = _str_list(t.comparators[0], "from_preset first test")
    if len(top.orelse) != 1 or not isinstance(top.orelse[0], ast.If):
        raise ValueError("from_preset: expected an elif")
    el = top.orelse[0]
    b = el.test
    if not (isinstance(b, ast.BoolOp) and isinstance(b.op, ast.And) and len(b.values) == 2):
        raise ValueError("from_preset: elif test is not `A and B`")
    c1, c2 = b.values
    if not (isinstance(c1, ast.Compare) and _is_name(c1.left, "preset") and len(c1.ops) == 1 and isinstance(c1.ops[0], ast.Eq)
            and isinstance(c1.comparators[0], ast.Constant) and isinstance(c1.comparators[0].value, str)):
        raise ValueError("from_preset: elif first conjunct is not `preset == \"...\"`")
    if not (isinstance(c2, ast.Compare) and _is_name(c2.left, "atnum") and len(c2.ops) == 1
            and isinstance(c2.ops[0], (ast.Gt, ast.GtE)) and isinstance(c2.comparators[0], ast.Constant)
            and isinstance(c2.comparators[0].value, int) and not isinstance(c2.comparators[0].value, bool)):
        raise ValueError("from_preset: elif second conjunct is not `atnum > k` / `atnum >= k`")
    thr = c2.comparators[0].value - (1 if isinstance(c2.ops[0], ast.GtE) else 0)
    thr_preset = c1.comparators[0].value
    # the two count-type bodies are the same code, the else body is the sector-radius route
    d1 = [ast.dump(s) for s in top.body]
    d2 = [ast.dump(s) for s in el.body]
    if d1 != d2:
        raise ValueError("from_preset: the bodies of the `if` and the `elif` differ")
    body_src = "\n".join(ast.unparse(s) for s in top.body)
    if "sizes=sector_sizes" not in body_src or "for idx in range(len(rad)) for _ in range(rad[idx])" not in body_src:
        raise ValueError("from_preset: unexpected shell-count route")
    for body in (top.body, el.body, el.orelse):
        ctor_calls = [c for st_ in body for c in ast.walk(st_) if isinstance(c, ast.Call) and _is_name(c.func, "cls")]
        if len(ctor_calls) != 1 or not any(k.arg == "method" and _is_name(k.value, "method") for k in ctor_calls[0].keywords):
            raise ValueError("from_preset: every route must end in one cls(..., method=method) call")
    conv_calls = [c for st_ in el.orelse for c in ast.walk(st_) if isinstance(c, ast.Call) and isinstance(c.func, ast.Attribute)
                  and c.func.attr == "convert_angular_sizes_to_degrees"]
    if len(conv_calls) != 1:
        raise ValueError("from_preset: expected exactly one size->degree conversion in the sector-radius route")
    cc = conv_calls[0]
    margs = [k.value for k in cc.keywords if k.arg == "method"] + list(cc.args[1:2])
    if len(cc.args) < 1 or not _is_name(cc.args[0], "npt") or len(margs) != 1 or len(cc.args) + len(cc.keywords) != 2:
        raise ValueError("from_preset: unexpected arguments of convert_angular_sizes_to_degrees")
    if _is_name(margs[0], "method"):
        conv_method = None                       # the caller's method
    elif isinstance(margs[0], ast.Constant) and margs[0].value in CTOR:
        conv_method = margs[0].value             # a fixed method, whatever the caller asked for
    else:
        raise ValueError("from_preset: the method handed to convert_angular_sizes_to_degrees is neither `method` nor a known literal")
    else_src = "\n".join(ast.unparse(s) for s in el.orelse)
    if "_find_degrees_for_radial_points(rgrid.points, rad, degs)" not in else_src or "convert_angular_sizes_to_degrees(npt" not in else_src:
        raise ValueError("from_preset: unexpected sector-radius route")
    # _get_rgrid_size
    gs = [n for n in tree.body if isinstance(n, ast.FunctionDef) and n.name == "_get_rgrid_size"]
    if len(gs) != 1:
        raise ValueError("_get_rgrid_size not found")
    g = gs[0]
    units.append({"unit": "_get_rgrid_size", "file": "src/grid/atomgrid.py", "lines": [g.lineno, g.end_lineno],
                  "sha": src_sha(ast.get_source_segment(src, g))})
    size_presets, size_special = None, None
    for sub in ast.walk(g):
        if isinstance(sub, ast.Compare) and _is_name(sub.left, "preset_grid") and len(sub.ops) == 1:
            if isinstance(sub.ops[0], ast.NotIn):
                if size_presets is not None:
                    raise ValueError("_get_rgrid_size: two `not in` tests")
                size_presets = _str_list(sub.comparators[0], "_get_rgrid_size")
            elif isinstance(sub.ops[0], ast.Eq) and isinstance(sub.comparators[0], ast.Constant):
                if size_special is not None:
                    raise ValueError("_get_rgrid_size: two `==` tests")
                size_special = sub.comparators[0].value
            else:
                raise ValueError("_get_rgrid_size: unsupported comparison on preset_grid")
    gsrc = ast.unparse(g)
    if size_presets is None or not isinstance(size_special, str) or 'data["r_points"]' not in gsrc.replace("'", '"') \
            or "radial_pts.append(sum(rad))" not in gsrc:
        raise ValueError("_get_rgrid_size: unexpected shape")
    cfg = {"count_presets": count_presets, "thr_preset": thr_preset, "thr": thr,
           "size_presets": size_presets, "size_special": size_special, "conv_method": conv_method}
    return cfg, units


def extract_default_params():
    src = (SRC / "utils.py").read_text()
    tree = ast.parse(src)
    for node in tree.body:
        if isinstance(node, ast.Assign) and len(node.targets) == 1 and _is_name(node.targets[0], "_DEFAULT_POWER_RTRANSFORM_PARAMS"):
            val = ast.literal_eval(node.value)
            if not isinstance(val, dict) or not all(
                    isinstance(k, int) and isinstance(v, tuple) and len(v) == 3 and isinstance(v[0], float)
                    and isinstance(v[1], float) and isinstance(v[2], int) for k, v in val.items()):
                raise ValueError("_DEFAULT_POWER_RTRANSFORM_PARAMS: unexpected shape")
            unit = {"unit": "_DEFAULT_POWER_RTRANSFORM_PARAMS", "file": "src/grid/utils.py",
                    "lines": [node.lineno, node.end_lineno], "sha": src_sha(ast.get_source_segment(src, node))}
            return val, unit
    raise ValueError("_DEFAULT_POWER_RTRANSFORM_PARAMS not found")


def load_presets():
    """{preset: {"rows": {Z: (kind, rad list, npt list)}, "r_points": list|None}} from the npz files."""
    out = {}
    d = SRC / "data" / "prune_grid"
    for f in sorted(d.glob("prune_grid_*.npz")):
        preset = f.stem[len("prune_grid_"):]
        rows, rpoints = {}, None
        with np.load(f) as data:
            keys = list(data.keys())
            for k in keys:
                head = k.split("_")[0]
                if head.isdigit():
                    continue
                if k == "r_points":
                    a = data[k]
                    if a.ndim != 1 or a.dtype.kind not in "iu":
                        raise ValueError(f"{f.name}: r_points is not a 1-D integer array")
                    rpoints = [int(x) for x in a]
                else:
                    raise ValueError(f"{f.name}: unexpected key {k}")
            ats = sorted({int(k.split("_")[0]) for k in keys if k.split("_")[0].isdigit()})
            for a in ats:
                mine = {k for k in keys if k.split("_")[0] == str(a)}
                # "<Z>_nshell" (number of radial shells of the reference grid) is present in some files; the code never reads it
                if not {f"{a}_rad", f"{a}_npt"} <= mine or not mine <= {f"{a}_rad", f"{a}_npt", f"{a}_nshell"}:
                    raise ValueError(f"{f.name}: element {a}: unexpected keys {sorted(mine)}")
                rad, npt = data[f"{a}_rad"], data[f"{a}_npt"]
                if rad.ndim != 1 or npt.ndim != 1 or npt.dtype.kind not in "iu":
                    raise ValueError(f"{f.name}: element {a}: unexpected array shapes/dtypes")
                if rad.dtype.kind == "f":
                    if not np.all(np.isfinite(rad)):
                        raise ValueError(f"{f.name}: element {a}: non-finite radius")
                    rows[a] = ("F", [float(x) for x in rad], [int(x) for x in npt])
                elif rad.dtype.kind in "iu":
                    rows[a] = ("I", [int(x) for x in rad], [int(x) for x in npt])
                else:
                    raise ValueError(f"{f.name}: element {a}: rad has dtype {rad.dtype}")
        out[preset] = {"rows": rows, "r_points": rpoints}
    if not out:
        raise ValueError("no prune_grid files found")
    return out


def coq_str(s):
    if '"' in s or "\\" in s:
        raise ValueError("unsupported string literal")
    return f'"{s}"%string'


def zl(xs):
    return "[" + "; ".join(z(int(x)) for x in xs) + "]"


def ql(xs):
    return "[" + "; ".join(q_bigq(x) for x in xs) + "]"


def gen(ctx: Ctx):
    tabs, units = extract_tables()
    cfg, u2 = extract_cfg()
    params, u3 = extract_default_params()
    presets = load_presets()
    L = ["(* generated from /repo/src/grid (angular.py, atomgrid.py, utils.py, data/prune_grid) on every run; do not edit *)",
         "From Coq Require Import String List ZArith Bool.", "From Bignums Require Import BigQ.",
         "From VLib Require Import Tables.", "From P Require Import C05_model C05_model_exec.",
         "Import ListNotations.", "Open Scope Z_scope."]
    for _, P, _ in METHODS:
        for kind in ("NPOINTS", "DEGREES"):
            t = tabs[f"{P}_{kind}"]
            L.append(f"Definition {P.lower()}_{kind.lower()} : table := [" + "; ".join(f"({a}, {b})" for a, b in t.items()) + "].")
    L.append("Definition dtab (m : method) : table := match m with Lebedev => lebedev_degrees | Spherical => spherical_degrees "
             "| Maxdet => max_det_degrees | AhrensBeylkin => ahrens_beylkin_degrees end.")
    L.append("Definition ntab (m : method) : table := match m with Lebedev => lebedev_npoints | Spherical => spherical_npoints "
             "| Maxdet => max_det_npoints | AhrensBeylkin => ahrens_beylkin_npoints end.")
    L.append("Definition impl_cfg : pcfg := PCfg [" + "; ".join(coq_str(s) for s in cfg["count_presets"]) + "] "
             + coq_str(cfg["thr_preset"]) + " " + z(cfg["thr"]) + " [" + "; ".join(coq_str(s) for s in cfg["size_presets"]) + "] "
             + coq_str(cfg["size_special"]) + (" None" if cfg["conv_method"] is None else f" (Some {CTOR[cfg['conv_method']]})") + ".")
    names = []
    for preset, t in presets.items():
        rows = []
        for a, (kind, rad, npt) in t["rows"].items():
            radc = f"RadF {ql(rad)}" if kind == "F" else f"RadI {zl(rad)}"
            rows.append(f"({z(a)}, PRow ({radc}) {zl(npt)})")
        rp = "None" if t["r_points"] is None else f"(Some {zl(t['r_points'])})"
        nm = "ptab_" + preset
        names.append((preset, nm))
        L.append(f"Definition {nm} : @ptable bigQ := PTab [\n  " + ";\n  ".join(rows) + "] " + rp + ".")
    L.append("Definition preset_tables : @ptables bigQ := [" + "; ".join(f"({coq_str(p)}, {nm})" for p, nm in names) + "].")
    L.append("Definition default_params : list (Z * (bigQ * bigQ * Z)) := [" +
             "; ".join(f"({z(k)}, ({q_bigq(v[0])}, {q_bigq(v[1])}, {z(v[2])}))" for k, v in params.items()) + "].")
    for preset in presets:
        units.append({"unit": f"prune_grid_{preset}.npz", "file": f"src/grid/data/prune_grid/prune_grid_{preset}.npz",
                      "lines": [0, 0], "sha": src_sha(json.dumps(presets[preset], sort_keys=True))})
    ctx.gen("C05_gen.v", "\n".join(L) + "\n", units + u2 + [u3])
    return tabs, cfg, params, presets


# ====================================================================== Coq literals for the cases
def qv(p):
    return "(" + ", ".join(q_bigq(float(x)) for x in p) + ")"


def qpts(a):
    return "[" + "; ".join(qv(p) for p in a) + "]"


def qmat(M):
    return "(" + ", ".join(qv(row) for row in M) + ")"


def coq_rg(r, w):
    return f"(RG {ql(r)} {ql(w)})"


def coq_spec(spec):
    kind, vals = spec
    return f"({'Sizes' if kind == 'sizes' else 'Degrees'} {zl(vals)})"


def finite(*arrs):
    return all(np.all(np.isfinite(np.asarray(a, dtype=float))) for a in arrs)


HEADER0 = """From Coq Require Import String List ZArith Bool.
From Bignums Require Import BigQ.
From VLib Require Import Tables.
From P Require Import C05_model C05_model_exec C05_gen.
Import ListNotations.
Open Scope Z_scope.
Definition zmat : @mat bigQ := ((0%bigQ,0%bigQ,0%bigQ),(0%bigQ,0%bigQ,0%bigQ),(0%bigQ,0%bigQ,0%bigQ)).
Definition esph : @sphere bigQ := Sph [] [].
"""


class Spheres:
    """Unit angular grids handed to the model as data (exact rationals of the floats of AngularGrid)."""

    def __init__(self, ctx, tabs):
        self.ctx, self.tabs, self.data, self.coq = ctx, tabs, {}, set()

    def need(self, meth, deg):
        """this grid must be available to the Coq model"""
        self.get(meth, deg)
        self.coq.add((meth, deg))

    def get(self, meth, deg):
        from grid.angular import AngularGrid

        k = (meth, deg)
        if k not in self.data:
            with warnings.catch_warnings():
                warnings.simplefilter("ignore")
                g = AngularGrid(degree=deg, method=meth)
            self.data[k] = (np.array(g.points, dtype=float, copy=True), np.array(g.weights, dtype=float, copy=True))
            # History: a user of the library edits the arrays of this stand-alone angular grid IN PLACE (normalises the
            # weights, shifts the nodes).  The reference above was taken before; atomic grids built afterwards must
            # still carry the unit grid of the method/degree, not the user's edited copy.
            try:
                pa, wa = g.points, g.weights
                wa *= 0.5
                wa += 0.25
                pa += 1.0
            except ValueError:      # read-only arrays were handed out: nothing the user can edit
                pass
        return self.data[k]

    def prime(self, meth, degrees):
        """build (and let the user edit in place) a stand-alone angular grid of every given supported degree"""
        for dg in sorted(set(degrees)):
            self.get(meth, dg)

    def header(self):
        L = []
        per = {m: [] for m, _, _ in METHODS}
        for (meth, deg) in sorted(self.coq):
            p, w = self.data[(meth, deg)]
            nm = f"sph_{meth}_{deg}"
            L.append(f"Definition {nm} : @sphere bigQ := Sph {qpts(p)} {ql(w)}.")
            per[meth].append((deg, nm))
        arms = []
        for meth, _, ctor in METHODS:
            body = "esph"
            for deg, nm in reversed(per[meth]):
                body = f"if d =? {deg} then {nm} else {body}"
            arms.append(f"| {ctor} => {body}")
        L.append("Definition angf (m : method) (d : Z) : @sphere bigQ := match m with " + " ".join(arms) + " end.")
        L.append("Definition angabs (m : method) (d : Z) : @sphere bigQ := sph_abs (angf m d).")
        return "\n".join(L) + "\n"


def rot_matrix(seed):
    from scipy.spatial.transform import Rotation as R

    return R.random(random_state=int(seed)).as_matrix()


def rot_defs(name, seeds):
    """Definition of the rotation oracle of one case (only the seeds the code can ask for) and of its |.| shadow."""
    body = "zmat"
    for s in reversed(sorted(seeds)):
        body = f"if s =? {s} then {qmat(rot_matrix(s))} else {body}"
    return (f"Definition {name} (s : Z) : @mat bigQ := {body}.\n"
            f"Definition {name}_abs (s : Z) : @mat bigQ := mabs ({name} s).\n")


# ====================================================================== the property's own oracle (floats)
def oracle_shell(sph, meth, deg, r, w, rotate, i, center):
    """centre + r * (p @ M_i), w_a * w * r^2 for one shell (numpy floats; the formula of the property)."""
    p, wa = sph.get(meth, deg)
    if rotate != 0:
        p = p @ rot_matrix(rotate + i)
    return p * r + center, wa * w * r ** 2, p * r


def close(a, b, scale=1.0, ulps=64):
    a, b = np.asarray(a, dtype=float), np.asarray(b, dtype=float)
    if a.shape != b.shape:
        return False
    tol = ulps * 2.0 ** -53 * np.maximum(np.maximum(np.abs(a), np.abs(b)), scale)
    return bool(np.all(np.abs(a - b) <= tol))


def resolve_deg(tabs, meth, d):
    P = [p for m, p, _ in METHODS if m == meth][0]
    ks = sorted(tabs[f"{P}_DEGREES"])
    if d < 0 or d > ks[-1]:
        return None
    k = min(x for x in ks if x >= d)
    return k, tabs[f"{P}_DEGREES"][k]


def resolve_size(tabs, meth, s):
    P = [p for m, p, _ in METHODS if m == meth][0]
    ks = sorted(tabs[f"{P}_NPOINTS"])
    if s < 0 or s > ks[-1]:
        return None
    k = min(x for x in ks if x >= s)
    return tabs[f"{P}_NPOINTS"][k], k


def judge_grid(sph, tabs, meth, r, w, req_degs, center, rotate, obs):
    """Is the observed grid the product grid of the property?  Returns None or (what, detail)."""
    n = len(r)
    degs = []
    for d in req_degs:
        rs = resolve_deg(tabs, meth, d)
        if rs is None:
            return ("degrees", f"request {d} is not resolvable")
        degs.append(rs)
    if [int(x) for x in obs["degs"]] != [d for d, _ in degs]:
        return ("degrees", f"degrees {list(obs['degs'])} differ from the least supported degrees {[d for d, _ in degs]}")
    exp_idx = [0]
    for _, s in degs:
        exp_idx.append(exp_idx[-1] + s)
    if [int(x) for x in obs["idx"]] != exp_idx:
        return ("indices", f"indices {list(map(int, obs['idx']))} differ from the prefix sums {exp_idx}")
    if len(obs["pts"]) != exp_idx[-1] or len(obs["wts"]) != exp_idx[-1]:
        return ("size", f"{len(obs['pts'])} points / {len(obs['wts'])} weights for {exp_idx[-1]} expected")
    scale = max([abs(x) for x in r] + [abs(float(c)) for c in center] + [1e-300])
    for i in range(n):
        ep, ew, ep0 = oracle_shell(sph, meth, degs[i][0], r[i], w[i], rotate, i, center)
        a, b = exp_idx[i], exp_idx[i + 1]
        if not close(obs["pts"][a:b], ep, scale):
            j = int(np.argmax(np.max(np.abs(obs["pts"][a:b] - ep), axis=1)))
            return ("points", f"shell {i}, node {j}: point {obs['pts'][a + j].tolist()} instead of centre + r_i*(p.M_i) = {ep[j].tolist()}")
        if "pts0" in obs and not close(obs["pts0"][a:b], ep0, scale):
            return ("points0", f"shell {i}: centre-relative points differ from r_i*(p.M_i)")
        if not close(obs["wts"][a:b], ew, 0.0, ulps=8):
            j = int(np.argmax(np.abs(obs["wts"][a:b] - ew)))
            return ("weights", f"shell {i}, node {j}: weight {float(obs['wts'][a + j])!r} instead of w_a*w_i*r_i^2 = {float(ew[j])!r}")
    return None


# ====================================================================== building implementation objects
def judge_preset(sph, tabs, row, meth, rpts, rw, cen, rotate, obs):
    """The property on one constructed preset grid: one shell per radial point, every shell's degree is a supported degree
    of the requested method with at least the tabulated number of points, product structure.  None or (what, text)."""
    kind, rad, npt = row
    if len(obs["degs"]) != len(rpts):
        return ("length", f"{len(obs['degs'])} shells for {len(rpts)} radial points")
    ss = [npt[i] for i in range(min(len(rad), len(npt))) for _ in range(int(rad[i]))] if kind == "I" else None
    for k in range(len(rpts)):
        rs = resolve_deg(tabs, meth, obs["degs"][k])
        want = (ss[k] if k < len(ss) else 0) if kind == "I" else npt[sum(1 for b in rad if Fraction(rpts[k]) > Fraction(b))]
        if rs is None or rs[0] != obs["degs"][k] or rs[1] < want:
            return ("coarser", f"shell {k} (r={rpts[k]!r}) has degree {obs['degs'][k]} ({rs[1] if rs else None} points with method '{meth}'), "
                               f"the preset tabulates {want} points for it")
    return judge_grid(sph, tabs, meth, rpts, rw, obs["degs"], cen, rotate, obs)


DTYPES = ["float64", "int64", "int32", "float32"]


def make_array(vals, dtype="float64", layout="c"):
    """The given numbers as an array of the given dtype (they are representable in it), C-contiguous / a strided view
    of a larger buffer / read-only."""
    a = np.array(vals, dtype=dtype)
    if not np.array_equal(a.astype(float), np.array(vals, dtype=float)):
        raise ValueError(f"{vals} is not representable as {dtype}")
    if layout == "strided":
        big = np.full(2 * len(a) + 1, 7, dtype=dtype)
        big[1::2] = a
        a = big[1::2]
    elif layout == "readonly":
        a.setflags(write=False)
    return a


def make_rgrid(r, w, rdtype="float64", wdtype="float64", layout="c"):
    from grid.basegrid import OneDGrid

    dom = (0, np.inf) if min(r) >= 0 else None     # a negative point is for AtomGrid to reject, not OneDGrid
    return OneDGrid(make_array(r, rdtype, layout), make_array(w, wdtype, layout), dom)


def make_center(d):
    """centre of a call as the caller passes it: float array (default), list of floats, integer array, list of ints"""
    c, kind = d["center"], d.get("center_kind", "array")
    if c is None:
        return None
    if kind == "list":
        return [float(x) for x in c]
    if kind == "intlist":
        return [int(x) for x in c]
    if kind == "intarray":
        return np.array([int(x) for x in c], dtype=int)
    return np.array(c, dtype=float)


def observe(fn):
    try:
        with warnings.catch_warnings():
            warnings.simplefilter("ignore")
            return ("ok", fn())
    except Exception as e:  # noqa: BLE001 - any exception is an observation
        return ("exc", f"{type(e).__name__}: {str(e)[:100]}")


def grid_obs(g):
    return {"pts": np.array(g.points, dtype=float), "pts0": np.array(g._points, dtype=float),
            "wts": np.array(g.weights, dtype=float), "idx": [int(x) for x in g.indices],
            "degs": [int(x) for x in g.degrees], "size": int(g.size)}


def small_degrees(tabs, meth, limit):
    P = [p for m, p, _ in METHODS if m == meth][0]
    return [d for d, s in sorted(tabs[f"{P}_DEGREES"].items()) if s <= limit]


def rand_radial(rng, n, integer=False):
    """radii and weights in {0, 2^k}; ascending, now and then shuffled / descending; integer-valued on request"""
    ks = sorted(rng.sample(range(0, 6) if integer else range(-4, 5), n))
    r = [2.0 ** k for k in ks]
    if rng.random() < 0.35:
        r[0] = 0.0
    t = rng.random()
    if t < 0.2:
        rng.shuffle(r)
    elif t < 0.3:
        r.reverse()
    w = [rng.choice([0.0, 1.0, 2.0, 4.0, 8.0] if integer else [0.0, 0.125, 0.25, 0.5, 1.0, 2.0, 4.0, 8.0]) for _ in range(n)]
    return r, w


def rand_storage(rng, k=None):
    """(points dtype, weights dtype, layout): the first 16 calls run through every dtype combination"""
    if k is not None and k < 16:
        rd, wd = DTYPES[k // 4], DTYPES[k % 4]
    elif rng.random() < 0.6:
        rd, wd = "float64", "float64"
    else:
        rd, wd = rng.choice(DTYPES), rng.choice(DTYPES)
    return rd, wd, rng.choice(["c", "c", "strided", "readonly"])


def rand_center(rng):
    t = rng.random()
    if t < 0.25:
        return None
    if t < 0.6:
        return [float(rng.randint(-8, 8)) for _ in range(3)]
    return [rng.randint(-40, 40) / 8.0 for _ in range(3)]


def rand_rotate(rng, n):
    t = rng.random()
    if t < 0.35:
        return 0
    if t < 0.8:
        return rng.randint(1, 60)
    if t < 0.9:
        return 2 ** 32 - n - 1                       # largest accepted seed
    return rng.randint(2 ** 20, 2 ** 32 - n - 1)


def rand_request(rng, tabs, meth, n, limit):
    """(kind, values) handed to the constructor; mostly valid, sometimes not resolvable / of the wrong length."""
    P = [p for m, p, _ in METHODS if m == meth][0]
    degs = small_degrees(tabs, meth, limit)
    sizes = [tabs[f"{P}_DEGREES"][d] for d in degs]
    lo = 0
    t = rng.random()
    if t < 0.3:      # one degree for all shells (possibly between two supported ones)
        return ("degrees", [rng.randint(lo, degs[-1])])
    if t < 0.6:
        return ("degrees", [rng.randint(lo, degs[-1]) for _ in range(n)])
    if t < 0.75:
        return ("sizes", [rng.randint(0, sizes[-1])])
    if t < 0.9:
        return ("sizes", [rng.randint(0, sizes[-1]) for _ in range(n)])
    if t < 0.95:     # wrong length
        m = rng.choice([k for k in (0, 2, n - 1, n + 1) if k not in (1, n) and k >= 0])
        return (rng.choice(["degrees", "sizes"]), [degs[0]] * m)
    big = max(tabs[f"{P}_DEGREES"]) + rng.randint(1, 5)
    return ("degrees", [big] if rng.random() < 0.5 else [degs[0]] * (n - 1) + [big])


def requested_degrees(tabs, meth, n, spec):
    """Per-shell degree requests the constructor derives (None if it must raise)."""
    kind, vals = spec
    if kind == "sizes":
        out = []
        for s in vals:
            rs = resolve_size(tabs, meth, s)
            if rs is None:
                return None
            out.append(rs[0])
        vals = out
    if len(vals) == 1:
        vals = list(vals) * n
    if len(vals) != n:
        return None
    if any(resolve_deg(tabs, meth, d) is None for d in vals):
        return None
    return list(vals)


def build_call(spec_d, keep=None):
    """spec_d: dict describing one call; returns (status, grid).  `keep` receives the centre object handed to the call."""
    from grid.atomgrid import AtomGrid

    rg = make_rgrid(spec_d["r"], spec_d["w"], spec_d.get("rdtype", "float64"), spec_d.get("wdtype", "float64"), spec_d.get("layout", "c"))
    kw = {"center": make_center(spec_d), "rotate": spec_d["rotate"], "method": spec_d["method"]}
    kind, vals = spec_d["spec"]
    arg = make_spec_arg(vals, spec_d.get("spec_form", "list")) if (keep is None or "spec" not in keep) else keep["spec"]
    if keep is not None:
        keep["center"] = kw["center"]
        keep["spec"] = arg           # the very object handed to the call (a later call may be given the same object)
    if spec_d["via"] == "init":
        if kind == "sizes":
            return observe(lambda: AtomGrid(rg, degrees=[3], sizes=arg, **kw))
        return observe(lambda: AtomGrid(rg, degrees=arg, **kw))
    rsec = np.array(spec_d["rsec"], dtype=float) if spec_d.get("rsec_form") == "array" else list(spec_d["rsec"])
    if kind == "sizes":
        return observe(lambda: AtomGrid.from_pruned(rg, spec_d["radius"], r_sectors=rsec, d_sectors=None, s_sectors=arg, **kw))
    return observe(lambda: AtomGrid.from_pruned(rg, spec_d["radius"], r_sectors=rsec, d_sectors=arg, **kw))


def make_spec_arg(vals, form):
    """the degree / size request as the caller passes it: list, int64 / int32 ndarray, read-only ndarray"""
    if form == "list":
        return list(vals)
    a = np.array(list(vals), dtype="int32" if form == "int32" else "int64")
    if form == "readonly":
        a.setflags(write=False)
    return a


def reuse_history(sph, tabs, g, d, keep, obs, seen, other_meth):
    """Histories with the caller's request array (only when an ndarray was passed):
       (1) the same array object is handed to a second construction with another angular method: that grid must use the
           least supported degrees not below what the CALLER wrote into the array;
       (2) the caller then refills its array: the first grid's degrees and per-shell grids must not follow.
    Returns a list of (what, text)."""
    arr = keep.get("spec")
    if not isinstance(arr, np.ndarray):
        return []
    out = []
    n = len(d["r"])
    kind, vals = d["spec"]
    if d["via"] == "init":
        req2 = requested_degrees(tabs, other_meth, n, (kind, list(vals)))
        if req2 is not None:
            d2 = dict(d, method=other_meth, rotate=0)
            st2, g2 = build_call(d2, {"spec": arr})
            if st2 == "exc":
                out.append(("reuse_raises", f"a second grid built from the SAME request array with method '{other_meth}' raised {g2}"))
            else:
                center = [0.0, 0.0, 0.0] if d["center"] is None else d["center"]
                v = judge_grid(sph, tabs, other_meth, d["r"], d["w"], req2, np.array(center), 0, grid_obs(g2))
                if v is not None:
                    out.append(("reuse", f"a second grid built from the SAME request array {list(vals)} with method '{other_meth}': {v[1]}"))
    if arr.flags.writeable and len(arr) > 0:
        arr[...] = arr[::-1].copy() + 2          # the caller refills its array for the next atom
        st3, degs_now = observe(lambda: [int(x) for x in g.degrees])
        if st3 == "exc" or degs_now != obs["degs"]:
            out.append(("degrees_follow", f"after the caller refilled its request array the grid reports degrees {degs_now} instead of {obs['degs']}"))
        for i, r_sq, sp, sw in seen:
            st4, sg = observe(lambda: g.get_shell_grid(i, r_sq=r_sq))
            if st4 == "exc" or not (np.array_equal(np.array(sg.points, dtype=float), sp) and np.array_equal(np.array(sg.weights, dtype=float), sw)):
                out.append(("shell_follows", f"after the caller refilled its request array get_shell_grid({i}, r_sq={r_sq}) no longer is the stored shell"))
                break
    return out


def call_text(d):
    ck = d.get("center_kind", "array")
    c = "None" if d["center"] is None else (str([int(x) for x in d["center"]]) + (" (int array)" if ck == "intarray" else " (list)")
                                          if ck in ("intarray", "intlist") else str(d["center"]) + (" (list)" if ck == "list" else ""))
    rd, wd, lay = d.get("rdtype", "float64"), d.get("wdtype", "float64"), d.get("layout", "c")
    sto = "" if (rd, wd, lay) == ("float64", "float64", "c") else f" [points {rd}, weights {wd}" + ("" if lay == "c" else f", {lay} arrays") + "]"
    base = f"rgrid=OneDGrid({d['r']}, {d['w']}, (0, inf)){sto}, center={c}, rotate={d['rotate']}, method='{d['method']}'"
    kind, vals = d["spec"]
    form = d.get("spec_form", "list")
    vtxt = f"{vals}" if form == "list" else f"np.array({vals}, dtype={'int32' if form == 'int32' else 'int64'})" + (" (read-only)" if form == "readonly" else "")
    if d["via"] == "init":
        return f"AtomGrid({'sizes' if kind == 'sizes' else 'degrees'}={vtxt}, {base})"
    rtxt = f"np.array({d['rsec']})" if d.get("rsec_form") == "array" else f"{d['rsec']}"
    return (f"AtomGrid.from_pruned(radius={d['radius']}, r_sectors={rtxt}, "
            f"{'s_sectors' if kind == 'sizes' else 'd_sectors'}={vtxt}, {base})")


def pruned_request(tabs, d):
    """per-shell degree requests of a from_pruned call by the documented rule (None if it must raise)."""
    kind, vals = d["spec"]
    if kind == "sizes":
        ds = []
        for s in vals:
            rs = resolve_size(tabs, d["method"], s)
            if rs is None:
                return None
            ds.append(rs[0])
    else:
        ds = list(vals)
    if len(ds) - len(d["rsec"]) != 1:
        return None
    if any(resolve_deg(tabs, d["method"], x) is None for x in ds):
        return None
    bounds = [Fraction(s) * Fraction(d["radius"]) for s in d["rsec"]]
    return [ds[sum(1 for b in bounds if Fraction(r) > b)] for r in d["r"]]


def read_after_caller_edit(g):
    """History on ONE grid object: read .points, let the caller edit the array it was handed IN PLACE, read everything
    again.  Returns (values of the first read, observation of the second read, problem or None): the property speaks
    about the grid's points, not about the first array the caller happened to receive."""
    first = g.points
    keep = np.array(first, dtype=float, copy=True)
    try:
        first *= -3.0
        first += 1.0
    except ValueError:      # a read-only array was handed out: the caller cannot edit it
        pass
    obs = grid_obs(g)
    prob = None
    if obs["pts"].shape != keep.shape or not np.array_equal(obs["pts"], keep):
        prob = ("reread", "a second read of .points, after the caller edited the array returned by the first read in place, "
                          "differs from the first read (the grid handed out its own state)")
    return keep, obs, prob


def centre_inplace_check(sph, tabs, g, d, req, cobj, shift):
    """History: the float64 array the caller passed as `center` is updated in place after construction.  Whatever centre the
    grid then reports, its points must be that centre + r_i*(p.M_i) and its weights unchanged.  None or (what, text)."""
    if not (isinstance(cobj, np.ndarray) and cobj.dtype == np.float64 and cobj.flags.writeable):
        return None
    cobj += np.array(shift)
    cnow = np.array(g.center, dtype=float)
    obs = grid_obs(g)
    v = judge_grid(sph, tabs, d["method"], d["r"], d["w"], req, cnow, d["rotate"], obs)
    if v is None:
        return None
    return ("centre_inplace", f"after the caller updated its centre array in place by {shift} the grid reports centre {cnow.tolist()} but: {v[1]}")


def judge_shells(sph, g, d, obs):
    """get_shell_grid(i, r_sq) for every shell against the grid's own slices; returns (bad or None, observations)."""
    n, meth, rotate = len(d["r"]), d["method"], d["rotate"]
    bad_shell, seen = None, []
    idx = obs["idx"]
    for i in range(n):
        for r_sq in (True, False):
            st2, sg = observe(lambda: g.get_shell_grid(i, r_sq=r_sq))
            if st2 == "exc":
                bad_shell = bad_shell or (i, r_sq, f"raised {sg}")
                continue
            sp, sw = np.array(sg.points, dtype=float), np.array(sg.weights, dtype=float)
            a, b = idx[i], idx[i + 1]
            scale = max(abs(x) for x in d["r"]) or 1.0
            ew = obs["wts"][a:b] if r_sq else sph.get(meth, obs["degs"][i])[1] * d["w"][i]
            if sp.shape != (b - a, 3) or not close(sp, obs["pts0"][a:b], scale, ulps=0 if rotate == 0 else 64):
                bad_shell = bad_shell or (i, r_sq, "points differ from the grid's shell slice relative to the centre")
            elif not close(sw, ew, 0.0, ulps=4):
                bad_shell = bad_shell or (i, r_sq, "weights differ from " + ("the shell's weights" if r_sq else "w_a*w_i"))
            if finite(sp, sw):
                seen.append((i, r_sq, sp, sw))
            # the caller edits the arrays of the shell grid it received in place and asks for the shell again
            try:
                pa, wa_ = sg.points, sg.weights
                pa += 5.0
                wa_ *= 2.0
            except ValueError:
                pass
            st3, sg2 = observe(lambda: g.get_shell_grid(i, r_sq=r_sq))
            if st3 == "exc" or not (np.array_equal(np.array(sg2.points, dtype=float), sp) and np.array_equal(np.array(sg2.weights, dtype=float), sw)):
                bad_shell = bad_shell or (i, r_sq, "asking for the shell a second time, after the caller edited the first result in place, gives a different shell grid")
    if not (np.array_equal(np.array(g.points, dtype=float), obs["pts"]) and np.array_equal(np.array(g.weights, dtype=float), obs["wts"])):
        bad_shell = bad_shell or (0, True, "editing the arrays of a returned shell grid in place changed the atomic grid's own points/weights")
    for bad_i in (-1, n):
        st2, sg = observe(lambda: g.get_shell_grid(bad_i))
        if st2 != "exc" or not sg.startswith("ValueError"):
            bad_shell = bad_shell or (bad_i, True, "index out of range was not rejected with ValueError")
    return bad_shell, seen


def judge_call(sph, tabs, d):
    """All of the property's checks on one small call; list of (what, text).  Used by the replay."""
    n, meth, rotate = len(d["r"]), d["method"], d["rotate"]
    center = [0.0, 0.0, 0.0] if d["center"] is None else d["center"]
    keep = {}
    req = requested_degrees(tabs, meth, n, tuple(d["spec"])) if d["via"] == "init" else pruned_request(tabs, d)
    if req is not None:     # history before the call: stand-alone angular grids of these degrees were built and edited in place
        sph.prime(meth, [resolve_deg(tabs, meth, x)[0] for x in req])
    st, g = build_call(d, keep)
    rg_ok = n > 0 and all(x >= 0 for x in d["r"])
    rot_ok = isinstance(rotate, int) and 0 <= rotate < 2 ** 32 - n
    must_build = rg_ok and rot_ok and req is not None
    if st == "exc":
        if must_build:
            return [("raises", f"raised {g}; the property requires the product grid")]
        return [] if g.startswith(("ValueError", "TypeError")) else [("raises", f"raised {g} instead of ValueError/TypeError")]
    if not must_build:
        return [("accepted", "invalid arguments were accepted")]
    _, obs, prob = read_after_caller_edit(g)
    out = [prob] if prob else []
    v = judge_grid(sph, tabs, meth, d["r"], d["w"], req, np.array(center), rotate, obs)
    if v is not None:
        return out + [v]
    bs, seen = judge_shells(sph, g, d, obs)
    if bs is not None:
        out.append(("shell_grid", f"get_shell_grid({bs[0]}, r_sq={bs[1]}): {bs[2]}"))
    out += reuse_history(sph, tabs, g, d, keep, obs, seen, d.get("other_method", "lebedev" if meth != "lebedev" else "spherical"))
    ci = centre_inplace_check(sph, tabs, g, d, req, keep.get("center"), d.get("centre_shift", [0.5, -1.25, 2.0]))
    if ci is not None:
        out.append(ci)
    return out


def factorise_check(sph, d):
    """integrate(g(r)*A(direction)) against sum_i w_i r_i^2 g(r_i) * sum_a w_a A(a.M_i); None if the grid is not built /
    its index table is ill-formed (reported elsewhere); else (got, expected, ok)."""
    st, g = build_call(d)
    if st != "ok":
        return None
    obs = grid_obs(g)
    if obs["idx"] != [0] + [int(x) for x in np.cumsum([len(sph.get(d["method"], dg)[0]) for dg in obs["degs"]])] or obs["size"] != obs["idx"][-1]:
        return None
    vals = np.zeros(obs["size"])
    expect = []
    for i, (ri, wi) in enumerate(zip(d["r"], d["w"])):
        pp, ww = sph.get(d["method"], obs["degs"][i])
        dirs = pp @ rot_matrix(d["rotate"] + i) if d["rotate"] != 0 else pp
        aval = dirs[:, 0] ** 2 * dirs[:, 1] + 0.5 * dirs[:, 2] + 0.25
        gval = 1.0 + ri + 0.5 * ri * ri
        vals[obs["idx"][i]:obs["idx"][i + 1]] = gval * aval
        expect.append(Fraction(wi) * Fraction(ri) ** 2 * Fraction(gval) * sum(Fraction(float(x)) * Fraction(float(y)) for x, y in zip(ww, aval)))
    st2, got = observe(lambda: float(g.integrate(vals)))
    tot = float(sum(expect))
    mag = float(sum(abs(e) for e in expect)) + 1e-300
    return got, tot, (st2 == "ok" and abs(got - tot) <= 1e-11 * mag)


# ====================================================================== run
def _run(ctx: Ctx):
    import grid.angular as ga
    import grid.utils as gu

    from grid.atomgrid import AtomGrid, _get_rgrid_size

    gen_err, coq_ok = None, False
    try:
        tabs, cfg, params, presets = gen(ctx)
    except Exception as e:  # noqa: BLE001 - the extraction fails closed: the tie is broken, but the implementation is still searched
        gen_err = e
        ctx._tie = ("translator(atomgrid.py / angular.py / utils.py / data/prune_grid -> C05_gen.v)", e)
        tabs = {f"{P}_{kind}": dict(getattr(ga, f"{P}_{kind}")) for _, P, _ in METHODS for kind in ("NPOINTS", "DEGREES")}
        cfg, params = None, dict(gu._DEFAULT_POWER_RTRANSFORM_PARAMS)
        try:
            presets = load_presets()
        except Exception:  # noqa: BLE001
            presets = {}
    if gen_err is None:
        # translation validation of the extracted constants against the imported modules
        for _, P, _ in METHODS:
            for kind in ("NPOINTS", "DEGREES"):
                if list(getattr(ga, f"{P}_{kind}").items()) != list(tabs[f"{P}_{kind}"].items()):
                    ctx.fail("gen_tables", f"table:{P}_{kind}", None, f"extracted table {P}_{kind} differs from the imported module's", found_input=False)
        if dict(gu._DEFAULT_POWER_RTRANSFORM_PARAMS) != params:
            ctx.fail("gen_tables", "table:_DEFAULT_POWER_RTRANSFORM_PARAMS", None, "extracted default radial parameters differ from the imported module's", found_input=False)
        ctx.copy_coq("C05")
        status = ctx.coq_build()
        ctx.register_props(status)
        broken = [f for f in ("C05_model.v", "C05_model_exec.v", "C05_gen.v") if not status.get(f, False)]
        if broken:
            ctx._tie = (f"model build ({', '.join(broken)})", RuntimeError(ctx.logs.get(broken[0], "")[-300:]))
        else:
            coq_ok = True

    import time as _time

    phases = ctx.cov.setdefault("phase_s", {})
    t_last = [ctx.t0]

    def lap(name):
        phases[name] = round(_time.time() - t_last[0], 1)
        t_last[0] = _time.time()

    lap("gen+build")
    rng = ctx.rng
    sph = Spheres(ctx, tabs)
    for m_, _, _ in METHODS:    # history before every construction below: stand-alone angular grids built and edited in place by a user
        sph.prime(m_, small_degrees(tabs, m_, 72 if m_ == "ahrens_beylkin" else 50))
    pending = ctx._pending   # (size, obligation, key, observed, text, replay, found); flushed by run() even if a later step raises

    # the decidable build condition of the model for every tabulated (preset, element): which pairs does the model
    # (with the constants and tables of the current source) predict to be unbuildable?
    all_pairs = [(p, a) for p in presets for a in presets[p]["rows"]]
    okb_cases = [f"match find_row preset_tables {coq_str(p)} {z(a)} with Some row => "
                 f"preset_okb QOps dtab ntab impl_cfg preset_tables Lebedev {coq_str(p)} {z(a)} row | None => false end" for p, a in all_pairs]
    model_bad = [all_pairs[i] for i in ctx.coq_bool_cases("C05_okb", HEADER0, okb_cases, shard=350)] if coq_ok else []
    ctx.cov["model_unbuildable_pairs"] = [f"{p}/{a}" for p, a in model_bad]
    lap("okb")

    def report(size, obligation, key, observed, text, replay, found=True):
        pending.append((size, obligation, key, observed, text, replay, found))

    defs, cases, meta = [], [], []

    def case(expr, m):
        cases.append(expr)
        meta.append(m)

    LIMIT = 50
    seeds_used = set()

    # ------------------------------------------------------------------ A. constructor / from_pruned on small grids
    n_small = 60 if ctx.quick else 1400
    n_pruned = 32 if ctx.quick else 800
    calls = []
    meths = [m for m, _, _ in METHODS]
    for k in range(n_small):
        meth = meths[k % 4] if k < 16 else rng.choice(["lebedev", "lebedev", "spherical", "maxdet", "ahrens_beylkin"])
        n = rng.randint(1, 4)
        lim = 72 if meth == "ahrens_beylkin" else LIMIT
        if meth == "ahrens_beylkin":
            n = min(n, 2)
        rd, wd, lay = rand_storage(rng, k)
        integer = rd.startswith("int") or wd.startswith("int")
        r, w = rand_radial(rng, n, integer)
        rot = rand_rotate(rng, n)
        if k % 23 == 7:
            rot = rng.choice([-1, 2 ** 32 - n, 2 ** 32])      # rejected seeds
        if k % 29 == 11:
            r[rng.randrange(n)] = -1.0 if integer else -0.5   # rejected radial grid
        calls.append({"via": "init", "method": meth, "r": r, "w": w, "spec": rand_request(rng, tabs, meth, n, lim),
                      "center": rand_center(rng), "rotate": rot, "rdtype": rd, "wdtype": wd, "layout": lay})
    for k in range(n_pruned):
        meth = rng.choice(["lebedev", "lebedev", "spherical", "maxdet"])
        n = rng.randint(2, 5)
        rd, wd, lay = rand_storage(rng)
        r, w = rand_radial(rng, n, rd.startswith("int") or wd.startswith("int"))
        radius = rng.choice([0.5, 1.0, 1.5, 2.0, 0.75])
        ns = rng.randint(0, 3)
        # sector bounds such that radius*bound hits radial points exactly now and then (tests > versus >=)
        cand = sorted({x / radius for x in r if x > 0} | {2.0 ** j for j in range(-3, 3)})
        cand = [c for c in cand if Fraction(c) * Fraction(radius) == Fraction(float(c) * radius)]
        rsec = sorted(rng.sample(cand, min(ns, len(cand))))
        if rng.random() < 0.15:
            rng.shuffle(rsec)
        P = [p for m, p, _ in METHODS if m == meth][0]
        degs = small_degrees(tabs, meth, LIMIT)
        if rng.random() < 0.6:
            spec = ("degrees", [rng.randint(0, degs[-1]) for _ in range(len(rsec) + 1)])
        else:
            spec = ("sizes", [rng.randint(0, tabs[f"{P}_DEGREES"][degs[-1]]) for _ in range(len(rsec) + 1)])
        if rng.random() < 0.08:
            spec = (spec[0], spec[1] + [degs[0]])              # one sector degree too many
        calls.append({"via": "pruned", "method": meth, "r": r, "w": w, "spec": spec, "radius": radius, "rsec": rsec,
                      "center": rand_center(rng), "rotate": rand_rotate(rng, n), "rdtype": rd, "wdtype": wd, "layout": lay})
    for d in calls:      # how the caller hands over the centre: float array, list, integer array, list of ints
        c = d["center"]
        kinds = ["array", "array", "list"] + (["intarray", "intlist"] if c is not None and all(float(x).is_integer() for x in c) else [])
        d["center_kind"] = "array" if c is None else rng.choice(kinds)
        # how the caller hands over the degree / size request and the sector bounds: list or ndarray
        d["spec_form"] = rng.choice(["list", "list", "int64", "int64", "int32", "readonly"])
        if d["via"] == "pruned":
            d["rsec_form"] = rng.choice(["list", "array"])

    def do_call(ci, d):
        n = len(d["r"])
        meth, rotate = d["method"], d["rotate"]
        center = [0.0, 0.0, 0.0] if d["center"] is None else d["center"]
        keep = {}
        st, g = build_call(d, keep)
        key = call_text(d)
        ctx.case(("call", key))
        ctx.count(f"{d['via']}:{meth}:{'rot' if rotate else 'norot'}:{d['spec'][0]}")
        ctx.count(f"storage:points={d['rdtype']}:weights={d['wdtype']}")
        ctx.count(f"storage:layout={d['layout']}:centre={d['center_kind']}")
        rg_ok = n > 0 and all(x >= 0 for x in d["r"])
        rot_ok = isinstance(rotate, int) and 0 <= rotate < 2 ** 32 - n
        req = (requested_degrees(tabs, meth, n, d["spec"]) if d["via"] == "init" else pruned_request(tabs, d))
        must_build = rg_ok and rot_ok and req is not None
        # ---- model side
        rname = f"rot{ci}"
        seeds = [rotate + i for i in range(n)] if (rot_ok and rotate != 0) else []
        seeds_used.update(seeds)
        defs.append(rot_defs(rname, seeds))
        cvec = qv(center)
        ctor = CTOR[meth]
        if d["via"] == "init":
            mk = lambda ang, ro: (f"atomgrid_init QOps dtab ntab {ang} {ro} {ctor} {coq_rg(d['r'], d['w'])} "  # noqa: E731
                                  f"{coq_spec(d['spec'])} {cvec} {z(rotate)}")
        else:
            mk = lambda ang, ro: (f"from_pruned QOps dtab ntab {ang} {ro} {ctor} {coq_rg(d['r'], d['w'])} {q_bigq(d['radius'])} "  # noqa: E731
                                  f"{ql(d['rsec'])} {coq_spec(d['spec'])} {cvec} {z(rotate)}")
        defs.append(f"Definition g{ci} := {mk('angf', rname)}.\nDefinition ga{ci} := {mk('angabs', rname + '_abs')}.")
        if st == "exc":
            if must_build:
                report(n, "corr_constructor", key, g.split(":")[0], f"{key} raised {g}; the property requires the product grid", {"call": d})
            elif not (g.startswith("ValueError") or g.startswith("TypeError")):
                report(n, "corr_constructor", key, g.split(":")[0], f"{key} raised {g} instead of rejecting the arguments with ValueError/TypeError", {"call": d})
            case(f"is_none g{ci}", {"kind": "rejects", "call": d, "key": key, "exc": g})
            return
        if not must_build:
            report(n, "corr_constructor", key, "accepted", f"{key} was accepted although the arguments are invalid", {"call": d})
            case(f"negb (is_none g{ci})", {"kind": "accepts", "call": d, "key": key})
            return
        # history on this one object: first read, caller edits the returned array in place, everything is read again;
        # the values compared with the model and judged by the product formula are those of the SECOND read
        _, obs, prob = read_after_caller_edit(g)
        if prob is not None:
            report(n, "shell_points_weights", key + "  [read .points, edit the returned array in place, read again]", prob[0], f"{key}: {prob[1]}",
                   {"call": d, "history": "reread"})
        for dg in set(obs["degs"]):
            sph.need(meth, dg)
        if not finite(obs["pts"], obs["pts0"], obs["wts"]):
            report(n, "corr_constructor", key, "nonfinite", f"{key}: non-finite points or weights", {"call": d})
            return
        verdict = judge_grid(sph, tabs, meth, d["r"], d["w"], req, np.array(center), rotate, obs)
        if verdict is not None:
            report(n, "shell_points_weights" if verdict[0] in ("points", "points0", "weights") else
                   ("indices_delimit" if verdict[0] in ("indices", "size") else ("pruned_lookup" if d["via"] == "pruned" else "never_coarser")),
                   key, verdict[0], f"{key}: {verdict[1]}", {"call": d, "what": verdict[0]})
        rotated = "true" if rotate != 0 else "false"
        ob = (f"(Obs {qpts(obs['pts'])} {qpts(obs['pts0'])} {ql(obs['wts'])} {zl(obs['idx'])} {zl(obs['degs'])})")
        case(f"match g{ci}, ga{ci} with Some g, Some ga => grid_matches {rotated} g ga {ob} | _, _ => false end",
             {"kind": "grid", "call": d, "key": key, "judged_bad": verdict is not None})
        # ---- shell grids
        bad_shell, seen = judge_shells(sph, g, d, obs)
        exp_idx = obs["idx"]
        parts = [f"shell_matches {rotated} (get_shell_grid QOps dtab angf {rname} g {i} {'true' if r_sq else 'false'}) "
                 f"(get_shell_grid QOps dtab angabs {rname}_abs ga {i} {'true' if r_sq else 'false'}) {qpts(sp)} {ql(sw)}"
                 for i, r_sq, sp, sw in seen]
        parts += [f"is_none (get_shell_grid QOps dtab angf {rname} g {z(bad_i)} true)" for bad_i in (-1, n)]
        if bad_shell is not None:
            i, r_sq, why = bad_shell
            report(n, "shell_grid_consistent", f"{key}.get_shell_grid({i}, r_sq={r_sq})", why, f"{key}.get_shell_grid({i}, r_sq={r_sq}): {why}",
                   {"call": d, "index": i, "r_sq": r_sq})
        case(f"match g{ci}, ga{ci} with Some g, Some ga => " + " && ".join(parts) + " | _, _ => false end",
             {"kind": "shells", "call": d, "key": key, "judged_bad": bad_shell is not None})
        ctx.case(("shells", key), traces=2 * n)
        # ---- reproducibility and translation
        st3, g2 = build_call(d)
        if st3 != "ok" or not (np.array_equal(g2.points, obs["pts"]) and np.array_equal(g2.weights, obs["wts"])):
            report(n, "rotation_keeps_radii", key + " (twice)", "differs", f"{key}: constructing the grid twice gives different points/weights", {"call": d})
        shift = [rng.randint(-4, 4) / 4.0 for _ in range(3)]
        d2 = dict(d, center=[c + s for c, s in zip(center, shift)], center_kind="array")
        st4, g3 = build_call(d2)
        if st4 != "ok" or not np.array_equal(g3.weights, obs["wts"]) or not close(g3.points, obs["pts"] + np.array(shift), max(map(abs, center)) + 8.0, ulps=8):
            report(n, "translate", call_text(d2), "differs", f"{call_text(d2)}: moving the centre by {shift} does not translate the points / changes the weights", {"call": d2, "shift": shift})
        # radii unchanged by rotation
        rad = np.linalg.norm(obs["pts0"], axis=1)
        for i in range(n):
            a, b = exp_idx[i], exp_idx[i + 1]
            if np.max(np.abs(rad[a:b] - d["r"][i]), initial=0.0) > 1e-12 * max(1.0, d["r"][i]):
                report(n, "rotation_keeps_radii", key + f" shell {i}", float(np.max(np.abs(rad[a:b] - d["r"][i]))),
                       f"{key}: points of shell {i} are not at distance r_i = {d['r'][i]} from the centre", {"call": d, "shell": i})
                break
        # histories with the caller's request array: reuse for a second grid with another method, then refill
        other = rng.choice([m for m in ("lebedev", "spherical", "maxdet", "ahrens_beylkin") if m != meth and (m != "ahrens_beylkin" or n <= 2)])
        for what, text in reuse_history(sph, tabs, g, d, keep, obs, seen, other):
            report(n, "never_coarser" if what.startswith("reuse") else "shell_grid_consistent",
                   key + f"  [request array reused with method '{other}', then refilled by the caller]", what, f"{key}: {text}",
                   {"call": dict(d, other_method=other), "history": what})
        # history: the caller updates the float64 array it passed as centre in place
        cshift = [rng.randint(-6, 6) / 4.0 for _ in range(3)]
        civ = centre_inplace_check(sph, tabs, g, d, req, keep.get("center"), cshift)
        if civ is not None:
            report(n, "translate", key + f"  [then the centre array is updated in place by {cshift}]", civ[0], f"{key}: {civ[1]}",
                   {"call": dict(d, centre_shift=cshift), "history": "centre_inplace"})
        if ci < 4:
            ctx.sample({"call": key, "degrees": obs["degs"], "indices": obs["idx"], "first_point": obs["pts"][0].tolist(), "first_weight": float(obs["wts"][0])})
    for ci, d in enumerate(calls):
        try:
            do_call(ci, d)
        except Exception as e:  # noqa: BLE001 - the implementation raised inside one of the reads / histories of this call
            report(len(d["r"]), "corr_constructor", call_text(d) + "  [reads and histories]", type(e).__name__,
                   f"{call_text(d)}: reading the grid / running the histories raised {type(e).__name__}: {str(e)[:120]}", {"call": d})
    ctx.cov["small_calls"] = len(calls)
    lap("small")

    # ------------------------------------------------------------------ B. sector lookup called directly
    n_lookup = 60 if ctx.quick else 1500
    for k in range(n_lookup):
        n = rng.randint(1, 6)
        rp = [rng.choice([0.0] + [2.0 ** j for j in range(-3, 4)] + [1.5, 3.0, 0.75]) for _ in range(n)]
        ns = rng.randint(0, 4)
        rs = sorted(rng.choice([2.0 ** j for j in range(-3, 4)] + [1.5, 3.0, 0.75]) for _ in range(ns))
        if rng.random() < 0.2:
            rng.shuffle(rs)
        nd = ns + 1 if rng.random() < 0.8 else rng.randint(0, ns + 2)
        ds = [rng.randint(0, 60) for _ in range(nd)]
        st, v = observe(lambda: [int(x) for x in AtomGrid._find_degrees_for_radial_points(np.array(rp), np.array(rs, dtype=float), np.array(ds, dtype=int))])
        key = f"AtomGrid._find_degrees_for_radial_points({rp}, {rs}, {ds})"
        ctx.case(("lookup", key))
        exp = None
        pos = [sum(1 for b in rs if x > b) for x in rp]
        if all(p < nd for p in pos):
            exp = [ds[p] for p in pos]
        if st == "ok":
            case(f"match find_degrees QOps {ql(rp)} {ql(rs)} {zl(ds)} with Some l => zlist_eqb l {zl(v)} | None => false end",
                 {"kind": "lookup", "key": key})
            if v != exp:
                report(n, "sector_lookup_in_range", key, str(v), f"{key} = {v}; #{{sectors with r > r_s}} gives {exp}", {"rpts": rp, "rsec": rs, "dsec": ds, "expected": exp})
        else:
            case(f"is_none (find_degrees QOps {ql(rp)} {ql(rs)} {zl(ds)})", {"kind": "lookup", "key": key})
            if exp is not None:
                report(n, "sector_lookup_in_range", key, v.split(":")[0], f"{key} raised {v}; expected {exp}", {"rpts": rp, "rsec": rs, "dsec": ds, "expected": exp})
    ctx.count("sector_lookup_calls", n_lookup)

    # ------------------------------------------------------------------ C. every preset x element is constructed
    # The property reads the data file: an integer "<Z>_rad" column holds shell counts (the radial grid must have their sum
    # of points), a float column holds sector radii.  Which route the code takes is the code's business.
    if ctx.quick:
        pick = set(LISTED_BAD) | set(model_bad)
        for p in presets:
            ats = sorted(presets[p]["rows"])
            corpus = [a for a in (1, 2, 14, 18, 19, 20, 36, 57, 86, ats[-1]) if a in presets[p]["rows"]]
            extra = rng.sample(ats, min(4, len(ats)))
            for a in corpus + extra:
                pick.add((p, a))
        pairs = [pa for pa in all_pairs if pa in pick]
    else:
        pairs = all_pairs
    built_failures = {}

    def prescribed(p, a):
        st, v = observe(lambda: _get_rgrid_size(p, a))
        return int(v[0]) if st == "ok" and isinstance(v[0], (int, np.integer)) else None

    def geometric_grid(n):
        top = 70.0
        rpts = [0.0] + [float(2.0 ** (-8 + (np.log2(top) + 8) * k / (n - 1))) for k in range(1, n)] if n > 1 else [1.0]
        return rpts, [float(1 + (k % 3)) / 4 for k in range(n)], f"rgrid=<{n} points 0, 2^-8..70 geometric>"

    def sector_grid(rad):
        """r = 0, a node inside every sector, beyond the last bound, and on some bounds (the inner sector owns its bound)"""
        bs = sorted(float(x) for x in rad)
        nodes = {0.0, bs[0] / 2, bs[-1] * 1.25, bs[-1] * 3.0}
        for x, y in zip(bs, bs[1:]):
            nodes.add((x + y) / 2)
        nodes.update(bs[::3])
        rpts = sorted(nodes)
        return rpts, [float(1 + (k % 4)) / 8 for k in range(len(rpts))], f"rgrid=<{len(rpts)} points: 0, one inside every sector, some on the sector bounds>"

    # jobs: (preset, element, method, grid kind, centre, rotate)
    jobs = []
    for (p, a) in pairs:
        kind = presets[p]["rows"][a][0]
        meth = "lebedev" if (ctx.quick or rng.random() < 0.8) else rng.choice(["spherical", "maxdet", "ahrens_beylkin"])
        gk = "default" if (kind == "F" and a in params and (p, a) not in model_bad and rng.random() < 0.5) else ("geometric" if kind == "I" or rng.random() < 0.5 else "sector")
        jobs.append((p, a, meth, gk, rand_center(rng), 0 if rng.random() < 0.7 else rng.randint(1, 1000), True))
    # every preset with the three non-default angular methods: a node in every sector incl. r = 0, off-origin centre
    n_el = 2 if ctx.quick else 12
    for p in presets:
        ats = sorted(presets[p]["rows"])
        first = [a for a in (1, 8, 18, 26) if a in presets[p]["rows"]][:1]
        els = first + rng.sample([a for a in ats if a not in first], min(n_el - len(first), len(ats) - len(first)))
        for a in els:
            for meth in ("spherical", "maxdet", "ahrens_beylkin"):
                kind = presets[p]["rows"][a][0]
                cen = [rng.choice([-1, 1]) * rng.randint(1, 40) / 8.0 for _ in range(3)]
                jobs.append((p, a, meth, "geometric" if kind == "I" else "sector", cen, 0 if rng.random() < 0.6 else rng.randint(1, 1000), False))
    ctx.cov["preset_pairs_total"] = len(all_pairs)
    ctx.cov["preset_pairs_constructed"] = len(pairs)
    ctx.cov["preset_constructions"] = len(jobs)

    def do_job(job):
        (p, a, meth, gk, center, rotate, first_visit) = job
        kind, rad, npt = presets[p]["rows"][a]
        is_count = kind == "I"
        cen = np.zeros(3) if center is None else np.array(center)
        n_pre = prescribed(p, a)
        if first_visit:      # _get_rgrid_size against the model
            ctx.case(("rgrid_size", p, a))
            case(f"match get_rgrid_size impl_cfg preset_tables {coq_str(p)} {z(a)} with Some n => "
                 + (f"n =? {n_pre}" if n_pre is not None else "false") + " | None => " + ("false" if n_pre is not None else "true") + " end",
                 {"kind": "rgrid_size", "key": f"_get_rgrid_size('{p}', {a})", "obs": n_pre})
            want_n = (sum(int(x) for x in presets[p]["r_points"]) if (presets[p]["r_points"] is not None and is_count and p == "sg_1")
                      else (sum(int(x) for x in rad) if is_count else None))
            if is_count and n_pre != want_n:
                report(0, "corr_rgrid_size", f"_get_rgrid_size('{p}', {a})", n_pre, f"_get_rgrid_size('{p}', {a}) = {n_pre}, the data file prescribes {want_n} radial points",
                       {"reproduce": f"_get_rgrid_size('{p}', {a})"})
        use_default = gk == "default"
        if use_default:
            st, g = observe(lambda: AtomGrid.from_preset(a, p, None, center=cen, rotate=rotate, method=meth))
            rdesc = "rgrid=None"
            rpts = [float(x) for x in g.rgrid.points] if st == "ok" else None
            rw = [float(x) for x in g.rgrid.weights] if st == "ok" else None
            n = params[a][2]
            if st == "ok" and len(rpts) != params[a][2]:
                report(n, "corr_default_rgrid", f"AtomGrid.from_preset({a}, '{p}').rgrid.size", len(rpts),
                       f"default radial grid of element {a} has {len(rpts)} points, the parameter table says {params[a][2]}", {"atnum": a, "preset": p})
        else:
            if is_count:
                rpts, rw, rdesc = geometric_grid(n_pre if n_pre is not None else sum(int(x) for x in rad))
            elif gk == "sector" and len(rad) > 0:
                rpts, rw, rdesc = sector_grid(rad)
            else:
                rpts, rw, rdesc = geometric_grid(rng.randint(12, 40))
            n = len(rpts)
            st, g = observe(lambda: AtomGrid.from_preset(a, p, make_rgrid(rpts, rw), center=cen, rotate=rotate, method=meth))
        key = f"AtomGrid.from_preset(atnum={a}, preset='{p}', {rdesc}, center={center}, rotate={rotate}, method='{meth}')"
        ctx.case(("preset", p, a, meth, gk))
        ctx.count(f"preset:{'count' if is_count else 'radius'}:{meth}")
        rp = {"atnum": a, "preset": p, "rgrid_points": rpts, "rgrid_weights": rw, "center": center, "rotate": rotate, "method": meth,
              "default_rgrid": use_default}
        if st == "exc":
            built_failures[(p, a)] = g
            if rpts is not None:
                case(f"is_none (light_preset dtab ntab QOps impl_cfg preset_tables {CTOR[meth]} {z(a)} {coq_str(p)} {ql(rpts)})",
                     {"kind": "preset_none", "key": key, "pair": (p, a), "exc": g})
            if (p, a) not in LISTED_BAD:
                for ob in ("presets_bad_rows_listed", "presets_build_partial"):
                    report(n, ob, key, g.split(":")[0], f"{key} raised {g}: a tabulated element cannot be built", rp)
            return
        _, obs, prob = read_after_caller_edit(g)
        if prob is not None:
            report(len(rpts), "shell_points_weights", key + "  [read .points, edit the returned array in place, read again]", prob[0], f"{key}: {prob[1]}", rp)
        case(f"opt_pair_eqb (light_preset dtab ntab QOps impl_cfg preset_tables {CTOR[meth]} {z(a)} {coq_str(p)} {ql(rpts)}) "
             f"(Some ({zl(obs['degs'])}, {zl(obs['idx'])}))", {"kind": "preset", "key": key, "pair": (p, a)})
        bad = judge_preset(sph, tabs, presets[p]["rows"][a], meth, rpts, rw, cen, rotate, obs)
        if bad is not None:
            for ob in (("presets_build_partial", "presets_bad_rows_listed") if bad[0] in ("length", "coarser") else
                       (("presets_build_partial",) if bad[0] == "degrees" else ("shell_points_weights",))):
                report(len(rpts), ob, key, bad[0], f"{key}: {bad[1]}", rp)
    for job in jobs:
        try:
            do_job(job)
        except Exception as e:  # noqa: BLE001
            kj = f"AtomGrid.from_preset(atnum={job[1]}, preset='{job[0]}', method='{job[2]}', center={job[4]}, rotate={job[5]})  [reads and histories]"
            report(0, "presets_build_partial", kj, type(e).__name__, f"{kj}: reading the grid raised {type(e).__name__}: {str(e)[:120]}",
                   {"atnum": job[1], "preset": job[0], "method": job[2]})
    # default radial grid exists exactly for the tabulated parameter rows
    for a in range(1, 101):
        p = next((q for q in ("fine", "coarse", "sg_1") if q in presets and a in presets[q]["rows"] and presets[q]["rows"][a][0] == "F"), None)
        if p is None:
            continue
        st, g = observe(lambda: AtomGrid.from_preset(a, p, None).rgrid.size)
        ctx.case(("default", a))
        case(f"match lookup_z {z(a)} default_params with Some (_, _, n) => " + (f"n =? {int(g)}" if st == "ok" else "false")
             + " | None => " + ("false" if st == "ok" else "true") + " end", {"kind": "default", "key": f"AtomGrid.from_preset({a}, '{p}').rgrid.size", "obs": str(g)})
        if (st == "ok") != (a in params) or (st == "exc" and not g.startswith("ValueError")):
            report(0, "corr_default_rgrid", f"AtomGrid.from_preset({a}, '{p}')", str(g)[:60],
                   f"from_preset({a}, '{p}') with the default radial grid gave {g}; parameter row present: {a in params}", {"atnum": a, "preset": p})

    lap("presets")
    # ------------------------------------------------------------------ D. directed witnesses of the two unbuildable elements
    from grid.basegrid import OneDGrid

    witnesses = [
        ("sg_1", 19, SG1_KEY, lambda: OneDGrid(1.5 * np.arange(1, 51), np.ones(50), (0, np.inf)),
         "count_row_in_radius_branch_refuted",
         "potassium's SG-1 row is a shell-count row ([50] shells of 194 points) but the branch test `atnum > 19` sends it down the "
         "sector-radius route, where 50 is read as a radius and the single size as two sectors"),
        ("sg_3", 14, SG3_KEY, lambda: OneDGrid(0.25 * np.arange(1, 100), np.ones(99), (0, np.inf)),
         "short_npt_refuted", "silicon's SG-3 row has 6 shell counts (sum 99) but only 5 sizes"),
    ]
    for p, a, key, mk, thm, why in witnesses:
        if p not in presets or a not in presets[p]["rows"]:
            continue
        rgw = mk()
        st, g = observe(lambda: AtomGrid.from_preset(atnum=a, preset=p, rgrid=rgw))
        ctx.case(("witness", p, a))
        rpts = [float(x) for x in rgw.points]
        kind, rad, npt = presets[p]["rows"][a]
        # do the hypotheses of the *_refuted theorem hold for the current source and data?  (decided inside Coq)
        if thm == "count_row_in_radius_branch_refuted":
            hyp = (f"negb (count_branch impl_cfg {coq_str(p)} {z(a)}) && match find_row preset_tables {coq_str(p)} {z(a)} with "
                   f"Some (PRow (RadI [c]) [s]) => existsb (fun r => bigQ_ltb (BigQ.Qz (BigZ.of_Z c)) r) {ql(rpts)} | _ => false end")
        else:
            hyp = (f"count_branch impl_cfg {coq_str(p)} {z(a)} && match find_row preset_tables {coq_str(p)} {z(a)} with "
                   f"Some row => is_none (sector_sizes row) | None => false end")
        case(hyp if st == "exc" else f"negb ({hyp})", {"kind": "witness_hyp", "key": key, "thm": thm, "raised": st == "exc"})
        case((f"is_none" if st == "exc" else "negb (is_none") + f" (light_preset dtab ntab QOps impl_cfg preset_tables Lebedev {z(a)} {coq_str(p)} {ql(rpts)})"
             + ("" if st == "exc" else ")"), {"kind": "witness_model", "key": key, "raised": st == "exc"})
        if st == "exc":
            report(0, "presets_bad_rows_listed", key, g.split(":")[0],
                   f"{key} raises {g}: {why}; the property requires a grid of {len(rpts)} shells", {"reproduce": key, "theorem": thm, "row": {"rad": rad, "npt": npt}})
        else:
            badw = judge_preset(sph, tabs, presets[p]["rows"][a], "lebedev", rpts, [1.0] * len(rpts), np.zeros(3), 0, grid_obs(g))
            if badw is not None:
                report(0, "presets_build_partial", key, badw[0], f"{key}: {badw[1]}", {"reproduce": key})
        ctx.notes.append(f"witness {p}/{a}: " + ("raises " + g if st == "exc" else "builds"))

    # ------------------------------------------------------------------ E. hypotheses validated numerically; factorisation
    worst_orth = 0.0
    for s in sorted(seeds_used)[:400] + [rng.randint(0, 2 ** 32 - 1) for _ in range(50)]:
        M = rot_matrix(s)
        err = float(np.max(np.abs(M @ M.T - np.eye(3))))
        worst_orth = max(worst_orth, err)
        if err > 1e-14 or np.linalg.det(M) < 0.999:
            report(0, "rot_orth", f"Rotation.random(random_state={s}).as_matrix()", err, f"rotation oracle for seed {s} is not orthogonal (|M M^T - I| = {err})", {"seed": s})
        if not np.array_equal(M, rot_matrix(s)):
            report(0, "rot_orth", f"Rotation.random(random_state={s}) twice", "differs", f"rotation oracle for seed {s} is not reproducible", {"seed": s})
    ctx.cov["rot_orth_worst"] = worst_orth
    worst_unit = 0.0
    for (meth, deg), (pp, ww) in sorted(sph.data.items()):
        rs = resolve_deg(tabs, meth, deg)
        if rs is None or rs[0] != deg or len(pp) != rs[1] or len(ww) != rs[1] or pp.shape != (rs[1], 3):
            report(0, "ang_wf", f"AngularGrid(degree={deg}, method='{meth}')", f"{pp.shape}/{ww.shape}",
                   f"AngularGrid(degree={deg}, method='{meth}') has {pp.shape} points / {ww.shape} weights, the table says {rs}", {"method": meth, "degree": deg})
        worst_unit = max(worst_unit, float(np.max(np.abs(np.linalg.norm(pp, axis=1) - 1.0))))
    ctx.cov["sphere_unit_norm_worst"] = worst_unit
    ctx.cov["spheres_checked"] = len(sph.data)
    if worst_unit > 1e-10:
        ctx.notes.append(f"angular nodes deviate from the unit sphere by {worst_unit:.2e} (property C02 covers the angular data)")
    # factorisation of integrate() for g(r) * A(direction), on a few of the grids built above
    n_fac = 0
    for d in calls:
        if n_fac >= (12 if ctx.quick else 80):
            break
        if d["via"] != "init":
            continue
        res = factorise_check(sph, d)
        if res is None:
            continue
        n_fac += 1
        ctx.case(("factorise", call_text(d)))
        got, tot, okf = res
        if not okf:
            report(len(d["r"]), "factorise", call_text(d) + ".integrate(g(r)*A(dir))", str(got),
                   f"{call_text(d)}: integrate(g(r)*A(direction)) = {got}, sum_i w_i r_i^2 g(r_i) sum_a w_a A(a.M_i) = {tot}", {"call": d, "expected": tot})

    lap("witness+numeric")
    # ------------------------------------------------------------------ F. model versus implementation, inside Coq
    bad = []
    if coq_ok:
        # shared definitions (angular grids, rotation oracles, model grids) are compiled once; the case files import them
        ok, out = ctx.coq_run("C05_casedefs.v", HEADER0 + sph.header() + "\n".join(defs) + "\n", timeout=900)
        if not ok:
            ctx.logs["C05_casedefs.v"] = out[-3000:]
            raise RuntimeError("case definitions do not compile: " + out[-400:])
        hdr = HEADER0 + "From P Require Import C05_casedefs.\n"
        bad = ctx.coq_bool_cases("C05_cases", hdr, cases, shard=max(8, len(cases) // 32 + 1), timeout=1500)
    lap("coq_cases")
    judged = {(pe[1], pe[2]) for pe in pending}
    for i in bad:
        m = meta[i]
        kind = m["kind"]
        if kind in ("grid", "shells"):
            if not m["judged_bad"]:
                report(99, "corr_model_" + kind, "model:" + kind + ":" + m["key"], None,
                       f"model and implementation disagree on {m['key']} ({kind}) although the implementation matches the product formula",
                       {"call": m["call"]}, found=False)
        elif kind in ("rejects", "accepts"):
            if not any(k == m["key"] for _, k in judged):
                report(99, "corr_constructor", m["key"], m.get("exc", "accepted").split(":")[0],
                       f"{m['key']}: the implementation {'rejects' if kind == 'rejects' else 'accepts'} the call, the model does not", {"call": m["call"]})
        elif kind == "lookup":
            if not any(k == m["key"] for _, k in judged):
                report(99, "corr_model_lookup", "model:" + m["key"], None, f"model and implementation disagree on {m['key']}", {}, found=False)
        elif kind == "rgrid_size":
            report(0, "corr_rgrid_size", m["key"], m["obs"], f"{m['key']} = {m['obs']} differs from the sum of the tabulated shell counts", {"reproduce": m["key"]})
        elif kind == "default":
            report(0, "corr_default_rgrid", m["key"], m["obs"], f"{m['key']} = {m['obs']} disagrees with _DEFAULT_POWER_RTRANSFORM_PARAMS", {"reproduce": m["key"]})
        elif kind == "preset":
            if not any(k == m["key"] for _, k in judged):
                report(99, "corr_model_preset", "model:" + m["key"], None,
                       f"model and implementation disagree on the degrees/indices of {m['key']} although no shell is coarser than tabulated", {}, found=False)
        elif kind == "preset_none":
            if tuple(m["pair"]) in LISTED_BAD:
                report(99, "corr_model_preset", "model:" + m["key"], m["exc"].split(":")[0],
                       f"{m['key']} raised {m['exc']} but the model builds a grid", {}, found=False)
        elif kind == "witness_hyp":
            ctx.notes.append(f"{m['key']}: the hypotheses of {m['thm']} " + ("do not hold although the call raises" if m["raised"] else "hold although the call builds"))
            report(0, "corr_witness", "witness-hyp:" + m["key"], None,
                   f"{m['key']}: behaviour and the hypotheses of theorem {m['thm']} disagree", {}, found=False)
        elif kind == "witness_model":
            report(0, "corr_witness", "witness-model:" + m["key"], None, f"{m['key']}: model and implementation disagree on whether the call raises", {}, found=False)

    ctx.cov["rule"] = (
        "small grids: 1-4 shells (5 for from_pruned), r_i in {0, 2^k} (ascending or shuffled), w_i in {0, 2^k}, degree or size requests "
        "(one for all / per shell / between supported values / unresolvable / wrong length), 4 angular methods at sizes <= 50 (72 for "
        "ahrens_beylkin), centre None / integer / dyadic, rotate 0 / small / large / largest accepted / rejected seeds; from_pruned with "
        "dyadic radius and sector bounds that hit radial points exactly; every observed .points, ._points, .weights, .indices, .degrees and "
        "every get_shell_grid(i, r_sq) is compared with the Coq model by vm_compute at exact rationals (few-ulp bound, computed in Coq from the "
        "absolute values, only where float products are involved) and judged by the product formula; _find_degrees_for_radial_points directly; "
        "presets: every selected (preset, element) is constructed with a radial grid of the prescribed size (or the default grid), degrees and "
        "indices compared with the model, points/weights with the product formula shell by shell, no shell coarser than tabulated; "
        "distinct = calls + shell grids + preset pairs + lookups")
    ctx.cov["coq_cases"] = len(cases)
    ctx.cov["impl_cfg"] = cfg
    ctx.cov["coq_tie_ran"] = coq_ok
    ctx.cov["preset_build_failures"] = {f"{p}/{a}": e for (p, a), e in built_failures.items()}
    ctx.trusted += [
        "hand model coq/C05/C05_model.v of AtomGrid (constructor, points, get_shell_grid, from_pruned, from_preset branch logic, _get_rgrid_size), "
        "tied by exact correspondence on every run",
        "Section hypothesis rot_orth: Rotation.random(random_state=s).as_matrix() is orthogonal — validated numerically on every seed used "
        f"(worst |M M^T - I| = {worst_orth:.1e}); exact orthogonality is an idealisation",
        "Section variable ang: the unit angular grids are data (AngularGrid(degree, method).points/.weights as exact rationals); sph_wf "
        "(as many weights as points, the tabulated size) validated on every grid used; unit norm of the nodes is property C02's",
        "tolerance of the correspondence where float products occur: |obs - model| <= 4u * sum_k |p_k||M_kj| r (+ 2*that + u*|model| after "
        "adding the centre), u = 2^-53, evaluated in Coq; everything else is compared exactly",
        "ast extraction of the branch constants of from_preset / _get_rgrid_size (fail closed on any other code shape) and of the tables",
        "np.load of the prune_grid files; PrimInt63 primitives of Bignums.BigQ under vm_compute",
        "float oracle (numpy) for the points/weights of the large preset grids: centre + r_i*(p.M_i), w_a*w_i*r_i^2 within 64 ulp",
    ]
    ctx.assumptions += [
        "exact real arithmetic in the theorems (commutative ring); floating-point rounding of `points @ rot_mt`, `+ center` is outside the property",
        "radial grids have non-negative points and as many weights as points (enforced by OneDGrid/AtomGrid._input_type_check)",
        "the docstring of from_pruned assigns r == R*a_i to the outer sector, the code (and the model) to the inner one; the property text does not fix this",
    ]


def run(ctx: Ctx):
    ctx._pending = []
    ctx._tie = None
    try:
        _run(ctx)
    except Exception as e:  # noqa: BLE001 - a crash of the harness breaks the tie; what the search found so far is still reported
        import traceback

        print(traceback.format_exc(), file=sys.stderr)
        if ctx._tie is None:
            ctx._tie = ("harness(c05.py)", e)
    finally:
        items = sorted(ctx._pending, key=lambda t: (t[0], len(str(t[2]))))
        if ctx._tie is not None:
            # the extraction failed closed / the model does not build: every implementation-side oracle has still run;
            # the first failing input that is not a listed known finding becomes the replay
            cands = []
            for size, ob, key, obs_, text, rp, found in items:
                if found and not ctx.is_known(key, obs_):
                    cands.append((key, obs_, text, rp))
                elif found:
                    ctx.fail(ob, key, obs_, text, rp)
            ctx.broken_tie(ctx._tie[0], ctx._tie[1], cands)
        else:
            per = {}
            for size, ob, key, obs_, text, rp, found in items:     # smallest inputs first, capped per obligation
                if found and ctx.is_known(key, obs_):              # a listed known finding never uses up a slot of the cap
                    ctx.fail(ob, key, obs_, text, rp)
                    continue
                per[ob] = per.get(ob, 0) + 1
                if per[ob] <= MAXREP:
                    ctx.fail(ob, key, obs_, text, rp, found_input=found)
            if items:
                ctx.notes.append(f"{len(items)} disagreements in total; at most {MAXREP} reported per obligation: " + json.dumps(per))
            # a proof about the generated definitions broke and no failing input was attached to it: attach the first
            # failing input the oracles found (if any)
            explicit = {f.obligation for f in ctx.failures}
            cands = [(key, obs_, text, rp) for _, _, key, obs_, text, rp, found in items if found]
            for name, ob in list(ctx.obligations.items()):
                if ob["status"] != "discharged" and name not in explicit:
                    ctx.broken_tie(name, f"theorem {name} ({ob['file']}) no longer checks", cands)


# ====================================================================== replay
def replay(rp):
    print(json.dumps({k: v for k, v in rp.items() if k not in ("traceback", "rgrid_points", "rgrid_weights")}, indent=1, default=str)[:3000])
    from grid.atomgrid import AtomGrid
    from grid.basegrid import OneDGrid

    if rp.get("key") in (SG1_KEY, SG3_KEY) or "reproduce" in rp and str(rp["reproduce"]).startswith("AtomGrid.from_preset"):
        st, v = observe(lambda: eval(rp["key"], {"AtomGrid": AtomGrid, "OneDGrid": OneDGrid, "np": np}))  # noqa: S307
        print("observed:", v if st == "exc" else f"built {len(v.degrees)} shells")
        return 1 if st == "exc" else 0
    if "atnum" in rp and "preset" in rp and rp.get("rgrid_points") is not None:
        rg = OneDGrid(np.array(rp["rgrid_points"]), np.array(rp["rgrid_weights"]), (0, np.inf))
        cen = np.zeros(3) if rp["center"] is None else np.array(rp["center"])
        tabs, _ = extract_tables()
        sphr = Spheres(None, tabs)
        row0 = load_presets()[rp["preset"]]["rows"][rp["atnum"]]
        # history before the call: stand-alone angular grids of the tabulated sizes were built and edited in place
        sphr.prime(rp["method"], [rs[0] for rs in (resolve_size(tabs, rp["method"], s_) for s_ in row0[2]) if rs is not None])
        st, v = observe(lambda: AtomGrid.from_preset(rp["atnum"], rp["preset"], None if rp.get("default_rgrid") else rg,
                                                     center=cen, rotate=rp["rotate"], method=rp["method"]))
        row = load_presets()[rp["preset"]]["rows"][rp["atnum"]]
        if st == "exc":
            print("observed:", v)
            n_want = sum(int(x) for x in row[1]) if row[0] == "I" else None
            if n_want is not None and n_want != len(rp["rgrid_points"]) and v.startswith("ValueError: The shape of radial grid") and not rp.get("default_rgrid"):
                print(f"not a failure on this tree: the data file prescribes {n_want} radial points, the replayed grid has {len(rp['rgrid_points'])}")
                return 0
            return 1
        tabs, _ = extract_tables()
        rpts = [float(x) for x in v.rgrid.points]
        _, obs2, prob = read_after_caller_edit(v)
        bad = prob or judge_preset(sphr, tabs, row, rp["method"], rpts, [float(x) for x in v.rgrid.weights], cen, rp["rotate"], obs2)
        print(f"built {len(v.degrees)} shells, degrees {list(map(int, v.degrees))[:16]}...")
        print("FAILS: " + bad[0] + " - " + bad[1] if bad else "the grid satisfies the property on this source tree")
        return 1 if bad else 0
    if "call" in rp:
        d = rp["call"]
        d["spec"] = (d["spec"][0], list(d["spec"][1]))
        tabs, _ = extract_tables()
        sph = Spheres(None, tabs)
        problems = judge_call(sph, tabs, d)
        if "shift" in rp:       # translation check: the same call with the centre moved back
            d0 = dict(d, center=[c - s for c, s in zip(d["center"], rp["shift"])])
            s0, g0 = build_call(d0)
            s1, g1 = build_call(d)
            if s0 == "ok" and s1 == "ok" and not (np.array_equal(g0.weights, g1.weights) and close(g1.points, np.array(g0.points) + np.array(rp["shift"]), 16.0, ulps=8)):
                problems.append(("translate", "moving the centre does not translate the points / changes the weights"))
        if rp.get("obligation") == "factorise":
            res = factorise_check(sph, d)
            if res is not None and not res[2]:
                problems.append(("factorise", f"integrate(g(r)*A(direction)) = {res[0]}, factorised sum = {res[1]}"))
        print("call:", call_text(d))
        for what, text in problems:
            print("FAILS:", what, "-", text)
        if not problems:
            print("the call satisfies the product formula on this source tree")
        return 1 if problems else 0
    print("reproduce:", rp.get("reproduce", "(see text)"))
    return 0
