"""Entry point:  ./check Cxx [--tier quick|thorough] [--replay file] [--keep]"""
import argparse
import importlib
import json
import os
import sys
import traceback

from vlib.core import Ctx


def main():
    ap = argparse.ArgumentParser()
    ap.add_argument("pid")
    ap.add_argument("--tier", default=os.environ.get("VERIF_TIER", "quick"), choices=["quick", "thorough"])
    ap.add_argument("--replay", default=None)
    ap.add_argument("--keep", action="store_true")
    a = ap.parse_args()
    seed = int(os.environ.get("VERIF_SEED", "0") or 0)
    mod = importlib.import_module(f"props.{a.pid.lower()}")
    if a.replay:
        rp = json.load(open(a.replay))
        if hasattr(mod, "replay"):
            sys.exit(mod.replay(rp))
        print(json.dumps(rp, indent=1))
        print("reproduce:", rp.get("reproduce", "(see text)"))
        sys.exit(0)
    ctx = Ctx(a.pid, a.tier, seed, keep=a.keep)
    try:
        mod.run(ctx)
    except Exception as e:  # a harness crash means the property is no longer shown to hold
        tb = traceback.format_exc()
        print(tb, file=sys.stderr)
        ctx.fail("harness", f"harness-exception:{type(e).__name__}", None,
                 f"harness raised {type(e).__name__}: {e}", {"traceback": tb}, found_input=False)
    sys.exit(ctx.finish())


if __name__ == "__main__":
    main()
