#!/bin/bash
# usage: tools/seedrun.sh Cxx /path/patch.diff [demo.py]   -- evaluates a seeded change in a scratch worktree (VERIF_REPO)
pid=$1; patch=$(readlink -f $2); demo=$( [ -n "$3" ] && readlink -f $3 ); wt=/tmp/wt-seedrun-$pid-$$
git -C /repo worktree add -q $wt HEAD || exit 2
ap=$(dirname $patch)/apply.sh
if ! git -C $wt apply $patch && [ ! -f $ap ]; then echo "PATCH DOES NOT APPLY"; git -C /repo worktree remove --force $wt; exit 2; fi
[ -f $ap ] && bash $ap $wt
if [ -n "$demo" ]; then (cd $wt && PYTHONPATH=$wt/src timeout 600 /venv/bin/python -W ignore $demo >/dev/null 2>&1; echo "demo exit (changed): $?"); fi
VERIF_REPO=$wt ./check $pid 2>&1 | grep -E "^VIOLATION|^KNOWN|^\[C|^\s+\[" | cut -c1-220 | head -12
rc=${PIPESTATUS[0]}
git -C /repo worktree remove --force $wt
echo "check exit: $rc"
