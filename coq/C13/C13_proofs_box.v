(* C13 (4),(5): from_molecule box arithmetic (rotate=False) and closest_point: the statements that hold BOTH for the
   code as it is at the pinned commit and for the repaired code (shape_axis_gen, origin_axis_gen, closest_coord_gen
   are generated from the source; the scripts below do not depend on which variant was generated).
   Full-strength statements: C13_proofs_boxfull.v / C13_proofs_closestfull.v; their refutations for the defective
   variants: C13_refuted_box.v / C13_refuted_closest.v. *)
From Coq Require Import ZArith List Lia Reals Lra.
From Flocq Require Import Raux Generic_fmt.
From P Require Import C13_num C13_gen C13_model C13_proofs_index.
Import ListNotations.
Open Scope R_scope.

(* ------------------------------------------------------------------ max / min of a list *)
Lemma fold_max_ge (x : R) r : x <= fold_right Rmax x r /\ forall y, In y r -> y <= fold_right Rmax x r.
Proof.
  induction r as [|a r [IH1 IH2]]; cbn [fold_right]; [split; [lra|intros ? []]|].
  split; [eapply Rle_trans; [exact IH1|apply Rmax_r]|].
  intros y [<-|Hy]; [apply Rmax_l|]. eapply Rle_trans; [apply IH2, Hy|apply Rmax_r].
Qed.

Lemma fold_min_le (x : R) r : fold_right Rmin x r <= x /\ forall y, In y r -> fold_right Rmin x r <= y.
Proof.
  induction r as [|a r [IH1 IH2]]; cbn [fold_right]; [split; [lra|intros ? []]|].
  split; [eapply Rle_trans; [apply Rmin_r|exact IH1]|].
  intros y [<-|Hy]; [apply Rmin_l|]. eapply Rle_trans; [apply Rmin_r|apply IH2, Hy].
Qed.

Lemma lmax_ge xs x : In x xs -> x <= lmax ROps xs.
Proof.
  destruct xs as [|a r]; [intros []|]. unfold lmax. cbn [ROps nmax].
  destruct (fold_max_ge a r) as [H1 H2]. intros [<-|H]; [exact H1|now apply H2].
Qed.

Lemma lmin_le xs x : In x xs -> lmin ROps xs <= x.
Proof.
  destruct xs as [|a r]; [intros []|]. unfold lmin. cbn [ROps nmin].
  destruct (fold_min_le a r) as [H1 H2]. intros [<-|H]; [exact H1|now apply H2].
Qed.

(* ------------------------------------------------------------------ from_molecule(rotate=False), one direction *)
Definition mid_axis (xs : list R) : R := (lmax ROps xs + lmin ROps xs) / 2.

(* unfold the generated box arithmetic on the reals and bring in the defining inequality of the ceiling:
   leaves a goal over  m = number of planes  with  extent + 2 ext <= m * spacing *)
Ltac box_unfold :=
  unfold margin_lo, margin_hi, origin_axis, shape_axis, origin_axis_gen, shape_axis_gen, mid_axis;
  cbn [ROps nadd nsub nmul ndiv none nzero nofZ nceil nabs];
  match goal with
  | |- context [Zceil (?A / ?s)] =>
      let Hc := fresh "Hc" in let Hm := fresh "Hm" in
      pose proof (Zceil_ub (A / s)) as Hc;
      assert (Hm : A <= IZR (Zceil (A / s)) * s)
        by (replace A with ((A / s) * s) at 1 by (field; lra); apply Rmult_le_compat_r; lra);
      clear Hc; set (m := Zceil (A / s)) in *
  end;
  rewrite ?minus_IZR.

(* what the box arithmetic guarantees whichever point the box is centred on (centre of nuclear charge at the pinned
   commit, middle of the atomic extent after the repair): the requested margins, reduced by at most the offset of the
   centre of nuclear charge from the middle of the molecule's extent *)
Lemma box_margin_partial_lemma : forall zs xs spacing ext x, 0 < spacing -> In x xs ->
  ext - Rabs (com_axis ROps zs xs - mid_axis xs) <= margin_lo ROps zs xs spacing ext x /\
  (ext - spacing) - Rabs (com_axis ROps zs xs - mid_axis xs) <= margin_hi ROps zs xs spacing ext x.
Proof.
  intros zs xs s e x Hs Hx.
  pose proof (lmax_ge xs x Hx) as Hmax. pose proof (lmin_le xs x Hx) as Hmin.
  box_unfold. set (c := com_axis ROps zs xs) in *.
  unfold Rabs. destruct (Rcase_abs _); split; lra.
Qed.

Lemma box_contains_symmetric_lemma : forall zs xs spacing ext x, 0 < spacing -> In x xs ->
  com_axis ROps zs xs = mid_axis xs ->
  ext - spacing <= margin_lo ROps zs xs spacing ext x /\ ext - spacing <= margin_hi ROps zs xs spacing ext x.
Proof.
  intros zs xs s e x Hs Hx Hc. destruct (box_margin_partial_lemma zs xs s e x Hs Hx) as [A B].
  rewrite Hc in A, B. replace (mid_axis xs - mid_axis xs) with 0 in A, B by ring. rewrite Rabs_R0 in A, B. lra.
Qed.

(* ------------------------------------------------------------------ closest_point *)
Notation rint := (Znearest (fun x => negb (Z.even x))).

Lemma nearest_1d (t : R) (i : Z) : (t - IZR (rint t)) ^ 2 <= (t - IZR i) ^ 2.
Proof.
  pose proof (Znearest_half (fun x => negb (Z.even x)) t) as H. apply Rabs_le_inv in H.
  set (c := rint t) in *.
  destruct (Z.eq_dec i c) as [->|Hne]; [lra|].
  assert (Hc : (i <= c - 1 \/ c + 1 <= i)%Z) by lia.
  destruct Hc as [Hc|Hc]; apply IZR_le in Hc; [rewrite minus_IZR in Hc|rewrite plus_IZR in Hc]; nra.
Qed.

(* a query point within half a spacing of the box, positive step: the generated integer coordinate is the rounded
   fractional coordinate and lies in the grid - for the code at the pinned commit (rint of (p - o)/|d|) and for the
   repaired code (signed step, clipped to the grid) alike *)
Lemma coord_inside (p o d : R) (n : Z) : 0 < d -> - / 2 < (p - o) / d < IZR n - / 2 ->
  closest_coord_gen ROps p o d n = rint ((p - o) / d) /\ (0 <= rint ((p - o) / d) < n)%Z.
Proof.
  intros Hd Ht.
  pose proof (Znearest_half (fun x => negb (Z.even x)) ((p - o) / d)) as H. apply Rabs_le_inv in H.
  unfold closest_coord_gen. cbn [ROps nsub ndiv nabs nrint]. rewrite ?Rabs_pos_eq by lra.
  set (r := rint ((p - o) / d)) in *.
  assert (R0 : (0 <= r)%Z) by (assert (IZR (-1) < IZR r) by lra; apply lt_IZR in H0; lia).
  assert (R1 : (r < n)%Z) by (apply lt_IZR; lra).
  split; lia.
Qed.

Lemma nearest_axis (p o d : R) (n i : Z) : 0 < d -> - / 2 < (p - o) / d < IZR n - / 2 ->
  (p - (o + IZR (closest_coord_gen ROps p o d n) * d)) ^ 2 <= (p - (o + IZR i * d)) ^ 2.
Proof.
  intros Hd Ht. destruct (coord_inside p o d n Hd Ht) as [-> _].
  set (t := (p - o) / d). assert (Hp : p = o + t * d) by (unfold t; field; lra).
  pose proof (nearest_1d t i) as H. set (c := rint t) in *.
  replace (p - (o + IZR c * d)) with ((t - IZR c) * d) by (rewrite Hp at 1; ring).
  replace (p - (o + IZR i * d)) with ((t - IZR i) * d) by (rewrite Hp at 1; ring).
  rewrite !Rpow_mult_distr. apply Rmult_le_compat_r; [apply pow2_ge_0|exact H].
Qed.

Lemma coord_in_range (p o d : R) (n : Z) : 0 < d -> - / 2 < (p - o) / d < IZR n - / 2 ->
  (0 <= closest_coord_gen ROps p o d n < n)%Z.
Proof. intros Hd Ht. destruct (coord_inside p o d n Hd Ht) as [-> H]. exact H. Qed.

Definition dist2_3 (p q : R * R * R) : R :=
  let '(p0, p1, p2) := p in let '(q0, q1, q2) := q in (p0 - q0) ^ 2 + (p1 - q1) ^ 2 + (p2 - q2) ^ 2.
Definition node3 (o : R * R * R) (d0 d1 d2 : R) (i j k : Z) : R * R * R :=
  let '(o0, o1, o2) := o in (o0 + IZR i * d0, o1 + IZR j * d1, o2 + IZR k * d2).
Definition dist2_2 (p q : R * R) : R := let '(p0, p1) := p in let '(q0, q1) := q in (p0 - q0) ^ 2 + (p1 - q1) ^ 2.
Definition node2 (o : R * R) (d0 d1 : R) (i j : Z) : R * R := let '(o0, o1) := o in (o0 + IZR i * d0, o1 + IZR j * d1).

Lemma closest_is_nearest3_lemma : forall o0 o1 o2 d0 d1 d2 n0 n1 n2 p0 p1 p2,
  0 < d0 -> 0 < d1 -> 0 < d2 ->
  - / 2 < (p0 - o0) / d0 < IZR n0 - / 2 -> - / 2 < (p1 - o1) / d1 < IZR n1 - / 2 -> - / 2 < (p2 - o2) / d2 < IZR n2 - / 2 ->
  let '(c0, c1, c2, idx) := closest3 ROps (o0, o1, o2) d0 d1 d2 n0 n1 n2 (p0, p1, p2) in
  (0 <= c0 < n0)%Z /\ (0 <= c1 < n1)%Z /\ (0 <= c2 < n2)%Z /\
  idx = coordinates_to_index3 n0 n1 n2 c0 c1 c2 /\ (0 <= idx < n0 * n1 * n2)%Z /\
  forall i j k : Z, dist2_3 (p0, p1, p2) (node3 (o0, o1, o2) d0 d1 d2 c0 c1 c2)
                    <= dist2_3 (p0, p1, p2) (node3 (o0, o1, o2) d0 d1 d2 i j k).
Proof.
  intros o0 o1 o2 d0 d1 d2 n0 n1 n2 p0 p1 p2 D0 D1 D2 T0 T1 T2. unfold closest3.
  pose proof (coord_in_range p0 o0 d0 n0 D0 T0) as R0.
  pose proof (coord_in_range p1 o1 d1 n1 D1 T1) as R1.
  pose proof (coord_in_range p2 o2 d2 n2 D2 T2) as R2.
  repeat split; try lia; try (apply index_range3_lemma; assumption).
  intros i j k. unfold dist2_3, node3.
  pose proof (nearest_axis p0 o0 d0 n0 i D0 T0). pose proof (nearest_axis p1 o1 d1 n1 j D1 T1).
  pose proof (nearest_axis p2 o2 d2 n2 k D2 T2). lra.
Qed.

Lemma closest_is_nearest2_lemma : forall o0 o1 d0 d1 n0 n1 p0 p1,
  0 < d0 -> 0 < d1 ->
  - / 2 < (p0 - o0) / d0 < IZR n0 - / 2 -> - / 2 < (p1 - o1) / d1 < IZR n1 - / 2 ->
  let '(c0, c1, idx) := closest2 ROps (o0, o1) d0 d1 n0 n1 (p0, p1) in
  (0 <= c0 < n0)%Z /\ (0 <= c1 < n1)%Z /\
  idx = coordinates_to_index2 n0 n1 c0 c1 /\ (0 <= idx < n0 * n1)%Z /\
  forall i j : Z, dist2_2 (p0, p1) (node2 (o0, o1) d0 d1 c0 c1) <= dist2_2 (p0, p1) (node2 (o0, o1) d0 d1 i j).
Proof.
  intros o0 o1 d0 d1 n0 n1 p0 p1 D0 D1 T0 T1. unfold closest2.
  pose proof (coord_in_range p0 o0 d0 n0 D0 T0) as R0.
  pose proof (coord_in_range p1 o1 d1 n1 D1 T1) as R1.
  repeat split; try lia; try (apply index_range2_lemma; assumption).
  intros i j. unfold dist2_2, node2.
  pose proof (nearest_axis p0 o0 d0 n0 i D0 T0). pose proof (nearest_axis p1 o1 d1 n1 j D1 T1). lra.
Qed.
