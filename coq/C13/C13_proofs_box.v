(* C13 (4),(5): from_molecule box arithmetic (rotate=False) and closest_point. *)
From Coq Require Import ZArith List Lia Reals Lra.
From Flocq Require Import Raux Generic_fmt.
From P Require Import C13_gen C13_model C13_proofs_index.
Import ListNotations.
Open Scope R_scope.

(* ------------------------------------------------------------------ max / min of a list *)
Lemma fold_max_ge (x : R) r : x <= fold_right Rmax x r /\ forall y, In y r -> y <= fold_right Rmax x r.
Proof.
  induction r as [|a r [IH1 IH2]]; cbn [fold_right]; [split; [lra|intros ? []]|].
  split; [eapply Rle_trans; [exact IH1|apply Rmax_r]|].
  intros y [<-|Hy]; [apply Rmax_l|]. eapply Rle_trans; [apply IH2, Hy|apply Rmax_r].
Qed.

Lemma fold_min_le (x : R) r : fold_right Rmin x r <= x /\ forall y, In y r -> fold_right Rmin x r <= y.
Proof.
  induction r as [|a r [IH1 IH2]]; cbn [fold_right]; [split; [lra|intros ? []]|].
  split; [eapply Rle_trans; [apply Rmin_r|exact IH1]|].
  intros y [<-|Hy]; [apply Rmin_l|]. eapply Rle_trans; [apply Rmin_r|apply IH2, Hy].
Qed.

Lemma lmax_ge xs x : In x xs -> x <= lmax ROps xs.
Proof.
  destruct xs as [|a r]; [intros []|]. unfold lmax. cbn [ROps nmax].
  destruct (fold_max_ge a r) as [H1 H2]. intros [<-|H]; [exact H1|now apply H2].
Qed.

Lemma lmin_le xs x : In x xs -> lmin ROps xs <= x.
Proof.
  destruct xs as [|a r]; [intros []|]. unfold lmin. cbn [ROps nmin].
  destruct (fold_min_le a r) as [H1 H2]. intros [<-|H]; [exact H1|now apply H2].
Qed.

(* ------------------------------------------------------------------ from_molecule(rotate=False), one direction *)
Definition mid_axis (xs : list R) : R := (lmax ROps xs + lmin ROps xs) / 2.

(* what the box arithmetic does guarantee: the margins are the requested extension, shifted by the offset of
   the centre of nuclear charge from the middle of the molecule's extent *)
Lemma box_margin_partial_lemma : forall zs xs spacing ext x, 0 < spacing -> In x xs ->
  ext - (com_axis ROps zs xs - mid_axis xs) <= margin_lo ROps zs xs spacing ext x /\
  (ext - spacing) + (com_axis ROps zs xs - mid_axis xs) <= margin_hi ROps zs xs spacing ext x.
Proof.
  intros zs xs s e x Hs Hx.
  pose proof (lmax_ge xs x Hx) as Hmax. pose proof (lmin_le xs x Hx) as Hmin.
  unfold margin_lo, margin_hi, origin_axis, mid_axis, zz. set (c := com_axis ROps zs xs).
  unfold shape_axis, zz. cbn [ROps nadd nsub nmul ndiv none nofZ nceil].
  set (q := (lmax ROps xs - lmin ROps xs + 2 * e) / s).
  pose proof (Zceil_ub q) as Hc. set (m := Zceil q) in *.
  assert (Hq : q * s = lmax ROps xs - lmin ROps xs + 2 * e) by (unfold q; field; lra).
  assert (Hm : lmax ROps xs - lmin ROps xs + 2 * e <= IZR m * s) by (rewrite <- Hq; apply Rmult_le_compat_r; lra).
  rewrite minus_IZR. split; lra.
Qed.

Lemma box_contains_symmetric_lemma : forall zs xs spacing ext x, 0 < spacing -> In x xs ->
  com_axis ROps zs xs = mid_axis xs ->
  ext - spacing <= margin_lo ROps zs xs spacing ext x /\ ext - spacing <= margin_hi ROps zs xs spacing ext x.
Proof.
  intros zs xs s e x Hs Hx Hc. destruct (box_margin_partial_lemma zs xs s e x Hs Hx) as [A B].
  rewrite Hc in A, B. lra.
Qed.

(* the property itself is false for the model: H at 0, Hg (Z=80) at 10, spacing 1/5.
   With extension 5 the first grid plane is only 10/81 below the hydrogen (4.8 was promised);
   with extension 2 the hydrogen is outside the box altogether. *)
Lemma rmax_10_0 : Rmax 10 0 = 10. Proof. apply Rmax_left; lra. Qed.
Lemma rmin_10_0 : Rmin 10 0 = 0. Proof. apply Rmin_right; lra. Qed.

Lemma box_refuted_lemma :
  let zs := [1; 80] in let xs := [0; 10] in let spacing := 1 / 5 in
  (Forall (fun z => 0 < z) zs /\ 0 < spacing /\ In 0 xs) /\
  margin_lo ROps zs xs spacing 5 0 = 10 / 81 /\ 10 / 81 < 5 - spacing /\
  margin_lo ROps zs xs spacing 2 0 = 10 - 800 / 81 - 3 /\ 10 - 800 / 81 - 3 < 0.
Proof.
  cbv zeta. split; [repeat split; try lra; [repeat constructor; lra|now left]|].
  unfold margin_lo, origin_axis, shape_axis, com_axis, ndot, nsum, lmax, lmin, zz.
  cbn [ROps nadd nsub nmul ndiv none nzero nofZ nceil nmax nmin fold_right map combine fst snd].
  rewrite rmax_10_0, rmin_10_0.
  replace ((10 - 0 + 2 * 5) / (1 / 5)) with (IZR 100) by (simpl; field).
  replace ((10 - 0 + 2 * 2) / (1 / 5)) with (IZR 70) by (simpl; field).
  rewrite !Zceil_IZR. repeat split; try lra; field.
Qed.

(* ------------------------------------------------------------------ closest_point *)
Notation rint := (Znearest (fun x => negb (Z.even x))).

Lemma nearest_1d (t : R) (i : Z) : (t - IZR (rint t)) ^ 2 <= (t - IZR i) ^ 2.
Proof.
  pose proof (Znearest_half (fun x => negb (Z.even x)) t) as H. apply Rabs_le_inv in H.
  set (c := rint t) in *.
  destruct (Z.eq_dec i c) as [->|Hne]; [lra|].
  assert (Hc : (i <= c - 1 \/ c + 1 <= i)%Z) by lia.
  destruct Hc as [Hc|Hc]; apply IZR_le in Hc; [rewrite minus_IZR in Hc|rewrite plus_IZR in Hc]; nra.
Qed.

Lemma nearest_axis (p o d : R) (i : Z) : 0 < d ->
  (p - (o + IZR (closest_coord ROps p o d) * d)) ^ 2 <= (p - (o + IZR i * d)) ^ 2.
Proof.
  intros Hd. unfold closest_coord. cbn [ROps nsub ndiv nabs nrint]. rewrite Rabs_pos_eq by lra.
  set (t := (p - o) / d). assert (Hp : p = o + t * d) by (unfold t; field; lra).
  pose proof (nearest_1d t i) as H. set (c := rint t) in *.
  replace (p - (o + IZR c * d)) with ((t - IZR c) * d) by (rewrite Hp at 1; ring).
  replace (p - (o + IZR i * d)) with ((t - IZR i) * d) by (rewrite Hp at 1; ring).
  rewrite !Rpow_mult_distr. apply Rmult_le_compat_r; [apply pow2_ge_0|exact H].
Qed.

Lemma coord_in_range (p o d : R) (n : Z) : 0 < d -> - / 2 < (p - o) / d < IZR n - / 2 ->
  (0 <= closest_coord ROps p o d < n)%Z.
Proof.
  intros Hd Ht. unfold closest_coord. cbn [ROps nsub ndiv nabs nrint]. rewrite Rabs_pos_eq by lra.
  set (t := (p - o) / d) in *.
  pose proof (Znearest_half (fun x => negb (Z.even x)) t) as H. apply Rabs_le_inv in H.
  set (c := rint t) in *. split.
  - assert (IZR (-1) < IZR c) by lra. apply lt_IZR in H0. lia.
  - apply lt_IZR. lra.
Qed.

Definition dist2_3 (p q : R * R * R) : R :=
  let '(p0, p1, p2) := p in let '(q0, q1, q2) := q in (p0 - q0) ^ 2 + (p1 - q1) ^ 2 + (p2 - q2) ^ 2.
Definition node3 (o : R * R * R) (d0 d1 d2 : R) (i j k : Z) : R * R * R :=
  let '(o0, o1, o2) := o in (o0 + IZR i * d0, o1 + IZR j * d1, o2 + IZR k * d2).
Definition dist2_2 (p q : R * R) : R := let '(p0, p1) := p in let '(q0, q1) := q in (p0 - q0) ^ 2 + (p1 - q1) ^ 2.
Definition node2 (o : R * R) (d0 d1 : R) (i j : Z) : R * R := let '(o0, o1) := o in (o0 + IZR i * d0, o1 + IZR j * d1).

Lemma closest_is_nearest3_lemma : forall o0 o1 o2 d0 d1 d2 n0 n1 n2 p0 p1 p2,
  0 < d0 -> 0 < d1 -> 0 < d2 ->
  - / 2 < (p0 - o0) / d0 < IZR n0 - / 2 -> - / 2 < (p1 - o1) / d1 < IZR n1 - / 2 -> - / 2 < (p2 - o2) / d2 < IZR n2 - / 2 ->
  let '(c0, c1, c2, idx) := closest3 ROps (o0, o1, o2) d0 d1 d2 n0 n1 n2 (p0, p1, p2) in
  (0 <= c0 < n0)%Z /\ (0 <= c1 < n1)%Z /\ (0 <= c2 < n2)%Z /\
  idx = coordinates_to_index3 n0 n1 n2 c0 c1 c2 /\ (0 <= idx < n0 * n1 * n2)%Z /\
  forall i j k : Z, dist2_3 (p0, p1, p2) (node3 (o0, o1, o2) d0 d1 d2 c0 c1 c2)
                    <= dist2_3 (p0, p1, p2) (node3 (o0, o1, o2) d0 d1 d2 i j k).
Proof.
  intros o0 o1 o2 d0 d1 d2 n0 n1 n2 p0 p1 p2 D0 D1 D2 T0 T1 T2. unfold closest3.
  pose proof (coord_in_range p0 o0 d0 n0 D0 T0) as R0.
  pose proof (coord_in_range p1 o1 d1 n1 D1 T1) as R1.
  pose proof (coord_in_range p2 o2 d2 n2 D2 T2) as R2.
  repeat split; try lia; try (apply index_range3_lemma; assumption).
  intros i j k. unfold dist2_3, node3.
  pose proof (nearest_axis p0 o0 d0 i D0). pose proof (nearest_axis p1 o1 d1 j D1).
  pose proof (nearest_axis p2 o2 d2 k D2). lra.
Qed.

Lemma closest_is_nearest2_lemma : forall o0 o1 d0 d1 n0 n1 p0 p1,
  0 < d0 -> 0 < d1 ->
  - / 2 < (p0 - o0) / d0 < IZR n0 - / 2 -> - / 2 < (p1 - o1) / d1 < IZR n1 - / 2 ->
  let '(c0, c1, idx) := closest2 ROps (o0, o1) d0 d1 n0 n1 (p0, p1) in
  (0 <= c0 < n0)%Z /\ (0 <= c1 < n1)%Z /\
  idx = coordinates_to_index2 n0 n1 c0 c1 /\ (0 <= idx < n0 * n1)%Z /\
  forall i j : Z, dist2_2 (p0, p1) (node2 (o0, o1) d0 d1 c0 c1) <= dist2_2 (p0, p1) (node2 (o0, o1) d0 d1 i j).
Proof.
  intros o0 o1 d0 d1 n0 n1 p0 p1 D0 D1 T0 T1. unfold closest2.
  pose proof (coord_in_range p0 o0 d0 n0 D0 T0) as R0.
  pose proof (coord_in_range p1 o1 d1 n1 D1 T1) as R1.
  repeat split; try lia; try (apply index_range2_lemma; assumption).
  intros i j. unfold dist2_2, node2.
  pose proof (nearest_axis p0 o0 d0 i D0). pose proof (nearest_axis p1 o1 d1 j D1). lra.
Qed.

(* outside those hypotheses the query is wrong:
   (a) an orthogonal axis pointing in the negative direction: the grid node (1,0,0) of the 3x3x3 grid with
       axes diag(-1,1,1) is mapped to coordinates (-1,0,0), flat index -9 (the node has index 9);
   (b) a query point outside the box: on the 3x4x5 unit grid the point (0,0,7) is mapped to flat index 7,
       which is the node (0,1,2) at squared distance 26, while the node (0,0,4) is at squared distance 9. *)
Lemma rint_IZR (n : Z) (x : R) : x = IZR n -> rint x = n.
Proof.
  intros ->. apply Znearest_imp. replace (IZR n - IZR n) with 0 by ring. rewrite Rabs_R0. lra.
Qed.

Lemma closest_refuted_lemma :
  (closest3 ROps (0, 0, 0) (-1) 1 1 3 3 3 (node3 (0, 0, 0) (-1) 1 1 1 0 0) = (-1, 0, 0, -9)%Z /\
   coordinates_to_index3 3 3 3 1 0 0 = 9%Z) /\
  (closest3 ROps (0, 0, 0) 1 1 1 3 4 5 (0, 0, 7) = (0, 0, 7, coordinates_to_index3 3 4 5 0 1 2)%Z /\
   dist2_3 (0, 0, 7) (node3 (0, 0, 0) 1 1 1 0 0 4) < dist2_3 (0, 0, 7) (node3 (0, 0, 0) 1 1 1 0 1 2)).
Proof.
  assert (A1 : Rabs (-1) = 1) by (rewrite Rabs_left; lra).
  assert (A2 : Rabs 1 = 1) by (apply Rabs_pos_eq; lra).
  unfold closest3, closest_coord, node3, dist2_3. cbn [ROps nsub ndiv nabs nrint]. rewrite A1, A2.
  rewrite (rint_IZR (-1) ((0 + 1 * -1 - 0) / 1)) by lra.
  rewrite (rint_IZR 0 ((0 + 0 * 1 - 0) / 1)) by lra.
  rewrite (rint_IZR 0 ((0 - 0) / 1)) by lra.
  rewrite (rint_IZR 7 ((7 - 0) / 1)) by lra.
  repeat split. lra.
Qed.
