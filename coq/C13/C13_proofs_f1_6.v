(* C13 (3): Fourier1 per-direction factor f1s n enclosed by interval arithmetic on its closed form, n in [7, 10, 23, 26, 39, 42, 55, 58]
   (file generated once by a script, split for parallel compilation; independent of /repo). *)
From Coq Require Import ZArith List Lia Reals Lra.
From Interval Require Import Tactic.
From Flocq Require Import Raux.
From P Require Import C13_gen C13_model C13_proofs_weights C13_proofs_f1c.
Open Scope R_scope.

Lemma f1s_bound_7 : 1 - / IZR 7 <= f1s 7 <= 1.
Proof.
  rewrite f1s_closed_form by (clear; lia).
  assert (H : Rabs (f1s_closed 7 - (1 - / IZR 7 / 2)) <= / IZR 7 / 2).
  { unfold f1s_closed, f1_term, sumR. ev. interval. }
  apply Rabs_le_inv in H. lra.
Qed.

Lemma f1s_bound_10 : 1 - / IZR 10 <= f1s 10 <= 1.
Proof.
  rewrite f1s_closed_form by (clear; lia).
  assert (H : Rabs (f1s_closed 10 - (1 - / IZR 10 / 2)) <= / IZR 10 / 2).
  { unfold f1s_closed, f1_term, sumR. ev. interval. }
  apply Rabs_le_inv in H. lra.
Qed.

Lemma f1s_bound_23 : 1 - / IZR 23 <= f1s 23 <= 1.
Proof.
  rewrite f1s_closed_form by (clear; lia).
  assert (H : Rabs (f1s_closed 23 - (1 - / IZR 23 / 2)) <= / IZR 23 / 2).
  { unfold f1s_closed, f1_term, sumR. ev. interval. }
  apply Rabs_le_inv in H. lra.
Qed.

Lemma f1s_bound_26 : 1 - / IZR 26 <= f1s 26 <= 1.
Proof.
  rewrite f1s_closed_form by (clear; lia).
  assert (H : Rabs (f1s_closed 26 - (1 - / IZR 26 / 2)) <= / IZR 26 / 2).
  { unfold f1s_closed, f1_term, sumR. ev. interval. }
  apply Rabs_le_inv in H. lra.
Qed.

Lemma f1s_bound_39 : 1 - / IZR 39 <= f1s 39 <= 1.
Proof.
  rewrite f1s_closed_form by (clear; lia).
  assert (H : Rabs (f1s_closed 39 - (1 - / IZR 39 / 2)) <= / IZR 39 / 2).
  { unfold f1s_closed, f1_term, sumR. ev. interval. }
  apply Rabs_le_inv in H. lra.
Qed.

Lemma f1s_bound_42 : 1 - / IZR 42 <= f1s 42 <= 1.
Proof.
  rewrite f1s_closed_form by (clear; lia).
  assert (H : Rabs (f1s_closed 42 - (1 - / IZR 42 / 2)) <= / IZR 42 / 2).
  { unfold f1s_closed, f1_term, sumR. ev. interval. }
  apply Rabs_le_inv in H. lra.
Qed.

Lemma f1s_bound_55 : 1 - / IZR 55 <= f1s 55 <= 1.
Proof.
  rewrite f1s_closed_form by (clear; lia).
  assert (H : Rabs (f1s_closed 55 - (1 - / IZR 55 / 2)) <= / IZR 55 / 2).
  { unfold f1s_closed, f1_term, sumR. ev. interval. }
  apply Rabs_le_inv in H. lra.
Qed.

Lemma f1s_bound_58 : 1 - / IZR 58 <= f1s 58 <= 1.
Proof.
  rewrite f1s_closed_form by (clear; lia).
  assert (H : Rabs (f1s_closed 58 - (1 - / IZR 58 / 2)) <= / IZR 58 / 2).
  { unfold f1s_closed, f1_term, sumR. ev. interval. }
  apply Rabs_le_inv in H. lra.
Qed.
