(* C13 (3): Fourier1 per-direction factor f1s n enclosed by interval arithmetic, n in [15, 23, 26]
   (file generated once by a script, split for parallel compilation; independent of /repo). *)
From Coq Require Import ZArith List Reals Lra.
From Interval Require Import Tactic.
From Flocq Require Import Raux.
From P Require Import C13_gen C13_model C13_proofs_weights.
Open Scope R_scope.

Lemma f1s_bound_15 : 1 - / IZR 15 <= f1s 15 <= 1.
Proof.
  assert (H : Rabs (f1s 15 - (1 - / IZR 15 / 2)) <= / IZR 15 / 2).
  { unfold f1s, fourier1_dir, sumR. ev. interval. }
  apply Rabs_le_inv in H. lra.
Qed.

Lemma f1s_bound_23 : 1 - / IZR 23 <= f1s 23 <= 1.
Proof.
  assert (H : Rabs (f1s 23 - (1 - / IZR 23 / 2)) <= / IZR 23 / 2).
  { unfold f1s, fourier1_dir, sumR. ev. interval. }
  apply Rabs_le_inv in H. lra.
Qed.

Lemma f1s_bound_26 : 1 - / IZR 26 <= f1s 26 <= 1.
Proof.
  assert (H : Rabs (f1s 26 - (1 - / IZR 26 / 2)) <= / IZR 26 / 2).
  { unfold f1s, fourier1_dir, sumR. ev. interval. }
  apply Rabs_le_inv in H. lra.
Qed.
