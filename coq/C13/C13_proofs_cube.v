(* C13 (6, partial): the data block of a cube file is the data cut into rows of six values; reading the rows back
   (concatenation of the tokens of every line) returns the data, for any data length.  The number formatting
   ({:12.5E}) and the header are covered by the write/read sweeps of the harness, not by a theorem. *)
From Coq Require Import List Lia Arith.
From P Require Import C13_gen C13_model.
Import ListNotations.

Lemma chunks_concat {A} : forall fuel m (l : list A), (0 < m)%nat -> (length l <= fuel)%nat ->
  concat (chunks fuel m l) = l.
Proof.
  induction fuel as [|f IH]; intros m l Hm Hl.
  - destruct l; [reflexivity|cbn in Hl; lia].
  - cbn [chunks]. destruct l as [|a l]; [reflexivity|].
    cbn [concat]. rewrite IH; [apply firstn_skipn|exact Hm|].
    rewrite skipn_length. cbn [length] in *. lia.
Qed.

Lemma chunks_rows {A} : forall fuel m (l : list A), (0 < m)%nat ->
  Forall (fun r => (1 <= length r <= m)%nat) (chunks fuel m l).
Proof.
  induction fuel as [|f IH]; intros m l Hm; [constructor|].
  cbn [chunks]. destruct l as [|a l]; [constructor|]. constructor; [|apply IH, Hm].
  rewrite firstn_length. cbn [length]. lia.
Qed.

Lemma cube_data_roundtrip_lemma : forall (A : Type) (data : list A),
  cube_read (cube_rows data) = data /\ Forall (fun r => (1 <= length r <= 6)%nat) (cube_rows data).
Proof.
  intros A data. unfold cube_read, cube_rows. split; [apply chunks_concat; lia|apply chunks_rows; lia].
Qed.
