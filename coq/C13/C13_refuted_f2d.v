(* Compiled to explain a failure of fourier2_2d_constructs (C13_props_f2d.v): the scheme "Fourier2" cannot be constructed
   in two dimensions (flag fourier2_2d_ok = false: the code reads shape[2]).  Expected NOT to compile after the repair. *)
From Coq Require Import ZArith List Reals.
From P Require Import C13_num C13_gen C13_model.
Import ListNotations.

Lemma fourier2_2d_raises_lemma : forall vol n0 n1, fourier2_weights vol [n0; n1] = None.
Proof. reflexivity. Qed.
