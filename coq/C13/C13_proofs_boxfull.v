(* C13 (4), full strength: a grid built by from_molecule(rotate=False) keeps every nucleus at least extension - spacing
   away from the first and the last plane of grid points in every direction.  The script goes through when the box
   arithmetic generated from the source centres the box on the middle of the atomic extent; with the code at the pinned
   commit (box centred on the centre of nuclear charge) it fails, and C13_refuted_box.v explains why. *)
From Coq Require Import ZArith List Lia Reals Lra.
From Flocq Require Import Raux Generic_fmt.
From P Require Import C13_num C13_gen C13_model C13_proofs_box.
Import ListNotations.
Open Scope R_scope.

Lemma box_contains_nuclei_lemma : forall zs xs spacing ext x, 0 < spacing -> In x xs ->
  ext - spacing <= margin_lo ROps zs xs spacing ext x /\ ext - spacing <= margin_hi ROps zs xs spacing ext x.
Proof.
  intros zs xs s e x Hs Hx.
  pose proof (lmax_ge xs x Hx) as Hmax. pose proof (lmin_le xs x Hx) as Hmin.
  box_unfold. set (c := com_axis ROps zs xs) in *. split; lra.
Qed.
