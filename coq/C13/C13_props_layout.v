(* C13 property theorems, part 2: layout (statements only; proofs are in C13_proofs_*.v).
   coordinates_to_index{2,3} / index_to_coordinates{2,3} are GENERATED from src/grid/cubic.py on every run.
   The obligations are spread over C13_props*.v so that Print Assumptions runs in parallel. *)
From Coq Require Import ZArith List Reals.
From Flocq Require Import Raux Generic_fmt.
From P Require Import C13_gen C13_model C13_proofs_index C13_proofs_layout.
Import ListNotations.

(* ------------------------------------------------------------------ (2) layout: the point stored at the flat index that the
   code's own coordinates_to_index assigns to (i,j,k) is i*a1 + j*a2 + k*a3 + origin, for ANY vector type and
   ANY (skewed) axes, every shape *)
Theorem layout3 : forall (T : Type) (add : T -> T -> T) (smul : Z -> T -> T) (o a1 a2 a3 d : T) n0 n1 n2 i j k,
  (0 <= i < n0)%Z -> (0 <= j < n1)%Z -> (0 <= k < n2)%Z ->
  nth (Z.to_nat (coordinates_to_index3 n0 n1 n2 i j k))
      (uniform_points3 add smul o a1 a2 a3 (Z.to_nat n0) (Z.to_nat n1) (Z.to_nat n2)) d
  = add (add (add (smul i a1) (smul j a2)) (smul k a3)) o.
Proof. exact layout3_lemma. Qed.
Print Assumptions layout3.

Theorem layout2 : forall (T : Type) (add : T -> T -> T) (smul : Z -> T -> T) (o a1 a2 d : T) n0 n1 i j,
  (0 <= i < n0)%Z -> (0 <= j < n1)%Z ->
  nth (Z.to_nat (coordinates_to_index2 n0 n1 i j))
      (uniform_points2 add smul o a1 a2 (Z.to_nat n0) (Z.to_nat n1)) d
  = add (add (smul i a1) (smul j a2)) o.
Proof. exact layout2_lemma. Qed.
Print Assumptions layout2.

Theorem uniform_length : forall (T : Type) (add : T -> T -> T) (smul : Z -> T -> T) (o a1 a2 a3 : T) n0 n1 n2,
  (0 <= n0)%Z -> (0 <= n1)%Z -> (0 <= n2)%Z ->
  Z.of_nat (length (uniform_points3 add smul o a1 a2 a3 (Z.to_nat n0) (Z.to_nat n1) (Z.to_nat n2))) = (n0 * n1 * n2)%Z /\
  Z.of_nat (length (uniform_points2 add smul o a1 a2 (Z.to_nat n0) (Z.to_nat n1))) = (n0 * n1)%Z.
Proof. exact uniform_length_lemma. Qed.
Print Assumptions uniform_length.

(* Tensor1DGrids: tuple of 1-D nodes, product of 1-D weights, same lexicographic position *)
Theorem tensor_layout3 : forall (A : Type) (xs ys zs : list A) i j k (dx : A) d,
  (i < length xs)%nat -> (j < length ys)%nat -> (k < length zs)%nat ->
  nth (k + length zs * (j + length ys * i)) (tensor_points3 xs ys zs) d = (nth i xs dx, nth j ys dx, nth k zs dx).
Proof. exact tensor_points3_nth_lemma. Qed.
Print Assumptions tensor_layout3.

Theorem tensor_layout2 : forall (A : Type) (xs ys : list A) i j (dx : A) d,
  (i < length xs)%nat -> (j < length ys)%nat ->
  nth (j + length ys * i) (tensor_points2 xs ys) d = (nth i xs dx, nth j ys dx).
Proof. exact tensor_points2_nth_lemma. Qed.
Print Assumptions tensor_layout2.

Theorem tensor_weights_product3 : forall (A : Type) (mul : A -> A -> A) (wx wy wz : list A) i j k d,
  (i < length wx)%nat -> (j < length wy)%nat -> (k < length wz)%nat ->
  nth (k + length wz * (j + length wy * i)) (tensor_weights3 mul wx wy wz) d
  = mul (mul (nth i wx d) (nth j wy d)) (nth k wz d).
Proof. exact tensor_weights3_nth_lemma. Qed.
Print Assumptions tensor_weights_product3.

Theorem tensor_lengths : forall (A : Type) (mul : A -> A -> A) (xs ys zs wx wy wz : list A),
  length (tensor_points3 xs ys zs) = (length xs * length ys * length zs)%nat /\
  length (tensor_weights3 mul wx wy wz) = (length wx * length wy * length wz)%nat /\
  length (tensor_points2 xs ys) = (length xs * length ys)%nat /\
  length (tensor_weights2 mul wx wy) = (length wx * length wy)%nat.
Proof. exact tensor_lengths_lemma. Qed.
Print Assumptions tensor_lengths.

(* separable integrands integrate to the product of the 1-D integrals, any sizes *)
Theorem tensor_separable3 : forall (wx wy wz xs ys zs : list R) (f g h : R -> R),
  length wx = length xs -> length wy = length ys -> length wz = length zs ->
  (integrate ROps (tensor_weights3 Rmult wx wy wz)
            (map (fun p => f (fst (fst p)) * g (snd (fst p)) * h (snd p)) (tensor_points3 xs ys zs))
  = integrate ROps wx (map f xs) * integrate ROps wy (map g ys) * integrate ROps wz (map h zs))%R.
Proof. exact tensor_separable3_lemma. Qed.
Print Assumptions tensor_separable3.

Theorem tensor_separable2 : forall (wx wy xs ys : list R) (f g : R -> R),
  length wx = length xs -> length wy = length ys ->
  (integrate ROps (tensor_weights2 Rmult wx wy) (map (fun p => f (fst p) * g (snd p)) (tensor_points2 xs ys))
  = integrate ROps wx (map f xs) * integrate ROps wy (map g ys))%R.
Proof. exact tensor_separable2_lemma. Qed.
Print Assumptions tensor_separable2.
