(* C13 (5), full strength: orthogonal axes of either sign, ANY query point - the coordinates returned by closest_point
   lie in the grid and no grid node is nearer.  The script goes through when closest_coord_gen (generated from the
   source) is the rounded SIGNED fractional coordinate CLIPPED to the grid; with the code at the pinned commit it
   fails, and C13_refuted_closest.v explains why. *)
From Coq Require Import ZArith List Lia Reals Lra.
From Flocq Require Import Raux Generic_fmt.
From P Require Import C13_num C13_gen C13_model C13_proofs_index C13_proofs_box.
Import ListNotations.
Open Scope R_scope.

Lemma nearest_axis_full (p o d : R) (n : Z) : d <> 0 -> (1 <= n)%Z ->
  let c := closest_coord_gen ROps p o d n in
  (0 <= c < n)%Z /\ forall i, (0 <= i < n)%Z -> (p - (o + IZR c * d)) ^ 2 <= (p - (o + IZR i * d)) ^ 2.
Proof.
  intros Hd Hn. unfold closest_coord_gen. cbn [ROps nsub ndiv nabs nrint]. cbv zeta.
  set (t := (p - o) / d). assert (Hp : p = o + t * d) by (unfold t; field; exact Hd).
  pose proof (Znearest_half (fun x => negb (Z.even x)) t) as H. apply Rabs_le_inv in H.
  set (r := rint t) in *.
  match goal with |- (0 <= ?cc < n)%Z /\ _ => set (c := cc) end.
  assert (Hc : ((r < 0 /\ c = 0) \/ (n - 1 < r /\ c = n - 1) \/ (0 <= r <= n - 1 /\ c = r))%Z) by (subst c; lia).
  split; [lia|]. intros i Hi.
  replace (p - (o + IZR c * d)) with ((t - IZR c) * d) by (rewrite Hp at 1; ring).
  replace (p - (o + IZR i * d)) with ((t - IZR i) * d) by (rewrite Hp at 1; ring).
  rewrite !Rpow_mult_distr. apply Rmult_le_compat_r; [apply pow2_ge_0|].
  assert (I0 : 0 <= IZR i) by (apply IZR_le; lia).
  assert (I1 : IZR i <= IZR n - 1) by (rewrite <- minus_IZR; apply IZR_le; lia).
  destruct Hc as [[Hr ->] | [[Hr ->] | [_ ->]]].
  - assert (IZR r <= -1) by (apply (IZR_le r (-1)); lia). nra.
  - assert (IZR n <= IZR r) by (apply IZR_le; lia). rewrite minus_IZR. nra.
  - apply nearest_1d.
Qed.

Lemma closest_is_nearest_lemma :
  (forall o0 o1 o2 d0 d1 d2 n0 n1 n2 p0 p1 p2, d0 <> 0 -> d1 <> 0 -> d2 <> 0 -> (1 <= n0)%Z -> (1 <= n1)%Z -> (1 <= n2)%Z ->
     let '(c0, c1, c2, idx) := closest3 ROps (o0, o1, o2) d0 d1 d2 n0 n1 n2 (p0, p1, p2) in
     (0 <= c0 < n0)%Z /\ (0 <= c1 < n1)%Z /\ (0 <= c2 < n2)%Z /\
     idx = coordinates_to_index3 n0 n1 n2 c0 c1 c2 /\ (0 <= idx < n0 * n1 * n2)%Z /\
     forall i j k : Z, (0 <= i < n0)%Z -> (0 <= j < n1)%Z -> (0 <= k < n2)%Z ->
       dist2_3 (p0, p1, p2) (node3 (o0, o1, o2) d0 d1 d2 c0 c1 c2) <= dist2_3 (p0, p1, p2) (node3 (o0, o1, o2) d0 d1 d2 i j k)) /\
  (forall o0 o1 d0 d1 n0 n1 p0 p1, d0 <> 0 -> d1 <> 0 -> (1 <= n0)%Z -> (1 <= n1)%Z ->
     let '(c0, c1, idx) := closest2 ROps (o0, o1) d0 d1 n0 n1 (p0, p1) in
     (0 <= c0 < n0)%Z /\ (0 <= c1 < n1)%Z /\
     idx = coordinates_to_index2 n0 n1 c0 c1 /\ (0 <= idx < n0 * n1)%Z /\
     forall i j : Z, (0 <= i < n0)%Z -> (0 <= j < n1)%Z ->
       dist2_2 (p0, p1) (node2 (o0, o1) d0 d1 c0 c1) <= dist2_2 (p0, p1) (node2 (o0, o1) d0 d1 i j)).
Proof.
  split.
  - intros o0 o1 o2 d0 d1 d2 n0 n1 n2 p0 p1 p2 D0 D1 D2 N0 N1 N2. unfold closest3.
    destruct (nearest_axis_full p0 o0 d0 n0 D0 N0) as [R0 A0], (nearest_axis_full p1 o1 d1 n1 D1 N1) as [R1 A1],
             (nearest_axis_full p2 o2 d2 n2 D2 N2) as [R2 A2].
    repeat split; try lia; try (apply index_range3_lemma; assumption).
    intros i j k Hi Hj Hk. unfold dist2_3, node3.
    pose proof (A0 i Hi). pose proof (A1 j Hj). pose proof (A2 k Hk). lra.
  - intros o0 o1 d0 d1 n0 n1 p0 p1 D0 D1 N0 N1. unfold closest2.
    destruct (nearest_axis_full p0 o0 d0 n0 D0 N0) as [R0 A0], (nearest_axis_full p1 o1 d1 n1 D1 N1) as [R1 A1].
    repeat split; try lia; try (apply index_range2_lemma; assumption).
    intros i j Hi Hj. unfold dist2_2, node2. pose proof (A0 i Hi). pose proof (A1 j Hj). lra.
Qed.
